"""Post-processing of the C16 harness output: race-detector reports are attributed to the pair of
operations whose marker precedes them; one case per pair is written for the Coq side."""
import json, os, re, collections


def sites(block):
    fr = re.findall(r'(?:Read|Write|Previous read|Previous write|Previous atomic write|Atomic write|Atomic read|Previous atomic read)'
                    r' at .*? by goroutine.*?\n((?:\s+\S+\(\)\n\s+\S+:\d+.*\n)+)', block)
    out = []
    for stack in fr[:2]:
        fn = None
        for m in re.finditer(r'\s+(\S+)\(\)\n\s+(\S+):(\d+)', stack):
            f = m.group(1)
            if 'bool64/cache.' in f or f.startswith('cache.'):
                fn = f.split('/')[-1].replace('cache.', '')
                fn = re.sub(r'\[.*?\]', '', fn)
                break
        out.append(fn or 'runtime')
    return '|'.join(sorted(set(out)))


def run(out_dir, harness_output, seed, tier):
    pair = None
    per = collections.OrderedDict()
    cur = []
    lines = harness_output.split('\n')
    i = 0
    while i < len(lines):
        l = lines[i]
        if l.startswith('C16PAIR '):
            pair = l[8:].strip()
            per.setdefault(pair, [])
        elif 'WARNING: DATA RACE' in l and pair is not None:
            j = i + 1
            blk = []
            while j < len(lines) and '==================' not in lines[j]:
                blk.append(lines[j])
                j += 1
            per[pair].append(sites('\n'.join(blk) + '\n'))
            i = j
        i += 1
    done = re.search(r'C16DONE (\d+)', harness_output)
    cases, tags, replay = [], [], []
    for p, rs in per.items():
        sig = ','.join(sorted(set(rs)))
        comp, a, b = (p.split(' ') + ['', '', ''])[:3]
        cases.append('C16Pair %d%%N' % len(rs))
        tags.append('%s %s %s' % (comp.split('/')[0], a, b) + (' :: ' + sig if sig else ''))
        replay.append({'component': comp, 'op_a': a, 'op_b': b, 'race_reports': len(rs), 'sites': sorted(set(rs)),
                       'rerun': 'GORACE=halt_on_error=0 go1.26.8 test -race -tags verif -run TestC16 /verif/harness'})
    nontriv = len([1 for p in per if p.split(' ')[1] != p.split(' ')[2]])
    body = ['From Cache Require Import Base Check.', '']
    for idx, c in enumerate(cases):
        body.append('Definition c_%d := %s.' % (idx, c))
        body.append('Goal True. let r := eval vm_compute in (check_c16 c_%d) in idtac "CASE" "%d" r. Abort.' % (idx, idx))
    open(os.path.join(out_dir, 'Cases_C16_0.v'), 'w').write('\n'.join(body) + '\n')
    dist = collections.Counter(p.split(' ')[0].split('/')[0] for p in per)
    meta = {
        'property': 'C16', 'seed': seed, 'tier': tier, 'cases': len(cases), 'shards': 1,
        'distinct_nontrivial': nontriv, 'distribution': dict(dist), 'tags': tags, 'replay': replay,
        'rule': 'every unordered pair (self-pairs included) of public operations of each component run concurrently on shared '
                'instances under the Go race detector: 13 backend operations x {ShardedMap, SyncMap, ShardedMapOf} x {EvictMostExpired, LFU}, '
                'Failover/FailoverOf Get x {Get, ExpireAll, DeleteAll, Walk, cleanup} x {sync, background}, InvalidationIndex AddLabels/AddCache/'
                'InvalidateByLabels, Invalidator.Invalidate; reports are attributed to the pair running when they were printed; '
                'non-trivial = pair of two different operations',
        'extra': {'harness_completed': bool(done), 'pairs_announced': int(done.group(1)) if done else None},
    }
    if not done:
        meta['extra']['violations'] = [{'tag': 'harness', 'code': '1', 'concrete': False,
                                        'note': 'the race harness did not run to completion', 'detail': harness_output[-3000:]}]
    json.dump(meta, open(os.path.join(out_dir, 'meta.json'), 'w'), indent=1)
