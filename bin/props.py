"""Per-property configuration of bin/check."""

TRUSTED_BASE = {
    "allowed_axioms": [],
    "items": [
        "Coq 8.16.1 kernel, coqc, vm_compute (no native_compute); std++ 1.8.0 and the Coq standard library",
        "axioms: none (Print Assumptions under every property theorem reports 'Closed under the global context')",
        "hand-written Gallina models in /verif/coq/theories tied to /repo by the correspondence run only "
        "(differential testing: Go harness /verif/harness built against /repo with -tags verif, Cases_*.v evaluated with vm_compute, "
        "comparators in theories/Check.v)",
        "Go 1.26.8 toolchain and testing/synctest fake clock for the harness; /repo's own go.mod language level",
        "bin/check (driver), harness case printer",
    ],
}

PROPS = {
    "C06": {
        "tests": ["TestC06"],
        "design_ref": "DESIGN.md §3.6",
        "level_text": "TODO",
        "level_note": "TODO",
    },
    "C05": {
        "tests": ["TestC05"],
        "design_ref": "DESIGN.md §3.5",
        "level_text": "TODO",
        "level_note": "TODO",
    },
    "C04": {
        "tests": ["TestC04"],
        "design_ref": "DESIGN.md §3.4",
        "level_text": "TODO",
        "level_note": "TODO",
    },
    "C03": {
        "tests": ["TestC03"],
        "design_ref": "DESIGN.md §3.3",
        "level_text": "TODO",
        "level_note": "TODO",
    },
    "C02": {
        "tests": ["TestC02"],
        "design_ref": "DESIGN.md §3.2",
        "level_text": "TODO",
        "level_note": "TODO",
    },
    "C01": {
        "tests": ["TestC01"],
        "design_ref": "DESIGN.md §3.1",
        "level_text": "TODO",
        "level_note": "TODO",
    },
    "C14": {
        "tests": ["TestC14"],
        "design_ref": "DESIGN.md §3.14",
        "level_text": "TODO",
        "level_note": "TODO",
    },
    "C13": {
        "tests": ["TestC13"],
        "design_ref": "DESIGN.md §3.13",
        "level_text": "TODO",
        "level_note": "TODO",
    },
    "C18": {
        "tests": ["TestC18"],
        "design_ref": "DESIGN.md §3.18",
        "level_text": "TODO",
        "level_note": "TODO",
    },
    "C12": {
        "tests": ["TestC12"],
        "design_ref": "DESIGN.md §3.12",
        "level_text": "TODO",
        "level_note": "TODO",
    },
    "C11": {
        "tests": ["TestC11"],
        "design_ref": "DESIGN.md §3.11",
        "level_text": "TODO",
        "level_note": "TODO",
    },
    "C10": {
        "tests": ["TestC10"],
        "design_ref": "DESIGN.md §3.10",
        "level_text": "TODO",
        "level_note": "TODO",
    },
    "C09": {
        "tests": ["TestC09"],
        "design_ref": "DESIGN.md §3.9",
        "level_text": "TODO",
        "level_note": "TODO",
    },
    "C07": {
        "tests": ["TestC07"],
        "design_ref": "DESIGN.md §3.7",
        "level_text": "TODO",
        "level_note": "TODO",
    },
    "C17": {
        "tests": ["TestC17"],
        "design_ref": "DESIGN.md §3.17",
        "level_text": "Theorems C17_sequential / C17_concurrent / C17_nothing (Coq, no axioms) over all call sequences, clock readings, "
                      "callback lists, SkipInterval values and all interleavings of a small-step model with the mutex explicit; "
                      "tied to invalidator.go by a sequential fake-clock correspondence run (exact, boundary ns included) and "
                      "free-running concurrent runs checked against the block structure the theorem states.",
        "level_note": "Trusted: Coq kernel; the hand-written model of Invalidate (correspondence = differential testing); sync.Mutex "
                      "semantics; concurrent runs sample schedules only (callbacks run under the library mutex and cannot be steered).",
        "assumptions": [
            "time.Since(zero time) saturates: a never-run Invalidator accepts (modelled as lastRun = None)",
            "'no callbacks registered' is Callbacks == nil (DESIGN O2)",
            "sync.Mutex provides mutual exclusion (the small-step model makes acquisition a step enabled only when free)",
            "concurrent runs use the real clock and the Go scheduler: they validate the block structure, not all interleavings",
        ],
    },
}

HOOK_COMMITS = ["6df94f9"]

_later = "check not built yet in this round (work in progress; see DESIGN.md §7 build order)"
NOT_APPLICABLE = {("C%02d" % i): _later for i in range(1, 19)}
