"""Per-property configuration of bin/check."""

TRUSTED_BASE = {
    "allowed_axioms": [],
    "items": [
        "Coq 8.16.1 kernel, coqc, vm_compute (no native_compute); std++ 1.8.0 and the Coq standard library",
        "axioms: none (Print Assumptions under every property theorem reports 'Closed under the global context')",
        "hand-written Gallina models in /verif/coq/theories tied to /repo by (a) the correspondence run "
        "(differential testing: Go harness /verif/harness built against /repo with -tags verif, Cases_*.v evaluated with vm_compute, "
        "comparators in theories/Check.v) and (b) for the functions named in the level text, tie lemmas (theories/Tie*.v) about their bodies as "
        "re-translated from /repo on every run by the translators harness/cmd/gofunc (function bodies -> Generated/Funcs.v, a plain "
        "syntax-directed dump plus constant folding by go/types) and harness/cmd/goextract (lock sets and critical sections -> "
        "Generated/Struct.v); the interpreter of the dumped bodies (theories/GoIR.v: CPS over an environment of locals and selector "
        "paths, per-tie primitive tables, symbolic floats) and the translators are trusted",
        "Go 1.26.8 toolchain and testing/synctest fake clock for the harness; /repo's own go.mod language level",
        "bin/check (driver), harness case printer",
    ],
}

PROPS = {
    "C08": {
        "tests": ["TestC08"],
        "struct": True,
        "design_ref": "DESIGN.md §3.8",
        "level_text": "Theorem C08_linearizable (Coq, no axioms): in a concurrent model of one slot of the sharded backends, built from the atomic sections of the source (Read = RLock lookup then atomic load of E; Write, Delete and every batch operation's action on a slot = one Lock section; evictLeast = RLock collection then delete-by-hash; Walk's visit = RLock lookup then atomic loads), EVERY schedule of ANY number of threads yields a history accepted by the canonical atomic object of the sequential slot register sspec, i.e. is linearizable with every batch operation acting on the slot at one instant inside its call (forward simulation with hindsight linearization of readers whose entry another thread removes). Corollaries C08_quiet_read (a completed Write is visible to, and a completed Delete/DeleteAll/cleanup hides the value from, every later Read), C08_only_stored (a slot only ever holds a key and value some Write stored, so Walk reports nothing else), C08_slot_view_* (sspec is the slot view of the sequential Backend.v the C07/C09 runs exercise). Tie to the code: C08_sections (the critical-section structure of the backend functions REGENERATED from /repo by goextract equals the one the model assumes) and stress histories (2..16 goroutines, frozen clock, colliding keys, LRU/LFU on/off) whose per-slot linearization, found by porcupine, is re-checked inside Coq against sspec and real-time order. C08_source_walk_visit: a visit of the sharded Walk releases the read lock around the callback, hands it a copy with atomically loaded E and C, re-locks and counts once (bodies re-translated from /repo on every run by harness/cmd/gofunc, interpreted by theories/GoIR.v).",
        "level_note": "Partial for SyncMap: its point operations, DeleteAll (two-phase, op SClearS), Len, Walk and evictLeast have the modelled step structure relative to sync.Map being a linearizable map; its ExpireAll and deleteExpired (which act on the pointer Range handed out, possibly already replaced) are covered by the stress search only (which found known finding K1 there: DESIGN 8.3a). Walk's completeness ('every entry unchanged for the whole walk exactly once') rests on Go's map-iteration / sync.Map.Range contract (assumed; the search checks it). Trusted: Coq kernel; hand-written BackendConc.v; goextract; porcupine for the search (a linearization it finds is re-checked in Coq; a rejection is reported as found).",
    },
    "C16": {
        "tests": ["TestC16"],
        "race": True,
        "post": "c16post",
        "design_ref": "DESIGN.md §3.16",
        "struct": True,
        "level_text": "Theorems C16_lockset_sound and C16_race_free (Coq, no axioms): with the Go memory model's edges for Mutex/RWMutex and atomics, a trace that respects the mutexes and whose accesses are instances of the access table is free of data races; C16_table_ok: the table REGENERATED from /repo's source on every run by the translator harness/cmd/goextract (go/ast + go/types: per function, every access to a field of the package's structs with the mutexes held, read/write, atomic/plain, same-object) satisfies the lockset discipline (vm_compute over the finite table); C16_kl_* : the owner/channel protocol of kl.val / kl.err in the Failover model. Dynamic validation and search: every pair of public operations per component run concurrently under the Go race detector (573 pairs quick); a report is a violation with the pair as replay.",
        "level_note": "Trusted: the translator (syntax-directed, its completeness is validated by the race detector runs, not verified); the Go memory model as axiomatised in Conc.v; sync.Map and channel operations are taken as synchronized; registration-time API (GobRegister, HTTPTransfer.AddCache) is out of scope (DESIGN O4). Partial: a proof about the extracted table, not about the compiled program.",
    },
    "C15": {
        "struct": True,
        "tests": ["TestC15"],
        "design_ref": "DESIGN.md §3.15",
        "level_text": "Theorems C15_complete_precise, C15_succeeds_without_outage, C15_failure_keeps_index, C15_retry (Coq, no axioms) about a model of InvalidateByLabels that follows the algorithm (cut, delete label by label with dedup, put back on failure), for every incidence structure, label argument list (repeats included), cache set, outage set and interleaved AddLabels. Correspondence: random structures over 1-2 names x 1-3 caches (all three backends as Deleter), outages on single (cache,key) pairs or whole caches with retries, AddLabels landing between cut and deletes, recover() around each call; counts, cache contents and the index (VerifIndexSize hook) compared. Tie to the source: C15_source_add_labels, C15_source_cut_and_delete, C15_source_put_back, C15_source_invalidate_by_labels — the loop bodies of AddLabels, cutKeys, invalidateByLabels (one deleter, one key, one label, the deferred put-back under the mutex) and InvalidateByLabels are the step functions Index.v folds over (bodies re-translated from /repo on every run by harness/cmd/gofunc, interpreted by theories/GoIR.v).",
        "level_note": "Trusted: Coq kernel; hand-written Index.v (differential tie, ~220 structures per quick run); count exactness is checked by the correspondence run, the theorem states 0 <= count; concurrency of AddLabels/Invalidate is represented by deterministic interleaving points only (data-race freedom is C16).",
    },
    "C06": {
        "struct": True,
        "tests": ["TestC06"],
        "design_ref": "DESIGN.md §3.6",
        "level_text": "Theorems C06_builder_ttls_minimal_nonzero (WithTTL(ctx,ttl,true) repeated keeps the smallest non-zero TTL, negative ones included), C06_cell_changes_only_in_builder / C06_other_gets_do_not_touch_the_cell (the TTL cell of a Get changes only when its builder returns, by exactly the builder's updates; the stale re-store and all other steps leave it alone; the background build starts with the caller's cell, key and SkipRead flag), C06_store_ttls (every backend write is the final store with the cell's TTL, 0 = backend default, or the re-store of the stale value with UpdateTTL), C06_no_cell_nothing_to_update, C06_skip_still_stores; C06_detached_context (theories/Ctx.v models a context as a chain of value / cancel / deadline layers with the library's detachedContext as a layer of its own: for EVERY caller chain, every set of cancel functions already called, every instant and any further value layers, the background builder's context has Err()=nil, Done()=nil, no deadline, and resolves every key as the caller's context does), C06_cancellation_is_permanent, C06_context_observation — Coq, no axioms. Correspondence: the wrapping backend records TTL(ctx) of every Write; builders record Err (entry and exit), Done, Deadline and Value of their context on every Get path, with callers that cancel before the call, in the middle of the build or after return, or carry a 1h / 5s deadline, and Ctx.v predicts each of these observations from the caller's chain, the cancellations so far and the fake clock; predicates c06_get_ok and ctxobs_prop on every trace. Tie to the source: C06_source_with_ttl / C06_source_ttl — the bodies of WithTTL and TTL (context.go), re-translated from /repo on every run by harness/cmd/gofunc into the IR of theories/GoIR.v, compute upd_cell / cell_ttl for every cell content, TTL and updateExisting flag. C06_source_refresh_and_store_contexts / C06_source_detached_context / C06_source_ctx_sync: the re-translated bodies of refreshStale (a TTL cell of its own holding UpdateTTL), doBuild (stores under the build context), ctxSync (detachedContext iff background) and the four methods of detachedContext (= the layer LDetach of Ctx.v).",
        "level_note": "Trusted: as C01; interpretations O3 (no TTL cell in the caller's context: builder updates have nothing to update) and O6 (a SkipRead Get that finds the key locked accepts the owner's result). The standard library's WithValue / WithCancel / WithDeadline are modelled by their documented contract (Ctx.v), the library's detachedContext by its four methods.",
    },
    "C05": {
        "struct": True,
        "tests": ["TestC05"],
        "design_ref": "DESIGN.md §3.5",
        "level_text": 'Theorems C05_single_flight (with SyncRead every builder invocation for k is preceded by a read of k under the key lock, by the invoking Get or the Get that spawned the background build, that did not hit, with no build result for k stored in between), C05_no_rebuild_while_fresh (hence against a backend that answers with a hit once a build result was stored, no second builder invocation for k: a burst costs one successful build), C05_failure_gate (a Get that checks the failure cache while the failure is live returns the cached error and is never inside the builder afterwards), C05_failures_not_cached (FailedUpdateTTL=-1: the failure cache stays empty) — Coq, no axioms, every number of Gets, keys, schedules, oracle answers. Correspondence: bursts under SyncRead and failure windows at exact fake-clock offsets (0.5/0.94/1.06/2 x FailedUpdateTTL), predicates C05_single_obs / C05_fail_obs on every implementation trace. Tie to the source: C05_source_failure_cache — the re-translated bodies of recentlyFailed and doBuild consult / fill the failure cache iff FailedUpdateTTL > -1, the entry living the failure cache\'s own TimeToLive. Tie to the source: C05_source_get_follows_model — the bodies of Failover.Get and FailoverOf.Get, re-translated from /repo on every run (harness/cmd/gofunc -> Generated/Funcs.v, interpreted by theories/GoIR.v with their helpers as primitives, which are tied separately), follow the single-thread path of the model on the complete product of 7680 configuration/outcome combinations per variant: same call-outs in the same order, same returned and published (value, error), election and release inside f.lock exactly once by the creating Get, key copied before a background build (theories/TieGet.v, by computation over the finite product). C05_source_failure_cache_ttl: NewFailover / NewFailoverOf default FailedUpdateTTL 0 -> 20s, UpdateTTL 0 -> 1m, and create the failure cache iff FailedUpdateTTL > -1 with TimeToLive = FailedUpdateTTL (bodies re-translated from /repo on every run by harness/cmd/gofunc, interpreted by theories/GoIR.v).',
        "level_note": "Trusted: as C01; 'while the result stays fresh' is the hypothesis [coherent] on the backend oracle (the real backends satisfy it by C07/C08); the expiry instant the failure cache stores is an oracle input validated against the C10 bound; that the builder is invoked again once the failure expired is checked by the correspondence run (the model has the step, no liveness theorem).",
    },
    "C04": {
        "struct": True,
        "tests": ["TestC04"],
        "design_ref": "DESIGN.md §3.4",
        "level_text": 'Theorems C04_quiescent_unlocked, C04_no_deadlock, C04_step_decreases / C04_steps_bounded / C04_new_get_costs_30, C04_rebuild_possible (Coq, no axioms) over the interleaving model: at quiescence no key lock is registered and all are closed; an unfinished state always has an enabled step; each Get finishes within 30 own steps. Correspondence: steered runs with hostile callers (context cancel, key buffer overwrite), faults, VerifKeyLocks()=0, forced expiry and follow-up Gets; sequential Gets with fake-clock gaps around UpdateTTL / FailedUpdateTTL. Tie to the source: C04_source_get_follows_model — the bodies of Failover.Get and FailoverOf.Get, re-translated from /repo on every run (harness/cmd/gofunc -> Generated/Funcs.v, interpreted by theories/GoIR.v with their helpers as primitives, which are tied separately), follow the single-thread path of the model on the complete product of 7680 configuration/outcome combinations per variant: same call-outs in the same order, same returned and published (value, error), election and release inside f.lock exactly once by the creating Get, key copied before a background build (theories/TieGet.v, by computation over the finite product).',
        "level_note": "Trusted: as C01; 'returns once its builders returned' is bounded own-steps + enabledness in the model, real-time scheduling is outside it.",
    },
    "C03": {
        "struct": True,
        "tests": ["TestC03"],
        "design_ref": "DESIGN.md §3.3",
        "level_text": 'Theorem C03_table (Coq, no axioms, by computation over 20480 shapes with values, instants and durations symbolic): running the interleaving model for a lone Get yields exactly the README decision table, for both answers of the staleness test, both APIs, all option combinations, with/without logger and stats. The implementation is compared with the same table on the complete product (504 cells quick, 1008 thorough) and with the model step by step. Tie to the source: C03_source_ctx_sync and C03_source_staleness_test — the bodies of ctxSync, freshEnough and valueFromError, re-translated from /repo on every run (harness/cmd/gofunc, theories/GoIR.v), are the model\'s sync/background decision and staleness test. Tie to the source: C03_source_get_follows_model — the bodies of Failover.Get and FailoverOf.Get, re-translated from /repo on every run (harness/cmd/gofunc -> Generated/Funcs.v, interpreted by theories/GoIR.v with their helpers as primitives, which are tied separately), follow the single-thread path of the model on the complete product of 7680 configuration/outcome combinations per variant: same call-outs in the same order, same returned and published (value, error), election and release inside f.lock exactly once by the creating Get, key copied before a background build (theories/TieGet.v, by computation over the finite product).',
        "level_note": 'Trusted: as C01; the table is a transcription of README bullets 2-7 (DESIGN Appendix B).',
    },
    "C02": {
        "struct": True,
        "tests": ["TestC02"],
        "design_ref": "DESIGN.md §3.2",
        "level_text": 'Theorems C02_provenance / C02_value_was_built_or_stored / C02_error_was_produced (Coq, no axioms): an invariant over every reachable state of the interleaving model (any number of Gets and keys, any schedule, adversarial backend / builder / clock, every configuration, both variants, every staleness test and every nil test recognising the zero token): each return event in the ghost log is justified by events BEFORE it — with a nil error the value was returned by a finished builder invocation for the same key or read from the backend under that key; an error was produced by a builder invocation for that key (possibly served from the failure cache) or by the backend for that key. Carried by invariants on threads, key-lock records (published before close), the failure cache and the log (FailoverProv.v). Correspondence: steered runs with injected backend faults, C02_obs on every implementation trace. Tie to the source: C02_source_get_follows_model — the bodies of Failover.Get and FailoverOf.Get, re-translated from /repo on every run (harness/cmd/gofunc -> Generated/Funcs.v, interpreted by theories/GoIR.v with their helpers as primitives, which are tied separately), follow the single-thread path of the model on the complete product of 7680 configuration/outcome combinations per variant: same call-outs in the same order, same returned and published (value, error), election and release inside f.lock exactly once by the creating Get, key copied before a background build (theories/TieGet.v, by computation over the finite product). C02_source_wait_for_value: waitForValue reads the published value and error only after the receive from the key lock\'s channel (bodies re-translated from /repo on every run by harness/cmd/gofunc, interpreted by theories/GoIR.v).',
        "level_note": "Trusted: as C01; unique token discipline of the harness (builder tokens, seeds, error numbers are distinct so 'belongs to another key' is decidable on traces). A panicking builder is outside the model (the owner then closes the key lock without publishing).",
    },
    "C01": {
        "struct": True,
        "tests": ["TestC01"],
        "design_ref": "DESIGN.md §3.1",
        "level_text": 'Theorems C01_no_overlapping_builds / C01_log_intervals_disjoint / C01_owner_region_exclusive / C01_lock_invariant (Coq, no axioms): in a small-step interleaving model of Failover.Get and FailoverOf.Get (every shared access and every call-out is a step; backend, builder and clock are adversarial oracles) no reachable state has two threads inside the builder for one key, for any number of Gets, keys, schedules and configurations. Tied to failover.go / failover_go1.18.go by steered schedules under testing/synctest: every frontend call-out (before and after backend calls, builder entry/exit, logs, stats) is a parking point; model and implementation are compared step by step. Tie to the source: C01_source_get_follows_model — the bodies of Failover.Get and FailoverOf.Get, re-translated from /repo on every run (harness/cmd/gofunc -> Generated/Funcs.v, interpreted by theories/GoIR.v with their helpers as primitives, which are tied separately), follow the single-thread path of the model on the complete product of 7680 configuration/outcome combinations per variant: same call-outs in the same order, same returned and published (value, error), election and release inside f.lock exactly once by the creating Get, key copied before a background build (theories/TieGet.v, by computation over the finite product).',
        "level_note": 'Trusted: Coq kernel; the hand-written model (its tie to the code is differential: ~260 steered schedules per quick run, 12x in thorough); the DRF-SC argument that step-granular interleavings cover real executions (DESIGN §2.2); synctest; the harness.',
    },
    "C14": {
        "struct": True,
        "tests": ["TestC14"],
        "design_ref": "DESIGN.md §3.14",
        "level_text": 'Theorems C14_import, C14_only_registered, C14_truncated_prefix, C14_hash_set_determined / perm / idem / changes (Coq, no axioms; the hash laws hold for any fingerprint function). Correspondence: HTTPTransfer over an in-process transport (ok / types-hash mismatch / failure / body cut at random offsets), and the types hash measured in fresh processes for random registration orders, compared with the XOR model over measured singleton fingerprints. Tie to the source: C14_source_register_iteration (GobRegister per value: registered type contributes nothing; new type fingerprinted with a hasher and a visited-set of its own, XORed into the hash), C14_source_export_gate (the Export handler dumps iff name given, cache registered, hash given and equal to the exporter\'s — for every exporter hash, zero included — else 400/404), C14_source_import_iteration (per registered cache: asked by name with the importer\'s hash, restored into that cache iff 200, the loop is never left) (bodies re-translated from /repo on every run by harness/cmd/gofunc, interpreted by theories/GoIR.v).',
        "level_note": 'Trusted: net/http plumbing is bypassed by an in-process RoundTripper; FNV and reflect-based fingerprints are measured, not modelled.',
    },
    "C13": {
        "struct": True,
        "tests": ["TestC13"],
        "design_ref": "DESIGN.md §3.13",
        "level_text": 'Theorems C13_roundtrip (any source content, any walk order, any non-colliding target hash: same reads, sizes, counts, Walk content, and the result is again a well-formed source, so chains follow), C13_decode_fresh, C13_reused_variable_refuted (Coq, no axioms). Correspondence: random entry sets through real gob Dump/Restore for all family pairings, chained. Tie to the source: C13_source_restore_iteration (one iteration of the three Restore loops: a decode target declared inside the loop, its address stored, count +1; EOF ends, other errors return the count), C13_source_dump_is_walk_encode, C13_source_walk_visit (a visit hands the callback a copy of the entry with E and C loaded atomically, outside the shard lock, counted once) (bodies re-translated from /repo on every run by harness/cmd/gofunc, interpreted by theories/GoIR.v).',
        "level_note": 'Trusted: encoding/gob is modelled by two rules (zero fields omitted; decode leaves absent fields untouched); the aliasing of a reused byte slice is not modelled (the harness compares keys byte-exactly).',
    },
    "C18": {
        "struct": True,
        "tests": ["TestC18"],
        "design_ref": "DESIGN.md §3.18",
        "level_text": "Theorems C18_backend_totals / C18_backend_step (every backend operation's metric events match its accounting, any hash/config/sequence) and C18_failover_builds_counted / C18_failover_totals (at quiescence cache_build = builder invocations, cache_failed = failed builds, cache_refreshed = stale re-stores, under every interleaving) (Coq, no axioms). Correspondence: counting StatsTracker on backend sequences and on steered Failover workloads. Tie to the source: C18_source_read_metrics — both PrepareRead bodies, re-translated from /repo on every run, emit exactly the one metric event the model's b_read emits. Also tied to the re-translated source: C18_source_notify (NotifyWritten / NotifyDeleted / NotifyExpiredAll / NotifyDeletedAll emit cache_write 1, cache_delete 1, cache_expired n, cache_delete n once, only with a tracker) and C18_source_write_delete_notify_once. C18_source_failover_metrics: the re-translated bodies of doBuild (cache_build once, deferred; cache_failed once per failure) and refreshStale (cache_refreshed once).",
        "level_note": 'Trusted: as C07 and C01; metric names/labels as emitted through the StatsTracker interface.',
    },
    "C12": {
        "struct": True,
        "tests": ["TestC12"],
        "design_ref": "DESIGN.md §3.12",
        "level_text": 'Theorems C12_rank (for any sort that returns a sorted permutation), C12_amount, C12_untouched, C12_count_target, C12_only_on_breach (Coq, no axioms). Correspondence: real cleanup path with CountSoftLimit / EvictionNeeded / never-exceeded memory limits, all strategies; rank is checked against the TRUE access history kept by the model, counts against exact rationals of the float fraction (within one entry + 2^-30). Tie to the source: C12_source_eviction_decision (the body of Trait.invokeCleanup, re-translated from /repo on every run, calls Evict iff a soft limit is exceeded or EvictionNeeded() holds, with EvictFraction (0 -> 0.1) rescaled on a count breach to 1 - CountSoftLimit*(1-frac)/count), C12_source_count_overflow, C12_source_usage_counter (PrepareRead maintains the LRU/LFU counter as the model\'s bump). C12_source_evict_least_sharded / _sync / C12_source_evict_metrics: evictLeast collects (hash or key, metric), sorts ascending by metric, deletes the first int(float64(len)*fraction) entries; the metric is E for evictMostExpired and C for evictLeastCounter (bodies re-translated from /repo on every run by harness/cmd/gofunc, interpreted by theories/GoIR.v).',
        "level_note": 'Trusted: as C07; HeapInUse/SysMem breaches are not produced (only never-exceeded limits); EvictMostExpired ranks never-expiring entries first (DESIGN O1).',
    },
    "C11": {
        "struct": True,
        "tests": ["TestC11"],
        "design_ref": "DESIGN.md §3.11",
        "level_text": 'Theorems C11_cycle_exact, C11_survivors, C11_cycles_only_remove (Coq, no axioms): a cleanup cycle removes exactly the entries with E != 0 and E < now - DeleteExpiredAfter (or nothing while UnlimitedTTL has seen no expiration); survivors survive any number of cycles. Correspondence: VerifCleanup and the real janitor goroutine driven by the fake clock, every cycle bracketed by Walks. Tie to the source: C11_source_cleanup_cycle (the body of Trait.invokeCleanup, re-translated from /repo on every run, runs the scan iff TimeToLive is finite or expirationsSet > 0, with boundary now - DeleteExpiredAfter) and C11_source_delete_expired (the three deleteExpired loops remove an entry iff E <> 0 and E < boundary).',
        "level_note": "Trusted: as C07; ExpireAll on an UnlimitedTTL cache that never saw a per-call TTL is outside C11's quantifier (DESIGN O7).",
    },
    "C10": {
        "struct": True,
        "tests": ["TestC10"],
        "design_ref": "DESIGN.md §3.10",
        "level_text": "Theorem C10_bounds (Coq, no axioms): expiry = never iff unlimited and no context TTL; exactly t+T without jitter; within |T|J/2 (+ stated IEEE slack |T|/2^50 ns) and never collapsing to 'never' with jitter, for all T in Z; C10_read_threshold, C10_expired_at_is_walk_instant on the reference map. Correspondence is exact: fake clock to the ns, jitter draw predicted by a mirrored seeded math/rand and compared against the exact rational T*J*(r-1/2). Tie to the source: C10_source_ttl (the body of Trait.TTL, re-translated from /repo on every run, computes the model's trait_ttl with the jitter term Duration(float64(T)*ExpirationJitter*(rand.Float64()-0.5)) for any float-to-integer conversion), C10_source_expire_at, C10_source_threshold (PrepareRead's expiry test is the model's).",
        "level_note": 'Trusted: the float rounding slack (two IEEE-754 roundings + truncation) is a stated bound, validated on every run against exact rationals, not derived from a float model.',
    },
    "C09": {
        "struct": True,
        "tests": ["TestC09"],
        "design_ref": "DESIGN.md §3.9",
        "level_text": "Theorem C09_collision_costs_at_most_a_miss (Coq, no axioms): for EVERY hash function each keyed result is the reference result or ErrNotFound (simulation R1: every resident entry sits in its own key's slot and equals the reference entry). Correspondence: constructed xxhash64 collision pairs (verified with the real hash), exhaustive short sequences and random long ones with the caller's key buffer overwritten after every call; Failover part: steered Gets with buffer overwrite during background builds, every backend access must carry the Get's key. Tie to the source: C09_source_key_check (the bodies of Read / Delete of the sharded maps, re-translated from /repo on every run by harness/cmd/gofunc, act on the resident entry only when bytes.Equal(entry.K, key) holds) and C09_source_write_copies_key (Write of all three backends stores make+copy of the key, never the caller's slice). Tie to the source: C09_source_get_follows_model — the bodies of Failover.Get and FailoverOf.Get, re-translated from /repo on every run (harness/cmd/gofunc -> Generated/Funcs.v, interpreted by theories/GoIR.v with their helpers as primitives, which are tied separately), follow the single-thread path of the model on the complete product of 7680 configuration/outcome combinations per variant: same call-outs in the same order, same returned and published (value, error), election and release inside f.lock exactly once by the creating Get, key copied before a background build (theories/TieGet.v, by computation over the finite product).",
        "level_note": 'Trusted: as C07 and C01; collision construction is checked against the real xxhash before use.',
    },
    "C07": {
        "struct": True,
        "tests": ["TestC07"],
        "design_ref": "DESIGN.md §3.7",
        "level_text": 'Theorem C07_refines (Coq, no axioms): for every hash function, configuration and operation sequence whose keys do not collide, the hashed backend model returns exactly what the reference map with per-entry expiry returns (Walk up to order) and emits the same metric events; C07_syncmap: an injective hash (SyncMap) always qualifies; clause-by-clause corollaries on the reference map. Correspondence: random sequences on the three real backends on an exact fake clock, jitter predicted by a mirrored seeded math/rand. Tie to the source: C07_source_read_found / _missing / C07_model_read_is_prepare_read — the bodies of Trait.PrepareRead and TraitOf[V].PrepareRead, re-translated from /repo on every run (harness/cmd/gofunc -> Generated/Funcs.v, interpreter theories/GoIR.v), compute the model\'s read classification, usage counter and metric event for EVERY entry, instant, strategy and logger/tracker presence. Also tied to the re-translated source: C07_source_read_lookup (Read of the three backends: SkipRead short-circuit, one lookup under the shard read lock, key comparison, verdict handed to PrepareRead), C07_source_delete (ErrNotFound exactly for a missing key, one removal and one NotifyDeleted otherwise), C07_source_expire_all (every entry stamped with the one instant read at the start). C07_source_delete_all_and_len, C07_source_defaults (Trait.init: TimeToLive 0 -> 5m, DeleteExpiredAfter 0 -> 24h, ExpirationJitter 0 -> 0.1 — the model\'s eff_ttl / eff_del_after) (bodies re-translated from /repo on every run by harness/cmd/gofunc, interpreted by theories/GoIR.v).',
        "level_note": 'Trusted: Coq kernel; hand-written Backend.v / Spec.v (tied by ~300 sequences per quick run); xxhash64 values as printed by the harness; map iteration order treated as arbitrary (Walk compared as a set).',
    },
    "C17": {
        "struct": True,
        "tests": ["TestC17"],
        "design_ref": "DESIGN.md §3.17",
        "level_text": "Theorems C17_sequential / C17_concurrent / C17_nothing (Coq, no axioms) over all call sequences, clock readings, "
                      "callback lists, SkipInterval values and all interleavings of a small-step model with the mutex explicit; "
                      "tied to invalidator.go by a sequential fake-clock correspondence run (exact, boundary ns included) and "
                      "free-running concurrent runs checked against the block structure the theorem states. Tie to the source: C17_source_invalidate — the body of Invalidator.Invalidate, re-translated from /repo on every run, is the model's invalidate (nil test before the mutex; Lock first and deferred Unlock around every store and the callback loop; default interval; refusal wrapping ErrAlreadyInvalidated; fresh stamp; callbacks in slice order iff accepted).",
        "level_note": "Trusted: Coq kernel; the hand-written model of Invalidate (correspondence = differential testing); sync.Mutex "
                      "semantics; concurrent runs sample schedules only (callbacks run under the library mutex and cannot be steered).",
        "assumptions": [
            "time.Since(zero time) saturates: a never-run Invalidator accepts (modelled as lastRun = None)",
            "'no callbacks registered' is Callbacks == nil (DESIGN O2)",
            "sync.Mutex provides mutual exclusion (the small-step model makes acquisition a step enabled only when free)",
            "concurrent runs use the real clock and the Go scheduler: they validate the block structure, not all interleavings",
        ],
    },
}

HOOK_COMMITS = ["6df94f9"]

_later = "check not built yet (work in progress at this commit; see DESIGN.md §7 build order)"
NOT_APPLICABLE = {("C%02d" % i): _later for i in range(1, 19)}
