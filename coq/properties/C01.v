(* C01 — Failover never runs two builds for the same key at the same time. Statements only. *)
From Cache Require Import Base Failover FailoverProofs.

(* For every staleness / nil test, every configuration (SyncUpdate, SyncRead, FailHard, MaxStaleness,
   FailedUpdateTTL, loggers, stats; Failover and FailoverOf), every label sequence — any number of
   Gets on any keys arriving at any time, any interleaving of their steps (each call-out and each
   shared access is a step), any backend answers and injected faults, any builder outcomes, any
   clock — in the state reached: two distinct threads are never both inside the builder for the
   same key. *)
Theorem C01_no_overlapping_builds : forall fe nilb c ls s,
  frun fe nilb c f0 ls = Some s ->
  forall t1 t2 th1 th2, threads s !! t1 = Some th1 -> threads s !! t2 = Some th2 ->
    in_builder th1 -> in_builder th2 -> t_key th1 = t_key th2 -> t1 = t2.
Proof. exact no_overlapping_builds. Qed.
Print Assumptions C01_no_overlapping_builds.

(* the same on the event log of every reachable state: scanning it, a builder is never entered for
   a key whose previous build has not ended (C01_obs is the predicate also evaluated on the
   implementation's traces) *)
Theorem C01_log_intervals_disjoint : forall fe nilb c ls s,
  frun fe nilb c f0 ls = Some s -> C01_obs (flog s) = true.
Proof. exact c01_obs_holds. Qed.
Print Assumptions C01_log_intervals_disjoint.

(* stronger: the whole owner region (stale refresh, failure-cache read, build, publish, release) is
   exclusive per key *)
Theorem C01_owner_region_exclusive : forall fe nilb c ls s,
  frun fe nilb c f0 ls = Some s ->
  forall t1 t2 th1 th2, threads s !! t1 = Some th1 -> threads s !! t2 = Some th2 ->
    needs_own (t_pc th1) = true -> needs_own (t_pc th2) = true -> t_key th1 = t_key th2 -> t1 = t2.
Proof. exact owner_region_exclusive. Qed.
Print Assumptions C01_owner_region_exclusive.

(* the inductive invariant behind it *)
Theorem C01_lock_invariant : forall fe nilb c ls s, frun fe nilb c f0 ls = Some s -> LInv s.
Proof. intros fe nilb c ls s H. exact (LInv_run fe nilb c ls f0 s LInv_init H). Qed.
Print Assumptions C01_lock_invariant.

(* Non-vacuity: two Gets on one stale key, background update; the second finds the key locked
   while the first one's background build is inside the builder. *)
Example C01_nonvacuous :
  let c := mkFcfg Legacy false false false 0 (20 * sec) minute false false false in
  let o := mkOrc 1000 (RExp 5 900) None (inl 7) [] 0 in
  match frun_x c f0 [LSpawn 1%N [1%N] false None; LStep 1%N o; LStep 1%N o; LSpawn 2%N [1%N] false None;
                     LStep 2%N o; LStep 1%N o; LStep 1%N o; LStep 1%N o; LStep 1%N o; LStep 1%N o;
                     LStep 2%N o; LStep 2%N o; LStep 1001%N o] with
  | Some s => option_map t_pc (threads s !! 1001%N) = Some PBuilderExit /\
              option_map t_pc (threads s !! 1%N) = Some PDone /\
              option_map t_wait (threads s !! 2%N) = Some (Some 0%N)
  | None => False
  end.
Proof. vm_compute. repeat split; reflexivity. Qed.

(* ---- tie to the source: the function bodies below are re-translated from /repo on every run
   (harness/cmd/gofunc -> theories/Generated/Funcs.v, interpreted by theories/GoIR.v) ---- *)
From Cache Require Import TieGet.

(* Failover.Get and FailoverOf.Get follow the model's single-thread path on every one of the 7680 combinations of
   configuration and call-out outcomes: same reads, stale re-store, failure-cache hit, build (before or after the
   return), warning, returned and published (value, error), election and release inside f.lock, key copy before a
   background build — here: the election and the release of the key lock *)
Theorem C01_source_get_follows_model : forall i,
  src_obs Failover.Legacy i = Some (model_obs Failover.Legacy i) /\ src_obs Failover.Generic i = Some (model_obs Failover.Generic i).
Proof. intros i; split; [exact (tie_get_legacy i)|exact (tie_get_generic i)]. Qed.
Print Assumptions C01_source_get_follows_model.
