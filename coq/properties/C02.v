From Cache Require Import Base Failover.
Theorem C02_placeholder : True. Proof. exact I. Qed.
Print Assumptions C02_placeholder.
