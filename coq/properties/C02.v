(* C02 — Failover results always have provenance; nothing is fabricated or mixed up.

   Model: theories/Failover.v (interleaving model with adversarial backend, builder and clock; ghost
   event log [flog]). The theorem is an invariant over every reachable state, for every staleness test
   and every nil test that recognises the zero token (the executable instance [nil_impl] does). *)
From Cache Require Import Base Failover FailoverProofs FailoverProv.

(* Every return event is justified by the events BEFORE it: with a nil error the value was returned by
   a builder invocation for the same key that had finished, or was read from the backend under that
   key; an error was produced by a builder invocation for that key (possibly served from the failure
   cache) or by the backend (failed read, rejected write) for that key. *)
Theorem C02_provenance :
  forall (fe : dur -> time -> time -> bool) (nilb : val -> bool), nilb 0 = true ->
  forall c ls s pre post t k v e,
    frun fe nilb c f0 ls = Some s -> flog s = pre ++ FReturn t k v e :: post ->
    rprov pre k (v, e).
Proof. intros fe nilb Hnil c ls s pre post t k v e. exact (provenance fe nilb Hnil c ls s pre post t k v e). Qed.
Print Assumptions C02_provenance.

(* spelled out for the two halves of the statement *)
Theorem C02_value_was_built_or_stored :
  forall fe nilb, nilb 0 = true ->
  forall c ls s pre post t k v,
    frun fe nilb c f0 ls = Some s -> flog s = pre ++ FReturn t k v None :: post ->
    (exists t', FBuildEnd t' k (inl v) ∈ pre) \/
    (exists t' r, FRead t' k r ∈ pre /\ (r = RHit v \/ exists a, r = RExp v a)).
Proof.
  intros fe nilb Hnil c ls s pre post t k v Hr Hl.
  destruct (provenance fe nilb Hnil c ls s pre post t k v None Hr Hl) as [H|(t' & r & Hin & Hv)]; [by left|right].
  exists t', r. split; [done|]. destruct r; cbn in Hv; simplify_eq; eauto.
Qed.
Print Assumptions C02_value_was_built_or_stored.

Theorem C02_error_was_produced :
  forall fe nilb, nilb 0 = true ->
  forall c ls s pre post t k v e,
    frun fe nilb c f0 ls = Some s -> flog s = pre ++ FReturn t k v (Some e) :: post ->
    eprov pre k e.
Proof. intros fe nilb Hnil c ls s pre post t k v e Hr Hl. exact (provenance fe nilb Hnil c ls s pre post t k v (Some e) Hr Hl). Qed.
Print Assumptions C02_error_was_produced.

(* the executable model satisfies the hypothesis on the nil test *)
Example C02_nil_impl_zero : nil_impl 0 = true.
Proof. reflexivity. Qed.

(* non-vacuity: a run in which a Get returns a built value *)
Example C02_some_return :
  let o := mkOrc 10 RMiss None (inl 7) [] 0 in
  let c := mkFcfg Legacy false false false 0 20 60 false false false in
  match frun_x c f0 (LSpawn 1%N [1%N] false None :: replicate 11 (LStep 1%N o)) with
  | Some s => match last (flog s) with Some (FReturn _ _ v None) => v =? 7 | _ => false end
  | None => false
  end = true.
Proof. vm_compute. reflexivity. Qed.

(* ---- tie to the source: the function bodies below are re-translated from /repo on every run
   (harness/cmd/gofunc -> theories/Generated/Funcs.v, interpreted by theories/GoIR.v) ---- *)
From Cache Require Import TieGet.

(* Failover.Get and FailoverOf.Get follow the model's single-thread path on every one of the 7680 combinations of
   configuration and call-out outcomes: same reads, stale re-store, failure-cache hit, build (before or after the
   return), warning, returned and published (value, error), election and release inside f.lock, key copy before a
   background build — here: which value and error is returned and published *)
Theorem C02_source_get_follows_model : forall i,
  src_obs Failover.Legacy i = Some (model_obs Failover.Legacy i) /\ src_obs Failover.Generic i = Some (model_obs Failover.Generic i).
Proof. intros i; split; [exact (tie_get_legacy i)|exact (tie_get_generic i)]. Qed.
Print Assumptions C02_source_get_follows_model.

From Coq Require Import String.
From Cache Require Import GoIR TieFailover.
From Cache.Generated Require Import Funcs.
Open Scope string_scope.

(* a waiter reads the published value and error only AFTER the receive from the key lock's channel (before it they are
   not yet published) — waitForValue of both variants *)
Theorem C02_source_wait_for_value : forall debug,
  run_wait fn_Failover_waitForValue debug =
    Some ((if debug then [("log", [VStr "waiting for cache value"])] else []) ++ [("receive from keyLock.lock", [])],
          [VStr "published value"; VStr "published error"])%list /\
  run_wait fn_FailoverOf_waitForValue debug =
    Some ((if debug then [("log", [VStr "waiting for cache value"])] else []) ++ [("receive from keyLock.lock", [])],
          [VStr "published value"; VStr "published error"])%list.
Proof. exact tie_wait_for_value. Qed.
Print Assumptions C02_source_wait_for_value.

(* waiters read with the SkipRead flag switched off on top of the caller's context (withoutSkipRead), whatever it held *)
From Cache Require Import TieCtx.
Theorem C02_source_waiter_context : forall bs,
  run_ctx_fn fn_withoutSkipRead bs = Some (enc_ctx (("skipReadCtxKey", VB false) :: bs)) /\
  skip_flag (("skipReadCtxKey", VB false) :: bs) = false.
Proof. intros bs. split; [exact (proj2 (tie_with_skip_read bs))|reflexivity]. Qed.
Print Assumptions C02_source_waiter_context.

(* ---- the provenance predicate of the correspondence check is proved of the model ---- *)
From Cache Require Import FailoverRun FailoverObs FailoverObsProofs.

Theorem C02_trace_predicate_sound : forall fe nilb, nilb 0 = true ->
  forall c ls s, frun fe nilb c f0 ls = Some s -> C02_obs (flog s) = true.
Proof. exact c02_obs_holds. Qed.
Print Assumptions C02_trace_predicate_sound.
