(* C03 — a lone Get follows the documented stale/failure decision table. Statements only. *)
From Cache Require Import Base Failover FailoverRun FailoverObs FailoverTable.

(* [lone_outcome] RUNS the interleaving model of C01 (one Get, then its background build if it starts
   one) and reads the outcome off the ghost log: returned value or error, whether the builder ran and
   whether it ran before the return, and the backend writes with the TTL they carried.
   [spec_table] is the table transcribed from README bullets 2-7 (FailoverObs.v / DESIGN Appendix B).
   They agree for BOTH answers of the staleness test, every API variant, SyncUpdate, SyncRead, FailHard,
   every MaxStaleness, FailedUpdateTTL enabled (any positive value) or disabled, every UpdateTTL, with or
   without debug logger / warn logger / stats tracker, every context TTL cell and builder TTL updates,
   failure cache empty or holding an error, every entry state (absent, fresh v, expired v at any instant),
   every builder result, every value (the legacy nil test computes on 0 / positive / negative tokens). *)
Theorem C03_table : forall stale_ok v su sr fh ms ft_on ftp uttl dbg wrn st cell hit now rd built upd errexp ec,
  classify_fe (fun _ _ _ => stale_ok) ms now rd = Some ec ->
  lone_outcome (fun _ _ _ => stale_ok) nil_impl (mk_cfg v su sr fh ms ft_on ftp uttl dbg wrn st) cell
               (errs_of (if ft_on then hit else None)) (mkOrc now rd None built upd errexp)
  = Some (spec_table nil_impl v su fh uttl (cell_ttl (apply_upd cell upd)) ec (if ft_on then hit else None) built).
Proof. exact lone_table. Qed.
Print Assumptions C03_table.

(* clauses of the property, read off the table *)
Theorem C03_fresh_no_build : forall v su fh uttl ttl x hit built,
  spec_table nil_impl v su fh uttl ttl (Fresh x) hit built = mkOutcome (Some x) None false false [].
Proof. reflexivity. Qed.
Print Assumptions C03_fresh_no_build.

Theorem C03_too_stale_never_served_on_success : forall v su fh uttl ttl x u,
  spec_table nil_impl v su fh uttl ttl (TooStale x) None (inl u) = mkOutcome (Some u) None true true [(u, ttl)].
Proof. reflexivity. Qed.
Print Assumptions C03_too_stale_never_served_on_success.

Theorem C03_fail_serves_previous_unless_failhard : forall v su uttl ttl p n,
  (* a non-nil previous value, too stale or not, is served when the build fails and FailHard is off *)
  oc_val (spec_table nil_impl v su false uttl ttl (TooStale (Z.pos p)) None (inr n)) = Some (Z.pos p) /\
  oc_val (spec_table nil_impl v su false uttl ttl (StaleOK (Z.pos p)) None (inr n)) = Some (Z.pos p) /\
  (* with FailHard the builder error is returned after a synchronous build *)
  oc_err (spec_table nil_impl v su true uttl ttl (TooStale (Z.pos p)) None (inr n)) = Some (EOther n) /\
  oc_err (spec_table nil_impl v true true uttl ttl (StaleOK (Z.pos p)) None (inr n)) = Some (EOther n) /\
  (* nothing to fall back to: the builder error *)
  oc_err (spec_table nil_impl v su false uttl ttl Absent None (inr n)) = Some (EOther n).
Proof. intros. destruct v, su; repeat split; reflexivity. Qed.
Print Assumptions C03_fail_serves_previous_unless_failhard.

Theorem C03_stale_served_immediately_in_background_mode : forall v fh uttl ttl x built,
  let o := spec_table nil_impl v false fh uttl ttl (StaleOK x) None built in
  oc_val o = Some x /\ oc_built o = true /\ oc_before o = false.
Proof. intros. destruct built; repeat split; reflexivity. Qed.
Print Assumptions C03_stale_served_immediately_in_background_mode.

(* ---- tie to the source: the function bodies below are re-translated from /repo on every run
   (harness/cmd/gofunc -> theories/Generated/Funcs.v, interpreted by theories/GoIR.v) ---- *)
From Coq Require Import String.
From Cache Require Import GoIR TieFailover.
From Cache.Generated Require Import Funcs.
Open Scope string_scope.
Open Scope Z_scope.

(* the sync/background decision and the staleness test of the source are the model's (steps PCtxSync, PClassify) *)
Theorem C03_source_ctx_sync : forall sync_update has_err,
  run_ctx_sync fn_Failover_ctxSync sync_update has_err = Some (sync_update || has_err, negb (sync_update || has_err)) /\
  run_ctx_sync fn_FailoverOf_ctxSync sync_update has_err = Some (sync_update || has_err, negb (sync_update || has_err)).
Proof. exact tie_ctx_sync. Qed.
Print Assumptions C03_source_ctx_sync.

Theorem C03_source_staleness_test : forall is_expired max_stale v now at_,
  run_fresh_enough_of is_expired max_stale v now at_ =
    Some (if is_expired && fresh_enough_impl max_stale now at_ then (v, true) else (0, false)) /\
  run_value_from_error true true max_stale v now at_ =
    Some (if fresh_enough_impl max_stale now at_ then (Some v, true) else (None, false)).
Proof. intros; split; [exact (tie_fresh_enough_of _ _ _ _ _)|exact (tie_value_from_error _ _ _ _)]. Qed.
Print Assumptions C03_source_staleness_test.

From Cache Require Import TieGet.

(* Failover.Get and FailoverOf.Get follow the model's single-thread path on every one of the 7680 combinations of
   configuration and call-out outcomes: same reads, stale re-store, failure-cache hit, build (before or after the
   return), warning, returned and published (value, error), election and release inside f.lock, key copy before a
   background build — here: the whole decision path of a lone Get *)
Theorem C03_source_get_follows_model : forall i,
  src_obs Failover.Legacy i = Some (model_obs Failover.Legacy i) /\ src_obs Failover.Generic i = Some (model_obs Failover.Generic i).
Proof. intros i; split; [exact (tie_get_legacy i)|exact (tie_get_generic i)]. Qed.
Print Assumptions C03_source_get_follows_model.
