(* C04 — Get always completes and key locks are always released. Statements only. *)
From Cache Require Import Base Failover FailoverProofs.

(* When every Get and every background build has finished — whatever happened before: failing
   builders, rejected backend writes, faults, any interleaving — no key lock is registered and every
   key lock that ever existed is closed (nobody can be left waiting on it). *)
Theorem C04_quiescent_unlocked : forall fe nilb c ls s,
  frun fe nilb c f0 ls = Some s -> all_done s ->
  keyLocks s = ∅ /\ forall id x, kls s !! id = Some x -> kl_closed x = true.
Proof. exact quiescent_unlocked. Qed.
Print Assumptions C04_quiescent_unlocked.

(* No deadlock: in every reachable state in which something is unfinished, some thread can take its
   next step whatever the oracle answers (call-outs return): a waiter whose lock is closed returns,
   otherwise the lock's owner exists, is not waiting and can move. *)
Theorem C04_no_deadlock : forall fe nilb c ls s o,
  frun fe nilb c f0 ls = Some s -> ~ all_done s ->
  exists t s', fstep fe nilb c s (LStep t o) = Some s'.
Proof. exact no_deadlock. Qed.
Print Assumptions C04_no_deadlock.

(* Bounded: every step of a thread strictly decreases a measure, a new Get adds exactly 30 to it:
   once its call-outs return, a Get and its background build finish within 30 steps of their own. *)
Theorem C04_step_decreases : forall fe nilb c s t o s',
  fstep fe nilb c s (LStep t o) = Some s' -> (measure s' < measure s)%nat.
Proof. exact fstep_measure. Qed.
Print Assumptions C04_step_decreases.

Theorem C04_steps_bounded : forall fe nilb c ls s s',
  forallb is_step ls = true -> frun fe nilb c s ls = Some s' -> (length ls + measure s' <= measure s)%nat.
Proof. exact steps_bounded. Qed.
Print Assumptions C04_steps_bounded.

Theorem C04_new_get_costs_30 : forall fe nilb c s t k skip cell s',
  fstep fe nilb c s (LSpawn t k skip cell) = Some s' -> measure s' = (30 + measure s)%nat.
Proof. exact spawn_measure. Qed.
Print Assumptions C04_new_get_costs_30.

(* After quiescence a later Get for the key is an owner again: it finds no lock. *)
Theorem C04_rebuild_possible : forall fe nilb c ls s,
  frun fe nilb c f0 ls = Some s -> all_done s -> forall k, keyLocks s !! k = None.
Proof. intros fe nilb c ls s H Hd k. rewrite (proj1 (quiescent_unlocked fe nilb c ls s H Hd)). apply lookup_empty. Qed.
Print Assumptions C04_rebuild_possible.

Example C04_nonvacuous :
  let c := mkFcfg Generic true true false 0 (20 * sec) minute false false false in
  let o := mkOrc 1000 RMiss None (inr 3) [] 2000 in
  match frun_x c f0 ([LSpawn 1%N [1%N] false None] ++ repeat (LStep 1%N o) 12) with
  | Some s => map_to_list (keyLocks s) = [] /\ option_map t_res (threads s !! 1%N) = Some (0, Some (EOther 3))
              /\ measure s = 0%nat
  | None => False
  end.
Proof. vm_compute. repeat split; reflexivity. Qed.

(* ---- tie to the source: the function bodies below are re-translated from /repo on every run
   (harness/cmd/gofunc -> theories/Generated/Funcs.v, interpreted by theories/GoIR.v) ---- *)
From Cache Require Import TieGet.

(* Failover.Get and FailoverOf.Get follow the model's single-thread path on every one of the 7680 combinations of
   configuration and call-out outcomes: same reads, stale re-store, failure-cache hit, build (before or after the
   return), warning, returned and published (value, error), election and release inside f.lock, key copy before a
   background build — here: the release on every exit path *)
Theorem C04_source_get_follows_model : forall i,
  src_obs Failover.Legacy i = Some (model_obs Failover.Legacy i) /\ src_obs Failover.Generic i = Some (model_obs Failover.Generic i).
Proof. intros i; split; [exact (tie_get_legacy i)|exact (tie_get_generic i)]. Qed.
Print Assumptions C04_source_get_follows_model.

(* ---- where a completed build lands (model, every schedule) ---- *)
From Cache Require Import FailoverRun FailoverObs FailoverLands.

(* "a later Get ... observes the result of the last completed build", also when the caller reuses the key slice: in
   every reachable state, the first write of a thread after its builder returned v for key k is backend.Write(k, v) —
   under the key the build was started for and with the value the builder returned.  The same executable predicate
   is part of C04_obs, evaluated on the implementation's traces. *)
Theorem C04_completed_build_lands : forall fe nilb c ls s,
  frun fe nilb c f0 ls = Some s -> c04_lands (flog s) = true.
Proof. exact build_lands. Qed.
Print Assumptions C04_completed_build_lands.

(* and at quiescence nothing a builder returned is still unwritten *)
Theorem C04_quiescent_all_written : forall fe nilb c ls s,
  frun fe nilb c f0 ls = Some s -> all_done s -> lands ∅ (flog s) = Some ∅.
Proof. exact build_lands_quiescent. Qed.
Print Assumptions C04_quiescent_all_written.

Example C04_lands_nonvacuous :
  let c := mkFcfg Generic true true false 0 (20 * sec) minute false false false in
  let o := mkOrc 1000 RMiss None (inl 7) [] 2000 in
  match frun_x c f0 ([LSpawn 1%N [1%N] false None] ++ repeat (LStep 1%N o) 11) with
  | Some s => omap wproj (flog s) = [WEnd 1%N [1%N] 7; WWrite 1%N [1%N] 7] /\
              c04_lands (flog s ++ [FBuildEnd 2%N [2%N] (inl 5); FWrite 2%N [9%N] 5 0 false None]) = false
  | None => False
  end.
Proof. vm_compute. split; reflexivity. Qed.
