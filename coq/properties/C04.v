From Cache Require Import Base Failover.
Theorem C04_placeholder : True. Proof. exact I. Qed.
Print Assumptions C04_placeholder.
