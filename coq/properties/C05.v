(* C05 — build economy: SyncRead single flight, cached failures suppress rebuilds.

   Model: theories/Failover.v; proofs: theories/FailoverEcon.v. The backend is an adversarial oracle in
   the model, so "while its result stays fresh" is the hypothesis [coherent]: once a build result for
   the key was stored, later reads of the key hit. *)
From Cache Require Import Base Failover FailoverProofs FailoverProv FailoverEcon.

(* With SyncRead every builder invocation for k follows a read of k made under the key lock, by the
   invoking Get or by the Get that spawned the background build, that did not hit, with no build
   result for k stored in between — for every number of Gets, keys, interleavings, oracle answers. *)
Theorem C05_single_flight :
  forall fe nilb c ls s pre post t k,
    f_sync_read c = true -> frun fe nilb c f0 ls = Some s -> flog s = pre ++ FBuildStart t k :: post ->
    since_read pre t k.
Proof. exact single_flight. Qed.
Print Assumptions C05_single_flight.

(* Hence, against a coherent backend, a successful build for k is never followed by another builder
   invocation for k: however many Gets wait or arrive, a burst costs exactly one successful build. *)
Theorem C05_no_rebuild_while_fresh :
  forall fe nilb c ls s l1 l2 l3 t1 v ttl t2 k,
    f_sync_read c = true -> frun fe nilb c f0 ls = Some s ->
    flog s = l1 ++ FWrite t1 k v ttl false None :: l2 ++ FBuildStart t2 k :: l3 ->
    coherent k (flog s) -> False.
Proof. exact no_rebuild_while_fresh. Qed.
Print Assumptions C05_no_rebuild_while_fresh.

(* After a builder failure: a Get that checks the failure cache while the failure is live (its clock
   reading is not past the stored expiry, which is FailedUpdateTTL with jitter after the failure) leaves
   with the cached error and is never inside the builder afterwards. *)
Theorem C05_failure_gate :
  forall fe nilb c s t o s' th e ls s'',
    threads s !! t = Some th -> t_pc th = PFailCache -> 0 <= f_failed_ttl c -> t_skip th = false ->
    live_failure s (t_key th) (o_now o) e ->
    fstep fe nilb c s (LStep t o) = Some s' -> frun fe nilb c s' ls = Some s'' ->
    (exists th', threads s' !! t = Some th' /\ (t_res th').2 = Some e /\ flog s' = flog s ++ [FErrHit t (t_key th) e]) /\
    (exists th'', threads s'' !! t = Some th'' /\ finished (t_pc th'') = true).
Proof.
  intros fe nilb c s t o s' th e ls s'' Ht Hpc Httl Hskip Hlive Hs Hr.
  destruct (gate_hit fe nilb c s t o s' th e Ht Hpc Httl Hskip Hlive Hs) as (th' & Ht' & Hf & Hres & Hlog).
  split; [by exists th'|]. eapply finished_forever; eauto.
Qed.
Print Assumptions C05_failure_gate.

(* ... and a Get that checks after the stored expiry instant (or finds no failure) goes on towards the builder *)
Theorem C05_gate_opens_after_expiry :
  forall fe nilb c s t o s' th,
    threads s !! t = Some th -> t_pc th = PFailCache ->
    (forall e ex, errs s !! t_key th = Some (e, ex) -> ex <> 0 /\ ex < o_now o) ->
    fstep fe nilb c s (LStep t o) = Some s' ->
    exists th', threads s' !! t = Some th' /\ t_pc th' = PCtxSync /\ flog s' = flog s ++ [].
Proof. exact gate_open. Qed.
Print Assumptions C05_gate_opens_after_expiry.

(* FailedUpdateTTL = -1: nothing is ever cached, the failure cache cannot suppress the next build *)
Theorem C05_failures_not_cached :
  forall fe nilb c ls s, f_failed_ttl c < 0 -> frun fe nilb c f0 ls = Some s -> errs s = ∅.
Proof.
  intros fe nilb c ls s Hneg Hr.
  assert (H0 : NoErrs f0) by (split; [done|]; intros t th Hl; cbn in Hl; by rewrite lookup_empty in Hl).
  exact (ne_errs _ (no_failure_cache fe nilb c ls Hneg _ _ H0 Hr)).
Qed.
Print Assumptions C05_failures_not_cached.

(* non-vacuity: two Gets with SyncRead against a backend that misses first and hits after the build;
   one builder invocation in the log, and the log is coherent *)
Example C05_burst_of_two :
  let miss := mkOrc 10 RMiss None (inl 7) [] 0 in
  let hit := mkOrc 10 (RHit 7) None (inl 8) [] 0 in
  let c := mkFcfg Legacy false true false 0 20 60 false false false in
  let k := [1%N] in
  match frun_x c f0
    (LSpawn 1%N k false None :: LSpawn 2%N k false None ::
     LStep 1%N miss :: LStep 1%N miss :: LStep 2%N miss :: LStep 2%N miss ::   (* 1 owns the lock, 2 finds it locked *)
     LStep 1%N miss ::                                                            (* read under the lock: miss *)
     LStep 2%N miss :: LStep 2%N miss ::                                          (* 2: read (miss), classify -> waits *)
     replicate 8 (LStep 1%N miss) ++ [LStep 2%N hit]) with
  | Some s => (length (List.filter (fun e => match e with FBuildStart _ _ => true | _ => false end) (flog s)),
               omap (fun e => match e with FReturn t _ v None => Some (t, v) | _ => None end) (flog s))
  | None => (99%nat, [])
  end = (1%nat, [(1%N, 7); (2%N, 7)]).
Proof. vm_compute. reflexivity. Qed.

(* ---- tie to the source: the function bodies below are re-translated from /repo on every run
   (harness/cmd/gofunc -> theories/Generated/Funcs.v, interpreted by theories/GoIR.v) ---- *)
From Coq Require Import String.
From Cache Require Import GoIR TieFailover.
From Cache.Generated Require Import Funcs.
Open Scope string_scope.
Open Scope Z_scope.

(* recentlyFailed consults the failure cache iff FailedUpdateTTL > -1 and reports a hit as the error (step
   PFailCache); doBuild caches a build failure iff FailedUpdateTTL > -1, under a context with a TTL cell of its own
   holding 0, i.e. for the failure cache's own TimeToLive = FailedUpdateTTL (step PErrWrite) *)
Theorem C05_source_failure_cache : forall failed_ttl hit x built_ok write_ok errwrite_ok,
  (run_recently_failed fn_Failover_recentlyFailed failed_ttl hit = Some ((0 <=? failed_ttl) && hit, 0 <=? failed_ttl) /\
   run_recently_failed fn_FailoverOf_recentlyFailed failed_ttl hit = Some ((0 <=? failed_ttl) && hit, 0 <=? failed_ttl)) /\
  (run_do_build fn_Failover_doBuild x built_ok write_ok errwrite_ok = Some (do_build_spec x built_ok write_ok errwrite_ok) /\
   run_do_build fn_FailoverOf_doBuild x built_ok write_ok errwrite_ok = Some (do_build_spec x built_ok write_ok errwrite_ok)).
Proof. intros; split; [exact (tie_recently_failed _ _)|exact (tie_do_build _ _ _ _)]. Qed.
Print Assumptions C05_source_failure_cache.

From Cache Require Import TieGet.

(* Failover.Get and FailoverOf.Get follow the model's single-thread path on every one of the 7680 combinations of
   configuration and call-out outcomes: same reads, stale re-store, failure-cache hit, build (before or after the
   return), warning, returned and published (value, error), election and release inside f.lock, key copy before a
   background build — here: the SyncRead re-read, the failure-cache gate and the single build *)
Theorem C05_source_get_follows_model : forall i,
  src_obs Failover.Legacy i = Some (model_obs Failover.Legacy i) /\ src_obs Failover.Generic i = Some (model_obs Failover.Generic i).
Proof. intros i; split; [exact (tie_get_legacy i)|exact (tie_get_generic i)]. Qed.
Print Assumptions C05_source_get_follows_model.

From Cache Require Import TieDefaults.

(* NewFailover / NewFailoverOf: FailedUpdateTTL 0 -> 20s, UpdateTTL 0 -> 1m; the failure cache exists iff
   FailedUpdateTTL > -1 and its TimeToLive IS FailedUpdateTTL *)
Theorem C05_source_failure_cache_ttl : forall uttl fttl has_backend,
  run_new_failover fn_NewFailover uttl fttl has_backend =
    Some (Some (VZ (eff_update uttl)), Some (VZ (eff_failed fttl)),
          if -1 <? eff_failed fttl then Some (errors_cache (eff_failed fttl)) else None) /\
  run_new_failover fn_NewFailoverOf uttl fttl has_backend =
    Some (Some (VZ (eff_update uttl)), Some (VZ (eff_failed fttl)),
          if -1 <? eff_failed fttl then Some (errors_cache (eff_failed fttl)) else None).
Proof. exact tie_failover_defaults. Qed.
Print Assumptions C05_source_failure_cache_ttl.

(* ---- the single-flight predicate of the correspondence check is proved of the model ---- *)
From Cache Require Import FailoverRun FailoverObs FailoverSingleObs.

(* SyncRead on, backend coherent on the log (a stored build result stays readable — the scenarios of the check keep it
   fresh): once the result of a build of k has been stored, no builder is invoked for k again.  "Build result" is read
   off the trace as the check does: a successful write of a thread after its own builder returned. *)
Theorem C05_trace_predicate_sound : forall fe nilb c ls s,
  f_sync_read c = true -> frun fe nilb c f0 ls = Some s -> (forall k, coherent k (flog s)) ->
  C05_single_obs (flog s) = true.
Proof. exact c05_single_holds. Qed.
Print Assumptions C05_trace_predicate_sound.
