(* C06 — TTL and context travel through Failover as documented.

   Model: theories/Failover.v (TTL cell of the caller's context, builder updates as an oracle list,
   refresh write in a context of its own); proofs: theories/FailoverTTL.v. The context of the builder
   (cancellation, deadline, Done channel and values of the caller's context chain, the library's
   detachedContext as a layer of its own) is modelled in theories/Ctx.v; proofs: theories/CtxProofs.v. The
   standard library's WithCancel / WithDeadline / WithValue are modelled by their documented contract. *)
From Cache Require Import Base Failover FailoverProofs FailoverProv FailoverTTL Ctx CtxProofs.

(* WithTTL(ctx, ttl, true) repeated: the cell ends up 0 iff everything was 0, otherwise it holds one of
   the communicated values, the smallest non-zero one (negative values included) *)
Theorem C06_builder_ttls_minimal_nonzero : forall upd c,
  (fold_left upd_cell upd c = 0 <-> c = 0 /\ Forall (fun x => x = 0) upd) /\
  (fold_left upd_cell upd c <> 0 ->
     fold_left upd_cell upd c ∈ c :: upd /\ Forall (fun x => x = 0 \/ fold_left upd_cell upd c <= x) (c :: upd)).
Proof. exact fold_upd_spec. Qed.
Print Assumptions C06_builder_ttls_minimal_nonzero.

(* the cell of a Get changes only when its builder returns, by exactly the builder's updates; every
   other step of the Get (the stale re-store included) and every step of other Gets leave it alone;
   the background build starts with the caller's cell, key and SkipRead flag *)
Theorem C06_cell_changes_only_in_builder : forall fe nilb c s t o s' th,
  threads s !! t = Some th -> fstep fe nilb c s (LStep t o) = Some s' ->
  exists th', threads s' !! t = Some th' /\
    t_cell th' = (if decide (t_pc th = PBuilderExit) then apply_upd (t_cell th) (o_upd o) else t_cell th) /\
    (forall bg, threads s' !! bg_tid t = Some bg -> threads s !! bg_tid t = None ->
                t_cell bg = t_cell th /\ t_key bg = t_key th /\ t_skip bg = t_skip th).
Proof. exact cell_changes_only_in_builder. Qed.
Print Assumptions C06_cell_changes_only_in_builder.

Theorem C06_other_gets_do_not_touch_the_cell : forall fe nilb c s t o s' t1 th1,
  threads s !! t1 = Some th1 -> t1 <> t -> fstep fe nilb c s (LStep t o) = Some s' -> threads s' !! t1 = Some th1.
Proof. exact cell_frame. Qed.
Print Assumptions C06_other_gets_do_not_touch_the_cell.

(* every write to the backend is either the final store, with the TTL of the cell (0 = backend default),
   or the temporary re-store of the stale value, with UpdateTTL *)
Theorem C06_store_ttls : forall fe nilb c s t o s' th,
  threads s !! t = Some th -> fstep fe nilb c s (LStep t o) = Some s' ->
  (t_pc th = PBuildWrite -> exists res, flog s' = flog s ++ [FWrite t (t_key th) (t_res th).1 (cell_ttl (t_cell th)) false res]) /\
  (t_pc th = PRefreshWrite -> exists res, flog s' = flog s ++ [FWrite t (t_key th) (t_value th) (f_update_ttl c) true res]) /\
  (forall k v ttl r res, FWrite t k v ttl r res ∈ flog s' -> FWrite t k v ttl r res ∈ flog s \/
      (r = false /\ t_pc th = PBuildWrite /\ ttl = cell_ttl (t_cell th)) \/
      (r = true /\ t_pc th = PRefreshWrite /\ ttl = f_update_ttl c)).
Proof. exact store_ttls. Qed.
Print Assumptions C06_store_ttls.

(* no TTL in the caller's context: the builder's WithTTL creates a value of its own (interpretation O3) *)
Theorem C06_no_cell_nothing_to_update : forall upd, apply_upd None upd = None.
Proof. exact apply_upd_none. Qed.
Print Assumptions C06_no_cell_nothing_to_update.

(* SkipRead forces the rebuild (the backend answers ErrNotFound, the failure cache is bypassed) and the
   result is stored all the same *)
Theorem C06_skip_still_stores : forall fe nilb c s t o s' th v,
  threads s !! t = Some th -> t_pc th = PBuilderExit -> o_built o = inl v -> fstep fe nilb c s (LStep t o) = Some s' ->
  exists th', threads s' !! t = Some th' /\ t_pc th' = PBuildWrite /\ t_res th' = (v, None) /\ t_skip th' = t_skip th.
Proof. exact skip_still_stores. Qed.
Print Assumptions C06_skip_still_stores.

(* a background build runs under a context that exposes the caller's context values but is neither cancelled
   nor deadlined by it: for every caller context (any chain of values, cancel functions and deadlines), every
   set of cancel functions already called, every instant, and under any further value layers *)
Theorem C06_detached_context : forall caller p cancelled now,
  value_only p = true ->
  ctx_err cancelled now (p ++ builder_ctx true caller) = None /\
  ctx_done_nil (p ++ builder_ctx true caller) = true /\
  ctx_deadline (p ++ builder_ctx true caller) = None /\
  (forall k, ctx_value k (builder_ctx true caller) = ctx_value k caller).
Proof. exact detached_never_cancelled. Qed.
Print Assumptions C06_detached_context.

(* in the caller's own context a cancellation is permanent (so the statement above is not vacuous: the
   caller's context does report the error the detached one suppresses) *)
Theorem C06_cancellation_is_permanent : forall c cancelled cancelled' now now',
  (forall y, mem_n y cancelled = true -> mem_n y cancelled' = true) -> now <= now' ->
  ctx_err cancelled now c <> None -> ctx_err cancelled' now' c <> None.
Proof. exact ctx_err_monotone. Qed.
Print Assumptions C06_cancellation_is_permanent.

(* an observation of a builder's context on which implementation and model agree satisfies the property *)
Theorem C06_context_observation : forall o, ctxobs_agree o = true -> ctxobs_prop o = true.
Proof. exact agree_implies_prop. Qed.
Print Assumptions C06_context_observation.

Example C06_detached_nonvacuous :
  let caller := [LValue 2 1; LDeadline 50; LCancel 7; LValue 1 7]%N in
  (ctx_err [7%N] 100 caller, ctx_err [7%N] 100 (builder_ctx true caller), ctx_value 1 (builder_ctx true caller))
  = (Some Canceled, None, Some 7%N).
Proof. vm_compute. reflexivity. Qed.

(* non-vacuity: caller TTL 100, the builder communicates 0, 300, 40, 70: the value is stored with 40 *)
Example C06_lowered :
  let o := mkOrc 10 RMiss None (inl 7) [0; 300; 40; 70] 0 in
  let c := mkFcfg Generic false false false 0 20 60 false false false in
  match frun_x c f0 (LSpawn 1%N [1%N] false (Some 100) :: replicate 11 (LStep 1%N o)) with
  | Some s => omap (fun e => match e with FWrite _ _ v ttl r _ => Some (v, ttl, r) | _ => None end) (flog s)
  | None => []
  end = [(7, 40, false)].
Proof. vm_compute. reflexivity. Qed.

(* ---- tie to the source: the function bodies below are re-translated from /repo on every run
   (harness/cmd/gofunc -> theories/Generated/Funcs.v, interpreted by theories/GoIR.v); the statements say that
   the translated source computes what the model assumes, for ALL inputs. A change of the source that alters
   the computed function breaks the proof. ---- *)
From Cache Require Import GoIR TieTTL.
From Cache.Generated Require Import Funcs.

(* WithTTL: with updateExisting on a context that carries a TTL cell the cell becomes upd_cell old ttl (the minimal
   non-zero value) and the same context is returned; otherwise a new context with a cell of its own is created
   and the caller's cell keeps its content *)
Theorem C06_source_with_ttl : forall cell ttl upd,
  run_with_ttl cell ttl upd =
  Some (match cell with
        | Some old => if upd then (Some (upd_cell old ttl), None) else (Some old, Some ttl)
        | None => (None, Some ttl)
        end).
Proof. exact tie_with_ttl. Qed.
Print Assumptions C06_source_with_ttl.

Theorem C06_source_ttl : forall cell, run_ttl cell = Some (cell_ttl cell).
Proof. exact tie_ttl. Qed.
Print Assumptions C06_source_ttl.

From Coq Require Import String.
From Cache Require Import TieFailover.
Open Scope string_scope.
Open Scope Z_scope.

(* refreshStale writes under a context with a TTL cell OF ITS OWN holding UpdateTTL (the caller's cell is not
   involved); doBuild stores the built value under the build context itself (the caller's cell, lowered by the
   builder); a background build runs under detachedContext, whose four methods are the layer LDetach of Ctx.v *)
Theorem C06_source_refresh_and_store_contexts : forall x built_ok write_ok errwrite_ok,
  (run_refresh fn_Failover_refreshStale x write_ok = Some (refresh_spec x write_ok) /\
   run_refresh fn_FailoverOf_refreshStale x write_ok = Some (refresh_spec x write_ok)) /\
  (run_do_build fn_Failover_doBuild x built_ok write_ok errwrite_ok = Some (do_build_spec x built_ok write_ok errwrite_ok) /\
   run_do_build fn_FailoverOf_doBuild x built_ok write_ok errwrite_ok = Some (do_build_spec x built_ok write_ok errwrite_ok)).
Proof. intros; split; [exact (tie_refresh_stale _ _)|exact (tie_do_build _ _ _ _)]. Qed.
Print Assumptions C06_source_refresh_and_store_contexts.

Theorem C06_source_detached_context :
  run_dc fn_detachedContext_Deadline [] = Some [VRec "time.Time" []; VB false] /\
  run_dc fn_detachedContext_Done [] = Some [VNil] /\
  run_dc fn_detachedContext_Err [] = Some [VNil] /\
  run_dc fn_detachedContext_Value [VPtr true "key"] = Some [VRec "parent's value for" [("key", VPtr true "key")]].
Proof. exact tie_detached_context. Qed.
Print Assumptions C06_source_detached_context.

Theorem C06_source_ctx_sync : forall sync_update has_err,
  run_ctx_sync fn_Failover_ctxSync sync_update has_err = Some (sync_update || has_err, negb (sync_update || has_err)) /\
  run_ctx_sync fn_FailoverOf_ctxSync sync_update has_err = Some (sync_update || has_err, negb (sync_update || has_err)).
Proof. exact tie_ctx_sync. Qed.
Print Assumptions C06_source_ctx_sync.
