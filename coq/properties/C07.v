(* C07 — the backends behave as a map with per-entry expiry. Statements only. *)
From Cache Require Import Base Backend Spec BackendProofs.

(* For every hash function, configuration and finite operation sequence (Write, Read, Delete,
   ExpireAll, DeleteAll, Len, Walk, Load, Store, cleanup; any TTL, SkipRead, clock and jitter inputs):
   if no two keys the sequence mentions collide under the hash, the hashed backend returns exactly
   what the reference map (Spec.v) returns — Walk up to order — and emits the same metric events. *)
Theorem C07_refines : forall hash c ops,
  collision_free hash (ops_keys ops) ->
  Forall2 res_equiv (b_run hash c b0 ops).1.2 (s_run c s0 ops).1.2
  /\ (b_run hash c b0 ops).2 = (s_run c s0 ops).2.
Proof. exact refines_collision_free. Qed.
Print Assumptions C07_refines.

(* SyncMap (string keys = an injective hash) satisfies the hypothesis for every key set. *)
Theorem C07_syncmap : forall c ops,
  Forall2 res_equiv (b_run syncmap_hash c b0 ops).1.2 (s_run c s0 ops).1.2
  /\ (b_run syncmap_hash c b0 ops).2 = (s_run c s0 ops).2.
Proof. intros c ops. apply refines_collision_free, inj_collision_free, syncmap_hash_inj. Qed.
Print Assumptions C07_syncmap.

(* What the reference map says, clause by clause of the property. *)
Theorem C07_skip_read_always_misses : forall c s k now, s_read c s k true now = (s, RErr ENotFound, []).
Proof. exact spec_skip_read. Qed.
Print Assumptions C07_skip_read_always_misses.

Theorem C07_read_returns_last_written : forall c s k v t now jit now',
  let s1 := (s_write c s k v t now jit).1.1 in
  let E := expire_at now (trait_ttl c t jit).1 in
  (s_read c s1 k false now').1.2 =
    if negb (E =? 0) && (E <? now') then RErr (EExpired v E) else RVal v.
Proof. exact spec_read_written. Qed.
Print Assumptions C07_read_returns_last_written.

Theorem C07_write_leaves_other_keys : forall c s k k' v t now jit,
  k' <> k -> sdata (s_write c s k v t now jit).1.1 !! k' = sdata s !! k'.
Proof. exact spec_write_other. Qed.
Print Assumptions C07_write_leaves_other_keys.

Theorem C07_delete_reports_missing_exactly : forall c s k,
  (s_step c s (ODelete k)).1.2 = match sdata s !! k with None => RErr ENotFound | Some _ => RUnit end
  /\ sdata (s_step c s (ODelete k)).1.1 !! k = None
  /\ forall k', k' <> k -> sdata (s_step c s (ODelete k)).1.1 !! k' = sdata s !! k'.
Proof. exact spec_delete_result. Qed.
Print Assumptions C07_delete_reports_missing_exactly.

Theorem C07_expire_all_keeps_stale : forall c s t k e now,
  sdata s !! k = Some e -> t <> 0 -> t < now ->
  let s1 := (s_step c s (OExpireAll t)).1.1 in
  size (sdata s1) = size (sdata s) /\
  (s_read c s1 k false now).1.2 = RErr (EExpired (eV e) t).
Proof. exact spec_expire_all_stale. Qed.
Print Assumptions C07_expire_all_keeps_stale.

Theorem C07_delete_all_empties : forall c s, sdata (s_step c s ODeleteAll).1.1 = ∅.
Proof. exact spec_delete_all_empty. Qed.
Print Assumptions C07_delete_all_empties.

Theorem C07_len_walk_key_set : forall c s,
  (s_step c s OLen).1.2 = RLen (Z.of_nat (size (sdata s))) /\
  (s_step c s OWalk).1.2 = RWalk ((map_to_list (sdata s)).*2) /\
  length (map_to_list (sdata s)).*2 = size (sdata s).
Proof. exact spec_len_walk. Qed.
Print Assumptions C07_len_walk_key_set.

(* Non-vacuity: a concrete collision-free run with a hit, an expired read, a delete and a miss. *)
Example C07_nonvacuous :
  let hash := fun k : key => match k with [] => 0%N | b :: _ => (b + 1)%N end in
  let ops := [OWrite [1%N] 5 0 100 0; ORead [1%N] false 200; ORead [1%N] false (100 + 6 * minute);
              ODelete [1%N]; ODelete [1%N]; OWrite [2%N] 7 (-1) 300 0; OExpireAll 400; ORead [2%N] false 500; OLen] in
  (b_run hash (mkBcfg 0 false LRU 0 0) b0 ops).1.2 =
    [RUnit; RVal 5; RErr (EExpired 5 (100 + 5 * minute)); RUnit; RErr ENotFound; RUnit; RUnit;
     RErr (EExpired 7 400); RLen 1].
Proof. vm_compute. reflexivity. Qed.

(* ---- tie to the source: the function bodies below are re-translated from /repo on every run
   (harness/cmd/gofunc -> theories/Generated/Funcs.v, interpreted by theories/GoIR.v); the statements say that
   the translated source computes what the model assumes, for ALL inputs. A change of the source that alters
   the computed function breaks the proof. ---- *)
From Coq Require Import String.
From Cache Require Import GoIR TieRead.
From Cache.Generated Require Import Funcs.
Open Scope string_scope.
Open Scope Z_scope.

(* Trait.PrepareRead and TraitOf[V].PrepareRead on a found entry: value while now <= E (or E = 0), ErrExpired
   carrying the value and the stored instant after; the usage counter and the metric event as the model has them *)
Theorem C07_source_read_found : forall c now has_log has_stat e,
  run_prepare_read fn_Trait_PrepareRead false c now has_log has_stat true e = Some (model_found c now e has_stat) /\
  run_prepare_read fn_TraitOf_PrepareRead true c now has_log has_stat true e = Some (model_found c now e has_stat).
Proof. intros; split; [exact (tie_prepare_read_found _ _ _ _ _) | exact (tie_prepare_read_of_found _ _ _ _ _)]. Qed.
Print Assumptions C07_source_read_found.

Theorem C07_source_read_missing : forall c now has_log has_stat e,
  run_prepare_read fn_Trait_PrepareRead false c now has_log has_stat false e = Some (model_missing has_stat e) /\
  run_prepare_read fn_TraitOf_PrepareRead true c now has_log has_stat false e = Some (model_missing has_stat e).
Proof. intros; split; [exact (tie_prepare_read_missing _ _ _ _ _) | exact (tie_prepare_read_of_missing _ _ _ _ _)]. Qed.
Print Assumptions C07_source_read_missing.

(* and the model's Read is exactly the lookup followed by that function *)
Theorem C07_model_read_is_prepare_read : forall hash c s k now,
  b_read hash c s k false now =
  match find hash (data s) k with
  | None => (s, RErr ENotFound, [(MMiss, 1)])
  | Some e => let '(r, cnt, ev) := model_found c now e true in
              (mkB (<[hash k := mkEntry (eK e) (eV e) (eE e) cnt]> (data s)) (expset s), r, ev)
  end.
Proof. exact b_read_is_prepare_read. Qed.
Print Assumptions C07_model_read_is_prepare_read.

From Cache Require Import TieBackend.

(* Read of the three backends: ErrNotFound without touching the map under SkipRead; otherwise one lookup (inside
   RLock/RUnlock for the sharded maps) whose verdict — found iff a resident entry carries this very key — is
   handed to PrepareRead, whose answer is returned *)
Theorem C07_source_read_lookup : forall skip present same err,
  run_read fn_shardedMap_Read skip present same = Some (read_spec_sharded skip present same) /\
  run (be_prims_of skip present same err) no_fcmp no_loop read_obs_of (fun _ => None) fn_shardedMapOf_Read be_args
      (be_leaves present) (fun _ => None) = Some (read_spec_sharded skip present same) /\
  run_read fn_syncMap_Read skip present true = Some (read_spec_sync skip present).
Proof.
  intros; split; [exact (tie_read_sharded _ _ _)|split; [exact (tie_read_sharded_of _ _ _ _)|exact (tie_read_sync _ _)]].
Qed.
Print Assumptions C07_source_read_lookup.

(* Delete reports ErrNotFound exactly when no entry with this key is resident; otherwise it removes the entry and
   reports one deletion *)
Theorem C07_source_delete : forall present same,
  (run_delete fn_shardedMap_Delete present same = Some (delete_spec_sharded present same) /\
   run_delete fn_shardedMapOf_Delete present same = Some (delete_spec_sharded present same)) /\
  run_delete fn_syncMap_Delete present true =
    Some (if present then ([("LoadAndDelete", []); ("NotifyDeleted", [])], true) else ([("LoadAndDelete", [])], false)).
Proof. intros; split; [exact (tie_delete_sharded _ _)|exact (tie_delete_sync _)]. Qed.
Print Assumptions C07_source_delete.

(* ExpireAll stamps every entry with the one instant read at the start and counts it (never-expiring entries included) *)
Theorem C07_source_expire_all : forall start cnt,
  (run_expire_all_body fn_shardedMap_ExpireAll start cnt = Some ([("store", [VStr "v.E"; VZ start])], Some (VZ (cnt + 1))) /\
   run_expire_all_body fn_shardedMapOf_ExpireAll start cnt = Some ([("store", [VStr "v.E"; VZ start])], Some (VZ (cnt + 1)))) /\
  run_expire_all_sync start cnt =
    Some ([("expireEntry", [VPtr true "key"; VPtr true "entry"; VZ start])], Some (VZ (cnt + 1)), true).
Proof. intros; split; [exact (tie_expire_all_sharded _ _)|exact (tie_expire_all_sync _ _)]. Qed.
Print Assumptions C07_source_expire_all.

(* SyncMap (go1.20+): an entry is expired by replacing it, CompareAndSwap against the entry Range handed out, with a
   copy that differs in E only *)
Theorem C07_source_sync_expire_entry : forall ts c,
  run_expire_entry ts c =
  Some [("CompareAndSwap", [VPtr true "key"; VPtr true "e";
                            VRec "TraitEntry" [("K", VPtr true "K"); ("V", VPtr true "V"); ("E", VZ ts); ("C", VZ c)]])].
Proof. exact tie_sync_expire_entry. Qed.
Print Assumptions C07_source_sync_expire_entry.

From Cache Require Import TieTransfer TieDefaults.

(* DeleteAll removes and counts every entry it iterates over; Len adds up the shard sizes / counts the entries Range
   hands out *)
Theorem C07_source_delete_all_and_len : forall cnt sz,
  (run_delete_all_body fn_shardedMap_DeleteAll cnt = Some ([("delete", [])], Some (VZ (cnt + 1))) /\
   run_delete_all_body fn_shardedMapOf_DeleteAll cnt = Some ([("delete", [])], Some (VZ (cnt + 1)))) /\
  run_sync_cb fn_syncMap_DeleteAll cnt = Some ([("delete", [])], Some (VZ (cnt + 1)), true) /\
  run_sync_cb fn_syncMap_Len cnt = Some ([], Some (VZ (cnt + 1)), true) /\
  (run_len_body fn_shardedMap_Len cnt sz = Some ([("RLock", []); ("RUnlock", [])], Some (VZ (cnt + sz))) /\
   run_len_body fn_shardedMapOf_Len cnt sz = Some ([("RLock", []); ("RUnlock", [])], Some (VZ (cnt + sz)))).
Proof.
  intros; split; [exact (tie_delete_all_sharded _)|split; [exact (tie_delete_all_sync _)|split; [exact (tie_len_sync _)|exact (tie_len_sharded _ _)]]].
Qed.
Print Assumptions C07_source_delete_all_and_len.

(* the configuration defaults the model applies (eff_ttl, eff_del_after, jitter 0 -> 0.1) are Trait.init's *)
Theorem C07_source_defaults : forall ttl da jz jit dis,
  run_init ttl da jz =
  Some (Some (VZ (eff_ttl (mkBcfg ttl jit dis da 0))), Some (VZ (eff_del_after (mkBcfg ttl jit dis da 0))),
        Some (VF (if jz then FConst 3602879701896397 36028797018963968 else FSym "ExpirationJitter"))).
Proof. exact tie_trait_defaults. Qed.
Print Assumptions C07_source_defaults.

(* Load and Store are Read and Write under the background context *)
Theorem C07_source_load_store : forall read_ok,
  (run_load fn_shardedMap_Load read_ok =
     Some ([("Read(bgCtx, key)", [])], if read_ok then [VStr "value read"; VB true] else [VNil; VB false]) /\
   run_load fn_shardedMapOf_Load read_ok =
     Some ([("Read(bgCtx, key)", [])], if read_ok then [VStr "value read"; VB true] else [VZ 0; VB false])) /\
  (run_store fn_shardedMap_Store = Some [("Write(bgCtx, key, val)", [VStr "value"])] /\
   run_store fn_shardedMapOf_Store = Some [("Write(bgCtx, key, val)", [VStr "value"])]).
Proof. intros; split; [exact (tie_load _)|exact tie_store]. Qed.
Print Assumptions C07_source_load_store.

(* ---- the SkipRead flag and what a caller reads out of entries and expiry errors ---- *)
From Cache Require Import TieCtx TieAccessors.

(* SkipRead(ctx) is the innermost binding of skipReadCtxKey{} in the context chain, whatever else is layered around it *)
Theorem C07_source_skip_read_flag : forall bs,
  run_ctx_fn fn_SkipRead bs = Some (VB (skip_flag bs)) /\
  run_ctx_fn fn_WithSkipRead bs = Some (enc_ctx (("skipReadCtxKey", VB true) :: bs)) /\
  run_ctx_fn fn_withoutSkipRead bs = Some (enc_ctx (("skipReadCtxKey", VB false) :: bs)).
Proof. intros bs. split; [exact (tie_skip_read bs)|exact (tie_with_skip_read bs)]. Qed.
Print Assumptions C07_source_skip_read_flag.

Theorem C07_skip_read_round_trip : forall outer bs, other_keys outer = true ->
  skip_flag (outer ++ ("skipReadCtxKey", VB true) :: bs)%list = true /\
  skip_flag (outer ++ ("skipReadCtxKey", VB false) :: bs)%list = false /\
  skip_flag outer = false.
Proof. exact skip_read_round_trip. Qed.
Print Assumptions C07_skip_read_round_trip.

(* the error of an expired entry: errors.Is(err, ErrExpired), Value() = the stored value, ExpiredAt() = the stored instant *)
Theorem C07_source_expired_error : forall at_,
  let lv := [("e.entry.V", VPtr true "V"); ("e.expiredAt", VZ at_)] in
  run_acc fn_errExpired_Value [VPtr true "e"] lv = Some [VPtr true "V"] /\
  run_acc fn_errExpired_ExpiredAt [VPtr true "e"] lv = Some [VRec "tsTime" [("ns", VZ at_)]] /\
  run_acc fn_errExpired_Error [VPtr true "e"] lv = Some [VStr "expired cache item"] /\
  run_acc fn_errExpired_Is [VPtr true "e"; VPtr true "err"] lv =
    Some [VRec "errors.Is" [("err", VPtr true "err"); ("target", VStr "expired cache item")]] /\
  run_acc fn_errExpiredOf_Value [VPtr true "e"] lv = Some [VPtr true "V"] /\
  run_acc fn_errExpiredOf_ExpiredAt [VPtr true "e"] lv = Some [VRec "tsTime" [("ns", VZ at_)]] /\
  run_acc fn_errExpiredOf_Error [VPtr true "e"] lv = Some [VStr "expired cache item"] /\
  run_acc fn_errExpiredOf_Is [VPtr true "e"; VPtr true "err"] lv =
    Some [VRec "errors.Is" [("err", VPtr true "err"); ("target", VStr "expired cache item")]].
Proof. exact tie_err_expired. Qed.
Print Assumptions C07_source_expired_error.

(* what a Walk callback reads: Key() = K, Value() = V, ExpireAt() = tsTime(E) *)
Theorem C07_source_entry_accessors : forall E,
  let lv := [("e.K", VPtr true "K"); ("e.V", VPtr true "V"); ("e.E", VZ E)] in
  run_acc fn_TraitEntry_Key [VPtr true "e"] lv = Some [VPtr true "K"] /\
  run_acc fn_TraitEntry_Value [VPtr true "e"] lv = Some [VPtr true "V"] /\
  run_acc fn_TraitEntry_ExpireAt [VPtr true "e"] lv = Some [VRec "tsTime" [("ns", VZ E)]] /\
  run_acc fn_TraitEntryOf_Key [VPtr true "e"] lv = Some [VPtr true "K"] /\
  run_acc fn_TraitEntryOf_Value [VPtr true "e"] lv = Some [VPtr true "V"] /\
  run_acc fn_TraitEntryOf_ExpireAt [VPtr true "e"] lv = Some [VRec "tsTime" [("ns", VZ E)]].
Proof. exact tie_entry_accessors. Qed.
Print Assumptions C07_source_entry_accessors.

Theorem C07_source_noop :
  run_acc fn_NoOp_Read [VPtr true "ctx"; VPtr true "key"] [] = Some [VNil; VStr "missing cache item"] /\
  run_acc fn_NoOp_Write [VPtr true "ctx"; VPtr true "key"; VPtr true "v"] [] = Some [VNil] /\
  run_acc fn_NoOp_Delete [VPtr true "ctx"; VPtr true "key"] [] = Some [VStr "missing cache item"].
Proof. exact tie_noop. Qed.
Print Assumptions C07_source_noop.
