(* C08 — per-key linearizability of the backends under concurrent use.

   Model: theories/BackendConc.v (one slot of a sharded backend, threads taking the atomic steps the
   source takes); specification: the sequential slot register [sspec], which is the slot view of the
   sequential backend model of C07/C09 (theorems C08_slot_view); canonical atomic object [accepts].
   This file only restates results proved in theories/BackendConcProofs.v. *)
From Cache Require Import Base Backend BackendConc BackendConcProofs.
From Cache.Generated Require Struct.

(* Every schedule of any number of threads produces a history that the atomic slot register accepts
   once a linearization point is inserted for every operation between its invocation and its response:
   linearizability, batch operations acting on the slot at one instant of their call. *)
Theorem C08_linearizable : forall (n : nat) (ls : list label),
  exists a', accepts (ainit n) (crun (cinit n) ls).2 = Some a'.
Proof. exact linearizable. Qed.
Print Assumptions C08_linearizable.

(* the instrumentation is ghost: the linearization items do not influence the run *)
Theorem C08_history_is_visible_part : forall tr, history tr = filter (fun i => visible i = true) tr.
Proof. reflexivity. Qed.
Print Assumptions C08_history_is_visible_part.

(* "a completed Write is visible to every later Read, a completed Delete is never followed by a read of
   the deleted value": with no mutation in flight, a Read invoked now answers from the slot as it is. *)
Theorem C08_quiet_read : forall a a' t k now r tr rest,
  quiet a -> Forall no_mut_inv tr -> Forall (not_res_of t) tr ->
  accepts a (IInv t (SRead k now) :: tr ++ IRes t r :: rest) = Some a' ->
  r = read_res k now (aslot a).
Proof. exact quiet_read. Qed.
Print Assumptions C08_quiet_read.

Theorem C08_after_write : forall s k v e c, (sspec s (SWrite k v e) c).1 = Some (mkS k v e).
Proof. exact after_write. Qed.
Print Assumptions C08_after_write.
Theorem C08_after_delete : forall s k c, holds_key k s = true -> (sspec s (SDelete k) c).1 = None.
Proof. exact after_delete. Qed.
Print Assumptions C08_after_delete.

(* "Walk reports only entries that were stored" *)
Theorem C08_only_stored : forall n tr a' x,
  accepts (ainit n) tr = Some a' -> aslot a' = Some x -> written tr x.
Proof. exact only_stored. Qed.
Print Assumptions C08_only_stored.

(* the slot register is the slot view of the sequential backend model *)
Theorem C08_slot_view_write : forall hash c s k v ttl now jit h,
  slot_of h (b_write hash c s k v ttl now jit).1.1 =
  if decide (hash k = h)
  then (sspec (slot_of h s) (SWrite k v (expire_at now (trait_ttl c ttl jit).1)) false).1
  else slot_of h s.
Proof. exact slot_write. Qed.
Print Assumptions C08_slot_view_write.
Theorem C08_slot_view_read : forall hash c s k now,
  (b_read hash c s k false now).1.2 = bres_of (sspec (slot_of (hash k) s) (SRead k now) false).2
  /\ forall h, slot_of h (b_read hash c s k false now).1.1 = slot_of h s.
Proof. intros; split; [apply slot_read_result|intros; apply slot_read_state]. Qed.
Print Assumptions C08_slot_view_read.
Theorem C08_slot_view_delete : forall hash s k h,
  slot_of h (b_delete hash s k).1.1 =
  (if decide (hash k = h) then (sspec (slot_of h s) (SDelete k) false).1 else slot_of h s)
  /\ (b_delete hash s k).1.2 = bres_of (sspec (slot_of (hash k) s) (SDelete k) false).2.
Proof. exact slot_delete. Qed.
Print Assumptions C08_slot_view_delete.
Theorem C08_slot_view_batch : forall c s now h hs,
  slot_of h (b_expire_all s now).1.1 = (sspec (slot_of h s) (SExpire now) false).1
  /\ slot_of h (b_delete_all s).1.1 = (sspec (slot_of h s) SClear false).1
  /\ ((negb (eff_ttl c =? unlimited) || (0 <? expset s)) = true ->
      slot_of h (b_delete_expired c s now) = (sspec (slot_of h s) (SDelExp (now - eff_del_after c)) false).1)
  /\ slot_of h (b_remove_hashes s hs) = (sspec (slot_of h s) (SEvict true) (bool_decide (h ∈ hs))).1.
Proof.
  intros. split_and!.
  - apply slot_expire_all.
  - apply slot_delete_all.
  - apply slot_delete_expired.
  - apply slot_remove_hashes.
Qed.
Print Assumptions C08_slot_view_batch.

(* the critical sections of the backend functions, re-extracted from /repo, are those the model assumes *)
Theorem C08_sections : Struct.sections = assumed_sections.
Proof. vm_compute. reflexivity. Qed.
Print Assumptions C08_sections.

(* non-vacuity: a Read that holds the entry a concurrent Write replaces is linearized by hindsight, before
   the Write, and still answers with the old value after the Write has completed *)
Example C08_hindsight :
  let k := [1%N] in
  (crun (cinit 3)
     [LInv 0 (SWrite k 5 0); LStep 0; LRes 0;
      LInv 1 (SRead k 10); LStep 1;
      LInv 2 (SWrite k 6 0); LStep 2; LRes 2;
      LStep 1; LRes 1]).2
  = [IInv 0 (SWrite k 5 0); ILin 0 false XUnit; IRes 0 XUnit;
     IInv 1 (SRead k 10);
     IInv 2 (SWrite k 6 0); ILin 1 false (XHit 5); ILin 2 false XUnit; IRes 2 XUnit;
     IRes 1 (XHit 5)].
Proof. vm_compute. reflexivity. Qed.

(* ---- tie to the source: the function bodies below are re-translated from /repo on every run
   (harness/cmd/gofunc -> theories/Generated/Funcs.v, interpreted by theories/GoIR.v) ---- *)
From Coq Require Import String.
From Cache Require Import GoIR.
From Cache.Generated Require Import Funcs.
Open Scope string_scope.
Open Scope Z_scope.
From Coq Require Import String.
From Cache Require Import GoIR TieWalk.
From Cache.Generated Require Import Funcs.
Open Scope string_scope.
Open Scope Z_scope.

(* a visit of Walk releases the shard's read lock around the callback, hands it a copy of the entry with E and C loaded
   atomically, and re-acquires the lock; each visited entry is counted once *)
Theorem C08_source_walk_visit : forall cb_ok e c n,
  run_visit fn_shardedMap_Walk cb_ok e c n =
    Some (if cb_ok then ([("RUnlock", []); ("callback", [copy_of "TraitEntry" e c]); ("RLock", [])], n + 1, VisitNext)
          else ([("RUnlock", []); ("callback", [copy_of "TraitEntry" e c])], n, VisitStop n)) /\
  run_visit fn_shardedMapOf_Walk cb_ok e c n =
    Some (if cb_ok then ([("RUnlock", []); ("callback", [copy_of "TraitEntryOf[V]" e c]); ("RLock", [])], n + 1, VisitNext)
          else ([("RUnlock", []); ("callback", [copy_of "TraitEntryOf[V]" e c])], n, VisitStop n)).
Proof. exact tie_walk_visit_sharded. Qed.
Print Assumptions C08_source_walk_visit.

(* ---- the defect K1 (D17) and its repair, inside the development ---- *)
From Cache Require Import Check SyncMapK1.

(* SyncMap's cleanup takes two steps per entry (judge the loaded expiry; CompareAndDelete that entry).  With ExpireAll
   re-stamping the entry IN PLACE (the code before the fix) the fine-grained slot model produces a history with no
   linearization under the sequential slot specification: C08 was false of SyncMap's cleanup racing ExpireAll.  The
   harness had reproduced this history on the real code. *)
Theorem C08_K1_in_place_refuted :
  In k1_witness (scheds2 InPlace) /\
  map o_res (history_of k1_witness) = [XUnit; XUnit; XExpired 5 k1_now; XUnit; XNotFound] /\
  forall l, l ≡ₚ history_of k1_witness -> c08_realtime l = true -> c08_legal [None] l = false.
Proof. split; [exact (proj2 k1_witness_history)|split; [exact (proj1 k1_witness_history)|exact (proj2 k1_in_place_refuted)]]. Qed.
Print Assumptions C08_K1_in_place_refuted.

(* With ExpireAll REPLACING the entry by CompareAndSwap (syncMap.expireEntry, the code now: C07_source_sync_expire_entry),
   every interleaving of a cleanup cycle with {ExpireAll; Read} — and with a Write racing both — on a long-expired
   entry has a linearization (10 resp. 60 interleavings, each history searched over all orders that respect real time) *)
Theorem C08_K1_swap_linearizable :
  forallb (fun sched => linearizable (history_of sched)) (scheds2 Swap) = true /\
  forallb (fun sched => linearizable (history_of sched)) (scheds3 Swap) = true /\
  (List.length (scheds2 Swap) = 10 /\ List.length (scheds3 Swap) = 60)%nat.
Proof. exact k1_swap_linearizable. Qed.
Print Assumptions C08_K1_swap_linearizable.

Theorem C08_K1_swap_linearizable_with_delete :
  forallb (fun sched => linearizable (history_of sched)) (scheds4 Swap) = true /\ List.length (scheds4 Swap) = 420%nat.
Proof. exact k1_swap_linearizable_with_delete. Qed.
Print Assumptions C08_K1_swap_linearizable_with_delete.

Theorem C08_K1_swap_linearizable_two :
  forallb (fun sched => linearizable (history_of sched)) scheds_two_expire = true /\
  forallb (fun sched => linearizable (history_of sched)) scheds_two_cleanup = true /\
  (List.length scheds_two_expire = 210 /\ List.length scheds_two_cleanup = 210)%nat.
Proof. exact k1_swap_linearizable_two. Qed.
Print Assumptions C08_K1_swap_linearizable_two.

(* D16, in the same slot model: the cleanup removing BY KEY what it judged (before fix 0d54a0a) loses a fresh entry a
   concurrent Write stored in between — a completed Write followed by a Read that finds nothing; removing with
   CompareAndDelete (the code now: C11_source_sync_delete_entry) is linearizable on every interleaving *)
Theorem C08_D16_by_key_refuted :
  existsb (fun sched => negb (linearizable (history_of sched))) (scheds_d16 true) = true /\
  In [XUnit; XUnit; XUnit; XNotFound] (map (fun sched => map o_res (history_of sched)) (scheds_d16 true)).
Proof. exact d16_by_key_refuted. Qed.
Print Assumptions C08_D16_by_key_refuted.

Theorem C08_D16_compare_and_delete_linearizable :
  forallb (fun sched => linearizable (history_of sched)) (scheds_d16 false) = true /\ List.length (scheds_d16 false) = 3%nat.
Proof. exact d16_compare_and_delete_linearizable. Qed.
Print Assumptions C08_D16_compare_and_delete_linearizable.
