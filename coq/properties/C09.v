(* C09 — keys are isolated: hash collisions may cost a miss, nothing else. Statements only. *)
From Cache Require Import Base Backend Spec BackendProofs.

(* For EVERY hash function (no injectivity assumed), configuration and operation sequence: each
   keyed operation (Read, Write, Delete, Load, Store) of the hashed backend returns either exactly
   what the reference map returns — hence never another key's value, stale item or deletion — or
   ErrNotFound. *)
Theorem C09_collision_costs_at_most_a_miss : forall hash c ops,
  Forall2 (fun orb rs => res_or_miss orb.1 orb.2 rs) (zip ops (b_run hash c b0 ops).1.2) (s_run c s0 ops).1.2.
Proof. exact isolated_any_hash. Qed.
Print Assumptions C09_collision_costs_at_most_a_miss.

(* The invariant behind it, for one step from any related pair of states: every resident entry sits
   in the slot of its own key and is, unchanged, the reference map's entry for that key. *)
Theorem C09_step_isolated : forall hash c b s o b' s' rb rs evb evs,
  Rel1 hash b s ->
  b_step hash c b o = (b', rb, evb) -> s_step c s o = (s', rs, evs) ->
  Rel1 hash b' s' /\ (keyed o = true -> (rb = rs /\ evb = evs) \/ rb = RErr ENotFound).
Proof. exact step_R1. Qed.
Print Assumptions C09_step_isolated.

(* a lookup only ever answers with an entry stored under exactly the requested key *)
Theorem C09_find_exact_key : forall hash m k e,
  find hash m k = Some e <-> m !! hash k = Some e /\ eK e = k.
Proof. exact find_Some. Qed.
Print Assumptions C09_find_exact_key.

(* Non-vacuity: a constant hash (everything collides): writes evict each other, reads miss, nothing leaks. *)
Example C09_nonvacuous :
  let hash := fun _ : key => 7%N in
  (b_run hash (mkBcfg 0 false MostExpired 0 0) b0
     [OWrite [1%N] 5 0 100 0; OWrite [2%N] 6 0 100 0; ORead [1%N] false 200; ORead [2%N] false 200;
      ODelete [1%N]; ORead [2%N] false 200; OLen]).1.2
  = [RUnit; RUnit; RErr ENotFound; RVal 6; RErr ENotFound; RVal 6; RLen 1].
Proof. vm_compute. reflexivity. Qed.

(* ---- tie to the source: the function bodies below are re-translated from /repo on every run
   (harness/cmd/gofunc -> theories/Generated/Funcs.v, interpreted by theories/GoIR.v) ---- *)
From Coq Require Import String.
From Cache Require Import GoIR TieBackend.
From Cache.Generated Require Import Funcs.
Open Scope string_scope.
Open Scope Z_scope.

(* Read and Delete of the sharded maps act on the resident entry only when bytes.Equal(entry.K, key) holds: a
   resident entry of another key with the same hash is a miss / ErrNotFound and is left alone *)
Theorem C09_source_key_check : forall skip present same,
  run_read fn_shardedMap_Read skip present same = Some (read_spec_sharded skip present same) /\
  run_delete fn_shardedMap_Delete present same = Some (delete_spec_sharded present same) /\
  run_delete fn_shardedMapOf_Delete present same = Some (delete_spec_sharded present same).
Proof.
  intros; split; [exact (tie_read_sharded _ _ _)|exact (tie_delete_sharded _ _)].
Qed.
Print Assumptions C09_source_key_check.

(* Write stores a fresh copy of the key (make + copy), never the caller's slice, in all three backends, and hands
   that copy to NotifyWritten *)
Theorem C09_source_write_copies_key : forall v ttl at_,
  run_write fn_shardedMap_Write v ttl at_ = Some (write_spec true "TraitEntry" v ttl at_) /\
  run_write fn_shardedMapOf_Write v ttl at_ = Some (write_spec true "TraitEntryOf[V]" v ttl at_) /\
  run_write fn_syncMap_Write v ttl at_ = Some (write_spec false "TraitEntry" v ttl at_).
Proof. exact tie_write. Qed.
Print Assumptions C09_source_write_copies_key.

From Cache Require Import TieGet.

(* Failover.Get and FailoverOf.Get follow the model's single-thread path on every one of the 7680 combinations of
   configuration and call-out outcomes: same reads, stale re-store, failure-cache hit, build (before or after the
   return), warning, returned and published (value, error), election and release inside f.lock, key copy before a
   background build — here: the key copy the background build and its release work on *)
Theorem C09_source_get_follows_model : forall i,
  src_obs Failover.Legacy i = Some (model_obs Failover.Legacy i) /\ src_obs Failover.Generic i = Some (model_obs Failover.Generic i).
Proof. intros i; split; [exact (tie_get_legacy i)|exact (tie_get_generic i)]. Qed.
Print Assumptions C09_source_get_follows_model.

(* ---- the key-tag predicate of the correspondence check is proved of the model ---- *)
From Cache Require Import Failover FailoverRun FailoverObs Check FailoverKeysObs.

(* every backend access, builder call and return in the log of every reachable state carries the key of the Get (or of
   the Get whose background build) it belongs to — the third conjunct of C09F_obs, for the model's own spawn labels *)
Theorem C09_trace_predicate_sound : forall fe nilb c ls s,
  frun fe nilb c f0 ls = Some s -> tags_ok (lspawns ls) (flog s) = true.
Proof. exact c09_tags_hold. Qed.
Print Assumptions C09_trace_predicate_sound.
