(* C10 — every entry's expiry lies within the documented TTL bounds. Statements only. *)
From Cache Require Import Base Backend Spec Jitter JitterProofs.

(* A write at instant [now] with context TTL [ctx] under configuration [c], J = Jn/Jd in (0,1]:
   T = the context TTL if non-zero, else TimeToLive (default 5m).
   - UnlimitedTTL and no context TTL: the entry never expires (E = 0);
   - jitter disabled: E = now + T exactly;
   - jitter enabled, for every jitter term within |T|*J/2 (+ the stated IEEE rounding slack
     |T|/2^50 ns): E = now + T + jit lies within |T|*J/2 (+slack) of now + T, and is a real
     expiry (the jittered TTL never collapses to "never"). T ranges over all of Z: ns to years,
     positive and negative. *)
Theorem C10_bounds : forall c ctx now jit Jn Jd,
  0 < Jd -> 0 < Jn <= Jd ->
  let T := effective_ttl c ctx in
  let E := write_expiry c ctx now jit in
  (ctx = 0 /\ eff_ttl c = unlimited -> E = 0) /\
  (~ (ctx = 0 /\ eff_ttl c = unlimited) ->
     (c_jitter c = false -> E = if T =? 0 then 0 else now + T) /\
     (c_jitter c = true -> T <> 0 -> jit_ok Jn Jd T jit ->
        E <> now /\ E = now + T + jit /\
        2 * Jd * Z.abs (E - (now + T)) <= Z.abs T * Jn + 2 * Jd * slack T)).
Proof. exact expiry_bounds. Qed.
Print Assumptions C10_bounds.

(* Reads before or at the stored instant return the value, reads after it return ErrExpired
   carrying that instant; entries without expiry are always served. *)
Theorem C10_read_threshold : forall c s k e now,
  sdata s !! k = Some e ->
  (s_read c s k false now).1.2 =
    if (eE e =? 0) then RVal (eV e)
    else if (now <=? eE e) then RVal (eV e) else RErr (EExpired (eV e) (eE e)).
Proof. exact read_threshold. Qed.
Print Assumptions C10_read_threshold.

(* ErrExpired.ExpiredAt equals the instant Walk reports for the entry. *)
Theorem C10_expired_at_is_walk_instant : forall c s k e now v at_,
  sdata s !! k = Some e ->
  (s_read c s k false now).1.2 = RErr (EExpired v at_) ->
  at_ = eE e /\ e ∈ (map_to_list (sdata s)).*2.
Proof. exact expired_at_is_walk_instant. Qed.
Print Assumptions C10_expired_at_is_walk_instant.

(* the stored expiry of the hashed backends is [write_expiry] (definitional link to Backend.v) *)
Theorem C10_backend_stores_write_expiry : forall hash c s k v ctx now jit,
  data (b_write hash c s k v ctx now jit).1.1 !! hash k = Some (mkEntry k v (write_expiry c ctx now jit) 0).
Proof.
  intros. unfold b_write, write_expiry. destruct (trait_ttl c ctx jit). cbn. apply lookup_insert.
Qed.
Print Assumptions C10_backend_stores_write_expiry.

Example C10_nonvacuous :
  let c := mkBcfg hour true MostExpired 0 0 in
  jit_ok 1 10 (effective_ttl c 0) 123456789 /\ write_expiry c 0 1000 123456789 = 1000 + hour + 123456789
  /\ write_expiry (mkBcfg (-1) true MostExpired 0 0) 0 1000 5 = 0.
Proof. vm_compute. repeat split; discriminate. Qed.

(* ---- tie to the source: the function bodies below are re-translated from /repo on every run
   (harness/cmd/gofunc -> theories/Generated/Funcs.v, interpreted by theories/GoIR.v); the statements say that
   the translated source computes what the model assumes, for ALL inputs. A change of the source that alters
   the computed function breaks the proof. ---- *)
From Cache Require Import GoIR TieRead TieTTL.
From Cache.Generated Require Import Funcs.

(* Trait.TTL: the effective TTL and the expirationsSet increment are the model's trait_ttl, the jitter term being
   Duration(float64(T) * ExpirationJitter * (rand.Float64() - 0.5)) of the base TTL T, for ANY float-to-integer
   conversion [ftrunc] (its rounding is bounded separately: C10_bounds) *)
Theorem C10_source_ttl : forall ftrunc c ctx_ttl,
  run_trait_ttl ftrunc c ctx_ttl =
  Some (trait_ttl c ctx_ttl (jitter_formula ftrunc (if ctx_ttl =? 0 then eff_ttl c else ctx_ttl))).
Proof. exact tie_trait_ttl. Qed.
Print Assumptions C10_source_ttl.

(* Trait.expireAt: TTL 0 = never (0), otherwise now + ttl *)
Theorem C10_source_expire_at : forall ttl now, run_expire_at ttl now = Some (ttl, expire_at now ttl).
Proof. exact tie_expire_at. Qed.
Print Assumptions C10_source_expire_at.

(* the read threshold in the source (both PrepareRead variants) is the model's [expired] *)
Theorem C10_source_threshold : forall c now has_log has_stat e,
  run_prepare_read fn_Trait_PrepareRead false c now has_log has_stat true e = Some (model_found c now e has_stat) /\
  run_prepare_read fn_TraitOf_PrepareRead true c now has_log has_stat true e = Some (model_found c now e has_stat).
Proof. intros; split; [exact (tie_prepare_read_found _ _ _ _ _) | exact (tie_prepare_read_of_found _ _ _ _ _)]. Qed.
Print Assumptions C10_source_threshold.

From Cache Require Import TieCompose.

(* composed: the expiry instant the SOURCE computes for a write (translated Trait.TTL, then translated Trait.expireAt) is
   the model's write_expiry with the jitter term Duration(float64(T)*ExpirationJitter*(rand.Float64()-0.5)), hence lies
   within the documented bounds whenever the float-to-integer conversion keeps that term within |T|*J/2 (+ slack) —
   the one assumption about IEEE arithmetic that remains *)
Theorem C10_source_write_expiry : forall ftrunc c ctx now ttl inc r,
  run_trait_ttl ftrunc c ctx = Some (ttl, inc) ->
  run_expire_at ttl now = Some r ->
  r.2 = write_expiry c ctx now (jitter_formula ftrunc (effective_ttl c ctx)).
Proof. exact source_write_expiry. Qed.
Print Assumptions C10_source_write_expiry.

Theorem C10_source_expiry_within_bounds : forall ftrunc c ctx now ttl inc r Jn Jd,
  0 < Jd -> 0 < Jn <= Jd ->
  run_trait_ttl ftrunc c ctx = Some (ttl, inc) ->
  run_expire_at ttl now = Some r ->
  let T := effective_ttl c ctx in
  ~ (ctx = 0 /\ eff_ttl c = unlimited) -> c_jitter c = true -> T <> 0 ->
  jit_ok Jn Jd T (jitter_formula ftrunc T) ->
  r.2 <> now /\ 2 * Jd * Z.abs (r.2 - (now + T)) <= Z.abs T * Jn + 2 * Jd * slack T.
Proof. exact source_expiry_within_bounds. Qed.
Print Assumptions C10_source_expiry_within_bounds.

(* ---- IEEE-754: the assumption about the jitter term discharged (theories/JitterIEEE.v, Flocq) ----
   With the float term of the source's formula evaluated in binary64 arithmetic (int64 -> float64 conversion, two
   multiplications and the subtraction rounded to nearest even with gradual underflow, truncation toward zero), for EVERY
   TTL T <> 0, every ExpirationJitter 0 < J <= 1 and every draw 0 <= r < 1: the jittered TTL never collapses to 0 and the
   expiry instant lies within |T|*J/2 + |T|/2^50 of now + T (over the reals).  These two theorems depend on the axioms of
   the classical real numbers of the Coq standard library (through Reals and Flocq), named in the trusted base. *)
From Coq Require Import Reals.
From Cache Require Import JitterIEEE.
Open Scope Z_scope.

Theorem C10_ieee_bounds : forall (c : bcfg) (ctx now : Z) (J r : R),
  (0 < J <= 1)%R -> (0 <= r < 1)%R ->
  let T := effective_ttl c ctx in
  let jit := jitter_formula (ftrunc_ieee J r) T in
  let E := write_expiry c ctx now jit in
  ~ (ctx = 0 /\ eff_ttl c = unlimited) -> c_jitter c = true -> T <> 0 ->
  E <> now /\ E = now + T + jit /\
  (Rabs (IZR (E - (now + T))) <= Rabs (IZR T) * J / 2 + Rabs (IZR T) / 1125899906842624)%R.
Proof. exact expiry_bounds_ieee. Qed.
Print Assumptions C10_ieee_bounds.

Theorem C10_source_expiry_ieee : forall (c : bcfg) (ctx now ttl inc : Z) (res : Z * Z) (J r : R),
  (0 < J <= 1)%R -> (0 <= r < 1)%R ->
  run_trait_ttl (ftrunc_ieee J r) c ctx = Some (ttl, inc) ->
  run_expire_at ttl now = Some res ->
  let T := effective_ttl c ctx in
  ~ (ctx = 0 /\ eff_ttl c = unlimited) -> c_jitter c = true -> T <> 0 ->
  res.2 <> now /\
  (Rabs (IZR (res.2 - (now + T))) <= Rabs (IZR T) * J / 2 + Rabs (IZR T) / 1125899906842624)%R.
Proof. exact source_expiry_ieee. Qed.
Print Assumptions C10_source_expiry_ieee.

(* ---- instants: ts and tsTime ---- *)
From Coq Require Import String.
From Cache Require Import TieAccessors.
Open Scope string_scope.
Open Scope Z_scope.

(* ts(t) = t.UnixNano(); tsTime(ns) = time.Unix(ns / 1e9, ns % 1e9) with Go's truncating division — the pair denotes ns *)
Theorem C10_source_instants : forall ns,
  run_acc fn_ts [VPtr true "t"] [] = Some [VRec "t.UnixNano()" []] /\
  run_acc fn_tsTime [VZ ns] [] =
    Some [VRec "time.Unix" [("sec", VZ (Z.quot ns 1000000000)); ("nsec", VZ (Z.rem ns 1000000000))]] /\
  Z.quot ns 1000000000 * 1000000000 + Z.rem ns 1000000000 = ns.
Proof. intros ns. destruct (tie_ts ns) as [H1 H2]. split; [exact H1|split; [exact H2|exact (ts_round_trip ns)]]. Qed.
Print Assumptions C10_source_instants.
