(* C11 — the janitor deletes only entries expired longer than DeleteExpiredAfter. Statements only. *)
From Cache Require Import Base Backend Spec Cleanup CleanupProofs.

(* One cleanup cycle at [now] (no eviction limit breached): when the cycle is active (finite
   TimeToLive, or UnlimitedTTL with at least one expiration ever set) the surviving entries are
   EXACTLY those that are not (expiring and expired before now - DeleteExpiredAfter); otherwise the
   cache is unchanged. Never-expiring entries (E = 0) always survive. Any content, any hash. *)
Theorem C11_cycle_exact : forall c s now h e,
  let s' := b_delete_expired c s now in
  (negb (eff_ttl c =? unlimited) || (0 <? expset s) = true ->
     (data s' !! h = Some e <->
      data s !! h = Some e /\ ~ (eE e <> 0 /\ eE e < now - eff_del_after c))) /\
  (negb (eff_ttl c =? unlimited) || (0 <? expset s) = false -> s' = s).
Proof. exact delete_expired_exact. Qed.
Print Assumptions C11_cycle_exact.

(* Any number of cycles at instants up to tmax: every entry that never expires, or whose expiry is
   not more than DeleteExpiredAfter before tmax (fresh or recently expired), is still there
   unchanged; and cycles never add or alter entries. *)
Theorem C11_survivors : forall c nows s tmax h e,
  Forall (fun t => t <= tmax) nows -> data s !! h = Some e -> survivor c tmax e ->
  data (cycles c s nows) !! h = Some e.
Proof. exact cycles_keep. Qed.
Print Assumptions C11_survivors.

Theorem C11_cycles_only_remove : forall c nows s h e,
  data (cycles c s nows) !! h = Some e -> data s !! h = Some e.
Proof. exact cycles_only_remove. Qed.
Print Assumptions C11_cycles_only_remove.

Example C11_nonvacuous :
  let hash := fun k : key => match k with [] => 0%N | b :: _ => (b + 1)%N end in
  let c := mkBcfg (-1) false MostExpired hour 0 in
  (b_run hash c b0
     [OWrite [1%N] 1 0 0 0;             (* never expires *)
      OWrite [2%N] 2 minute 0 0;        (* expires at 1m *)
      OWrite [3%N] 3 (10 * hour) 0 0;   (* fresh *)
      OCleanup (3 * hour) []; OLen; ORead [1%N] false (4 * hour); ORead [2%N] false (4 * hour)]).1.2
  = [RUnit; RUnit; RUnit; RUnit; RLen 2; RVal 1; RErr ENotFound].
Proof. vm_compute. reflexivity. Qed.
