(* C11 — the janitor deletes only entries expired longer than DeleteExpiredAfter. Statements only. *)
From Cache Require Import Base Backend Spec Cleanup CleanupProofs.

(* One cleanup cycle at [now] (no eviction limit breached): when the cycle is active (finite
   TimeToLive, or UnlimitedTTL with at least one expiration ever set) the surviving entries are
   EXACTLY those that are not (expiring and expired before now - DeleteExpiredAfter); otherwise the
   cache is unchanged. Never-expiring entries (E = 0) always survive. Any content, any hash. *)
Theorem C11_cycle_exact : forall c s now h e,
  let s' := b_delete_expired c s now in
  (negb (eff_ttl c =? unlimited) || (0 <? expset s) = true ->
     (data s' !! h = Some e <->
      data s !! h = Some e /\ ~ (eE e <> 0 /\ eE e < now - eff_del_after c))) /\
  (negb (eff_ttl c =? unlimited) || (0 <? expset s) = false -> s' = s).
Proof. exact delete_expired_exact. Qed.
Print Assumptions C11_cycle_exact.

(* Any number of cycles at instants up to tmax: every entry that never expires, or whose expiry is
   not more than DeleteExpiredAfter before tmax (fresh or recently expired), is still there
   unchanged; and cycles never add or alter entries. *)
Theorem C11_survivors : forall c nows s tmax h e,
  Forall (fun t => t <= tmax) nows -> data s !! h = Some e -> survivor c tmax e ->
  data (cycles c s nows) !! h = Some e.
Proof. exact cycles_keep. Qed.
Print Assumptions C11_survivors.

Theorem C11_cycles_only_remove : forall c nows s h e,
  data (cycles c s nows) !! h = Some e -> data s !! h = Some e.
Proof. exact cycles_only_remove. Qed.
Print Assumptions C11_cycles_only_remove.

Example C11_nonvacuous :
  let hash := fun k : key => match k with [] => 0%N | b :: _ => (b + 1)%N end in
  let c := mkBcfg (-1) false MostExpired hour 0 in
  (b_run hash c b0
     [OWrite [1%N] 1 0 0 0;             (* never expires *)
      OWrite [2%N] 2 minute 0 0;        (* expires at 1m *)
      OWrite [3%N] 3 (10 * hour) 0 0;   (* fresh *)
      OCleanup (3 * hour) []; OLen; ORead [1%N] false (4 * hour); ORead [2%N] false (4 * hour)]).1.2
  = [RUnit; RUnit; RUnit; RUnit; RLen 2; RVal 1; RErr ENotFound].
Proof. vm_compute. reflexivity. Qed.

(* ---- tie to the source: the function bodies below are re-translated from /repo on every run
   (harness/cmd/gofunc -> theories/Generated/Funcs.v, interpreted by theories/GoIR.v); the statements say that
   the translated source computes what the model assumes, for ALL inputs. A change of the source that alters
   the computed function breaks the proof. ---- *)
From Coq Require Import String.
From Cache Require Import GoIR TieCleanup.
Open Scope string_scope.
Open Scope Z_scope.
From Cache.Generated Require Import Funcs.

(* Trait.invokeCleanup: the delete-expired scan runs iff TimeToLive is finite or an expiration was ever set, with
   boundary now - DeleteExpiredAfter; eviction runs iff a limit is breached or EvictionNeeded() holds *)
Theorem C11_source_cleanup_cycle : forall c i,
  run_cleanup c i =
  Some (if scan_runs c i then [[VZ (ci_now i - eff_del_after c)]] else [],
        if evicts i then [[VF (evict_fraction i)]] else [],
        if evicts i && ci_has_stat i then [[VStr "cache_evict"; VF (FOfZ (ci_evicted i))]] else []).
Proof. exact tie_invoke_cleanup. Qed.
Print Assumptions C11_source_cleanup_cycle.

(* the three deleteExpired loops remove an entry iff it expires (E <> 0) and expired before the boundary *)
Theorem C11_source_delete_expired : forall boundary e,
  run_sharded_body fn_shardedMap_deleteExpired boundary e = Some (long_expired boundary e) /\
  run_sharded_body fn_shardedMapOf_deleteExpired boundary e = Some (long_expired boundary e) /\
  run_sync_body boundary e = Some (long_expired boundary e, true).
Proof.
  intros; split; [exact (tie_delete_expired_sharded _ _)|split; [exact (tie_delete_expired_sharded_of _ _)|exact (tie_delete_expired_sync _ _)]].
Qed.
Print Assumptions C11_source_delete_expired.

(* ---- the janitor goroutine: when cleanup cycles happen at all ---- *)
From Cache Require Import TieDefaults.

(* one turn of Trait.janitor: wait DeleteExpiredJobInterval, run exactly one cleanup cycle, go round; on Closed return *)
Theorem C11_source_janitor_turn : forall interval debug stat len,
  run_turn fn_Trait_janitor "c.Config.DeleteExpiredJobInterval" interval debug stat 0 len =
    Some (false, [("After", [VZ interval]); ("invokeCleanup", [])]) /\
  run_turn fn_Trait_janitor "c.Config.DeleteExpiredJobInterval" interval debug stat 1 len =
    Some (true, ("After", [VZ interval]) :: (if debug then [("log", [VStr "closing cache janitor"])] else [])).
Proof. exact tie_janitor. Qed.
Print Assumptions C11_source_janitor_turn.

(* Trait.init starts it iff the backend installed DeleteExpired or Evict; the interval defaults to one hour *)
Theorem C11_source_janitor_started : forall stats len de ev ji ri,
  run_init_gos stats len de ev ji ri =
  Some ((if stats && len then [VStr "c.reportItemsCount"] else []) ++ (if de || ev then [VStr "c.janitor"] else []),
        Some (VZ (if ji =? 0 then 3600 * sec else ji)), Some (VZ (if ri =? 0 then 60 * sec else ri)))%list.
Proof. exact tie_trait_goroutines. Qed.
Print Assumptions C11_source_janitor_started.

(* SyncMap's scan deletes with CompareAndDelete(key, examined entry) *)
From Cache Require Import TieAccessors.
Theorem C11_source_sync_delete_entry :
  run_delete_entry = Some [("CompareAndDelete", [VPtr true "key"; VPtr true "e"])].
Proof. exact tie_sync_delete_entry. Qed.
Print Assumptions C11_source_sync_delete_entry.

(* ---- the window predicate of the correspondence check is proved of the model ---- *)
From Cache Require Import Check CheckProofs.

(* for every hash function, configuration and operation sequence, the model's own results satisfy the predicate the
   check evaluates on the implementation's observations ([Walk B; writes; cleanup; Walk A] => A is B with the writes
   applied minus exactly the long-expired entries): a violation verdict is a trace the model cannot produce *)
Theorem C11_window_predicate_sound : forall hash cfg ops,
  c11_scan hash cfg b0 ops (b_run hash cfg b0 (map no_victims ops)).1.2 None = true.
Proof. exact c11_scan_model_runs. Qed.
Print Assumptions C11_window_predicate_sound.
