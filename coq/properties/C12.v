(* C12 — eviction removes the right amount in strategy order. Statements only. *)
From Cache Require Import Base Backend Spec Cleanup CleanupProofs.
From Coq Require Import Sorting.Sorted.

(* evictLeast with ANY sorting routine that returns a sorted permutation (sort.Slice is unstable,
   map iteration order arbitrary): every removed entry ranks no higher than every kept entry under
   the strategy's metric (expiry instant; last-served stamp; serve count). *)
Theorem C12_rank : forall sort,
  (forall l, sort l ≡ₚ l) -> (forall l, StronglySorted le2 (sort l)) ->
  forall st m n h e h' e',
  m !! h = Some e -> evict_least sort st m n !! h = None ->
  evict_least sort st m n !! h' = Some e' ->
  metric st e <= metric st e'.
Proof. exact evict_rank. Qed.
Print Assumptions C12_rank.

(* exactly min(n, size) entries go, the others are untouched *)
Theorem C12_amount : forall sort,
  (forall l, sort l ≡ₚ l) -> (forall l, StronglySorted le2 (sort l)) ->
  forall st m n, size (evict_least sort st m n) = (size m - min n (size m))%nat.
Proof. exact evict_size. Qed.
Print Assumptions C12_amount.

Theorem C12_untouched : forall sort st m n h e,
  evict_least sort st m n !! h = Some e -> m !! h = Some e.
Proof. exact evict_untouched. Qed.
Print Assumptions C12_untouched.

(* count breach: evicting n within one entry of cnt*(1 - L(1-f)/cnt) leaves a count within one entry
   of CountSoftLimit*(1-EvictFraction)  (f = fn/fd) *)
Theorem C12_count_target : forall cnt L fn fd n,
  0 < fd -> 0 < cnt ->
  Z.abs (n * fd - (cnt * fd - L * (fd - fn))) <= fd ->
  Z.abs ((cnt - n) * fd - L * (fd - fn)) <= fd.
Proof. exact count_target. Qed.
Print Assumptions C12_count_target.

(* no eviction without breach: a cleanup cycle whose victim list is empty only applies deleteExpired *)
Theorem C12_only_on_breach : forall hash c s now,
  (b_step hash c s (OCleanup now [])).1.1 = b_delete_expired c s now.
Proof. intros. cbn. destruct (b_delete_expired c s now). reflexivity. Qed.
Print Assumptions C12_only_on_breach.

(* ---- tie to the source: the function bodies below are re-translated from /repo on every run
   (harness/cmd/gofunc -> theories/Generated/Funcs.v, interpreted by theories/GoIR.v); the statements say that
   the translated source computes what the model assumes, for ALL inputs. A change of the source that alters
   the computed function breaks the proof. ---- *)
From Coq Require Import String.
From Cache Require Import GoIR TieCleanup.
Open Scope string_scope.
Open Scope Z_scope.
From Cache.Generated Require Import Funcs.

(* Trait.invokeCleanup: Evict is called iff a soft limit is exceeded or EvictionNeeded() returns true, with
   EvictFraction (0 -> 0.1), rescaled on a count breach to 1 - CountSoftLimit*(1-frac)/count; cache_evict is
   reported with the number Evict returned *)
Theorem C12_source_eviction_decision : forall c i,
  run_cleanup c i =
  Some (if scan_runs c i then [[VZ (ci_now i - eff_del_after c)]] else [],
        if evicts i then [[VF (evict_fraction i)]] else [],
        if evicts i && ci_has_stat i then [[VStr "cache_evict"; VF (FOfZ (ci_evicted i))]] else []).
Proof. exact tie_invoke_cleanup. Qed.
Print Assumptions C12_source_eviction_decision.

Theorem C12_source_count_overflow : forall limit len has_len,
  run_count_overflow limit len has_len =
  Some (if (limit =? 0) || negb has_len then (0, false) else (len, limit <? len)).
Proof. exact tie_count_overflow. Qed.
Print Assumptions C12_source_count_overflow.

(* the usage counter eviction ranks by is maintained by PrepareRead exactly as the model's [bump] *)
From Cache Require Import TieRead.
Theorem C12_source_usage_counter : forall c now has_log has_stat e,
  run_prepare_read fn_Trait_PrepareRead false c now has_log has_stat true e = Some (model_found c now e has_stat) /\
  run_prepare_read fn_TraitOf_PrepareRead true c now has_log has_stat true e = Some (model_found c now e has_stat).
Proof. intros; split; [exact (tie_prepare_read_found _ _ _ _ _) | exact (tie_prepare_read_of_found _ _ _ _ _)]. Qed.
Print Assumptions C12_source_usage_counter.

From Cache Require Import TieEvict.

(* evictLeast: collect (hash/key, metric); sort ascending by metric; delete the first int(float64(len) * fraction);
   the metric is E for evictMostExpired and C for evictLeastCounter *)
Theorem C12_source_evict_least_sharded : forall ftrunc f, f = fn_shardedMap_evictLeast \/ f = fn_shardedMapOf_evictLeast ->
  exists p, sharded_parts f = Some p /\
    less_ok ftrunc p /\ count_ok ftrunc p /\ del_header_ok p /\
    run_part_v ftrunc (ep_var p) (ep_collect p) 0 0 0 =
      Some (inr None, [("collect", [VRec "evictLeastEntry" [("hash", VPtr true "hash of the entry"); ("val", VRec "metric of" [("entry", VPtr true "entry")])]])]) /\
    run_part ftrunc (ep_del_body p) 0 0 0 =
      Some (inr None, [("Lock", []); ("delete by hash", [VPtr true "hash of entries[i]"]); ("Unlock", [])]).
Proof. exact tie_evict_sharded. Qed.
Print Assumptions C12_source_evict_least_sharded.

Theorem C12_source_evict_least_sync : forall ftrunc,
  exists p, sync_parts fn_syncMap_evictLeast = Some p /\
    less_ok ftrunc p /\ count_ok ftrunc p /\ del_header_ok p /\
    run_part ftrunc (ep_collect p) 0 0 0 =
      Some (inl [VB true],
            [("collect", [VRec "en" [("val", VRec "metric of" [("entry", VPtr true "entry")]);
                                     ("key", VRec "string" [("of", VPtr true "key of the entry")])]])]) /\
    run_part ftrunc (ep_del_body p) 0 0 0 = Some (inr None, [("delete by key", [VPtr true "key of entries[i]"])]).
Proof. exact tie_evict_sync. Qed.
Print Assumptions C12_source_evict_least_sync.

Theorem C12_source_evict_metrics :
  metric_field fn_shardedMap_evictMostExpired = Some "i.E" /\ metric_field fn_shardedMap_evictLeastCounter = Some "i.C".
Proof. exact tie_evict_metrics. Qed.
Print Assumptions C12_source_evict_metrics.

(* the backends install evictMostExpired, or evictLeastCounter when the strategy is not EvictMostExpired, as Trait.Evict
   (together with their own deleteExpired and Len) *)
Theorem C12_source_strategy_selection :
  strategy_selection (gf_body fn_NewShardedMap) = Some ("c.evictMostExpired", "c.evictLeastCounter", true) /\
  strategy_selection (gf_body fn_NewSyncMap) = Some ("c.evictMostExpired", "c.evictLeastCounter", true) /\
  strategy_selection (gf_body fn_NewShardedMapOf) = Some ("c.evictMostExpired", "c.evictLeastCounter", true).
Proof. exact tie_strategy_selection. Qed.
Print Assumptions C12_source_strategy_selection.

(* the memory triggers: no limit -> never; else the figure ReadMemStats reports exceeds the limit *)
Theorem C12_source_mem_overflow : forall limit heap sys,
  run_mem_overflow fn_Trait_heapInUseOverflow "c.Config.HeapInUseSoftLimit" limit heap sys =
    Some (if limit =? 0 then (false, 0%nat) else (limit <? heap, 1%nat)) /\
  run_mem_overflow fn_Trait_sysOverflow "c.Config.SysMemSoftLimit" limit heap sys =
    Some (if limit =? 0 then (false, 0%nat) else (limit <? sys, 1%nat)).
Proof. exact tie_mem_overflow. Qed.
Print Assumptions C12_source_mem_overflow.

(* "only in a cleanup cycle": the only caller of Evict is invokeCleanup, which the janitor runs once per interval; the
   other background goroutine (items counter) only reads Len *)
Theorem C12_source_background_turns : forall interval debug stat len,
  (run_turn fn_Trait_janitor "c.Config.DeleteExpiredJobInterval" interval debug stat 0 len =
     Some (false, [("After", [VZ interval]); ("invokeCleanup", [])])) /\
  (run_turn fn_Trait_reportItemsCount "c.Config.ItemsCountReportInterval" interval debug stat 0 len =
     Some (false, ("After", [VZ interval]) :: (if debug then [("log", [VStr "cache items count"])] else [])
                  ++ (if stat then [("stat", [VStr "cache_items"; VF (FOfZ len)])] else []))%list).
Proof.
  intros interval debug stat len. split;
    [exact (proj1 (tie_janitor interval debug stat len))|exact (proj1 (tie_report_items_count interval debug stat len))].
Qed.
Print Assumptions C12_source_background_turns.

Theorem C12_source_evict_metrics_all :
  metric_field fn_shardedMapOf_evictMostExpired = Some "i.E" /\ metric_field fn_shardedMapOf_evictLeastCounter = Some "i.C" /\
  metric_field fn_syncMap_evictMostExpired = Some "i.E" /\ metric_field fn_syncMap_evictLeastCounter = Some "i.C".
Proof. exact tie_evict_metrics_all. Qed.
Print Assumptions C12_source_evict_metrics_all.
