(* C12 — eviction removes the right amount in strategy order. Statements only. *)
From Cache Require Import Base Backend Spec Cleanup CleanupProofs.
From Coq Require Import Sorting.Sorted.

(* evictLeast with ANY sorting routine that returns a sorted permutation (sort.Slice is unstable,
   map iteration order arbitrary): every removed entry ranks no higher than every kept entry under
   the strategy's metric (expiry instant; last-served stamp; serve count). *)
Theorem C12_rank : forall sort,
  (forall l, sort l ≡ₚ l) -> (forall l, StronglySorted le2 (sort l)) ->
  forall st m n h e h' e',
  m !! h = Some e -> evict_least sort st m n !! h = None ->
  evict_least sort st m n !! h' = Some e' ->
  metric st e <= metric st e'.
Proof. exact evict_rank. Qed.
Print Assumptions C12_rank.

(* exactly min(n, size) entries go, the others are untouched *)
Theorem C12_amount : forall sort,
  (forall l, sort l ≡ₚ l) -> (forall l, StronglySorted le2 (sort l)) ->
  forall st m n, size (evict_least sort st m n) = (size m - min n (size m))%nat.
Proof. exact evict_size. Qed.
Print Assumptions C12_amount.

Theorem C12_untouched : forall sort st m n h e,
  evict_least sort st m n !! h = Some e -> m !! h = Some e.
Proof. exact evict_untouched. Qed.
Print Assumptions C12_untouched.

(* count breach: evicting n within one entry of cnt*(1 - L(1-f)/cnt) leaves a count within one entry
   of CountSoftLimit*(1-EvictFraction)  (f = fn/fd) *)
Theorem C12_count_target : forall cnt L fn fd n,
  0 < fd -> 0 < cnt ->
  Z.abs (n * fd - (cnt * fd - L * (fd - fn))) <= fd ->
  Z.abs ((cnt - n) * fd - L * (fd - fn)) <= fd.
Proof. exact count_target. Qed.
Print Assumptions C12_count_target.

(* no eviction without breach: a cleanup cycle whose victim list is empty only applies deleteExpired *)
Theorem C12_only_on_breach : forall hash c s now,
  (b_step hash c s (OCleanup now [])).1.1 = b_delete_expired c s now.
Proof. intros. cbn. destruct (b_delete_expired c s now). reflexivity. Qed.
Print Assumptions C12_only_on_breach.
