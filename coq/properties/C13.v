(* C13 — Dump followed by Restore reproduces the cache exactly. Statements only. *)
From Cache Require Import Base Backend Spec BackendProofs Transfer TransferProofs.

(* gob with a fresh destination per record inverts the encoding of every entry: nil / zero values,
   empty keys, missing expiry and zero counters included *)
Theorem C13_decode_fresh : forall e, decode_into zero_entry (encode e) = e.
Proof. exact decode_fresh. Qed.
Print Assumptions C13_decode_fresh.

(* Any source content (entries in the slots of their own keys under the source's hash), dumped in
   ANY iteration order, restored into an empty cache whose hash does not collide on the source's
   keys (any injective hash for SyncMap): every key reads the same entry — key, value, expiry and
   counter — both calls report the number of entries, the restored cache has the same size and the
   same Walk content, and is again a well-formed source (so the statement chains: relaying through
   several instances reproduces the same entry set). *)
Theorem C13_roundtrip : forall hash_s hash_t src order,
  slots_ok hash_s src -> order ≡ₚ (map_to_list src).*2 ->
  collision_free hash_t (keys_of src) ->
  let '(tgt, n) := restore hash_t ∅ (dump order) in
  (forall k, find hash_t tgt k = find hash_s src k) /\
  slots_ok hash_t tgt /\ n = size src /\ size tgt = size src /\
  (map_to_list tgt).*2 ≡ₚ (map_to_list src).*2.
Proof. exact roundtrip. Qed.
Print Assumptions C13_roundtrip.

(* Restore with one destination variable reused across records (SyncMap.Restore before the repair)
   does NOT reproduce the entries: omitted zero fields inherit the previous record's. *)
Theorem C13_reused_variable_refuted :
  ~ ((map_to_list (restore_reused ex_hash ∅ zero_entry (dump ex_list))).*2 ≡ₚ ex_list).
Proof. exact reused_variable_refuted. Qed.
Print Assumptions C13_reused_variable_refuted.

Example C13_nonvacuous :
  let src : gmap N entry := <[2%N := mkEntry [1%N] 0 0 3]> (<[0%N := mkEntry [] 5 7 0]> ∅) in
  let hash_t := fun k => (ex_hash k + 10)%N in
  let '(tgt, n) := restore hash_t ∅ (dump (map_to_list src).*2) in
  n = 2%nat /\ find hash_t tgt [1%N] = Some (mkEntry [1%N] 0 0 3) /\ find hash_t tgt [] = Some (mkEntry [] 5 7 0)
  /\ map (fun he => ex_hash (eK he.2)) (map_to_list src) = (map_to_list src).*1
  /\ NoDup (map hash_t (keys_of src)).
Proof. vm_compute. repeat split; try reflexivity. repeat constructor; set_solver. Qed.

(* ---- tie to the source: the function bodies below are re-translated from /repo on every run
   (harness/cmd/gofunc -> theories/Generated/Funcs.v, interpreted by theories/GoIR.v) ---- *)
From Coq Require Import String.
From Cache Require Import GoIR.
From Cache.Generated Require Import Funcs.
Open Scope string_scope.
Open Scope Z_scope.
From Coq Require Import String.
From Cache Require Import GoIR TieTransfer TieWalk.
From Cache.Generated Require Import Funcs.
Open Scope string_scope.
Open Scope Z_scope.

(* every record is decoded into a variable declared inside the loop (a fresh target per record), the stored pointer is
   the address of that variable, the count grows by one per stored record; io.EOF ends the loop, any other decoding
   error is returned with the count so far — in all three Restore functions *)
Theorem C13_source_restore_iteration : forall d n,
  run_restore_iter fn_ShardedMap_Restore d n = Some (restore_spec true "TraitEntry" d n) /\
  run_restore_iter fn_ShardedMapOf_Restore d n = Some (restore_spec true "TraitEntryOf[V]" d n) /\
  run_restore_iter fn_SyncMap_Restore d n = Some (restore_spec false "TraitEntry" d n).
Proof. exact tie_restore_iteration. Qed.
Print Assumptions C13_source_restore_iteration.

(* Dump is Walk with gob's Encode as the callback; a visit hands the callback a copy of the entry (K, V, and E, C
   loaded atomically) outside the shard lock and counts it once *)
Theorem C13_source_dump_is_walk_encode :
  is_dump fn_ShardedMap_Dump = true /\ is_dump fn_ShardedMapOf_Dump = true /\ is_dump fn_SyncMap_Dump = true.
Proof. exact tie_dump. Qed.
Print Assumptions C13_source_dump_is_walk_encode.

Theorem C13_source_walk_visit : forall cb_ok e c n,
  (run_visit fn_shardedMap_Walk cb_ok e c n =
     Some (if cb_ok then ([("RUnlock", []); ("callback", [copy_of "TraitEntry" e c]); ("RLock", [])], n + 1, VisitNext)
           else ([("RUnlock", []); ("callback", [copy_of "TraitEntry" e c])], n, VisitStop n)) /\
   run_visit fn_shardedMapOf_Walk cb_ok e c n =
     Some (if cb_ok then ([("RUnlock", []); ("callback", [copy_of "TraitEntryOf[V]" e c]); ("RLock", [])], n + 1, VisitNext)
           else ([("RUnlock", []); ("callback", [copy_of "TraitEntryOf[V]" e c])], n, VisitStop n))) /\
  run_sync_visit cb_ok e c n =
    Some ([("callback", [copy_of "TraitEntry" e c])], (if cb_ok then n + 1 else n), cb_ok, negb cb_ok).
Proof. intros; split; [exact (tie_walk_visit_sharded _ _ _ _)|exact (tie_walk_visit_sync _ _ _ _)]. Qed.
Print Assumptions C13_source_walk_visit.

(* the byte counters around the dump and restore streams pass bytes, count and error through unchanged *)
From Cache Require Import TieAccessors.
Theorem C13_source_byte_counters : forall n ok,
  run_cnt fn_readerCnt_Read "r" n ok =
    Some ([VZ n; VPtr (negb ok) "io error"], [("inner Read", [VPtr true "p"]); ("count", [VStr "r.n"; VZ n])]) /\
  run_cnt fn_writerCnt_Write "w" n ok =
    Some ([VZ n; VPtr (negb ok) "io error"], [("inner Write", [VPtr true "p"]); ("count", [VStr "w.n"; VZ n])]).
Proof. exact tie_byte_counters. Qed.
Print Assumptions C13_source_byte_counters.
