(* C14 — HTTP transfer imports exactly what was exported and refuses mismatched types. Statements only. *)
From Cache Require Import Base Backend Spec BackendProofs Transfer TransferProofs.

(* Import: every importer cache [name] ends up as Restore(dump of the exporter's cache of that name)
   applied to its previous content — i.e. for an empty cache exactly the exporter's entries (C13) —
   when the exporter knows the name and the types hashes agree; otherwise it is unchanged. *)
Theorem C14_import : forall hash exporter hash_e importer hash_i name m,
  importer !! name = Some m ->
  http_import hash exporter hash_e importer hash_i !! name =
    Some (match exporter !! name with
          | Some order => if (hash_i =? hash_e)%N then (restore hash m (dump order)).1 else m
          | None => m
          end).
Proof. exact http_import_spec. Qed.
Print Assumptions C14_import.

(* caches that are not registered with the importer do not appear *)
Theorem C14_only_registered : forall hash exporter hash_e importer hash_i name,
  importer !! name = None -> http_import hash exporter hash_e importer hash_i !! name = None.
Proof. exact http_import_dom. Qed.
Print Assumptions C14_only_registered.

(* a body cut after n whole records imports exactly the first n records *)
Theorem C14_truncated_prefix : forall hash m ws n,
  restore_truncated hash m ws n = restore hash m (take n ws).
Proof. exact truncated_prefix. Qed.
Print Assumptions C14_truncated_prefix.

(* The types hash, for ANY fingerprint function of types: it depends only on the SET of
   registered types (hence not on order nor multiplicity), and adding a type whose fingerprint is
   non-zero changes it. *)
Theorem C14_hash_set_determined : forall (fp : N -> N) ts1 ts2,
  (forall x, x ∈ ts1 <-> x ∈ ts2) -> (register fp st0 ts1).1 = (register fp st0 ts2).1.
Proof. intros fp. exact (hash_set_determined fp). Qed.
Print Assumptions C14_hash_set_determined.

Theorem C14_hash_perm : forall (fp : N -> N) ts1 ts2,
  ts1 ≡ₚ ts2 -> (register fp st0 ts1).1 = (register fp st0 ts2).1.
Proof. intros fp. exact (hash_perm fp). Qed.
Print Assumptions C14_hash_perm.

Theorem C14_hash_idem : forall (fp : N -> N) ts, (register fp st0 (ts ++ ts)).1 = (register fp st0 ts).1.
Proof. intros fp. exact (hash_idem fp). Qed.
Print Assumptions C14_hash_idem.

Theorem C14_hash_changes : forall (fp : N -> N) ts t,
  t ∉ ts -> fp t <> 0%N -> (register fp st0 (ts ++ [t])).1 <> (register fp st0 ts).1.
Proof. intros fp. exact (hash_changes fp). Qed.
Print Assumptions C14_hash_changes.

Example C14_nonvacuous :
  (register (fun t : N => (t * 7 + 3)%N) st0 [1%N; 2%N; 1%N]).1 = (register (fun t : N => (t * 7 + 3)%N) st0 [2%N; 1%N]).1
  /\ (register (fun t : N => (t * 7 + 3)%N) st0 [2%N; 1%N; 5%N]).1 <> (register (fun t : N => (t * 7 + 3)%N) st0 [2%N; 1%N]).1.
Proof. vm_compute. split; [reflexivity|discriminate]. Qed.
