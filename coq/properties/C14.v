(* C14 — HTTP transfer imports exactly what was exported and refuses mismatched types. Statements only. *)
From Cache Require Import Base Backend Spec BackendProofs Transfer TransferProofs.

(* Import: every importer cache [name] ends up as Restore(dump of the exporter's cache of that name)
   applied to its previous content — i.e. for an empty cache exactly the exporter's entries (C13) —
   when the exporter knows the name and the types hashes agree; otherwise it is unchanged. *)
Theorem C14_import : forall hash exporter hash_e importer hash_i name m,
  importer !! name = Some m ->
  http_import hash exporter hash_e importer hash_i !! name =
    Some (match exporter !! name with
          | Some order => if (hash_i =? hash_e)%N then (restore hash m (dump order)).1 else m
          | None => m
          end).
Proof. exact http_import_spec. Qed.
Print Assumptions C14_import.

(* caches that are not registered with the importer do not appear *)
Theorem C14_only_registered : forall hash exporter hash_e importer hash_i name,
  importer !! name = None -> http_import hash exporter hash_e importer hash_i !! name = None.
Proof. exact http_import_dom. Qed.
Print Assumptions C14_only_registered.

(* a body cut after n whole records imports exactly the first n records *)
Theorem C14_truncated_prefix : forall hash m ws n,
  restore_truncated hash m ws n = restore hash m (take n ws).
Proof. exact truncated_prefix. Qed.
Print Assumptions C14_truncated_prefix.

(* The types hash, for ANY fingerprint function of types: it depends only on the SET of
   registered types (hence not on order nor multiplicity), and adding a type whose fingerprint is
   non-zero changes it. *)
Theorem C14_hash_set_determined : forall (fp : N -> N) ts1 ts2,
  (forall x, x ∈ ts1 <-> x ∈ ts2) -> (register fp st0 ts1).1 = (register fp st0 ts2).1.
Proof. intros fp. exact (hash_set_determined fp). Qed.
Print Assumptions C14_hash_set_determined.

Theorem C14_hash_perm : forall (fp : N -> N) ts1 ts2,
  ts1 ≡ₚ ts2 -> (register fp st0 ts1).1 = (register fp st0 ts2).1.
Proof. intros fp. exact (hash_perm fp). Qed.
Print Assumptions C14_hash_perm.

Theorem C14_hash_idem : forall (fp : N -> N) ts, (register fp st0 (ts ++ ts)).1 = (register fp st0 ts).1.
Proof. intros fp. exact (hash_idem fp). Qed.
Print Assumptions C14_hash_idem.

Theorem C14_hash_changes : forall (fp : N -> N) ts t,
  t ∉ ts -> fp t <> 0%N -> (register fp st0 (ts ++ [t])).1 <> (register fp st0 ts).1.
Proof. intros fp. exact (hash_changes fp). Qed.
Print Assumptions C14_hash_changes.

Example C14_nonvacuous :
  (register (fun t : N => (t * 7 + 3)%N) st0 [1%N; 2%N; 1%N]).1 = (register (fun t : N => (t * 7 + 3)%N) st0 [2%N; 1%N]).1
  /\ (register (fun t : N => (t * 7 + 3)%N) st0 [2%N; 1%N; 5%N]).1 <> (register (fun t : N => (t * 7 + 3)%N) st0 [2%N; 1%N]).1.
Proof. vm_compute. split; [reflexivity|discriminate]. Qed.

(* ---- tie to the source: the function bodies below are re-translated from /repo on every run
   (harness/cmd/gofunc -> theories/Generated/Funcs.v, interpreted by theories/GoIR.v) ---- *)
From Coq Require Import String.
From Cache Require Import GoIR.
From Cache.Generated Require Import Funcs.
Open Scope string_scope.
Open Scope Z_scope.
From Coq Require Import String.
From Cache Require Import GoIR TieGob TieHTTP.
From Cache.Generated Require Import Funcs.
Open Scope string_scope.
Open Scope Z_scope.

(* GobRegister, one value: a registered type contributes nothing; a new one is fingerprinted with a hasher and a
   visited-set of ITS OWN and XORed into the types hash (the registration step of the hash laws above) *)
Theorem C14_source_register_iteration : forall registered has_registry hash0 fp,
  run_gob_iter registered has_registry hash0 fp =
  Some (if registered then (hash0, true, [])
        else (Z.lxor hash0 fp, true,
              [("new hasher", []); ("hash package path and name", []);
               ("hash structure with a visited set of its own", []); ("gob.Register", [])])).
Proof. exact tie_gob_register_iteration. Qed.
Print Assumptions C14_source_register_iteration.

(* the Export handler dumps iff name given, cache registered, hash given and EQUAL to the exporter's — for every
   exporter hash, zero included *)
Theorem C14_source_export_gate : forall h i, run_export h i = Some (export_spec i).
Proof. exact tie_export. Qed.
Print Assumptions C14_source_export_gate.

(* Import, one registered cache: asks by this cache's name with the importer's hash, restores into THIS cache iff the
   answer is 200, and always goes on to the next cache *)
Theorem C14_source_import_iteration : forall req_ok rt_ok transport warn read_ok copy_ok close_ok,
  (forall status, status <> 200 ->
     run_import_iter (mkIm req_ok rt_ok status transport warn read_ok copy_ok close_ok)
     = Some (import_spec (mkIm req_ok rt_ok status transport warn read_ok copy_ok close_ok))) /\
  run_import_iter (mkIm req_ok rt_ok 200 transport warn read_ok copy_ok close_ok)
  = Some (import_spec (mkIm req_ok rt_ok 200 transport warn read_ok copy_ok close_ok)).
Proof. exact tie_import_iteration. Qed.
Print Assumptions C14_source_import_iteration.

(* recursiveTypeHash: pointers dereferenced first; a type already met contributes nothing more; otherwise by kind — struct:
   every exported field its name (unless embedded) then its type, recursively, with the same hasher and visited set; slice /
   array: element type; map: key type then element type; else its name *)
Theorem C14_source_recursive_type_hash : forall met k exported anonymous,
  run_rth met k =
  Some ([("dereference pointers", [])] ++
        (if met then []
         else [("assign met[t]", [VB true])] ++
              match k with
              | KStruct => [("for each field", [])]
              | KSlice | KArray => [("recurse with the same hasher and visited set", [VPtr true "element type"])]
              | KMap => [("recurse with the same hasher and visited set", [VPtr true "key type"]);
                         ("recurse with the same hasher and visited set", [VPtr true "element type"])]
              | KOther => [("hash", [VStr "name of the type"])]
              end))%list /\
  run_field exported anonymous =
  Some (if exported
        then ((if anonymous then [] else [("hash", [VStr "Name"])]) ++
              [("recurse with the same hasher and visited set", [VPtr true "type of the field"])], false)%list
        else ([], true)).
Proof. intros; split; [exact (tie_recursive_type_hash _ _)|exact (tie_type_hash_field _ _)]. Qed.
Print Assumptions C14_source_recursive_type_hash.

(* ---- registration, the restore step of Import, the hash accessors, the generic cache's transfer adapter ---- *)
From Cache Require Import TieWalk.

Theorem C14_source_add_cache : forall has_map,
  run_http_add has_map =
  Some ((if has_map then [] else [("assign t.caches", [VPtr true "new map"])]) ++
        [("assign t.caches[name]", [VPtr true "c"])])%list.
Proof. exact tie_http_add_cache. Qed.
Print Assumptions C14_source_add_cache.

(* importCache hands the response body to Restore of the cache that was asked for, once; the outcome is only logged *)
Theorem C14_source_import_cache : forall ok warn imp,
  run_import_cache ok warn imp =
  Some (("Restore from", [VPtr true "body"]) ::
        (if ok then (if imp then [("important", [VStr "cache restored"])] else [])
         else (if warn then [("warn", [VStr "failed to restore cache dump"])] else []))).
Proof. exact tie_import_cache. Qed.
Print Assumptions C14_source_import_cache.

Theorem C14_source_hash_accessors : forall h,
  run_hash_fn fn_GobTypesHash h = Some ([VZ h], []) /\
  run_hash_fn fn_GobTypesHashReset h = Some ([], [("assign gobTypesHash", [VZ 0])]).
Proof. exact tie_types_hash_accessors. Qed.
Print Assumptions C14_source_hash_accessors.

(* ShardedMapOf.WalkDumpRestorer: Dump and Restore are the cache's own, Walk is the untyped walker over the same shards,
   whose visit hands the callback an untyped copy (K, V, atomically loaded E) with the lock released *)
Theorem C14_source_generic_adapter :
  run_wdr = Some ([("assign w.Dumper", [VPtr true "c"]); ("assign w.Walker", [VRef "lc"]); ("assign w.Restorer", [VPtr true "c"])],
                  Some (VRec "legacy walker over" [("shards of", VPtr true "*c")])) /\
  forall cb_ok e c n,
    let copy := VRec "TraitEntry" [("K", VPtr true "key of the entry"); ("V", VPtr true "value of the entry"); ("E", VZ e)] in
    run_visit fn_shardedMapLegacyWalkerOf_Walk cb_ok e c n =
      Some (if cb_ok then ([("RUnlock", []); ("callback", [copy]); ("RLock", [])], n + 1, VisitNext)
            else ([("RUnlock", []); ("callback", [copy])], n, VisitStop n)).
Proof. split; [exact tie_walk_dump_restorer|exact tie_walk_visit_legacy]. Qed.
Print Assumptions C14_source_generic_adapter.
