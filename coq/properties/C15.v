(* C15 — label invalidation is complete, precise and loses nothing on failure. Statements only.
   The theorems are about one cache name (InvalidateByLabels runs the same procedure for every name
   and stops at the first failure); keys, labels, incidence structure (repeats included), label
   argument lists (any order, repeated arguments), caches per name, cache contents, outage sets and
   interleaved AddLabels calls [mid] are all universally quantified. *)
From Cache Require Import Base Index IndexProofs.

(* A call that returns nil: every key labelled with one of the labels is absent from every cache
   registered under the name; keys carrying none of the labels are untouched in every cache; caches
   of other names are untouched; nothing is ever added. *)
Theorem C15_complete_precise : forall broken lk cs ds ls mid cnt lk' cs',
  invalidate_name broken lk cs ds ls mid = (true, cnt, lk', cs') ->
  (forall k, labelled lk ls k -> absent cs' ds k) /\
  (forall c k, ~ labelled lk ls k -> (has cs' c k <-> has cs c k)) /\
  (forall c, c ∉ ds -> forall k, has cs' c k <-> has cs c k) /\
  only_removes cs cs' /\ 0 <= cnt.
Proof. exact invalidate_name_ok. Qed.
Print Assumptions C15_complete_precise.

(* Without an outage the call always succeeds (and the model is a total function: no panic). *)
Theorem C15_succeeds_without_outage : forall lk cs ds ls mid,
  exists cnt lk' cs', invalidate_name [] lk cs ds ls mid = (true, cnt, lk', cs').
Proof. exact invalidate_name_no_outage. Qed.
Print Assumptions C15_succeeds_without_outage.

(* A deleter failure at any position: every labelled key is either already gone from all caches of
   the name or still indexed under its label; unlabelled keys are untouched. *)
Theorem C15_failure_keeps_index : forall broken lk cs ds ls mid cnt lk' cs',
  invalidate_name broken lk cs ds ls mid = (false, cnt, lk', cs') ->
  (forall l k, l ∈ ls -> k ∈ default [] (lk !! l) -> absent cs' ds k \/ k ∈ default [] (lk' !! l)) /\
  (forall c k, ~ labelled lk ls k -> (has cs' c k <-> has cs c k)) /\
  only_removes cs cs' /\ 0 <= cnt.
Proof. exact invalidate_name_fail. Qed.
Print Assumptions C15_failure_keeps_index.

(* A retry after recovery succeeds and removes everything that was labelled before the failed call. *)
Theorem C15_retry : forall broken lk cs ds ls mid cnt lk' cs',
  invalidate_name broken lk cs ds ls mid = (false, cnt, lk', cs') ->
  exists cnt2 lk2 cs2, invalidate_name [] lk' cs' ds ls [] = (true, cnt2, lk2, cs2) /\
    forall k, labelled lk ls k -> absent cs2 ds k.
Proof. exact invalidate_name_retry. Qed.
Print Assumptions C15_retry.

Example C15_nonvacuous :
  let lk : gmap label (list key) := add_labels (add_labels (add_labels ∅ [1%N] [1%N; 2%N]) [2%N] [1%N]) [3%N] [2%N] in
  let cs : gmap cid (list key) := <[1%N := [[1%N]; [2%N]; [3%N]; [9%N]]]> (<[2%N := [[2%N]; [3%N]]]> ∅) in
  (* cache 2 is down for key 2: the call fails after deleting key 1, key 2 stays indexed under label 1 *)
  match invalidate_name [(2%N, [2%N])] lk cs [1%N; 2%N] [1%N; 1%N; 2%N] [] with
  | (ok, cnt, lk', cs') => ok = false /\ cnt = 2 /\ default [] (lk' !! 1%N) = [[2%N]] /\ default [] (lk' !! 2%N) = [[3%N]]
                           /\ default [] (cs' !! 1%N) = [[3%N]; [9%N]]
  end.
Proof. vm_compute. repeat split; reflexivity. Qed.

(* The count a call returns — whether it succeeds or fails half-way — is exactly the number of cache
   entries it removed (cache contents are duplicate-free key lists). *)
Theorem C15_count_exact : forall broken lk cs ds ls mid ok cnt lk' cs',
  cs_nodup cs -> invalidate_name broken lk cs ds ls mid = (ok, cnt, lk', cs') ->
  cnt = csize cs - csize cs' /\ cs_nodup cs'.
Proof. exact invalidate_name_count. Qed.
Print Assumptions C15_count_exact.

(* ---- tie to the source: the function bodies below are re-translated from /repo on every run
   (harness/cmd/gofunc -> theories/Generated/Funcs.v, interpreted by theories/GoIR.v) ---- *)
From Coq Require Import String.
From Cache Require Import GoIR.
From Cache.Generated Require Import Funcs.
Open Scope string_scope.
Open Scope Z_scope.
From Coq Require Import String.
From Cache Require Import GoIR TieIndex.
From Cache.Generated Require Import Funcs.
Open Scope string_scope.
Open Scope Z_scope.

(* the loop bodies of the index are the steps Index.v folds over (see theories/TieIndex.v for each statement) *)
Theorem C15_source_add_labels : forall has_map,
  run_add_labels has_map =
  Some ([("Lock", []); ("defer i.mu.Unlock", [])] ++
        (if has_map then [] else [("assign i.labeledKeysByName[cacheName]", [VPtr true "new label map"])]) ++
        [("for each label: labeledKeys[label] = append(labeledKeys[label], ks)", [VPtr true "string(key)"])])%list.
Proof. exact tie_add_labels. Qed.
Print Assumptions C15_source_add_labels.

Theorem C15_source_cut_and_delete : forall already r cnt deleted,
  run_cut already = Some (if already then ([], true)
                          else ([("assign res[label]", [VPtr true "keys of the label"]); ("delete(labeledKeys, label)", [])], false)) /\
  run_inner r cnt = Some (match r with DelOk => (cnt + 1, false) | DelNotFound => (cnt, false) | DelFail => (cnt, true) end) /\
  run_mid deleted = Some (if deleted then ([], true) else ([("for each cache: delete", []); ("assign deleted[k]", [VB true])], false)) /\
  run_after_label = Some [("delete(cutKeys, label)", [])].
Proof.
  intros; split; [exact (tie_cut_keys _)|split; [exact (tie_delete_one _ _)|split; [exact (tie_delete_key _)|exact tie_label_done]]].
Qed.
Print Assumptions C15_source_cut_and_delete.

Theorem C15_source_put_back : forall left,
  run_put_back left =
  Some (if 0 <? left
        then [("Lock", []); ("defer i.mu.Unlock", []);
              ("for each label left in the cut: labeledKeys[label] = append(labeledKeys[label], its keys not yet deleted...)", [])]
        else []).
Proof. exact tie_put_back. Qed.
Print Assumptions C15_source_put_back.

Theorem C15_source_invalidate_by_labels :
  run_ibl = Some [("Lock", []); ("snapshot of the index and of the caches, per name", []); ("Unlock", []);
                  ("for each name of the snapshot: invalidate, add up, stop at the first error", [])].
Proof. exact tie_invalidate_by_labels. Qed.
Print Assumptions C15_source_invalidate_by_labels.

(* ---- registration of deleters ---- *)
Theorem C15_source_add_cache : forall had,
  run_add_cache had =
  Some [("Lock", []); ("defer i.mu.Unlock", []);
        ("assign i.deleters[name]",
         [VRec "append" [("to", VPtr had "deleters registered under the name"); ("the", VPtr true "deleter")]])].
Proof. exact tie_index_add_cache. Qed.
Print Assumptions C15_source_add_cache.

Theorem C15_source_new_index : forall n,
  run_new_index n =
  Some ([VRec "InvalidationIndex"
           [("deleters", VRec "make" [("type", VStr "type map[string][]Deleter")]);
            ("labeledKeysByName", VRec "make" [("type", VStr "type map[string]map[string][]string")])]],
        if 0 <? n then [("assign ds[""default""]", [VPtr true "deleters"])] else []).
Proof. exact tie_new_index. Qed.
Print Assumptions C15_source_new_index.
