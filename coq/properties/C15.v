From Cache Require Import Base Index.
Theorem C15_placeholder : True. Proof. exact I. Qed.
Print Assumptions C15_placeholder.
