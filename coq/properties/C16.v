(* C16 — the public API is free of data races. Statements only. *)
From Cache Require Import Base Conc Failover FailoverProofs.
From Cache.Generated Require Import Struct.

(* Lockset soundness (Go memory model edges for Mutex/RWMutex; atomics never race with each other):
   in a trace that respects the mutexes, if every pair of conflicting accesses shares a mutex that
   every writer holds in write mode, no two conflicting accesses are unordered by happens-before. *)
Theorem C16_lockset_sound : forall tr, wf tr -> guarded tr -> forall i j, ~ race tr i j.
Proof. exact lockset_sound. Qed.
Print Assumptions C16_lockset_sound.

(* The access table regenerated from /repo's current source on this run satisfies the discipline:
   every pair of conflicting access sites (a site also conflicts with itself) has a common mutex of
   the location's own object, held in write mode by writers — or both sites are atomic / sync.Map /
   channel operations, or one of them initializes an object that is not yet published. *)
Theorem C16_table_ok : lockset_ok table = true.
Proof. vm_compute. reflexivity. Qed.
Print Assumptions C16_table_ok.

(* Hence: any trace of any concurrent client program whose accesses are instances of the table's
   sites (on any objects, any number of threads) and that respects the mutexes is race free. *)
Theorem C16_race_free : forall tr, wf tr -> instance_of tr table -> forall i j, ~ race tr i j.
Proof. intros tr. exact (table_race_free tr table C16_table_ok). Qed.
Print Assumptions C16_race_free.

(* kl.val / kl.err are the one place where the discipline is ownership + channel: in the Failover
   model a key-lock record changes only by a step of the thread that owns it, while it is still open;
   a closed record never changes again; and a waiter returns what it reads from a record only when
   that record is closed (after the receive from the closed channel). *)
Theorem C16_kl_written_by_owner_while_open : forall fe nilb c s t o s' th id x,
  LInv s -> threads s !! t = Some th -> fstep fe nilb c s (LStep t o) = Some s' ->
  kls s !! id = Some x -> kls s' !! id <> Some x ->
  t_own th = Some id /\ kl_closed x = false.
Proof. exact kl_written_open. Qed.
Print Assumptions C16_kl_written_by_owner_while_open.

Theorem C16_kl_closed_is_final : forall fe nilb c s l s' id x,
  LInv s -> fstep fe nilb c s l = Some s' -> kls s !! id = Some x -> kl_closed x = true -> kls s' !! id = Some x.
Proof. exact closed_is_final. Qed.
Print Assumptions C16_kl_closed_is_final.

Theorem C16_kl_read_after_close : forall fe nilb c s t o s' th,
  threads s !! t = Some th -> t_pc th = PWaiting -> fstep fe nilb c s (LStep t o) = Some s' ->
  exists id x, t_wait th = Some id /\ kls s !! id = Some x /\ kl_closed x = true /\
               option_map t_res (threads s' !! t) = Some (kl_val x, kl_err x).
Proof. exact waiter_reads_closed. Qed.
Print Assumptions C16_kl_read_after_close.

(* Non-vacuity of the lockset theorem: a racy two-thread trace is a race, the locked one is not. *)
Example C16_nonvacuous_race : race [Acc 1%N 5%N true false; Acc 2%N 5%N false false] 0 1.
Proof.
  exists (Acc 1%N 5%N true false), (Acc 2%N 5%N false false). repeat split; auto; try discriminate.
  intros H. remember 0%nat as i. remember 1%nat as j.
  assert (Hgen : forall i j, hb [Acc 1%N 5%N true false; Acc 2%N 5%N false false] i j -> False).
  { clear. intros i j H. induction H as [i j e1 e2 Hlt H1 H2 Ht|i j t1 t2 m w1 w2 Hlt H1 H2 _|]; auto.
    - destruct i as [|[|i]], j as [|[|j]]; cbn in *; try lia; try discriminate. injection H1 as <-. injection H2 as <-. discriminate.
    - destruct i as [|[|i]]; cbn in H1; discriminate. }
  exact (Hgen _ _ H).
Qed.
