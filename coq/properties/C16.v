From Cache Require Import Base.
Theorem C16_placeholder : True. Proof. exact I. Qed.
Print Assumptions C16_placeholder.
