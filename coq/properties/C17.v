(* C17 — Invalidator runs all callbacks, at most once per SkipInterval.
   Only statements; every proof is [exact <lemma>] from InvalidatorProofs.v. *)
From Cache Require Import Base Invalidator InvalidatorProofs.

(* Sequential calls at monotone clock readings [calls], any initial state:
   each call either runs exactly the registered callbacks in registration order
   (accepted), or runs none and is ErrAlreadyInvalidated (callbacks registered)
   / ErrNothingToInvalidate (Callbacks = nil); accepted stamps are chained with
   gaps >= the effective SkipInterval (15 s when 0), starting from lastRun. *)
Theorem C17_sequential : forall calls s,
  Forall (fun o => match o with
     | (ROk, ran) => i_cbs s = Some ran
     | (RAlready, ran) => ran = [] /\ i_cbs s <> None
     | (RNothing, ran) => ran = [] /\ i_cbs s = None end) (run_seq s calls)
  /\ (forall tcur, (forall t, In t calls -> tcur <= t) -> mono calls ->
      (forall l, i_last s = Some l -> l <= tcur) ->
      chain (eff_skip (i_skip s)) (i_last s) (accepted_stamps (run_seq s calls) calls)).
Proof. exact run_seq_spec. Qed.
Print Assumptions C17_sequential.

(* Any number of concurrent callers, any interleaving of their steps (the mutex
   acquisition, the interval test, every single callback invocation), any clock
   readings: (1) the log without rejections is a concatenation of complete
   blocks  Accept t; Cb t c1; …; Cb t cn; End t  over exactly the registered
   callbacks in order, followed by a prefix of one block (accepted calls never
   overlap, every callback once in order); (2) accepted stamps are chained with
   gaps >= the effective interval; (3) a rejected call ran no callback and
   reports ErrNothingToInvalidate iff no callbacks are registered; (4) at most
   one thread is inside the critical section. *)
Theorem C17_concurrent : forall s0 ls s,
  irun (isys0 s0) ls = Some s ->
  (exists blocks cur,
      core (ilog s) = flat_map (block (default [] (i_cbs s0))) blocks ++ cur
      /\ block_prefix (default [] (i_cbs s0)) cur) /\
  chain (eff_skip (i_skip s0)) (i_last s0) (accepts (ilog s)) /\
  (forall t r, In (EvReject t r) (ilog s) ->
      (forall c, ~ In (EvCb t c) (ilog s)) /\
      (r = RNothing <-> i_cbs s0 = None) /\ r <> ROk) /\
  (forall t1 t2 p1 p2, thr s !! t1 = Some p1 -> thr s !! t2 = Some p2 ->
      in_cs p1 = true -> in_cs p2 = true -> t1 = t2).
Proof. exact concurrent_structure. Qed.
Print Assumptions C17_concurrent.

Theorem C17_nothing : forall tc ts s,
  i_cbs s = None -> invalidate tc ts s = (RNothing, [], s).
Proof. exact invalidate_nothing. Qed.
Print Assumptions C17_nothing.

(* Non-vacuity: a concrete concurrent run with two accepted calls, one rejected
   by the interval and an in-flight one; and a concrete sequential run. *)
Example C17_concurrent_nonvacuous :
  match irun (isys0 (mkIst 0 None (Some [7%N; 8%N])))
     [LCall 1%N; LCall 2%N; LStep 1%N 0; LStep 2%N 0; LStep 1%N 0; LStep 1%N 100;
      LStep 1%N 100; LStep 1%N 100; LStep 1%N 100; LStep 2%N 100; LStep 2%N 200;
      LCall 3%N; LStep 3%N 0; LStep 3%N 0; LStep 3%N (100 + 15 * sec); LStep 3%N 0] with
  | Some s => accepts (ilog s) = [100; 100 + 15 * sec]
              /\ In (EvReject 2%N RAlready) (ilog s) /\ holder s = Some 3%N
  | None => False
  end.
Proof. vm_compute. tauto. Qed.

Example C17_sequential_nonvacuous :
  run_seq (mkIst sec None (Some [1%N; 2%N])) [0; 5; sec; sec + 1; 2 * sec]
  = [(ROk, [1%N; 2%N]); (RAlready, []); (ROk, [1%N; 2%N]); (RAlready, []); (ROk, [1%N; 2%N])].
Proof. vm_compute. reflexivity. Qed.

(* ---- tie to the source: the function bodies below are re-translated from /repo on every run
   (harness/cmd/gofunc -> theories/Generated/Funcs.v, interpreted by theories/GoIR.v); the statements say that
   the translated source computes what the model assumes, for ALL inputs. A change of the source that alters
   the computed function breaks the proof. ---- *)
From Cache Require Import GoIR TieInvalidate.
From Cache.Generated Require Import Funcs.

(* Invalidator.Invalidate is the model's [invalidate]; the mutex is taken before, and released (deferred) after,
   every store and the callback loop; the callbacks run iff the call is accepted *)
Theorem C17_source_invalidate : forall tc ts s,
  run_invalidate tc ts s =
  let '(r, ran, s') := invalidate tc ts s in
  Some (r, bool_decide (r = ROk), s', true).
Proof. exact tie_invalidate. Qed.
Print Assumptions C17_source_invalidate.
