(* C18 — metrics account for every cache event exactly once. Statements only. *)
From Cache Require Import Base Backend MetricsProofs Failover FailoverProofs.

(* Backends, any hash, any configuration, any operation sequence from any state:
   cache_hit + cache_miss + cache_expired = non-skipped reads + entries touched by ExpireAll;
   cache_write = writes; cache_delete = entries removed by Delete / DeleteAll; the backends emit no
   build / failed / refreshed events. [acct_run] sums, per operation, exactly those quantities. *)
Theorem C18_backend_totals : forall hash c ops s,
  let ev := (b_run hash c s ops).2 in
  let a := acct_run hash c s ops in
  hme ev = a.1.1 /\ mtotal MWrite ev = a.1.2 /\ mtotal MDelete ev = a.2 /\
  mtotal MBuild ev = 0 /\ mtotal MFailed ev = 0 /\ mtotal MRefreshed ev = 0.
Proof. exact run_metrics. Qed.
Print Assumptions C18_backend_totals.

Theorem C18_backend_step : forall hash c s o s' r ev,
  b_step hash c s o = (s', r, ev) ->
  let '(a1, a2, a3) := acct s o r in
  hme ev = a1 /\ mtotal MWrite ev = a2 /\ mtotal MDelete ev = a3 /\
  mtotal MBuild ev = 0 /\ mtotal MFailed ev = 0 /\ mtotal MRefreshed ev = 0.
Proof. exact step_metrics. Qed.
Print Assumptions C18_backend_step.

(* Failover frontend with a stats tracker: in every reachable state the number of cache_build events
   plus the builds still between invocation and their (deferred) stat equals the number of builder
   invocations; likewise cache_failed vs failed builds, cache_refreshed vs stale re-stores. *)
Theorem C18_failover_builds_counted : forall fe nilb c ls s,
  f_stat c = true -> frun fe nilb c f0 ls = Some s ->
  cntb is_bstart (omap bproj (flog s)) - cntb (is_bstat MBuild) (omap bproj (flog s))
  = wthreads (fun _ p => b2z (in_build_region p)) s.
Proof. exact builds_counted. Qed.
Print Assumptions C18_failover_builds_counted.

(* hence at quiescence, under every interleaving and every builder script, the totals are exact:
   no event is dropped or counted twice *)
Theorem C18_failover_totals : forall fe nilb c ls s,
  f_stat c = true -> frun fe nilb c f0 ls = Some s -> all_done s ->
  let l := omap bproj (flog s) in
  cntb (is_bstat MBuild) l = cntb is_bstart l /\
  cntb (is_bstat MFailed) l = cntb is_bfail l /\
  cntb (is_bstat MRefreshed) l = cntb is_brefresh l.
Proof. exact failover_totals. Qed.
Print Assumptions C18_failover_totals.

Example C18_nonvacuous :
  let hash := fun k : key => match k with [] => 0%N | b :: _ => (b + 1)%N end in
  let ops := [OWrite [1%N] 5 0 100 0; ORead [1%N] false 200; ORead [2%N] false 200; ORead [1%N] true 200;
              OExpireAll 300; ORead [1%N] false 400; ODelete [1%N]; ODelete [1%N]; ODeleteAll] in
  acct_run hash (mkBcfg 0 false MostExpired 0 0) b0 ops = (4, 1, 1).
Proof. vm_compute. reflexivity. Qed.

(* ---- tie to the source: the function bodies below are re-translated from /repo on every run
   (harness/cmd/gofunc -> theories/Generated/Funcs.v, interpreted by theories/GoIR.v); the statements say that
   the translated source computes what the model assumes, for ALL inputs. A change of the source that alters
   the computed function breaks the proof. ---- *)
From Cache Require Import GoIR TieRead.
From Cache.Generated Require Import Funcs.

(* PrepareRead emits exactly one of cache_miss / cache_expired / cache_hit (when a tracker is attached), the one
   the model's b_read emits *)
Theorem C18_source_read_metrics : forall c now has_log has_stat e,
  run_prepare_read fn_Trait_PrepareRead false c now has_log has_stat true e = Some (model_found c now e has_stat) /\
  run_prepare_read fn_TraitOf_PrepareRead true c now has_log has_stat true e = Some (model_found c now e has_stat) /\
  run_prepare_read fn_Trait_PrepareRead false c now has_log has_stat false e = Some (model_missing has_stat e) /\
  run_prepare_read fn_TraitOf_PrepareRead true c now has_log has_stat false e = Some (model_missing has_stat e).
Proof.
  intros; repeat split; [exact (tie_prepare_read_found _ _ _ _ _) | exact (tie_prepare_read_of_found _ _ _ _ _)
                        | exact (tie_prepare_read_missing _ _ _ _ _) | exact (tie_prepare_read_of_missing _ _ _ _ _)].
Qed.
Print Assumptions C18_source_read_metrics.

From Coq Require Import String.
From Cache Require Import TieBackend.
Open Scope string_scope.
Open Scope Z_scope.

(* the Notify* functions emit cache_write 1, cache_delete 1, cache_expired n, cache_delete n — once, and only with a
   tracker attached *)
Theorem C18_source_notify : forall has_log has_stat cnt,
  run_notify fn_Trait_NotifyWritten [VPtr true "c"; VPtr true "ctx"; VPtr true "key"; VZ 0; VZ 0] has_log has_stat
    = Some (one has_stat "cache_write" (VF (FConst 1 1))) /\
  run_notify fn_TraitOf_NotifyWritten [VPtr true "c"; VPtr true "ctx"; VPtr true "key"; VZ 0; VZ 0] has_log has_stat
    = Some (one has_stat "cache_write" (VF (FConst 1 1))) /\
  run_notify fn_Trait_NotifyDeleted [VPtr true "c"; VPtr true "ctx"; VPtr true "key"] has_log has_stat
    = Some (one has_stat "cache_delete" (VF (FConst 1 1))) /\
  run_notify fn_Trait_NotifyExpiredAll [VPtr true "c"; VPtr true "ctx"; VPtr true "start"; VZ cnt] has_log has_stat
    = Some (one has_stat "cache_expired" (VF (FOfZ cnt))) /\
  run_notify fn_Trait_NotifyDeletedAll [VPtr true "c"; VPtr true "ctx"; VPtr true "start"; VZ cnt] has_log has_stat
    = Some (one has_stat "cache_delete" (VF (FOfZ cnt))).
Proof. exact tie_notify. Qed.
Print Assumptions C18_source_notify.

(* Write and Delete call NotifyWritten / NotifyDeleted exactly once per stored / removed entry *)
Theorem C18_source_write_delete_notify_once : forall v ttl at_ present same,
  run_write fn_shardedMap_Write v ttl at_ = Some (write_spec true "TraitEntry" v ttl at_) /\
  run_write fn_shardedMapOf_Write v ttl at_ = Some (write_spec true "TraitEntryOf[V]" v ttl at_) /\
  run_write fn_syncMap_Write v ttl at_ = Some (write_spec false "TraitEntry" v ttl at_) /\
  run_delete fn_shardedMap_Delete present same = Some (delete_spec_sharded present same) /\
  run_delete fn_shardedMapOf_Delete present same = Some (delete_spec_sharded present same).
Proof.
  intros. destruct (tie_write v ttl at_) as (H1 & H2 & H3). destruct (tie_delete_sharded present same) as (H4 & H5).
  repeat split; assumption.
Qed.
Print Assumptions C18_source_write_delete_notify_once.

From Cache Require Import TieFailover.

(* doBuild emits cache_build once per builder invocation (deferred: last), cache_failed once per failing one;
   refreshStale emits cache_refreshed once per stale re-store — only with a tracker attached *)
Theorem C18_source_failover_metrics : forall x built_ok write_ok errwrite_ok,
  (run_do_build fn_Failover_doBuild x built_ok write_ok errwrite_ok = Some (do_build_spec x built_ok write_ok errwrite_ok) /\
   run_do_build fn_FailoverOf_doBuild x built_ok write_ok errwrite_ok = Some (do_build_spec x built_ok write_ok errwrite_ok)) /\
  (run_refresh fn_Failover_refreshStale x write_ok = Some (refresh_spec x write_ok) /\
   run_refresh fn_FailoverOf_refreshStale x write_ok = Some (refresh_spec x write_ok)).
Proof. intros; split; [exact (tie_do_build _ _ _ _)|exact (tie_refresh_stale _ _)]. Qed.
Print Assumptions C18_source_failover_metrics.

From Cache Require Import TieTransfer.

(* DeleteAll removes and counts, in the same critical section, every entry it iterates over: the number it reports as
   cache_delete is the number of entries it removed *)
Theorem C18_source_delete_all_counts : forall cnt,
  (run_delete_all_body fn_shardedMap_DeleteAll cnt = Some ([("delete", [])], Some (VZ (cnt + 1))) /\
   run_delete_all_body fn_shardedMapOf_DeleteAll cnt = Some ([("delete", [])], Some (VZ (cnt + 1)))) /\
  run_sync_cb fn_syncMap_DeleteAll cnt = Some ([("delete", [])], Some (VZ (cnt + 1)), true).
Proof. intros; split; [exact (tie_delete_all_sharded _)|exact (tie_delete_all_sync _)]. Qed.
Print Assumptions C18_source_delete_all_counts.

(* ---- the failover metrics predicate of the correspondence check is proved of the model ---- *)
From Cache Require Import FailoverRun FailoverObs FailoverStatsObs.

(* at quiescence: cache_build = builder invocations, cache_failed = failed builds, cache_refreshed = the writes that
   precede their thread's own builder invocation (= the model's stale re-stores, on every schedule), and nothing at all
   without a stats tracker — the predicate C18F_obs evaluated on implementation traces *)
Theorem C18_trace_predicate_sound : forall fe nilb c ls s,
  frun fe nilb c f0 ls = Some s -> all_done s -> c18f_log (f_stat c) (flog s) = true.
Proof. exact c18f_obs_holds. Qed.
Print Assumptions C18_trace_predicate_sound.

Theorem C18_refresh_reading : forall fe nilb c ls s,
  frun fe nilb c f0 ls = Some s -> refresh_writes [] (flog s) = cntb is_brefresh (omap bproj (flog s)).
Proof. exact refresh_reading. Qed.
Print Assumptions C18_refresh_reading.
