(* Backend.v — executable sequential model of the three map backends
   (sharded_map.go, sharded_map_go1.18.go, sync_map.go, trait.go, trait_go1.18.go).

   ShardedMap / ShardedMapOf: 128 shards of map[uint64]*entry keyed by xxhash64(key); the shard
   is h % 128, so sequentially the union of the shards is one map keyed by the full hash. The
   entry keeps the key only to reject a mismatching resident (collisions evict each other).
   SyncMap: sync.Map keyed by string(key) — the same model with an injective [hash].

   The model is generic in [hash : key -> N]; theorems quantify over every hash. *)
From Cache Require Import Base.

Record entry := mkEntry { eK : key; eV : val; eE : time (* 0 = never expires *); eC : Z }.

#[global] Instance entry_eq_dec : EqDecision entry.
Proof. solve_decision. Defined.

Inductive strategy := MostExpired | LRU | LFU.
#[global] Instance strategy_eq_dec : EqDecision strategy.
Proof. solve_decision. Defined.

Record bcfg := mkBcfg {
  c_ttl : dur;            (* Config.TimeToLive as given (0 = default 5m, -1 = UnlimitedTTL) *)
  c_jitter : bool;        (* ExpirationJitter > 0 after defaulting (0 -> 0.1; negative disables) *)
  c_strategy : strategy;
  c_del_after : dur;      (* Config.DeleteExpiredAfter as given (0 = default 24h) *)
  c_count_limit : Z;      (* CountSoftLimit, 0 = none *)
}.

Definition unlimited : dur := -1.
Definition eff_ttl (c : bcfg) : dur := if c_ttl c =? 0 then 5 * minute else c_ttl c.
Definition eff_del_after (c : bcfg) : dur := if c_del_after c =? 0 then 24 * hour else c_del_after c.

(* Trait.TTL (trait.go:263-282): [jit] is the jitter term Duration(float64(ttl)*J*(rand-0.5)),
   an oracle input constrained by [jit_ok] in Jitter.v. Returns (ttl, expirationsSet increment). *)
Definition trait_ttl (c : bcfg) (ctx_ttl : dur) (jit : Z) : dur * Z :=
  if (ctx_ttl =? 0) && (eff_ttl c =? unlimited) then (0, 0)
  else
    let t0 := if ctx_ttl =? 0 then eff_ttl c else ctx_ttl in
    let t1 := if c_jitter c then t0 + jit else t0 in
    (t1, if (eff_ttl c =? unlimited) && negb (t1 =? 0) then 1 else 0).

(* Trait.expireAt (trait.go:254-260) *)
Definition expire_at (now : time) (ttl : dur) : time := if ttl =? 0 then 0 else now + ttl.

Record bstate := mkB { data : gmap N entry; expset : Z }.
Definition b0 : bstate := mkB ∅ 0.

Inductive bres :=
| RUnit
| RVal (v : val)
| RErr (e : err)
| RLen (n : Z)
| RWalk (l : list entry).
#[global] Instance bres_eq_dec : EqDecision bres.
Proof. solve_decision. Defined.

Section WithHash.
  Context (hash : key -> N).

  Definition find (m : gmap N entry) (k : key) : option entry :=
    match m !! hash k with
    | Some e => if decide (eK e = k) then Some e else None
    | None => None
    end.

  (* PrepareRead: bookkeeping counter (also bumped on expired reads), then classification *)
  Definition bump (c : bcfg) (now : time) (e : entry) : entry :=
    match c_strategy c with
    | MostExpired => e
    | LRU => mkEntry (eK e) (eV e) (eE e) now
    | LFU => mkEntry (eK e) (eV e) (eE e) (eC e + 1)
    end.

  Definition expired (now : time) (e : entry) : bool := negb (eE e =? 0) && (eE e <? now).

  Definition b_read (c : bcfg) (s : bstate) (k : key) (skip : bool) (now : time)
    : bstate * bres * list mevent :=
    if skip then (s, RErr ENotFound, [])
    else match find (data s) k with
         | None => (s, RErr ENotFound, [(MMiss, 1)])
         | Some e =>
           let s' := mkB (<[hash k := bump c now e]> (data s)) (expset s) in
           if expired now e then (s', RErr (EExpired (eV e) (eE e)), [(MExpired, 1)])
           else (s', RVal (eV e), [(MHit, 1)])
         end.

  Definition b_write (c : bcfg) (s : bstate) (k : key) (v : val) (ctx_ttl : dur) (now : time) (jit : Z)
    : bstate * bres * list mevent :=
    let '(ttl, inc) := trait_ttl c ctx_ttl jit in
    (mkB (<[hash k := mkEntry k v (expire_at now ttl) 0]> (data s)) (expset s + inc), RUnit, [(MWrite, 1)]).

  Definition b_delete (s : bstate) (k : key) : bstate * bres * list mevent :=
    match find (data s) k with
    | None => (s, RErr ENotFound, [])
    | Some _ => (mkB (delete (hash k) (data s)) (expset s), RUnit, [(MDelete, 1)])
    end.

  Definition b_expire_all (s : bstate) (now : time) : bstate * bres * list mevent :=
    (mkB ((fun e => mkEntry (eK e) (eV e) now (eC e)) <$> data s) (expset s), RUnit,
     [(MExpired, Z.of_nat (size (data s)))]).

  Definition b_delete_all (s : bstate) : bstate * bres * list mevent :=
    (mkB ∅ (expset s), RUnit, [(MDelete, Z.of_nat (size (data s)))]).

  Definition b_len (s : bstate) : Z := Z.of_nat (size (data s)).
  Definition b_walk (s : bstate) : list entry := (map_to_list (data s)).*2.

  (* deleteExpired, as invoked by invokeCleanup (trait.go:67-73) *)
  Definition long_expired (boundary : time) (e : entry) : bool := negb (eE e =? 0) && (eE e <? boundary).

  Definition b_delete_expired (c : bcfg) (s : bstate) (now : time) : bstate :=
    if negb (eff_ttl c =? unlimited) || (0 <? expset s)
    then mkB (filter (fun he => long_expired (now - eff_del_after c) he.2 = false) (data s)) (expset s)
    else s.

  (* removal of a chosen set of victims by hash (evictLeast deletes by hash) *)
  Definition b_remove_hashes (s : bstate) (hs : list N) : bstate :=
    mkB (foldr delete (data s) hs) (expset s).
End WithHash.

(* ---- operations and runs ---- *)
Inductive bop :=
| OWrite (k : key) (v : val) (ctx_ttl : dur) (now : time) (jit : Z)
| ORead (k : key) (skip : bool) (now : time)
| ODelete (k : key)
| OExpireAll (now : time)
| ODeleteAll
| OLen
| OWalk
| OLoad (k : key) (now : time)                       (* Load = Read with the background context *)
| OStore (k : key) (v : val) (now : time) (jit : Z)  (* Store = Write with the background context *)
| OCleanup (now : time) (victims : list key).        (* one janitor cycle; victims = evicted keys (oracle) *)

Definition b_step (hash : key -> N) (c : bcfg) (s : bstate) (o : bop) : bstate * bres * list mevent :=
  match o with
  | OWrite k v t now jit => b_write hash c s k v t now jit
  | ORead k skip now => b_read hash c s k skip now
  | ODelete k => b_delete hash s k
  | OExpireAll now => b_expire_all s now
  | ODeleteAll => b_delete_all s
  | OLen => (s, RLen (b_len s), [])
  | OWalk => (s, RWalk (b_walk s), [])
  | OLoad k now => b_read hash c s k false now
  | OStore k v now jit => b_write hash c s k v 0 now jit
  | OCleanup now victims =>
      let s1 := b_delete_expired c s now in
      (b_remove_hashes s1 (map hash victims), RUnit, [])
  end.

Fixpoint b_run (hash : key -> N) (c : bcfg) (s : bstate) (ops : list bop)
  : bstate * list bres * list mevent :=
  match ops with
  | [] => (s, [], [])
  | o :: r =>
    let '(s1, res, ev) := b_step hash c s o in
    let '(s2, rs, evs) := b_run hash c s1 r in
    (s2, res :: rs, ev ++ evs)
  end.
