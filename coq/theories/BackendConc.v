(* BackendConc.v — concurrent model of one slot of the sharded backends and its linearizability.

   ShardedMap / ShardedMapOf keep, per 64-bit hash, one pointer to an immutable (K, V) pair with two
   mutable atomic words E and C. Every operation touches the slot of its key's hash in the critical
   sections listed in Generated/Struct.v (sections); operations on other hashes do not touch it, and
   batch operations touch every slot once, under that shard's lock. The model is therefore the view
   from ONE slot: a register holding [option pointer], a heap of entries, and threads that run the
   operations as sequences of atomic steps:

     Write, Delete, ExpireAll@slot, DeleteAll@slot, deleteExpired@slot, Len@slot : one Lock/RLock section
     Read                 : [RLock: p := slot] ; [atomic load of p.E, comparison with the clock]
     Walk's visit         : [RLock: p := slot] ; [atomic loads of p.E, p.C, callback]
     evictLeast@slot      : [RLock: hash collected iff slot non-empty] ; [Lock: delete by hash if chosen]
     SyncMap.DeleteAll@key: [Range observes the key or not] ; [Delete(key)]            (op SClearS)

   SyncMap's point operations (Load / Store / LoadAndDelete on one key of a linearizable sync.Map, then
   the atomic load of E) have exactly the step structure of Read / Write / Delete above, its Len, Walk and
   evictLeast that of SLen / SVisit / SEvict. NOT covered for SyncMap: ExpireAll and deleteExpired, which
   act on the pointer Range handed out after it may have been replaced (DESIGN §3.8).

   C (the LRU/LFU word) is not observable through Entry and only steers the eviction choice, which the
   model leaves to the environment ([SEvict chosen]).

   Specification: the sequential slot register [sspec] (the slot view of Backend.v: lemma
   [sspec_agrees_*] below). Theorem [linearizable]: for EVERY schedule the trace of invocations and
   responses, with a linearization item inserted for every operation by the (ghost) instrumentation,
   is accepted by the canonical atomic object [accepts]; this is linearizability w.r.t. [sspec],
   pending operations included. The linearization point of a Read that holds an entry which another
   thread removes from the slot lies in that other thread's step (just before the removal), which is
   why the instrumentation linearizes all such readers at removals. *)
From Cache Require Import Base Backend.

Record sent := mkS { sK : key; sV : val; sE : time }.
#[global] Instance sent_eq_dec : EqDecision sent.
Proof. solve_decision. Defined.

Inductive sop :=
| SWrite (k : key) (v : val) (e : time)
| SRead (k : key) (now : time)
| SDelete (k : key)
| SExpire (stamp : time)
| SClear
| SClearS                    (* SyncMap.DeleteAll on this key: Range observes the key, then Delete(key) *)
| SDelExp (boundary : time)
| SEvict (chosen : bool)
| SVisit
| SLen.
#[global] Instance sop_eq_dec : EqDecision sop.
Proof. solve_decision. Defined.

Inductive sres :=
| XUnit
| XHit (v : val)
| XExpired (v : val) (e : time)
| XNotFound
| XEntry (o : option sent)
| XPresent (b : bool).
#[global] Instance sres_eq_dec : EqDecision sres.
Proof. solve_decision. Defined.

Definition s_expired (now : time) (x : sent) : bool := negb (sE x =? 0) && (sE x <? now).
Definition s_long_expired (boundary : time) (x : sent) : bool := negb (sE x =? 0) && (sE x <? boundary).

Definition read_res (k : key) (now : time) (o : option sent) : sres :=
  match o with
  | Some x => if decide (sK x = k)
              then (if s_expired now x then XExpired (sV x) (sE x) else XHit (sV x))
              else XNotFound
  | None => XNotFound
  end.

Definition holds_key (k : key) (o : option sent) : bool :=
  match o with Some x => bool_decide (sK x = k) | None => false end.

(* the sequential slot register; [c] resolves the only nondeterministic operation (eviction) *)
Definition sspec (s : option sent) (o : sop) (c : bool) : option sent * sres :=
  match o with
  | SWrite k v e => (Some (mkS k v e), XUnit)
  | SRead k now => (s, read_res k now s)
  | SDelete k => if holds_key k s then (None, XUnit) else (s, XNotFound)
  | SExpire st => ((fun x => mkS (sK x) (sV x) st) <$> s, XUnit)
  | SClear | SClearS => (None, XUnit)
  | SDelExp b => (match s with Some x => if s_long_expired b x then None else s | None => None end, XUnit)
  | SEvict _ => (if c then None else s, XUnit)
  | SVisit => (s, XEntry s)
  | SLen => (s, XPresent (bool_decide (is_Some s)))
  end.

(* ---------- the canonical atomic object ---------- *)
Inductive item :=
| IInv (t : nat) (o : sop)
| ILin (t : nat) (c : bool) (r : sres)
| IRes (t : nat) (r : sres).

Inductive apc := AIdle | APend (o : sop) | ALin (r : sres).
#[global] Instance apc_eq_dec : EqDecision apc.
Proof. solve_decision. Defined.

Record astate := mkA { aslot : option sent; athr : list apc }.

Definition astep (a : astate) (i : item) : option astate :=
  match i with
  | IInv t o =>
      match athr a !! t with
      | Some AIdle => Some (mkA (aslot a) (<[t := APend o]> (athr a)))
      | _ => None
      end
  | ILin t c r =>
      match athr a !! t with
      | Some (APend o) =>
          let '(s', r') := sspec (aslot a) o c in
          if decide (r' = r) then Some (mkA s' (<[t := ALin r]> (athr a))) else None
      | _ => None
      end
  | IRes t r =>
      match athr a !! t with
      | Some (ALin r') => if decide (r' = r) then Some (mkA (aslot a) (<[t := AIdle]> (athr a))) else None
      | _ => None
      end
  end.

Fixpoint accepts (a : astate) (tr : list item) : option astate :=
  match tr with
  | [] => Some a
  | i :: tr' => match astep a i with Some a' => accepts a' tr' | None => None end
  end.

Lemma accepts_app a tr1 tr2 :
  accepts a (tr1 ++ tr2) = match accepts a tr1 with Some a' => accepts a' tr2 | None => None end.
Proof.
  revert a; induction tr1 as [|i tr1 IH]; intros a; cbn [accepts app]; [done|].
  destruct (astep a i); [apply IH|done].
Qed.

(* ---------- the concurrent implementation model ---------- *)
Inductive pc :=
| PIdle
| PReady (o : sop)
| PRead2 (k : key) (now : time) (p : option N)
| PVisit2 (p : option N)
| PEvict2 (del : bool)
| PDone (r : sres)
| PClear2.

Record cstate := mkC { slot : option N; heap : gmap N sent; next : N; thr : list pc }.

Inductive label := LInv (t : nat) (o : sop) | LStep (t : nat) | LRes (t : nat).

(* ghost: linearization items of the readers and walkers that hold entry [e0], emitted just before
   [e0] leaves the slot *)
Definition rlin1 (e0 : N) (h : gmap N sent) (i : nat) (p : pc) : list item :=
  match p with
  | PRead2 k now (Some e) => if decide (e = e0) then [ILin i false (read_res k now (h !! e0))] else []
  | PVisit2 (Some e) => if decide (e = e0) then [ILin i false (XEntry (h !! e0))] else []
  | _ => []
  end.

Fixpoint rlins (e0 : N) (h : gmap N sent) (i : nat) (l : list pc) : list item :=
  match l with
  | [] => []
  | p :: l' => rlin1 e0 h i p ++ rlins e0 h (S i) l'
  end.

Definition removal (c : cstate) : list item :=
  match slot c with Some e0 => rlins e0 (heap c) 0 (thr c) | None => [] end.

Definition set_thr (c : cstate) (t : nat) (p : pc) : cstate :=
  mkC (slot c) (heap c) (next c) (<[t := p]> (thr c)).

Definition content (c : cstate) : option sent := slot c ≫= (heap c !!.).

(* one atomic step of thread [t] whose program counter is [p]; returns the new state and the ghost
   linearization items *)
Definition cstep_thread (c : cstate) (t : nat) (p : pc) : option (cstate * list item) :=
  match p with
  | PIdle | PDone _ => None
  | PReady (SWrite k v e) =>
      Some (mkC (Some (next c)) (<[next c := mkS k v e]> (heap c)) (next c + 1)%N (<[t := PDone XUnit]> (thr c)),
            removal c ++ [ILin t false XUnit])
  | PReady (SRead k now) =>
      Some (set_thr c t (PRead2 k now (slot c)),
            match slot c with None => [ILin t false XNotFound] | Some _ => [] end)
  | PRead2 k now None => Some (set_thr c t (PDone XNotFound), [])
  | PRead2 k now (Some e) =>
      let r := read_res k now (heap c !! e) in
      Some (set_thr c t (PDone r), if decide (slot c = Some e) then [ILin t false r] else [])
  | PReady (SDelete k) =>
      if holds_key k (content c)
      then Some (mkC None (heap c) (next c) (<[t := PDone XUnit]> (thr c)), removal c ++ [ILin t false XUnit])
      else Some (set_thr c t (PDone XNotFound), [ILin t false XNotFound])
  | PReady (SExpire st) =>
      Some (mkC (slot c)
                (match slot c with Some e0 => alter (fun x => mkS (sK x) (sV x) st) e0 (heap c) | None => heap c end)
                (next c) (<[t := PDone XUnit]> (thr c)),
            [ILin t false XUnit])
  | PReady SClear =>
      Some (mkC None (heap c) (next c) (<[t := PDone XUnit]> (thr c)), removal c ++ [ILin t false XUnit])
  | PReady SClearS =>
      match slot c with
      | None => Some (set_thr c t (PDone XUnit), [ILin t false XUnit])
      | Some _ => Some (set_thr c t PClear2, [])
      end
  | PClear2 =>
      Some (mkC None (heap c) (next c) (<[t := PDone XUnit]> (thr c)), removal c ++ [ILin t false XUnit])
  | PReady (SDelExp b) =>
      match content c with
      | Some x =>
          if s_long_expired b x
          then Some (mkC None (heap c) (next c) (<[t := PDone XUnit]> (thr c)), removal c ++ [ILin t false XUnit])
          else Some (set_thr c t (PDone XUnit), [ILin t false XUnit])
      | None => Some (set_thr c t (PDone XUnit), [ILin t false XUnit])
      end
  | PReady (SEvict ch) => Some (set_thr c t (PEvict2 (ch && bool_decide (is_Some (slot c)))), [])
  | PEvict2 d =>
      if d
      then Some (mkC None (heap c) (next c) (<[t := PDone XUnit]> (thr c)), removal c ++ [ILin t true XUnit])
      else Some (set_thr c t (PDone XUnit), [ILin t false XUnit])
  | PReady SVisit =>
      Some (set_thr c t (PVisit2 (slot c)),
            match slot c with None => [ILin t false (XEntry None)] | Some _ => [] end)
  | PVisit2 None => Some (set_thr c t (PDone (XEntry None)), [])
  | PVisit2 (Some e) =>
      let r := XEntry (heap c !! e) in
      Some (set_thr c t (PDone r), if decide (slot c = Some e) then [ILin t false r] else [])
  | PReady SLen =>
      let r := XPresent (bool_decide (is_Some (content c))) in
      Some (set_thr c t (PDone r), [ILin t false r])
  end.

(* a label that is not enabled leaves the state unchanged (the schedule is adversarial, so every
   real execution is some list of enabled labels) *)
Definition cstep (c : cstate) (l : label) : cstate * list item :=
  match l with
  | LInv t o =>
      match thr c !! t with
      | Some PIdle => (set_thr c t (PReady o), [IInv t o])
      | _ => (c, [])
      end
  | LStep t =>
      match thr c !! t with
      | Some p => match cstep_thread c t p with Some r => r | None => (c, []) end
      | None => (c, [])
      end
  | LRes t =>
      match thr c !! t with
      | Some (PDone r) => (set_thr c t PIdle, [IRes t r])
      | _ => (c, [])
      end
  end.

Fixpoint crun (c : cstate) (ls : list label) : cstate * list item :=
  match ls with
  | [] => (c, [])
  | l :: ls' => let '(c1, tr1) := cstep c l in let '(c2, tr2) := crun c1 ls' in (c2, tr1 ++ tr2)
  end.

Definition cinit (n : nat) : cstate := mkC None ∅ 0%N (replicate n PIdle).
Definition ainit (n : nat) : astate := mkA None (replicate n AIdle).

(* the history proper: what the callers see *)
Definition visible (i : item) : bool := match i with ILin _ _ _ => false | _ => true end.
Definition history (tr : list item) : list item := filter (fun i => visible i = true) tr.

(* ---------- the critical-section structure the model assumes ----------
   To be compared with Generated/Struct.sections, which goextract recomputes from /repo's source on
   every run: per function, its critical sections in syntactic order as (mode, reads map, writes map),
   mode 0 = a sync.Map call, 1 = RLock, 2 = Lock. How they map to the model:
     Read            one read section                      -> PReady (SRead ..) step; the E load is PRead2
     Write / Restore one write-only Lock section           -> PReady (SWrite ..)
     Delete          one Lock section that reads and writes -> PReady (SDelete ..)
     ExpireAll       one Lock section reading the map (it writes E of the entries found) -> PReady (SExpire ..)
     DeleteAll / deleteExpired (sharded): one Lock section -> PReady SClear / PReady (SDelExp ..)
     evictLeast      RLock count, RLock collection, Lock delete -> PReady (SEvict ..) ; PEvict2
     Walk / Len      one RLock section                     -> PReady SVisit ; PVisit2 / PReady SLen
     syncMap.DeleteAll / evictLeast: Range, then Delete    -> PReady SClearS ; PClear2 / SEvict
     syncMap.deleteExpired, syncMap.ExpireAll: Range, then act on the entry handed out: not in this model; their
     race on one entry is modelled step by step in SyncMapK1.v (all interleavings, both variants of ExpireAll). *)
From Coq Require Import String.
Definition assumed_sections : list (string * list (N * bool * bool)) := [
  ("ShardedMap.Restore", [(2%N, false, true)]);
  ("ShardedMapOf.Restore", [(2%N, false, true)]);
  ("SyncMap.Restore", [(0%N, false, true)]);
  ("shardedMap.Delete", [(2%N, true, true)]);
  ("shardedMap.DeleteAll", [(2%N, true, true)]);
  ("shardedMap.ExpireAll", [(2%N, true, false)]);
  ("shardedMap.Len", [(1%N, true, false)]);
  ("shardedMap.Read", [(1%N, true, false)]);
  ("shardedMap.Walk", [(1%N, true, false)]);
  ("shardedMap.Write", [(2%N, false, true)]);
  ("shardedMap.deleteExpired", [(2%N, true, true)]);
  ("shardedMap.evictLeast", [(1%N, true, false); (1%N, true, false); (2%N, false, true)]);
  ("shardedMapLegacyWalkerOf.Walk", [(1%N, true, false)]);
  ("shardedMapOf.Delete", [(2%N, true, true)]);
  ("shardedMapOf.DeleteAll", [(2%N, true, true)]);
  ("shardedMapOf.ExpireAll", [(2%N, true, false)]);
  ("shardedMapOf.Len", [(1%N, true, false)]);
  ("shardedMapOf.Read", [(1%N, true, false)]);
  ("shardedMapOf.Walk", [(1%N, true, false)]);
  ("shardedMapOf.Write", [(2%N, false, true)]);
  ("shardedMapOf.deleteExpired", [(2%N, true, true)]);
  ("shardedMapOf.evictLeast", [(1%N, true, false); (1%N, true, false); (2%N, false, true)]);
  ("syncMap.Delete", [(0%N, false, true)]);
  ("syncMap.DeleteAll", [(0%N, true, false); (0%N, false, true)]);
  ("syncMap.ExpireAll", [(0%N, true, false)]);
  ("syncMap.Len", [(0%N, true, false)]);
  ("syncMap.Read", [(0%N, true, false)]);
  ("syncMap.Walk", [(0%N, true, false)]);
  ("syncMap.Write", [(0%N, false, true)]);
  ("syncMap.deleteEntry", [(0%N, false, true)]);     (* CompareAndDelete on the entry deleteExpired was handed *)
  ("syncMap.deleteExpired", [(0%N, true, false)]);
  ("syncMap.evictLeast", [(0%N, true, false); (0%N, false, true)]);
  ("syncMap.expireEntry", [(0%N, false, true)])      (* CompareAndSwap of the entry ExpireAll was handed (D17) *)
]%string.
