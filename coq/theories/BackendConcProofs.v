(* BackendConcProofs.v — linearizability of the slot model (C08) by forward simulation onto the
   canonical atomic object, with hindsight linearization of readers at removals. *)
From Cache Require Import Base Backend BackendConc.

(* ---------- the simulation relation ---------- *)
Definition arel (sl : option N) (h : gmap N sent) (p : pc) (a : apc) : Prop :=
  match p with
  | PIdle => a = AIdle
  | PReady o => a = APend o
  | PRead2 k now None => a = ALin XNotFound
  | PRead2 k now (Some e) =>
      if decide (sl = Some e) then a = APend (SRead k now) else a = ALin (read_res k now (h !! e))
  | PVisit2 None => a = ALin (XEntry None)
  | PVisit2 (Some e) =>
      if decide (sl = Some e) then a = APend SVisit else a = ALin (XEntry (h !! e))
  | PEvict2 d => exists ch, a = APend (SEvict ch)
  | PDone r => a = ALin r
  | PClear2 => a = APend SClearS
  end.

Definition held_ok (nx : N) (p : pc) : Prop :=
  match p with
  | PRead2 _ _ (Some e) | PVisit2 (Some e) => (e < nx)%N
  | _ => True
  end.

Record Rel (c : cstate) (a : astate) : Prop := mkRel {
  R_slot : aslot a = content c;
  R_lt : forall e, slot c = Some e -> (e < next c)%N;
  R_thr : Forall2 (arel (slot c) (heap c)) (thr c) (athr a);
  R_held : Forall (held_ok (next c)) (thr c);
}.

Lemma rel_init n : Rel (cinit n) (ainit n).
Proof.
  split; cbn; [done|done| |].
  - induction n; cbn; constructor; auto. reflexivity.
  - induction n; cbn; constructor; auto. exact I.
Qed.

(* ---------- hindsight linearization of the holders of the removed entry ---------- *)
Lemma rlin1_accepts e0 h pre a al p :
  arel (Some e0) h p a ->
  exists a', accepts (mkA (h !! e0) (pre ++ a :: al)) (rlin1 e0 h (length pre) p)
             = Some (mkA (h !! e0) (pre ++ a' :: al))
             /\ arel None h p a'.
Proof.
  intros Ha.
  assert (Hins : forall x, <[length pre := x]> (pre ++ a :: al) = pre ++ x :: al).
  { intros x. rewrite insert_app_r_alt by lia. by rewrite Nat.sub_diag. }
  destruct p as [|o|k now [e|]|[e|]|d|r|]; cbn [rlin1];
    try (exists a; split; [reflexivity|exact Ha]).
  - cbn [arel] in Ha. destruct (decide (e = e0)) as [->|Hne].
    + rewrite decide_True in Ha by done. subst a.
      exists (ALin (read_res k now (h !! e0))). split.
      * cbn [accepts astep athr aslot]. rewrite list_lookup_middle by done.
        cbn [sspec]. rewrite decide_True by done. by rewrite Hins.
      * cbn [arel]. by rewrite decide_False by done.
    + exists a. split; [reflexivity|]. cbn [arel].
      rewrite decide_False in Ha by congruence. by rewrite decide_False by done.
  - cbn [arel] in Ha. destruct (decide (e = e0)) as [->|Hne].
    + rewrite decide_True in Ha by done. subst a.
      exists (ALin (XEntry (h !! e0))). split.
      * cbn [accepts astep athr aslot]. rewrite list_lookup_middle by done.
        cbn [sspec]. rewrite decide_True by done. by rewrite Hins.
      * cbn [arel]. by rewrite decide_False by done.
    + exists a. split; [reflexivity|]. cbn [arel].
      rewrite decide_False in Ha by congruence. by rewrite decide_False by done.
Qed.

Lemma rlins_accepts e0 h l : forall pre al,
  Forall2 (arel (Some e0) h) l al ->
  exists al', accepts (mkA (h !! e0) (pre ++ al)) (rlins e0 h (length pre) l)
              = Some (mkA (h !! e0) (pre ++ al'))
              /\ Forall2 (arel None h) l al'.
Proof.
  induction l as [|p l IH]; intros pre al HF.
  - inversion HF; subst. exists []. split; [reflexivity|constructor].
  - inversion HF as [|? a ? al0 Hpa HF']; subst. cbn [rlins]. rewrite accepts_app.
    destruct (rlin1_accepts e0 h pre a al0 p Hpa) as (a' & -> & Ha').
    destruct (IH (pre ++ [a']) al0 HF') as (al' & Hacc & HF2).
    rewrite app_length in Hacc. cbn [length] in Hacc.
    replace (length pre + 1)%nat with (S (length pre)) in Hacc by lia.
    rewrite <- !app_assoc in Hacc. cbn [app] in Hacc.
    exists (a' :: al'). split; [exact Hacc|by constructor].
Qed.

Lemma removal_accepts c a :
  Rel c a ->
  exists al', accepts a (removal c) = Some (mkA (aslot a) al')
              /\ Forall2 (arel None (heap c)) (thr c) al'.
Proof.
  intros [Hs _ HF _]. destruct a as [s al]. cbn [aslot athr] in *. unfold removal, content in *.
  destruct (slot c) as [e0|] eqn:Hsl; cbn [mbind option_bind] in Hs.
  - subst s. destruct (rlins_accepts e0 (heap c) (thr c) [] al HF) as (al' & Hacc & HF2).
    exists al'. split; [exact Hacc|exact HF2].
  - exists al. split; [reflexivity|exact HF].
Qed.

(* ---------- changing the slot and the heap under the relation ---------- *)
Lemma arel_none_fresh nx x h p a :
  held_ok nx p -> arel None h p a -> arel (Some nx) (<[nx := x]> h) p a.
Proof.
  destruct p as [|o|k now [e|]|[e|]|d|r|]; cbn [arel held_ok]; intros Hh Ha; try exact Ha.
  - rewrite decide_False in Ha by done. rewrite decide_False by (intros [=]; lia).
    rewrite lookup_insert_ne by lia. exact Ha.
  - rewrite decide_False in Ha by done. rewrite decide_False by (intros [=]; lia).
    rewrite lookup_insert_ne by lia. exact Ha.
Qed.

Lemma arel_expire e0 f h p a :
  arel (Some e0) h p a -> arel (Some e0) (alter f e0 h) p a.
Proof.
  destruct p as [|o|k now [e|]|[e|]|d|r|]; cbn [arel]; intros Ha; try exact Ha.
  - destruct (decide (Some e0 = Some e)) as [Heq|Hne]; [exact Ha|].
    rewrite lookup_alter_ne by congruence. exact Ha.
  - destruct (decide (Some e0 = Some e)) as [Heq|Hne]; [exact Ha|].
    rewrite lookup_alter_ne by congruence. exact Ha.
Qed.

Lemma held_ok_mono nx nx' p : (nx <= nx')%N -> held_ok nx p -> held_ok nx' p.
Proof. destruct p as [|o|k now [e|]|[e|]|d|r|]; cbn [held_ok]; intros; try done; lia. Qed.

Lemma Forall2_impl_with {A B} (Q : A -> Prop) (P P' : A -> B -> Prop) l k :
  Forall2 P l k -> Forall Q l -> (forall x y, Q x -> P x y -> P' x y) -> Forall2 P' l k.
Proof.
  intros HF. induction HF as [|x y l k Hxy HF IH]; intros HQ Himp; [constructor|].
  inversion HQ; subst. constructor; auto.
Qed.

(* ---------- own-thread bookkeeping ---------- *)
Lemma rel_thread c a t p :
  Rel c a -> thr c !! t = Some p ->
  exists ap, athr a !! t = Some ap /\ arel (slot c) (heap c) p ap /\ held_ok (next c) p.
Proof.
  intros [_ _ HF Hh] Ht.
  destruct (Forall2_lookup_l _ _ _ _ _ HF Ht) as (ap & Hap & Hr).
  exists ap. split_and!; [done|done|].
  eapply Forall_lookup_1; eauto.
Qed.

Lemma rel_own c a t p' ap' :
  Rel c a -> arel (slot c) (heap c) p' ap' -> held_ok (next c) p' ->
  Rel (set_thr c t p') (mkA (aslot a) (<[t := ap']> (athr a))).
Proof.
  intros [Hs Hlt HF Hh] Ha Hk. split; cbn.
  - exact Hs.
  - exact Hlt.
  - by apply Forall2_insert.
  - by apply Forall_insert.
Qed.

(* a step that linearizes its own operation without touching slot or heap *)
Lemma own_lin c a t o ch r p' :
  Rel c a -> athr a !! t = Some (APend o) ->
  sspec (aslot a) o ch = (aslot a, r) ->
  arel (slot c) (heap c) p' (ALin r) -> held_ok (next c) p' ->
  exists a', accepts a [ILin t ch r] = Some a' /\ Rel (set_thr c t p') a'.
Proof.
  intros HR Hat Hsp Ha Hk. eexists. split.
  - cbn [accepts astep]. rewrite Hat, Hsp. rewrite decide_True by done. reflexivity.
  - by apply rel_own.
Qed.

(* a step that only moves the own program counter, no linearization *)
Lemma own_silent c a t ap p' :
  Rel c a -> athr a !! t = Some ap ->
  arel (slot c) (heap c) p' ap -> held_ok (next c) p' ->
  exists a', accepts a [] = Some a' /\ Rel (set_thr c t p') a'.
Proof.
  intros HR Hat Ha Hk. exists a. split; [reflexivity|].
  destruct a as [s al]. cbn [athr] in Hat.
  replace al with (<[t := ap]> al) by (by apply list_insert_id).
  by apply (rel_own c (mkA s al) t p' ap).
Qed.

(* a step that removes the resident entry (or finds the slot empty), possibly installs a fresh one,
   and linearizes the own operation *)
Lemma removal_step c a t o ch sl' h' nx' s' :
  Rel c a -> thr c !! t = Some (match o with SEvict _ => PEvict2 true | SClearS => PClear2 | _ => PReady o end) ->
  (forall s, sspec s o ch = (s', XUnit)) \/ sspec (aslot a) o ch = (s', XUnit) ->
  (sl' = None /\ h' = heap c /\ nx' = next c /\ s' = None) \/
  (exists x, sl' = Some (next c) /\ h' = <[next c := x]> (heap c) /\ nx' = (next c + 1)%N /\ s' = Some x) ->
  exists a', accepts a (removal c ++ [ILin t ch XUnit]) = Some a'
             /\ Rel (mkC sl' h' nx' (<[t := PDone XUnit]> (thr c))) a'.
Proof.
  intros HR Ht Hsp Hnew.
  destruct (removal_accepts c a HR) as (al' & Hacc & HF2).
  destruct (Forall2_lookup_l _ _ _ _ _ HF2 Ht) as (ap & Hap & Hr).
  assert (Hpend : exists o', ap = APend o' /\ sspec (aslot a) o' ch = (s', XUnit)).
  { destruct o; cbn [arel] in Hr; try (subst ap; eexists; split; [reflexivity|];
      destruct Hsp as [Hsp|Hsp]; [apply Hsp|exact Hsp]).
    destruct Hr as (ch' & ->). eexists. split; [reflexivity|].
    destruct Hsp as [Hsp|Hsp]; [specialize (Hsp (aslot a))|]; cbn [sspec] in *; exact Hsp. }
  destruct Hpend as (o' & -> & Hsp').
  exists (mkA s' (<[t := ALin XUnit]> al')). split.
  - rewrite accepts_app, Hacc. cbn [accepts astep athr aslot]. rewrite Hap, Hsp'.
    by rewrite decide_True by done.
  - destruct HR as [Hs Hlt HF Hh].
    destruct Hnew as [(-> & -> & -> & ->)|(x & -> & -> & -> & ->)]; split; cbn.
    + reflexivity.
    + intros e [=].
    + apply Forall2_insert; [exact HF2|reflexivity].
    + apply Forall_insert; [exact Hh|exact I].
    + unfold content; cbn. by rewrite lookup_insert.
    + intros e [= <-]. lia.
    + apply Forall2_insert; [|reflexivity].
      eapply Forall2_impl_with; [exact HF2|exact Hh|].
      intros p a0 Hp Hpa. by apply arel_none_fresh.
    + apply Forall_insert; [|exact I].
      eapply Forall_impl; [exact Hh|]. intros p. apply held_ok_mono. lia.
Qed.

(* ---------- one step ---------- *)
Ltac ownlin HR Hat :=
  eapply own_lin; [exact HR|exact Hat|cbn [sspec]|cbn [arel held_ok]; try done|cbn [arel held_ok]; try done].
Ltac ownsil HR Hat :=
  eapply own_silent; [exact HR|exact Hat|cbn [arel held_ok]|cbn [arel held_ok]].

Lemma stutter c a : Rel c a -> exists a', accepts a [] = Some a' /\ Rel c a'.
Proof. intros; exists a; split; [reflexivity|done]. Qed.

Lemma step_thread_sim c a t p c' tr :
  Rel c a -> thr c !! t = Some p -> cstep_thread c t p = Some (c', tr) ->
  exists a', accepts a tr = Some a' /\ Rel c' a'.
Proof.
  intros HR Ht Hst.
  destruct (rel_thread c a t p HR Ht) as (ap & Hat & Hap & Hhk).
  pose proof (R_slot _ _ HR) as Hsl.
  destruct p as [|o|k now [e|]|[e|]|d|r|]; cbn [cstep_thread] in Hst; try discriminate.
  - (* PReady *)
    cbn [arel] in Hap; subst ap.
    destruct o as [k v e|k now|k|st| | |b|ch| |].
    + (* Write *)
      simplify_eq. eapply (removal_step c a t (SWrite k v e) false); [exact HR|exact Ht|by left|].
      right. eexists. split_and!; reflexivity.
    + (* Read, first section *)
      simplify_eq. destruct (slot c) as [e|] eqn:Hs.
      * ownsil HR Hat.
        -- rewrite Hs. by rewrite decide_True by done.
        -- by apply (R_lt _ _ HR).
      * ownlin HR Hat.
        cbn [sspec]. rewrite Hsl. unfold content. rewrite Hs. reflexivity.
    + (* Delete *)
      destruct (holds_key k (content c)) eqn:Hk; simplify_eq.
      * eapply (removal_step c a t (SDelete k) false); [exact HR|exact Ht| |by left].
        right. cbn [sspec]. by rewrite Hsl, Hk.
      * ownlin HR Hat.
        cbn [sspec]. by rewrite Hsl, Hk.
    + (* ExpireAll on this slot *)
      simplify_eq. eexists. split.
      * cbn [accepts astep]. rewrite Hat. cbn [sspec]. rewrite decide_True by done. reflexivity.
      * destruct HR as [Hs Hlt HF Hh]. split; cbn.
        -- unfold content in *; cbn. rewrite Hs. destruct (slot c) as [e0|]; cbn; [|done].
           by rewrite lookup_alter.
        -- exact Hlt.
        -- apply Forall2_insert; [|reflexivity].
           destruct (slot c) as [e0|]; [|exact HF].
           eapply Forall2_impl; [exact HF|]. intros p a0. apply arel_expire.
        -- apply Forall_insert; [exact Hh|exact I].
    + (* DeleteAll on this slot *)
      simplify_eq. eapply (removal_step c a t SClear false); [exact HR|exact Ht|by left|by left].
    + (* SyncMap.DeleteAll on this key, observation *)
      destruct (slot c) as [e|] eqn:Hs; simplify_eq.
      * ownsil HR Hat; done.
      * ownlin HR Hat. rewrite Hsl. unfold content. rewrite Hs. reflexivity.
    + (* deleteExpired on this slot *)
      destruct (content c) as [x|] eqn:Hc.
      * destruct (s_long_expired b x) eqn:Hx; simplify_eq.
        -- eapply (removal_step c a t (SDelExp b) false); [exact HR|exact Ht| |by left].
           right. cbn [sspec]. by rewrite Hsl, Hx.
        -- ownlin HR Hat.
           cbn [sspec]. by rewrite Hsl, Hx.
      * simplify_eq. ownlin HR Hat.
        cbn [sspec]. by rewrite Hsl.
    + (* evictLeast, collection *)
      simplify_eq. ownsil HR Hat; [by eexists|done].
    + (* Walk's visit, first section *)
      simplify_eq. destruct (slot c) as [e|] eqn:Hs.
      * ownsil HR Hat.
        -- rewrite Hs. by rewrite decide_True by done.
        -- by apply (R_lt _ _ HR).
      * ownlin HR Hat.
        cbn [sspec]. rewrite Hsl. unfold content. rewrite Hs. reflexivity.
    + (* Len on this slot *)
      simplify_eq. ownlin HR Hat.
      cbn [sspec]. by rewrite Hsl.
  - (* Read, second step, holding e *)
    simplify_eq. cbn [arel] in Hap. destruct (decide (slot c = Some e)) as [Hs|Hs].
    + subst ap. ownlin HR Hat.
      cbn [sspec]. rewrite Hsl. unfold content. rewrite Hs. reflexivity.
    + subst ap. ownsil HR Hat; done.
  - (* Read that found nothing *)
    simplify_eq. cbn [arel] in Hap. subst ap. ownsil HR Hat; done.
  - (* visit, second step *)
    simplify_eq. cbn [arel] in Hap. destruct (decide (slot c = Some e)) as [Hs|Hs].
    + subst ap. ownlin HR Hat.
      cbn [sspec]. rewrite Hsl. unfold content. rewrite Hs. reflexivity.
    + subst ap. ownsil HR Hat; done.
  - simplify_eq. cbn [arel] in Hap. subst ap. ownsil HR Hat; done.
  - (* evictLeast, deletion by hash *)
    cbn [arel] in Hap. destruct Hap as (ch & ->). destruct d; simplify_eq.
    + eapply (removal_step c a t (SEvict ch) true); [exact HR|exact Ht|by left|by left].
    + ownlin HR Hat; done.
  - (* SyncMap.DeleteAll on this key, Delete(key) *)
    simplify_eq. eapply (removal_step c a t SClearS false); [exact HR|exact Ht|by left|by left].
Qed.

Lemma step_sim c a l c' tr :
  Rel c a -> cstep c l = (c', tr) -> exists a', accepts a tr = Some a' /\ Rel c' a'.
Proof.
  intros HR Hst. destruct l as [t o|t|t]; cbn [cstep] in Hst.
  - destruct (thr c !! t) as [p|] eqn:Ht; [|simplify_eq; by apply stutter].
    destruct p; simplify_eq; try by apply stutter.
    destruct (rel_thread c a t _ HR Ht) as (ap & Hat & Hap & _). cbn [arel] in Hap; subst ap.
    eexists. split.
    + cbn [accepts astep]. rewrite Hat. reflexivity.
    + by apply rel_own.
  - destruct (thr c !! t) as [p|] eqn:Ht; [|simplify_eq; by apply stutter].
    destruct (cstep_thread c t p) as [[c1 tr1]|] eqn:Hth; simplify_eq; [|by apply stutter].
    eapply step_thread_sim; eauto.
  - destruct (thr c !! t) as [p|] eqn:Ht; [|simplify_eq; by apply stutter].
    destruct p; simplify_eq; try by apply stutter.
    destruct (rel_thread c a t _ HR Ht) as (ap & Hat & Hap & _). cbn [arel] in Hap; subst ap.
    eexists. split.
    + cbn [accepts astep]. rewrite Hat. rewrite decide_True by done. reflexivity.
    + by apply rel_own.
Qed.

Theorem run_sim ls : forall c a c' tr,
  Rel c a -> crun c ls = (c', tr) -> exists a', accepts a tr = Some a' /\ Rel c' a'.
Proof.
  induction ls as [|l ls IH]; intros c a c' tr HR Hrun; cbn [crun] in Hrun.
  - simplify_eq. by apply stutter.
  - destruct (cstep c l) as [c1 tr1] eqn:H1. destruct (crun c1 ls) as [c2 tr2] eqn:H2. simplify_eq.
    destruct (step_sim _ _ _ _ _ HR H1) as (a1 & Hacc1 & HR1).
    destruct (IH _ _ _ _ HR1 H2) as (a2 & Hacc2 & HR2).
    exists a2. split; [|done]. by rewrite accepts_app, Hacc1.
Qed.

(* Linearizability of the slot: every schedule of every number of threads yields a trace the
   canonical atomic object accepts. *)
Theorem linearizable n ls :
  exists a', accepts (ainit n) (crun (cinit n) ls).2 = Some a'.
Proof.
  destruct (crun (cinit n) ls) as [c' tr] eqn:Hrun.
  destruct (run_sim ls _ _ _ _ (rel_init n) Hrun) as (a' & Hacc & _). by exists a'.
Qed.

(* ---------- consequences, stated on the atomic object (hence, by [linearizable], on every
   concurrent execution) ---------- *)
Definition mutator (o : sop) : bool :=
  match o with SRead _ _ | SVisit | SLen => false | _ => true end.

(* no mutating operation is in flight *)
Definition quiet (a : astate) : Prop :=
  forall t o, athr a !! t = Some (APend o) -> mutator o = false.

Definition no_mut_inv (i : item) : Prop :=
  match i with IInv _ o => mutator o = false | _ => True end.

Lemma sspec_nonmut s o c : mutator o = false -> (sspec s o c).1 = s.
Proof. destruct o; cbn; try discriminate; done. Qed.

Lemma quiet_step a i a' :
  quiet a -> no_mut_inv i -> astep a i = Some a' -> quiet a' /\ aslot a' = aslot a.
Proof.
  intros Hq Hi Hst. destruct i as [t o|t c r|t r]; cbn [astep] in Hst.
  - destruct (athr a !! t) as [[| |]|] eqn:Ht; simplify_eq. split; [|done].
    intros t' o' Hl. cbn in Hl. destruct (decide (t' = t)) as [->|Hne].
    + rewrite list_lookup_insert in Hl by (by eapply lookup_lt_Some). by simplify_eq.
    + rewrite list_lookup_insert_ne in Hl by done. by eapply Hq.
  - destruct (athr a !! t) as [[|o|]|] eqn:Ht; simplify_eq.
    destruct (sspec (aslot a) o c) as [s' r'] eqn:Hsp. destruct (decide (r' = r)); simplify_eq.
    split.
    + intros t' o' Hl. cbn in Hl. destruct (decide (t' = t)) as [->|Hne].
      * rewrite list_lookup_insert in Hl by (by eapply lookup_lt_Some). by simplify_eq.
      * rewrite list_lookup_insert_ne in Hl by done. by eapply Hq.
    + cbn. pose proof (sspec_nonmut (aslot a) o c (Hq _ _ Ht)) as Hs. by rewrite Hsp in Hs.
  - destruct (athr a !! t) as [[| |r']|] eqn:Ht; simplify_eq.
    destruct (decide (r' = r)); simplify_eq. split; [|done].
    intros t' o' Hl. cbn in Hl. destruct (decide (t' = t)) as [->|Hne].
    + rewrite list_lookup_insert in Hl by (by eapply lookup_lt_Some). by simplify_eq.
    + rewrite list_lookup_insert_ne in Hl by done. by eapply Hq.
Qed.

Lemma quiet_run tr : forall a a',
  quiet a -> Forall no_mut_inv tr -> accepts a tr = Some a' -> quiet a' /\ aslot a' = aslot a.
Proof.
  induction tr as [|i tr IH]; intros a a' Hq HF Hacc; cbn [accepts] in Hacc; [by simplify_eq|].
  inversion HF as [|? ? Hi HF']; subst. destruct (astep a i) as [a1|] eqn:H1; [|done].
  destruct (quiet_step _ _ _ Hq Hi H1) as (Hq1 & Hs1).
  destruct (IH _ _ Hq1 HF' Hacc) as (Hq2 & Hs2). split; [done|congruence].
Qed.

(* thread [t] answers [r] to a read it invoked while nothing mutates: [r] is the read of the slot *)
Definition not_res_of (t : nat) (i : item) : Prop := match i with IRes t' _ => t' <> t | _ => True end.

Lemma pending_read_result tr : forall a a' t k now r rest,
  quiet a -> Forall no_mut_inv tr -> Forall (not_res_of t) tr ->
  (athr a !! t = Some (APend (SRead k now)) \/ athr a !! t = Some (ALin (read_res k now (aslot a)))) ->
  accepts a (tr ++ IRes t r :: rest) = Some a' ->
  r = read_res k now (aslot a).
Proof.
  induction tr as [|i tr IH]; intros a a' t k now r rest Hq HF HN Hst Hacc.
  - cbn [app accepts astep] in Hacc. destruct Hst as [Hst|Hst]; rewrite Hst in Hacc; [done|].
    destruct (decide _); by simplify_eq.
  - cbn [app accepts] in Hacc. inversion HF as [|? ? Hi HF']; subst. inversion HN as [|? ? Hn HN']; subst.
    destruct (astep a i) as [a1|] eqn:H1; [|done].
    destruct (quiet_step _ _ _ Hq Hi H1) as (Hq1 & Hs1).
    rewrite <- Hs1. eapply (IH a1 a' t k now r rest); eauto. rewrite Hs1.
    destruct i as [t' o|t' c r'|t' r']; cbn [astep] in H1.
    + destruct (athr a !! t') as [[| |]|] eqn:Ht'; simplify_eq. cbn.
      destruct (decide (t = t')) as [->|Hne]; [destruct Hst; congruence|].
      by rewrite list_lookup_insert_ne by done.
    + destruct (athr a !! t') as [[|o|]|] eqn:Ht'; simplify_eq.
      destruct (sspec (aslot a) o c) as [s' r''] eqn:Hsp. destruct (decide (r'' = r')); simplify_eq. cbn.
      destruct (decide (t = t')) as [->|Hne].
      * rewrite list_lookup_insert by (by eapply lookup_lt_Some).
        destruct Hst as [Hst|Hst]; [|congruence]. rewrite Hst in Ht'. simplify_eq.
        cbn [sspec] in Hsp. simplify_eq. by right.
      * by rewrite list_lookup_insert_ne by done.
    + destruct (athr a !! t') as [[| |r'']|] eqn:Ht'; simplify_eq.
      destruct (decide (r'' = r')); simplify_eq. cbn. cbn in Hn.
      by rewrite list_lookup_insert_ne by done.
Qed.

(* A completed Write is visible to every later Read; a completed Delete (or DeleteAll, or cleanup of an
   expired entry) is not followed by a read of what it deleted: once the slot holds [s] and no mutating
   operation is in flight or invoked, a Read invoked afterwards answers exactly [read_res k now s]. *)
Theorem quiet_read a a' t k now r tr rest :
  quiet a -> Forall no_mut_inv tr -> Forall (not_res_of t) tr ->
  accepts a (IInv t (SRead k now) :: tr ++ IRes t r :: rest) = Some a' ->
  r = read_res k now (aslot a).
Proof.
  intros Hq HF HN Hacc. cbn [accepts] in Hacc.
  destruct (astep a (IInv t (SRead k now))) as [a1|] eqn:H1; [|done].
  destruct (quiet_step _ _ _ Hq (eq_refl : no_mut_inv (IInv t (SRead k now))) H1) as (Hq1 & Hs1).
  rewrite <- Hs1. eapply pending_read_result; eauto. left.
  cbn [astep] in H1. destruct (athr a !! t) as [[| |]|] eqn:Ht; simplify_eq. cbn.
  by rewrite list_lookup_insert by (by eapply lookup_lt_Some).
Qed.

(* the state right after the linearization of a Write / Delete / DeleteAll *)
Lemma after_write s k v e c : (sspec s (SWrite k v e) c).1 = Some (mkS k v e).
Proof. reflexivity. Qed.
Lemma after_delete s k c : holds_key k s = true -> (sspec s (SDelete k) c).1 = None.
Proof. cbn. by intros ->. Qed.
Lemma after_clear s c : (sspec s SClear c).1 = None.
Proof. reflexivity. Qed.

(* Walk reports only entries that were stored: the slot only ever holds the key and value of an
   invoked Write. *)
Definition written (tr : list item) (x : sent) : Prop :=
  exists t e, IInv t (SWrite (sK x) (sV x) e) ∈ tr.

Definition pend_written (tr : list item) (a : astate) : Prop :=
  (forall x, aslot a = Some x -> written tr x) /\
  (forall t k v e, athr a !! t = Some (APend (SWrite k v e)) -> written tr (mkS k v e)).

Lemma written_mono tr i x : written tr x -> written (tr ++ [i]) x.
Proof. intros (t & e & H). exists t, e. apply elem_of_app; by left. Qed.

Lemma stored_step tr a i a' :
  pend_written tr a -> astep a i = Some a' -> pend_written (tr ++ [i]) a'.
Proof.
  intros [Hs Hp] Hst. destruct i as [t o|t c r|t r]; cbn [astep] in Hst.
  - destruct (athr a !! t) as [[| |]|] eqn:Ht; simplify_eq. split; cbn.
    + intros x Hx. apply written_mono; auto.
    + intros t' k v e Hl. destruct (decide (t' = t)) as [->|Hne].
      * rewrite list_lookup_insert in Hl by (by eapply lookup_lt_Some). simplify_eq.
        exists t, e. apply elem_of_app; right. cbn. apply elem_of_list_singleton. reflexivity.
      * rewrite list_lookup_insert_ne in Hl by done. apply written_mono. eauto.
  - destruct (athr a !! t) as [[|o|]|] eqn:Ht; simplify_eq.
    destruct (sspec (aslot a) o c) as [s' r'] eqn:Hsp. destruct (decide (r' = r)); simplify_eq.
    split; cbn.
    + intros x Hx. apply written_mono. cbn [aslot] in Hx.
      pose proof (f_equal fst Hsp) as Hf. cbn [fst] in Hf. clear Hsp. rewrite <- Hf in Hx. clear Hf.
      destruct o as [k v e|k now|k|st| | |b|ch| |]; cbn [sspec fst] in Hx.
      * inversion Hx; subst x. eapply Hp; eauto.
      * by apply Hs.
      * destruct (holds_key k (aslot a)); cbn [fst] in Hx; [discriminate|by apply Hs].
      * destruct (aslot a) as [y|] eqn:Hy; cbn in Hx; [|discriminate]. inversion Hx; subst x.
        destruct (Hs y eq_refl) as (t0 & e0 & H0). exists t0, e0. exact H0.
      * discriminate.
      * discriminate.
      * destruct (aslot a) as [y|] eqn:Hy; [|discriminate].
        destruct (s_long_expired b y); [discriminate|]. by apply Hs.
      * destruct c; [discriminate|by apply Hs].
      * by apply Hs.
      * by apply Hs.
    + intros t' k v e Hl. destruct (decide (t' = t)) as [->|Hne].
      * rewrite list_lookup_insert in Hl by (by eapply lookup_lt_Some). simplify_eq.
      * rewrite list_lookup_insert_ne in Hl by done. apply written_mono. eauto.
  - destruct (athr a !! t) as [[| |r']|] eqn:Ht; simplify_eq.
    destruct (decide (r' = r)); simplify_eq. split; cbn.
    + intros x Hx. apply written_mono; auto.
    + intros t' k v e Hl. destruct (decide (t' = t)) as [->|Hne].
      * rewrite list_lookup_insert in Hl by (by eapply lookup_lt_Some). simplify_eq.
      * rewrite list_lookup_insert_ne in Hl by done. apply written_mono. eauto.
Qed.

Lemma stored_run tr2 : forall tr1 a a',
  pend_written tr1 a -> accepts a tr2 = Some a' -> pend_written (tr1 ++ tr2) a'.
Proof.
  induction tr2 as [|i tr2 IH]; intros tr1 a a' HP Hacc; cbn [accepts] in Hacc.
  - simplify_eq. by rewrite app_nil_r.
  - destruct (astep a i) as [a1|] eqn:H1; [|done].
    replace (tr1 ++ i :: tr2) with ((tr1 ++ [i]) ++ tr2) by (by rewrite <- app_assoc).
    eapply IH; [|exact Hacc]. eapply stored_step; eauto.
Qed.

Theorem only_stored n tr a' x :
  accepts (ainit n) tr = Some a' -> aslot a' = Some x -> written tr x.
Proof.
  intros Hacc Hx.
  assert (H0 : pend_written [] (ainit n)).
  { split; cbn; [done|]. intros t k v e Hl. apply lookup_replicate in Hl as [? _]. done. }
  destruct (stored_run tr [] _ _ H0 Hacc) as [Hs _]. by apply Hs.
Qed.

(* what a visit hands out is the slot's content at its linearization point *)
Lemma visit_reports s c : sspec s SVisit c = (s, XEntry s).
Proof. reflexivity. Qed.

(* ---------- the slot register is the slot view of the sequential backend model ---------- *)
Definition sproj (e : entry) : sent := mkS (eK e) (eV e) (eE e).
Definition slot_of (h : N) (s : bstate) : option sent := sproj <$> data s !! h.

Definition bres_of (r : sres) : bres :=
  match r with
  | XHit v => RVal v
  | XExpired v e => RErr (EExpired v e)
  | XNotFound => RErr ENotFound
  | _ => RUnit
  end.

Lemma read_res_not_held k now o : holds_key k o = false -> read_res k now o = XNotFound.
Proof.
  destruct o as [x|]; cbn; [|done]. intros H. apply bool_decide_eq_false in H. by rewrite decide_False.
Qed.

Section SlotView.
  Context (hash : key -> N).

  Lemma slot_write c s k v ttl now jit h :
    slot_of h (b_write hash c s k v ttl now jit).1.1 =
    if decide (hash k = h)
    then (sspec (slot_of h s) (SWrite k v (expire_at now (trait_ttl c ttl jit).1)) false).1
    else slot_of h s.
  Proof.
    unfold b_write, slot_of. destruct (trait_ttl c ttl jit) as [t inc]. cbn.
    destruct (decide (hash k = h)) as [<-|Hne].
    - by rewrite lookup_insert.
    - by rewrite lookup_insert_ne.
  Qed.

  Lemma find_slot s k :
    find hash (data s) k = None /\ holds_key k (slot_of (hash k) s) = false \/
    exists e, find hash (data s) k = Some e /\ data s !! hash k = Some e /\ eK e = k /\
              holds_key k (slot_of (hash k) s) = true.
  Proof.
    unfold find, slot_of. destruct (data s !! hash k) as [e|]; cbn; [|by left].
    destruct (decide (eK e = k)) as [He|He].
    - right. exists e. split_and!; try done. by rewrite bool_decide_eq_true.
    - left. split; [done|]. by rewrite bool_decide_eq_false.
  Qed.

  Lemma slot_read_result c s k now :
    (b_read hash c s k false now).1.2 = bres_of (sspec (slot_of (hash k) s) (SRead k now) false).2.
  Proof.
    unfold b_read. cbn [sspec snd]. destruct (find_slot s k) as [[Hf Hk]|(e & Hf & Hd & HK & _)]; rewrite Hf.
    - cbn. by rewrite read_res_not_held.
    - unfold slot_of. rewrite Hd. cbn. rewrite decide_True by done.
      unfold expired, s_expired. cbn. by destruct (negb (eE e =? 0) && (eE e <? now)).
  Qed.

  Lemma slot_read_state c s k now h :
    slot_of h (b_read hash c s k false now).1.1 = slot_of h s.
  Proof.
    unfold b_read. destruct (find_slot s k) as [[Hf _]|(e & Hf & Hd & HK & _)]; rewrite Hf; [done|].
    assert (Hst : forall (r : bres) (ev : list mevent),
               slot_of h (mkB (<[hash k := bump c now e]> (data s)) (expset s), r, ev).1.1 = slot_of h s).
    { intros r ev. unfold slot_of; cbn. destruct (decide (hash k = h)) as [<-|Hne].
      - rewrite lookup_insert, Hd. cbn. unfold bump, sproj. by destruct (c_strategy c).
      - by rewrite lookup_insert_ne. }
    destruct (expired now e); apply Hst.
  Qed.

  Lemma slot_delete s k h :
    slot_of h (b_delete hash s k).1.1 =
    (if decide (hash k = h) then (sspec (slot_of h s) (SDelete k) false).1 else slot_of h s)
    /\ (b_delete hash s k).1.2 = bres_of (sspec (slot_of (hash k) s) (SDelete k) false).2.
  Proof.
    unfold b_delete. cbn [sspec].
    destruct (find_slot s k) as [[Hf Hk]|(e & Hf & Hd & HK & Hk)]; rewrite Hf.
    - split; [|by rewrite Hk]. destruct (decide (hash k = h)) as [<-|Hne]; [|done]. by rewrite Hk.
    - split; [|by rewrite Hk]. unfold slot_of at 1; cbn.
      destruct (decide (hash k = h)) as [<-|Hne].
      + rewrite Hk. cbn. by rewrite lookup_delete.
      + by rewrite lookup_delete_ne.
  Qed.
End SlotView.

Lemma slot_expire_all s now h :
  slot_of h (b_expire_all s now).1.1 = (sspec (slot_of h s) (SExpire now) false).1.
Proof.
  unfold b_expire_all, slot_of. cbn. rewrite lookup_fmap. by destruct (data s !! h).
Qed.

Lemma slot_delete_all s h :
  slot_of h (b_delete_all s).1.1 = (sspec (slot_of h s) SClear false).1.
Proof. unfold slot_of; cbn. by rewrite lookup_empty. Qed.

Lemma slot_delete_expired c s now h :
  (negb (eff_ttl c =? unlimited) || (0 <? expset s)) = true ->
  slot_of h (b_delete_expired c s now) = (sspec (slot_of h s) (SDelExp (now - eff_del_after c)) false).1.
Proof.
  intros Hon. unfold b_delete_expired, slot_of. rewrite Hon. cbn.
  destruct (data s !! h) as [e|] eqn:He; cbn.
  - unfold s_long_expired, sproj; cbn. fold (long_expired (now - eff_del_after c) e).
    destruct (long_expired (now - eff_del_after c) e) eqn:Hl.
    + replace (filter _ (data s) !! h) with (@None entry); [done|]. symmetry.
      apply map_filter_lookup_None. right. intros e' He'. cbn. simplify_eq. by rewrite Hl.
    + erewrite map_filter_lookup_Some_2; [done|exact He|done].
  - replace (filter _ (data s) !! h) with (@None entry); [done|]. symmetry.
    apply map_filter_lookup_None. by left.
Qed.

Lemma slot_remove_hashes s hs h :
  slot_of h (b_remove_hashes s hs) =
  (sspec (slot_of h s) (SEvict true) (bool_decide (h ∈ hs))).1.
Proof.
  unfold b_remove_hashes, slot_of. cbn.
  induction hs as [|x hs IH]; cbn [foldr].
  - rewrite bool_decide_eq_false_2 by set_solver. done.
  - destruct (decide (x = h)) as [->|Hne].
    + rewrite lookup_delete. rewrite bool_decide_eq_true_2 by set_solver. done.
    + rewrite lookup_delete_ne by done. rewrite IH.
      destruct (decide (h ∈ hs)).
      * by rewrite !bool_decide_eq_true_2 by set_solver.
      * by rewrite !bool_decide_eq_false_2 by set_solver.
Qed.
