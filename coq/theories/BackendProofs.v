(* BackendProofs.v — simulation between the hashed backends (Backend.v) and the reference map
   (Spec.v): one direction for every hash function (C09), both directions when the keys in use do
   not collide (C07). *)
From Cache Require Import Base Backend Spec.

Section Sim.
  Context (hash : key -> N).

  (* keys mentioned by an operation *)
  Definition op_keys (o : bop) : list key :=
    match o with
    | OWrite k _ _ _ _ | ORead k _ _ | ODelete k | OLoad k _ | OStore k _ _ _ => [k]
    | OCleanup _ vs => vs
    | _ => []
    end.
  Definition ops_keys (ops : list bop) : list key := concat (map op_keys ops).

  Definition collision_free (ks : list key) : Prop :=
    forall k1 k2, k1 ∈ ks -> k2 ∈ ks -> hash k1 = hash k2 -> k1 = k2.

  (* R1: every resident entry of the backend sits in its own slot and is, unchanged, in the reference map *)
  Definition R1 (m : gmap N entry) (sp : gmap key entry) : Prop :=
    forall h e, m !! h = Some e -> hash (eK e) = h /\ sp !! eK e = Some e.
  (* key discipline of the reference map *)
  Definition Rk (sp : gmap key entry) : Prop := forall k e, sp !! k = Some e -> eK e = k.
  (* R2: every entry of the reference map is resident (needs collision freedom to be preserved) *)
  Definition R2 (m : gmap N entry) (sp : gmap key entry) : Prop :=
    forall k e, sp !! k = Some e -> m !! hash k = Some e.

  Lemma find_Some m k e : find hash m k = Some e <-> m !! hash k = Some e /\ eK e = k.
  Proof.
    unfold find. destruct (m !! hash k) as [e'|]; [|split; [discriminate|intros [? _]; discriminate]].
    destruct (decide (eK e' = k)); split.
    - intros [= <-]; auto.
    - intros [[= <-] _]; reflexivity.
    - discriminate.
    - intros [[= <-] ?]; contradiction.
  Qed.

  Lemma find_R1 m sp k e : R1 m sp -> find hash m k = Some e -> sp !! k = Some e.
  Proof. intros H [Hm <-]%find_Some. apply (H _ _ Hm). Qed.

  Lemma find_R2 m sp k : R1 m sp -> Rk sp -> R2 m sp -> find hash m k = sp !! k.
  Proof.
    intros H1 Hk H2. destruct (sp !! k) as [e|] eqn:Hs.
    - apply find_Some. split; [apply H2, Hs|apply (Hk _ _ Hs)].
    - destruct (find hash m k) as [e|] eqn:Hf; [|reflexivity].
      apply (find_R1 _ _ _ _ H1) in Hf. congruence.
  Qed.

  (* a miss in the backend means: no resident entry carries key k *)
  Lemma find_None_no_key m k h e :
    (forall h e, m !! h = Some e -> hash (eK e) = h) ->
    find hash m k = None -> m !! h = Some e -> eK e <> k.
  Proof.
    intros Hslot Hf Hm Hk. pose proof (Hslot _ _ Hm) as Hh. subst k.
    assert (find hash m (eK e) = Some e) by (apply find_Some; rewrite Hh; auto). congruence.
  Qed.

  (* ---- preservation of R1/Rk by every operation (any hash) ---- *)

  Lemma R1_insert m sp k e :
    R1 m sp -> eK e = k -> R1 (<[hash k := e]> m) (<[k := e]> sp).
  Proof.
    intros H Hk h e' Hl. destruct (decide (h = hash k)) as [->|Hne].
    - rewrite lookup_insert in Hl. assert (e' = e) as -> by congruence. rewrite Hk, lookup_insert. auto.
    - rewrite lookup_insert_ne in Hl by congruence. destruct (H _ _ Hl) as [Hh Hs].
      split; [exact Hh|]. rewrite lookup_insert_ne; [exact Hs|]. intros Heq. apply Hne. rewrite <- Hh, <- Heq. reflexivity.
  Qed.

  Lemma Rk_insert sp k e : Rk sp -> eK e = k -> Rk (<[k := e]> sp).
  Proof.
    intros H Hk k' e' Hl. destruct (decide (k' = k)) as [->|Hne].
    - rewrite lookup_insert in Hl. congruence.
    - rewrite lookup_insert_ne in Hl by congruence. eauto.
  Qed.

  (* the reference map changes at key k only, the backend not at all, and no resident carries k *)
  Lemma R1_spec_only m sp sp' k :
    R1 m sp -> (forall h e, m !! h = Some e -> eK e <> k) ->
    (forall k', k' <> k -> sp' !! k' = sp !! k') -> R1 m sp'.
  Proof.
    intros H Hno Hsame h e Hl. destruct (H _ _ Hl) as [Hh Hs]. split; [exact Hh|].
    rewrite Hsame; [exact Hs|]. eapply Hno, Hl.
  Qed.

  Lemma R1_delete m sp k : R1 m sp -> R1 (delete (hash k) m) (delete k sp).
  Proof.
    intros H h e Hl. apply lookup_delete_Some in Hl as [Hne Hl]. destruct (H _ _ Hl) as [Hh Hs].
    split; [exact Hh|]. rewrite lookup_delete_ne; [exact Hs|]. intros Heq. apply Hne. rewrite <- Hh, <- Heq. reflexivity.
  Qed.

  Lemma Rk_delete sp k : Rk sp -> Rk (delete k sp).
  Proof. intros H k' e Hl. apply lookup_delete_Some in Hl as [_ Hl]. eauto. Qed.

  Lemma R1_fmap m sp (f : entry -> entry) :
    (forall e, eK (f e) = eK e) -> R1 m sp -> R1 (f <$> m) (f <$> sp).
  Proof.
    intros Hf H h e Hl. rewrite lookup_fmap in Hl. destruct (m !! h) as [e0|] eqn:Hm; [|discriminate].
    injection Hl as <-. destruct (H _ _ Hm) as [Hh Hs]. rewrite Hf. split; [exact Hh|].
    rewrite lookup_fmap, Hs. reflexivity.
  Qed.

  Lemma Rk_fmap sp (f : entry -> entry) : (forall e, eK (f e) = eK e) -> Rk sp -> Rk (f <$> sp).
  Proof.
    intros Hf H k e Hl. rewrite lookup_fmap in Hl. destruct (sp !! k) as [e0|] eqn:Hm; [|discriminate].
    injection Hl as <-. rewrite Hf. eauto.
  Qed.

  Lemma R1_filter m sp (P : entry -> bool) :
    R1 m sp ->
    R1 (filter (fun he : N * entry => P he.2 = false) m) (filter (fun ke : key * entry => P ke.2 = false) sp).
  Proof.
    intros H h e Hl. apply map_filter_lookup_Some in Hl as [Hl Hp]. destruct (H _ _ Hl) as [Hh Hs].
    split; [exact Hh|]. apply map_filter_lookup_Some. auto.
  Qed.

  Lemma Rk_filter sp (P : key * entry -> Prop) `{!forall x, Decision (P x)} : Rk sp -> Rk (filter P sp).
  Proof. intros HR k e Hl. apply map_filter_lookup_Some in Hl as [Hl _]. eauto. Qed.

  Lemma R1_remove m sp vs :
    R1 m sp -> R1 (foldr delete m (map hash vs)) (foldr delete sp vs).
  Proof.
    intros H h e Hl. apply lookup_foldr_delete_Some in Hl as [Hni Hl]. destruct (H _ _ Hl) as [Hh Hs].
    split; [exact Hh|]. apply lookup_foldr_delete_Some. split; [|exact Hs].
    intros Hin. apply Hni. rewrite <- Hh. apply elem_of_list_fmap. eauto.
  Qed.

  Lemma Rk_remove sp vs : Rk sp -> Rk (foldr delete sp vs).
  Proof. intros H k e Hl. apply lookup_foldr_delete_Some in Hl as [_ Hl]. eauto. Qed.

  (* ---- R2 (needs collision freedom on a key universe [ks]) ---- *)
  Context (ks : list key) (Hcf : collision_free ks).

  Definition Rin (sp : gmap key entry) : Prop := forall k e, sp !! k = Some e -> k ∈ ks.

  Lemma R2_insert m sp k e :
    R2 m sp -> Rin sp -> k ∈ ks -> R2 (<[hash k := e]> m) (<[k := e]> sp).
  Proof.
    intros H Hin Hk k' e' Hl. destruct (decide (k' = k)) as [->|Hne].
    - rewrite lookup_insert in Hl. injection Hl as <-. rewrite lookup_insert. reflexivity.
    - rewrite lookup_insert_ne in Hl by congruence. rewrite lookup_insert_ne; [eauto|].
      intros Hh. apply Hne. symmetry. apply Hcf; eauto.
  Qed.

  Lemma Rin_insert sp k e : Rin sp -> k ∈ ks -> Rin (<[k := e]> sp).
  Proof.
    intros H Hk k' e' Hl. destruct (decide (k' = k)) as [->|Hne]; [exact Hk|].
    rewrite lookup_insert_ne in Hl by congruence. eauto.
  Qed.

  Lemma R2_delete m sp k : R2 m sp -> Rin sp -> k ∈ ks -> R2 (delete (hash k) m) (delete k sp).
  Proof.
    intros H Hin Hk k' e Hl. apply lookup_delete_Some in Hl as [Hne Hl].
    rewrite lookup_delete_ne; [eauto|]. intros Hh. apply Hne. apply Hcf; eauto.
  Qed.

  Lemma Rin_delete sp k : Rin sp -> Rin (delete k sp).
  Proof. intros H k' e Hl. apply lookup_delete_Some in Hl as [_ Hl]. eauto. Qed.

  Lemma R2_fmap m sp (f : entry -> entry) : R2 m sp -> R2 (f <$> m) (f <$> sp).
  Proof.
    intros H k e Hl. rewrite lookup_fmap in Hl. destruct (sp !! k) as [e0|] eqn:Hs; [|discriminate].
    injection Hl as <-. rewrite lookup_fmap, (H _ _ Hs). reflexivity.
  Qed.

  Lemma Rin_fmap sp (f : entry -> entry) : Rin sp -> Rin (f <$> sp).
  Proof.
    intros H k e Hl. rewrite lookup_fmap in Hl. destruct (sp !! k) as [e0|] eqn:Hs; [|discriminate]. eauto.
  Qed.

  Lemma R2_filter m sp (P : entry -> bool) :
    R2 m sp ->
    R2 (filter (fun he : N * entry => P he.2 = false) m) (filter (fun ke : key * entry => P ke.2 = false) sp).
  Proof.
    intros H k e Hl. apply map_filter_lookup_Some in Hl as [Hl Hp]. apply map_filter_lookup_Some. auto.
  Qed.

  Lemma Rin_filter sp (P : key * entry -> Prop) `{!forall x, Decision (P x)} : Rin sp -> Rin (filter P sp).
  Proof. intros HR k e Hl. apply map_filter_lookup_Some in Hl as [Hl _]. eauto. Qed.

  Lemma R2_remove m sp vs :
    R2 m sp -> Rin sp -> (forall v, v ∈ vs -> v ∈ ks) ->
    R2 (foldr delete m (map hash vs)) (foldr delete sp vs).
  Proof.
    intros H Hin Hvs k e Hl. apply lookup_foldr_delete_Some in Hl as [Hni Hl].
    apply lookup_foldr_delete_Some. split; [|eauto].
    intros Hh. apply elem_of_list_fmap in Hh as (v & Hhv & Hv).
    apply Hni. assert (k = v) as -> by (apply Hcf; eauto). exact Hv.
  Qed.

  Lemma Rin_remove sp vs : Rin sp -> Rin (foldr delete sp vs).
  Proof. intros H k e Hl. apply lookup_foldr_delete_Some in Hl as [_ Hl]. eauto. Qed.

  (* the two maps list the same entries *)
  Lemma walk_perm m sp :
    R1 m sp -> Rk sp -> R2 m sp -> (map_to_list m).*2 ≡ₚ (map_to_list sp).*2.
  Proof.
    intros H1 Hk H2.
    set (g := fun he : N * entry => (eK he.2, he.2)).
    assert (Hp : g <$> map_to_list m ≡ₚ map_to_list sp).
    { apply NoDup_Permutation.
      - apply NoDup_fmap_2_strong; [|apply NoDup_map_to_list].
        intros [h1 e1] [h2 e2] Hx Hy [= _ <-].
        apply elem_of_map_to_list in Hx, Hy. destruct (H1 _ _ Hx) as [<- _], (H1 _ _ Hy) as [<- _]. reflexivity.
      - apply NoDup_map_to_list.
      - intros [k e]. rewrite elem_of_list_fmap, elem_of_map_to_list. split.
        + intros ([h e'] & [= -> ->] & Hin). apply elem_of_map_to_list in Hin. apply (H1 _ _ Hin).
        + intros Hs. exists (hash k, e). unfold g; cbn. rewrite (Hk _ _ Hs). split; [reflexivity|].
          apply elem_of_map_to_list. auto. }
    rewrite <- Hp. rewrite <- list_fmap_compose. reflexivity.
  Qed.

  Lemma size_eq m sp : R1 m sp -> Rk sp -> R2 m sp -> size m = size sp.
  Proof.
    intros H1 Hk H2. pose proof (walk_perm _ _ H1 Hk H2) as Hp. apply Permutation_length in Hp.
    rewrite !fmap_length in Hp. exact Hp.
  Qed.
End Sim.

(* ------------------------------------------------------------------ *)
(* one step, any hash: the backend state stays a sub-map of the reference, and every keyed result is
   the reference result or a miss *)

Definition keyed (o : bop) : bool :=
  match o with OWrite _ _ _ _ _ | ORead _ _ _ | ODelete _ | OLoad _ _ | OStore _ _ _ _ => true | _ => false end.

Definition Rel1 hash (b : bstate) (s : sstate) : Prop :=
  R1 hash (data b) (sdata s) /\ Rk (sdata s) /\ expset b = sexpset s.

Lemma bump_key c now e : eK (bump c now e) = eK e.
Proof. unfold bump. destruct (c_strategy c); reflexivity. Qed.

Lemma step_R1 hash c b s o b' s' rb rs evb evs :
  Rel1 hash b s ->
  b_step hash c b o = (b', rb, evb) -> s_step c s o = (s', rs, evs) ->
  Rel1 hash b' s' /\ (keyed o = true -> (rb = rs /\ evb = evs) \/ rb = RErr ENotFound).
Proof.
  intros (H1 & Hk & He) Hb Hs.
  assert (Hslot : forall h e, data b !! h = Some e -> hash (eK e) = h) by (intros h e Hl; apply (H1 _ _ Hl)).
  assert (Hwrite : forall k v t now jit b' s' rb rs evb evs,
     b_write hash c b k v t now jit = (b', rb, evb) -> s_write c s k v t now jit = (s', rs, evs) ->
     Rel1 hash b' s' /\ (rb = rs /\ evb = evs)).
  { clear Hb Hs. intros k v t now jit b1 s1 r1 r2 e1 e2. unfold b_write, s_write.
    destruct (trait_ttl c t jit) as [ttl inc]. intros [= <- <- <-] [= <- <- <-]. split; [|auto].
    split; [|split]; cbn.
    - apply R1_insert; auto.
    - apply Rk_insert; auto.
    - congruence. }
  assert (Hread : forall k skip now b' s' rb rs evb evs,
     b_read hash c b k skip now = (b', rb, evb) -> s_read c s k skip now = (s', rs, evs) ->
     Rel1 hash b' s' /\ ((rb = rs /\ evb = evs) \/ rb = RErr ENotFound)).
  { clear Hb Hs. intros k skip now b1 s1 r1 r2 e1 e2. unfold b_read, s_read. destruct skip.
    { intros [= <- <- <-] [= <- <- <-]. split; [split; auto|auto]. }
    destruct (find hash (data b) k) as [e|] eqn:Hf.
    - rewrite (find_R1 _ _ _ _ _ H1 Hf).
      apply find_Some in Hf as [Hm Hke].
      destruct (expired now e); intros [= <- <- <-] [= <- <- <-]; (split; [|auto]);
        (split; [|split]); cbn; auto using R1_insert, Rk_insert, bump_key;
        try (apply R1_insert; [auto|rewrite bump_key; auto]);
        try (apply Rk_insert; [auto|rewrite bump_key; auto]).
    - intros [= <- <- <-]. destruct (sdata s !! k) as [e|] eqn:Hs.
      + intros Hx. split; [|auto].
        assert (Hs1 : sdata s1 = <[k := bump c now e]> (sdata s) /\ sexpset s1 = sexpset s).
        { destruct (expired now e); injection Hx as <- _ _; auto. }
        destruct Hs1 as [Hd Hx1]. split; [|split]; rewrite ?Hd; cbn; auto.
        * eapply R1_spec_only; eauto.
          -- intros h e0 Hl. eapply find_None_no_key; eauto.
          -- intros k' Hne. rewrite lookup_insert_ne; auto.
        * apply Rk_insert; auto. rewrite bump_key. eauto.
        * congruence.
      + intros [= <- <- <-]. split; [split; auto|auto]. }
  destruct o; cbn [b_step s_step] in Hb, Hs.
  - destruct (Hwrite _ _ _ _ _ _ _ _ _ _ _ Hb Hs). auto.
  - destruct (Hread _ _ _ _ _ _ _ _ _ Hb Hs). auto.
  - (* delete *)
    unfold b_delete in Hb. destruct (find hash (data b) k) as [e|] eqn:Hf.
    + rewrite (find_R1 _ _ _ _ _ H1 Hf) in Hs. injection Hb as <- <- <-. injection Hs as <- <- <-.
      split; [|auto]. split; [|split]; cbn; auto using R1_delete, Rk_delete.
    + injection Hb as <- <- <-. split; [|auto].
      destruct (sdata s !! k) as [e|] eqn:Hsk; injection Hs as <- <- <-; [|split; auto].
      split; [|split]; cbn; auto using Rk_delete.
      eapply R1_spec_only; eauto.
      * intros h e0 Hl. eapply find_None_no_key; eauto.
      * intros k' Hne. rewrite lookup_delete_ne; auto.
  - injection Hb as <- <- <-. injection Hs as <- <- <-. split; [|discriminate].
    split; [|split]; cbn; auto using R1_fmap, Rk_fmap.
  - injection Hb as <- <- <-. injection Hs as <- <- <-. split; [|discriminate].
    split; [|split]; cbn; auto. + intros h e Hl. rewrite lookup_empty in Hl. discriminate.
    + intros k e Hl. rewrite lookup_empty in Hl. discriminate.
  - injection Hb as <- <- <-. injection Hs as <- <- <-. split; [split; auto|discriminate].
  - injection Hb as <- <- <-. injection Hs as <- <- <-. split; [split; auto|discriminate].
  - destruct (Hread _ _ _ _ _ _ _ _ _ Hb Hs). auto.
  - destruct (Hwrite _ _ _ _ _ _ _ _ _ _ _ Hb Hs). auto.
  - (* cleanup *)
    injection Hb as <- <- <-. injection Hs as <- <- <-. split; [|discriminate].
    unfold b_delete_expired. rewrite He.
    destruct (negb (eff_ttl c =? unlimited) || (0 <? sexpset s)); (split; [|split]);
      cbn [data expset sdata sexpset b_remove_hashes]; try reflexivity; try exact He.
    + apply R1_remove. apply (R1_filter hash _ _ (long_expired (now - eff_del_after c))). exact H1.
    + apply Rk_remove. apply Rk_filter; auto.
    + apply R1_remove. exact H1.
    + apply Rk_remove. exact Hk.
Qed.

(* one step under collision freedom: equal results (Walk up to order), equal metric events *)
Definition Rel2 hash ks (b : bstate) (s : sstate) : Prop :=
  Rel1 hash b s /\ R2 hash (data b) (sdata s) /\ Rin ks (sdata s).

Lemma step_R2 hash ks c b s o b' s' rb rs evb evs :
  collision_free hash ks -> (forall k, k ∈ op_keys o -> k ∈ ks) ->
  Rel2 hash ks b s ->
  b_step hash c b o = (b', rb, evb) -> s_step c s o = (s', rs, evs) ->
  Rel2 hash ks b' s' /\ res_equiv rb rs /\ evb = evs.
Proof.
  intros Hcf Hks ((H1 & Hk & He) & H2 & Hin) Hb Hs.
  assert (Hfind : forall k, find hash (data b) k = sdata s !! k) by (intros; eapply find_R2; eauto).
  assert (Hsz : size (data b) = size (sdata s)) by (eapply size_eq; eauto).
  assert (Hwrite : forall k v t now jit b' s' rb rs evb evs, k ∈ ks ->
     b_write hash c b k v t now jit = (b', rb, evb) -> s_write c s k v t now jit = (s', rs, evs) ->
     Rel2 hash ks b' s' /\ res_equiv rb rs /\ evb = evs).
  { clear Hb Hs. intros k v t now jit b1 s1 r1 r2 e1 e2 Hkin. unfold b_write, s_write.
    destruct (trait_ttl c t jit) as [ttl inc]. intros [= <- <- <-] [= <- <- <-]. split; [|cbn; auto].
    split; [split; [|split]|split]; cbn.
    - apply R1_insert; auto.
    - apply Rk_insert; auto.
    - congruence.
    - eapply R2_insert; eauto.
    - apply Rin_insert; auto. }
  assert (Hread : forall k skip now b' s' rb rs evb evs, k ∈ ks ->
     b_read hash c b k skip now = (b', rb, evb) -> s_read c s k skip now = (s', rs, evs) ->
     Rel2 hash ks b' s' /\ res_equiv rb rs /\ evb = evs).
  { clear Hb Hs. intros k skip now b1 s1 r1 r2 e1 e2 Hkin. unfold b_read, s_read. destruct skip.
    { intros [= <- <- <-] [= <- <- <-]. split; [|cbn; auto]. split; [split; auto|auto]. }
    rewrite Hfind. destruct (sdata s !! k) as [e|] eqn:Hsk.
    - destruct (expired now e); intros [= <- <- <-] [= <- <- <-]; (split; [|cbn; auto]);
        (split; [split; [|split]|split]); cbn; auto;
        try (apply R1_insert; [auto|rewrite bump_key; eauto]);
        try (apply Rk_insert; [auto|rewrite bump_key; eauto]);
        try (eapply R2_insert; eauto); try (apply Rin_insert; auto).
    - intros [= <- <- <-] [= <- <- <-]. split; [|cbn; auto]. split; [split; auto|auto]. }
  destruct o; cbn [b_step s_step] in Hb, Hs; cbn [op_keys] in Hks.
  - eapply Hwrite; eauto. apply Hks. set_solver.
  - eapply Hread; eauto. apply Hks. set_solver.
  - unfold b_delete in Hb. rewrite Hfind in Hb. assert (k ∈ ks) by (apply Hks; set_solver).
    destruct (sdata s !! k) as [e|] eqn:Hsk; injection Hb as <- <- <-; injection Hs as <- <- <-.
    + split; [|cbn; auto]. split; [split; [|split]|split]; cbn;
        auto using R1_delete, Rk_delete, Rin_delete. eapply R2_delete; eauto.
    + split; [|cbn; auto]. split; [split; auto|auto].
  - injection Hb as <- <- <-. injection Hs as <- <- <-. rewrite Hsz. split; [|cbn; auto].
    split; [split; [|split]|split]; cbn; auto using R1_fmap, Rk_fmap, R2_fmap, Rin_fmap.
  - injection Hb as <- <- <-. injection Hs as <- <- <-. rewrite Hsz. split; [|cbn; auto].
    split; [split; [|split]|split]; cbn; auto; intros ? ? Hl; rewrite lookup_empty in Hl; discriminate.
  - injection Hb as <- <- <-. injection Hs as <- <- <-. unfold b_len. rewrite Hsz. split; [|cbn; auto].
    split; [split; auto|auto].
  - injection Hb as <- <- <-. injection Hs as <- <- <-. split; [split; [split; auto|auto]|].
    split; [|reflexivity]. cbn. unfold b_walk. eapply walk_perm; eauto.
  - eapply Hread; eauto. apply Hks. set_solver.
  - eapply Hwrite; eauto. apply Hks. set_solver.
  - injection Hb as <- <- <-. injection Hs as <- <- <-. split; [|cbn; auto].
    unfold b_delete_expired. rewrite He.
    destruct (negb (eff_ttl c =? unlimited) || (0 <? sexpset s)); (split; [split; [|split]|split]); cbn;
      auto using R1_remove, Rk_remove, Rin_remove.
    + apply R1_remove. apply (R1_filter hash _ _ (long_expired (now - eff_del_after c))). exact H1.
    + apply Rk_remove. apply Rk_filter; auto.
    + eapply R2_remove; eauto.
      * apply (R2_filter hash _ _ (long_expired (now - eff_del_after c))). exact H2.
      * apply Rin_filter; auto.
    + apply Rin_remove. apply Rin_filter; auto.
    + eapply R2_remove; eauto.
Qed.

(* ---- whole runs ---- *)

Lemma run_refines hash ks c ops : forall b s,
  collision_free hash ks -> (forall k, k ∈ ops_keys ops -> k ∈ ks) -> Rel2 hash ks b s ->
  Forall2 res_equiv (b_run hash c b ops).1.2 (s_run c s ops).1.2
  /\ (b_run hash c b ops).2 = (s_run c s ops).2.
Proof.
  induction ops as [|o ops IH]; intros b s Hcf Hks HR; cbn.
  - split; [constructor|reflexivity].
  - destruct (b_step hash c b o) as [[b1 rb] evb] eqn:Hb.
    destruct (s_step c s o) as [[s1 rs] evs] eqn:Hs.
    assert (Hko : forall k, k ∈ op_keys o -> k ∈ ks).
    { intros k Hk. apply Hks. unfold ops_keys; cbn. apply elem_of_app; auto. }
    destruct (step_R2 _ _ _ _ _ _ _ _ _ _ _ _ Hcf Hko HR Hb Hs) as (HR' & Hres & Hev).
    destruct (IH b1 s1 Hcf) as [IH1 IH2]; auto.
    { intros k Hk. apply Hks. unfold ops_keys; cbn. apply elem_of_app; auto. }
    destruct (b_run hash c b1 ops) as [[b2 rbs] evbs]. destruct (s_run c s1 ops) as [[s2 rss] evss].
    cbn in *. split; [constructor; auto|congruence].
Qed.

Lemma Rel2_init hash ks : Rel2 hash ks b0 s0.
Proof.
  split; [split; [|split]|split]; cbn; try reflexivity; intros ? ? Hl; rewrite lookup_empty in Hl; discriminate.
Qed.

(* any hash: keyed results are the reference result or a miss *)
Definition res_or_miss (o : bop) (rb rs : bres) : Prop :=
  keyed o = true -> rb = rs \/ rb = RErr ENotFound.

Lemma run_isolated hash c ops : forall b s,
  Rel1 hash b s ->
  Forall2 (fun orb rs => res_or_miss orb.1 orb.2 rs) (zip ops (b_run hash c b ops).1.2) (s_run c s ops).1.2.
Proof.
  induction ops as [|o ops IH]; intros b s HR; cbn.
  - constructor.
  - destruct (b_step hash c b o) as [[b1 rb] evb] eqn:Hb.
    destruct (s_step c s o) as [[s1 rs] evs] eqn:Hs.
    destruct (step_R1 _ _ _ _ _ _ _ _ _ _ _ HR Hb Hs) as (HR' & Hres).
    specialize (IH b1 s1 HR').
    destruct (b_run hash c b1 ops) as [[b2 rbs] evbs]. destruct (s_run c s1 ops) as [[s2 rss] evss].
    cbn in *. constructor; [|exact IH]. intros Hk. destruct (Hres Hk) as [[? _]|?]; auto.
Qed.

Lemma Rel1_init hash : Rel1 hash b0 s0.
Proof. split; [|split]; cbn; try reflexivity; intros ? ? Hl; rewrite lookup_empty in Hl; discriminate. Qed.

(* ---- packaged statements ---- *)

Lemma refines_collision_free hash c ops :
  collision_free hash (ops_keys ops) ->
  Forall2 res_equiv (b_run hash c b0 ops).1.2 (s_run c s0 ops).1.2
  /\ (b_run hash c b0 ops).2 = (s_run c s0 ops).2.
Proof. intros Hcf. eapply run_refines; eauto using Rel2_init. Qed.

Lemma inj_collision_free (hash : key -> N) ks : Inj (=) (=) hash -> collision_free hash ks.
Proof. intros Hi k1 k2 _ _ Hh. apply Hi, Hh. Qed.

(* the hash that models SyncMap's string keys: injective *)
Definition syncmap_hash (k : key) : N := Npos (encode k).
Lemma syncmap_hash_inj : Inj (=) (=) syncmap_hash.
Proof. intros k1 k2 Hh. unfold syncmap_hash in Hh. injection Hh as Hh. apply (inj encode) in Hh. exact Hh. Qed.

Lemma isolated_any_hash hash c ops :
  Forall2 (fun orb rs => res_or_miss orb.1 orb.2 rs) (zip ops (b_run hash c b0 ops).1.2) (s_run c s0 ops).1.2.
Proof. apply run_isolated, Rel1_init. Qed.

(* ---- the reference map says what the property names ---- *)

Lemma spec_skip_read c s k now : s_read c s k true now = (s, RErr ENotFound, []).
Proof. reflexivity. Qed.

Lemma spec_read_missing c s k now :
  sdata s !! k = None -> s_read c s k false now = (s, RErr ENotFound, [(MMiss, 1)]).
Proof. unfold s_read. intros ->. reflexivity. Qed.

Lemma spec_read_written c s k v t now jit now' :
  let s1 := (s_write c s k v t now jit).1.1 in
  let E := expire_at now (trait_ttl c t jit).1 in
  (s_read c s1 k false now').1.2 =
    if negb (E =? 0) && (E <? now') then RErr (EExpired v E) else RVal v.
Proof.
  cbn zeta. unfold s_write, s_read. destruct (trait_ttl c t jit) as [ttl inc]. cbn.
  rewrite lookup_insert. unfold expired; cbn. destruct (_ && _); reflexivity.
Qed.

Lemma spec_write_other c s k k' v t now jit :
  k' <> k -> sdata (s_write c s k v t now jit).1.1 !! k' = sdata s !! k'.
Proof.
  intros Hne. unfold s_write. destruct (trait_ttl c t jit) as [ttl inc]. cbn.
  rewrite lookup_insert_ne by congruence. reflexivity.
Qed.

Lemma spec_delete_result c s k :
  (s_step c s (ODelete k)).1.2 = match sdata s !! k with None => RErr ENotFound | Some _ => RUnit end
  /\ sdata (s_step c s (ODelete k)).1.1 !! k = None
  /\ forall k', k' <> k -> sdata (s_step c s (ODelete k)).1.1 !! k' = sdata s !! k'.
Proof.
  cbn. destruct (sdata s !! k) eqn:E; cbn; repeat split; auto.
  - apply lookup_delete.
  - intros k' Hne. rewrite lookup_delete_ne by congruence. reflexivity.
Qed.

Lemma spec_expire_all_stale c s t k e now :
  sdata s !! k = Some e -> t <> 0 -> t < now ->
  let s1 := (s_step c s (OExpireAll t)).1.1 in
  size (sdata s1) = size (sdata s) /\
  (s_read c s1 k false now).1.2 = RErr (EExpired (eV e) t).
Proof.
  intros Hk Ht Hlt. cbn. split; [apply map_size_fmap|].
  unfold s_read. cbn. rewrite lookup_fmap, Hk. cbn. unfold expired; cbn.
  replace (t =? 0) with false by lia. replace (t <? now) with true by lia. reflexivity.
Qed.

Lemma spec_delete_all_empty c s : sdata (s_step c s ODeleteAll).1.1 = ∅.
Proof. reflexivity. Qed.

Lemma spec_len_walk c s :
  (s_step c s OLen).1.2 = RLen (Z.of_nat (size (sdata s))) /\
  (s_step c s OWalk).1.2 = RWalk ((map_to_list (sdata s)).*2) /\
  length (map_to_list (sdata s)).*2 = size (sdata s).
Proof. cbn. repeat split. rewrite fmap_length. reflexivity. Qed.
