(* Base.v — shared vocabulary of the models of bool64/cache.
   Keys are byte strings (list N), values are Z tokens (0 = nil / zero value),
   instants and durations are Z nanoseconds, errors a small enum. *)
From stdpp Require Export base tactics list option numbers gmap.
From Coq Require Export ZArith Lia.
From Coq Require Import ZifyBool ZifyNat ZifyN.
#[global] Open Scope Z_scope.

Definition key := list N.          (* bytes *)
Definition val := Z.               (* value token; 0 is nil / the zero value *)
Definition time := Z.              (* ns since the epoch *)
Definition dur := Z.               (* ns *)

(* Errors the library can return or relay. [EOther n]: builder / injected error number n. *)
Inductive err :=
| ENotFound
| EExpired (v : val) (at_ : time)
| EOther (n : Z)
| EWrapped (n : Z).                (* "failed to refresh expired value: %w" around EOther n *)

#[global] Instance err_eq_dec : EqDecision err.
Proof. solve_decision. Defined.

(* Metric events *)
Inductive metric := MHit | MMiss | MExpired | MWrite | MDelete | MEvict
                  | MBuild | MFailed | MRefreshed | MChanged.
#[global] Instance metric_eq_dec : EqDecision metric.
Proof. solve_decision. Defined.

Definition mevent := (metric * Z)%type.     (* metric, increment *)

Definition mtotal (m : metric) (l : list mevent) : Z :=
  foldr (fun e acc => if decide (e.1 = m) then e.2 + acc else acc) 0 l.

Lemma mtotal_nil m : mtotal m [] = 0.
Proof. reflexivity. Qed.

Lemma mtotal_cons m e l :
  mtotal m (e :: l) = (if decide (e.1 = m) then e.2 else 0) + mtotal m l.
Proof. unfold mtotal; cbn [foldr]. destruct (decide _); lia. Qed.

Lemma mtotal_app m l1 l2 : mtotal m (l1 ++ l2) = mtotal m l1 + mtotal m l2.
Proof.
  induction l1 as [|e l1 IH]; [rewrite mtotal_nil; cbn [app]; lia|].
  rewrite <- app_comm_cons, !mtotal_cons, IH. lia.
Qed.

(* Defaults of the library *)
Definition sec : Z := 1000000000.
Definition minute : Z := 60 * sec.
Definition hour : Z := 60 * minute.

(* boolean helpers used in executable comparisons *)
Definition Zeqb_list (a b : list Z) : bool := bool_decide (a = b).
