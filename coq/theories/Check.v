(* Check.v — executable comparators used by the correspondence runs (Cases_*.v).
   Result codes: 0 = implementation and model agree and the property predicate
   holds on the implementation's observations; 1 = they disagree but the
   property predicate holds on what the implementation did; 2 = the property
   predicate is false on the implementation's observations. *)
From Cache Require Import Base Invalidator.

(* ---------- C17 ---------- *)
Inductive c17case :=
| C17Seq (skip : Z) (cbs : option (list N)) (obs : list (Z * ires * list N))
| C17Conc (long : bool) (cbs : list N) (events : list (N * N)) (results : list (N * ires)) (overlap : bool).

(* concurrent observation: the callback events (caller, cb), in execution order,
   must be a concatenation of complete blocks, each by one accepted caller *)
Fixpoint take_block (caller : N) (cbs : list N) (ev : list (N * N)) : option (list (N * N)) :=
  match cbs with
  | [] => Some ev
  | c :: r => match ev with
              | (w, c') :: ev' => if (w =? caller)%N && (c' =? c)%N then take_block caller r ev' else None
              | [] => None
              end
  end.

Fixpoint blocks_ok (fuel : nat) (cbs : list N) (ev : list (N * N)) (acc : list N) : option (list N) :=
  match fuel with
  | O => None
  | S f => match ev with
           | [] => Some acc
           | (w, _) :: _ => match take_block w cbs ev with
                            | Some rest => blocks_ok f cbs rest (acc ++ [w])
                            | None => None
                            end
           end
  end.

Definition C17_obs_conc (long : bool) (cbs : list N) (events : list (N * N))
           (results : list (N * ires)) (overlap : bool) : bool :=
  negb overlap &&
  match blocks_ok (S (length events)) cbs events [] with
  | None => false
  | Some callers =>
      (* accepted callers are exactly those reporting ROk, each once *)
      let okc := omap (fun r => match r with (w, ROk) => Some w | _ => None end) results in
      bool_decide (Permutation callers okc) &&
      bool_decide (NoDup callers) &&
      forallb (fun r => match r.2 with ROk | RAlready => true | RNothing => false end) results &&
      (if long then bool_decide (length callers = 1%nat) else true)
  end.

Definition check_c17 (c : c17case) : N :=
  match c with
  | C17Seq skip cbs obs =>
      let model := run_seq (mkIst skip None cbs) (map (fun o => o.1.1) obs) in
      let impl := map (fun o => (o.1.2, o.2)) obs in
      let p := C17_obs skip cbs obs in
      if bool_decide (model = impl) then (if p then 0 else 2)%N
      else (if p then 1 else 2)%N
  | C17Conc long cbs ev res ov =>
      if C17_obs_conc long cbs ev res ov then 0%N else 2%N
  end.
