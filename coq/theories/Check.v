(* Check.v — executable comparators used by the correspondence runs (Cases_*.v).
   Result codes: 0 = implementation and model agree and the property predicate
   holds on the implementation's observations; 1 = they disagree but the
   property predicate holds on what the implementation did; 2 = the property
   predicate is false on the implementation's observations. *)
From Cache Require Import Base Invalidator.

(* ---------- C17 ---------- *)
Inductive c17case :=
| C17Seq (skip : Z) (cbs : option (list N)) (obs : list (Z * ires * list N))
| C17Conc (long : bool) (cbs : list N) (events : list (N * N)) (results : list (N * ires)) (overlap : bool)
| C17Slow (skip tol : Z) (starts : list Z).   (* instants at which accepted invalidations started their callbacks, ascending *)

(* accepted invalidations are spaced by SkipInterval (tol = allowance for the delay between the acceptance and
   the first instruction of the callback on a real clock) *)
Fixpoint spaced (skip tol : Z) (l : list Z) : bool :=
  match l with
  | a :: (b :: _) as r => (a + skip - tol <=? b) && spaced skip tol r
  | _ => true
  end.

(* concurrent observation: the callback events (caller, cb), in execution order,
   must be a concatenation of complete blocks, each by one accepted caller *)
Fixpoint take_block (caller : N) (cbs : list N) (ev : list (N * N)) : option (list (N * N)) :=
  match cbs with
  | [] => Some ev
  | c :: r => match ev with
              | (w, c') :: ev' => if (w =? caller)%N && (c' =? c)%N then take_block caller r ev' else None
              | [] => None
              end
  end.

Fixpoint blocks_ok (fuel : nat) (cbs : list N) (ev : list (N * N)) (acc : list N) : option (list N) :=
  match fuel with
  | O => None
  | S f => match ev with
           | [] => Some acc
           | (w, _) :: _ => match take_block w cbs ev with
                            | Some rest => blocks_ok f cbs rest (acc ++ [w])
                            | None => None
                            end
           end
  end.

Definition C17_obs_conc (long : bool) (cbs : list N) (events : list (N * N))
           (results : list (N * ires)) (overlap : bool) : bool :=
  negb overlap &&
  match blocks_ok (S (length events)) cbs events [] with
  | None => false
  | Some callers =>
      (* accepted callers are exactly those reporting ROk, each once *)
      let okc := omap (fun r => match r with (w, ROk) => Some w | _ => None end) results in
      bool_decide (Permutation callers okc) &&
      bool_decide (NoDup callers) &&
      forallb (fun r => match r.2 with ROk | RAlready => true | RNothing => false end) results &&
      (if long then bool_decide (length callers = 1%nat) else true)
  end.

Definition check_c17 (c : c17case) : N :=
  match c with
  | C17Seq skip cbs obs =>
      let model := run_seq (mkIst skip None cbs) (map (fun o => o.1.1) obs) in
      let impl := map (fun o => (o.1.2, o.2)) obs in
      let p := C17_obs skip cbs obs in
      if bool_decide (model = impl) then (if p then 0 else 2)%N
      else (if p then 1 else 2)%N
  | C17Conc long cbs ev res ov =>
      if C17_obs_conc long cbs ev res ov then 0%N else 2%N
  | C17Slow skip tol starts =>
      if spaced skip tol starts && negb (bool_decide (starts = [])) then 0%N else 2%N
  end.

(* ---------- backends: C07, C09, C10, C11, C12, C18 ---------- *)
From Cache Require Import Backend Spec.

Inductive flavour := Sharded | SyncM | ShardedOf.

Record bcase := BCase {
  bc_cfg : bcfg;
  bc_tbl : list (key * N);       (* hash of every key in use: xxhash64 (sharded family) or an injective numbering (SyncMap) *)
  bc_ops : list bop;
  bc_res : list bres;            (* what the implementation returned, Walk sorted by key *)
  bc_metrics : list Z;           (* hit, miss, expired, write, delete totals of the stats tracker *)
}.

Definition table_hash (tbl : list (key * N)) (k : key) : N :=
  match list_find (fun p => bool_decide (p.1 = k)) tbl with
  | Some (_, p) => p.2
  | None => 0%N
  end.

Definition strip_c (r : bres) : bres :=
  match r with
  | RWalk l => RWalk (map (fun e => mkEntry (eK e) (eV e) (eE e) 0) l)
  | _ => r
  end.

Definition proj_load (o : bop) (r : bres) : bres :=
  match o, r with
  | OLoad _ _, RErr _ => RErr ENotFound
  | _, _ => r
  end.

Definition res_eqb (a b : bres) : bool :=
  match a, b with
  | RWalk l1, RWalk l2 => bool_decide (l1 ≡ₚ l2)
  | _, _ => bool_decide (a = b)
  end.

Fixpoint all2 {A B} (f : A -> B -> bool) (l1 : list A) (l2 : list B) : bool :=
  match l1, l2 with
  | [], [] => true
  | a :: r1, b :: r2 => f a b && all2 f r1 r2
  | _, _ => false
  end.

Definition collision_freeb (tbl : list (key * N)) : bool :=
  bool_decide (NoDup (tbl.*2)).

Definition model_results (c : bcase) : list bres :=
  let '(_, r, _) := b_run (table_hash (bc_tbl c)) (bc_cfg c) b0 (bc_ops c) in
  zip_with proj_load (bc_ops c) r.

Definition spec_results (c : bcase) : list bres :=
  let '(_, r, _) := s_run (bc_cfg c) s0 (bc_ops c) in
  zip_with proj_load (bc_ops c) r.

(* C07: every result equals the reference map's (keys pairwise non-colliding) *)
Definition check_c07 (fc : flavour * bcase) : N :=
  let c := fc.2 in
  let impl := map strip_c (bc_res c) in
  if negb (collision_freeb (bc_tbl c)) then 9%N
  else if all2 res_eqb impl (map strip_c (spec_results c))
  then (if all2 res_eqb impl (map strip_c (model_results c)) then 0 else 1)%N
  else 2%N.

(* C09: for any hash (collisions included) a keyed result is the reference result or a miss;
   Walk lists only entries the reference map holds; Len never exceeds the reference's. *)
Definition sub_walk (impl spec : list entry) : bool :=
  forallb (fun e => bool_decide (e ∈ spec)) impl && bool_decide (NoDup (map eK impl)).

Definition c09_ok (o : bop) (impl spec : bres) : bool :=
  match o with
  | OLen => match impl, spec with RLen a, RLen b => (a <=? b) && (0 <=? a) | _, _ => false end
  | OWalk => match impl, spec with RWalk a, RWalk b => sub_walk a b | _, _ => false end
  | OExpireAll _ | ODeleteAll | OCleanup _ _ => bool_decide (impl = RUnit)
  | _ => res_eqb impl spec || bool_decide (impl = RErr ENotFound)
  end.

Fixpoint all3 {A B C} (f : A -> B -> C -> bool) (l1 : list A) (l2 : list B) (l3 : list C) : bool :=
  match l1, l2, l3 with
  | [], [], [] => true
  | a :: r1, b :: r2, c :: r3 => f a b c && all3 f r1 r2 r3
  | _, _, _ => false
  end.

Definition check_c09b (fc : flavour * bcase) : N :=
  let c := fc.2 in
  let impl := map strip_c (bc_res c) in
  let p := all3 c09_ok (bc_ops c) impl (map strip_c (spec_results c)) in
  if all2 res_eqb impl (map strip_c (model_results c)) then (if p then 0 else 2)%N
  else (if p then 1 else 2)%N.

(* ---------- C10 ---------- *)
From Cache Require Import Jitter.

Record c10case := C10Case {
  c10_jn : Z; c10_jd : Z;                            (* ExpirationJitter as an exact rational *)
  c10_writes : list (Z * Z * Z * Z * Z * bool);      (* t, ctx ttl, observed expiry, r num, r den, drew *)
  c10_b : bcase;
}.

(* the property on one observed write *)
Definition c10_write_ok (cfg : bcfg) (jn jd : Z) (w : Z * Z * Z * Z * Z * bool) : bool :=
  let '(t, ctx, E, rn, rd, drew) := w in
  let T := effective_ttl cfg ctx in
  if (ctx =? 0) && (eff_ttl cfg =? unlimited) then E =? 0
  else if negb (c_jitter cfg) then E =? t + T
  else jit_okb jn jd T (E - t - T) && negb (E =? 0).

(* the float formula, against the mirrored draw r:  | jit - T*J*(r - 1/2) | <= 1 + slack *)
Definition c10_formula_ok (cfg : bcfg) (jn jd : Z) (w : Z * Z * Z * Z * Z * bool) : bool :=
  let '(t, ctx, E, rn, rd, drew) := w in
  let T := effective_ttl cfg ctx in
  if negb drew then true
  else let D := 2 * jd * rd in
       let Num := T * jn * (2 * rn - rd) in
       Z.abs ((E - t - T) * D - Num) <=? (1 + slack T) * D.

(* reads: value up to and including the stored instant, ErrExpired carrying that instant after *)
Definition c10_reads_ok (c : bcase) : bool :=
  all2 res_eqb (map strip_c (bc_res c)) (map strip_c (spec_results c)).

Definition check_c10 (c : c10case) : N :=
  let b := c10_b c in
  let cfg := bc_cfg b in
  let p := forallb (c10_write_ok cfg (c10_jn c) (c10_jd c)) (c10_writes c) && c10_reads_ok b in
  let m := all2 res_eqb (map strip_c (bc_res b)) (map strip_c (model_results b))
           && forallb (c10_formula_ok cfg (c10_jn c) (c10_jd c)) (c10_writes c) in
  if m then (if p then 0 else 2)%N else (if p then 1 else 2)%N.

(* ---------- C11 / C12 ---------- *)
From Cache Require Import Cleanup.

Definition strip_e (e : entry) : entry := mkEntry (eK e) (eV e) (eE e) 0.

Definition no_victims (o : bop) : bop := match o with OCleanup now _ => OCleanup now [] | _ => o end.

Definition cleanup_active (cfg : bcfg) (s : bstate) : bool :=
  negb (eff_ttl cfg =? unlimited) || (0 <? expset s).

Definition after_delete_expired (cfg : bcfg) (s : bstate) (now : time) (B : list entry) : list entry :=
  if cleanup_active cfg s
  then List.filter (fun e => negb (long_expired (now - eff_del_after cfg) e)) B
  else B.

(* the content a Walk showed, updated by a later write (same shard slot = same hash: the write replaces) *)
Definition apply_write (hash : key -> N) (cfg : bcfg) (B : list entry) (k : key) (v : val) (t : dur) (now : time) (jit : Z)
  : list entry :=
  mkEntry k v (expire_at now (trait_ttl cfg t jit).1) 0
    :: List.filter (fun e => negb (hash (eK e) =? hash k)%N) B.

(* C11 on the implementation's own observations: in every window [Walk B; writes ...; cleanup at now; Walk A]
   A is B (with the writes applied) minus exactly the entries expired longer than DeleteExpiredAfter: fresh and
   never-expiring entries survive, whether they were there before or were written while the cycle was under way *)
Fixpoint c11_scan (hash : key -> N) (cfg : bcfg) (s : bstate) (ops : list bop) (res : list bres)
         (prev : option (list entry)) : bool :=
  match ops, res with
  | o :: ops', r :: res' =>
    let s' := (b_step hash cfg s (no_victims o)).1.1 in
    let ok := match o, prev, res' with
              | OCleanup now _, Some B, RWalk A :: _ =>
                  bool_decide (map strip_e A ≡ₚ map strip_e (after_delete_expired cfg s now B))
              | _, _, _ => true
              end in
    ok && c11_scan hash cfg s' ops' res'
            (match o, r, prev with
             | _, RWalk l, _ => Some l
             | OWrite k v t now jit, _, Some B => Some (apply_write hash cfg B k v t now jit)
             | _, _, _ => None
             end)
  | _, _ => true
  end.

Definition check_c11 (fc : flavour * bcase) : N :=
  let c := fc.2 in
  let c' := BCase (bc_cfg c) (bc_tbl c) (map no_victims (bc_ops c)) (bc_res c) (bc_metrics c) in
  let impl := map strip_c (bc_res c) in
  let p := c11_scan (table_hash (bc_tbl c)) (bc_cfg c) b0 (bc_ops c) (bc_res c) None in
  if all2 res_eqb impl (map strip_c (model_results c')) then (if p then 0 else 2)%N
  else (if p then 1 else 2)%N.

Record c12case := C12Case {
  c12_fn : Z; c12_fd : Z;        (* effective EvictFraction (0 -> 0.1) as an exact rational *)
  c12_needed : bool;             (* EvictionNeeded returns true *)
  c12_b : bcase;
}.

Definition in_keys (l : list entry) (e : entry) : bool := bool_decide (eK e ∈ map eK l).

Fixpoint c12_scan (hash : key -> N) (cfg : bcfg) (fn fd : Z) (needed : bool) (s : bstate)
         (ops : list bop) (res : list bres) (prev : option (list entry)) : bool :=
  match ops, res with
  | o :: ops', r :: res' =>
    let s' := (b_step hash cfg s o).1.1 in
    let ok := match o, prev, res' with
              | OCleanup now _, Some B, RWalk A :: _ =>
                  let B' := after_delete_expired cfg s now B in
                  let evicted := List.filter (fun e => negb (in_keys A e)) B' in
                  let cnt := Z.of_nat (length B') in
                  let n := Z.of_nat (length evicted) in
                  let L := c_count_limit cfg in
                  let co := negb (L =? 0) && (L <? cnt) in
                  (* survivors are entries of B', unchanged *)
                  forallb (fun a => bool_decide (a ∈ B')) A &&
                  (* "within one entry": one entry plus a relative 2^-30 for the float64 products *)
                  (if co then Z.abs ((cnt - n) * fd - L * (fd - fn)) * 2 ^ 30 <=? fd * (2 ^ 30 + 1)
                   else if needed then Z.abs (n * fd - cnt * fn) * 2 ^ 30 <=? fd * (2 ^ 30 + 1)
                   else n =? 0) &&
                  (* rank under the TRUE access history: the model's bookkeeping of expiry / last serve / serve count *)
                  let s1 := b_delete_expired cfg s now in
                  let truth e := match find hash (data s1) (eK e) with Some me => me | None => e end in
                  evict_rank_ok (c_strategy cfg) (map truth evicted) (map truth A)
              | _, _, _ => true
              end in
    ok && c12_scan hash cfg fn fd needed s' ops' res' (match r with RWalk l => Some l | _ => None end)
  | _, _ => true
  end.

Definition check_c12 (fc : flavour * c12case) : N :=
  let c := c12_b fc.2 in
  let p := c12_scan (table_hash (bc_tbl c)) (bc_cfg c) (c12_fn fc.2) (c12_fd fc.2) (c12_needed fc.2) b0
                    (bc_ops c) (bc_res c) None in
  (* correspondence: with the implementation's victims as oracle, all results (Walk incl. counters) agree *)
  if all2 res_eqb (bc_res c) (model_results c) then (if p then 0 else 2)%N
  else (if p then 1 else 2)%N.

(* ---------- C18 (backend part) ---------- *)
Definition model_events (c : bcase) : list mevent :=
  (b_run (table_hash (bc_tbl c)) (bc_cfg c) b0 (bc_ops c)).2.

(* accounting from the implementation's own results: (reads answered + entries touched, writes, deleted) *)
Fixpoint impl_acct (ops : list bop) (res : list bres) (prev : option bres) : Z * Z * Z :=
  match ops, res with
  | o :: ops', r :: res' =>
    let '(a1, a2, a3) := impl_acct ops' res' (Some r) in
    let plen := match prev with Some (RLen n) => n | _ => 0 end in
    match o with
    | ORead _ skip _ => ((if skip then 0 else 1) + a1, a2, a3)
    | OLoad _ _ => (1 + a1, a2, a3)
    | OWrite _ _ _ _ _ | OStore _ _ _ _ => (a1, 1 + a2, a3)
    | ODelete _ => (a1, a2, (match r with RUnit => 1 | _ => 0 end) + a3)
    | OExpireAll _ => (plen + a1, a2, a3)
    | ODeleteAll => (a1, a2, plen + a3)
    | _ => (a1, a2, a3)
    end
  | _, _ => (0, 0, 0)
  end.

Definition c18b_ok (c : bcase) : bool :=
  match bc_metrics c with
  | [h; m; x; w; d] =>
      let '(a1, a2, a3) := impl_acct (bc_ops c) (bc_res c) None in
      (h + m + x =? a1) && (w =? a2) && (d =? a3)
  | _ => false
  end.

Definition c18b_model (c : bcase) : bool :=
  let ev := model_events c in
  bool_decide (bc_metrics c = [mtotal MHit ev; mtotal MMiss ev; mtotal MExpired ev; mtotal MWrite ev; mtotal MDelete ev]).

(* ---------- Failover: C01 ---------- *)
From Cache Require Import Failover FailoverRun FailoverObs.

Definition check_c01 (c : fcase) : N := code (corr_ok c) (C01_obs (impl_trace c)).
Definition check_c02 (c : fcase) : N := code (corr_ok c) (C02_obs (impl_trace c)).
Definition check_c04 (c : fcase) : N := code (corr_ok c) (C04_obs c).

Record c05case := C05Case { c05_c : fcase; c05_skips : list tid; c05_single : bool }.
Definition check_c05 (c : c05case) : N :=
  code (corr_ok (c05_c c))
       ((if c05_single c then C05_single_obs (impl_trace (c05_c c)) else true) && C05_fail_obs (c05_c c) (c05_skips c)).

From Cache Require Import Ctx.

(* everything observed before the Get [t] was called *)
Fixpoint events_before_spawn (t : tid) (ls : list mlabel) : list fev :=
  match ls with
  | [] => []
  | l :: r =>
      match l with
      | MSpawn t' _ _ _ _ _ _ => if (t =? t')%N then [] else (label_obs l).1 ++ events_before_spawn t r
      | _ => (label_obs l).1 ++ events_before_spawn t r
      end
  end.

Record c06case := C06Case { c06_c : fcase; c06_gets : list getinfo; c06_ctx : list ctxobs }.
Definition check_c06 (c : c06case) : N :=
  code (corr_ok (c06_c c) && forallb ctxobs_agree (c06_ctx c))
       (forallb (fun g => c06_get_ok (f_update_ttl (fc_cfg (c06_c c))) (impl_trace (c06_c c))
                                     (events_before_spawn (g_tid g) (fc_labels (c06_c c))) g) (c06_gets c)
        && forallb ctxobs_prop (c06_ctx c)).

Record c03case := C03Case { c03_c : fcase; c03_tid : tid; c03_hit : option err; c03_built : val + Z }.

Definition first_read_of (t : tid) (ls : list mlabel) : option (time * rres) :=
  match list_find (fun te => match te.2 with FRead t' _ _ => (t =? t')%N | _ => false end = true) (timed_trace ls) with
  | Some (_, (now, FRead _ _ r)) => Some (now, r)
  | _ => None
  end.

Definition outcome_matches (exp obs : outcome) : bool :=
  bool_decide (oc_val exp = oc_val obs) &&
  (match oc_err exp with Some e => bool_decide (oc_err obs = Some e) | None => bool_decide (oc_err obs = None) end) &&
  bool_decide (oc_built exp = oc_built obs) && bool_decide (oc_before exp = oc_before obs) &&
  bool_decide (oc_writes exp = oc_writes obs).

Definition c03_ok (c : c03case) : bool :=
  let cfg := fc_cfg (c03_c c) in
  match first_read_of (c03_tid c) (fc_labels (c03_c c)), trace_outcome (c03_tid c) (impl_trace (c03_c c)) with
  | Some (now, rd), Some obs =>
      match classify (f_max_stale cfg) now rd with
      | Some ec =>
          let hit := if 0 <=? f_failed_ttl cfg then c03_hit c else None in
          outcome_matches (spec_table nil_impl (f_variant cfg) (f_sync_update cfg) (f_fail_hard cfg) (f_update_ttl cfg) 0 ec hit (c03_built c)) obs
      | None => true
      end
  | _, _ => false
  end.

Definition check_c03 (c : c03case) : N := code (corr_ok (c03_c c)) (c03_ok c).

(* ---------- C18 under concurrency: totals at quiescence against the results the callers saw ---------- *)
Record c18conc := mkC18C {
  k_stats : list Z;      (* write, delete, hit, miss, expired as reported to the stats tracker *)
  k_seen : list Z;       (* writes, successful deletes, hits, misses, expired reads as seen by callers *)
  k_expire_all : bool; k_delete_all : bool;
  k_results_explained : bool   (* every per-slot history of the run has a linearization: each successful Delete removed an entry *)
}.

Definition check_c18c (c : c18conc) : N :=
  match k_stats c, k_seen c with
  | [w; d; h; m; x], [w'; d'; h'; m'; x'] =>
      if k_results_explained c && (w =? w') && (h =? h') && (m =? m')
         && (if k_delete_all c then d' <=? d else d =? d')
         && (if k_expire_all c then x' <=? x else x =? x')
      then 0%N else 2%N
  | _, _ => 2%N
  end.

Inductive c18case :=
| C18B (fc : flavour * bcase)
| C18F (c : fcase)
| C18C (k : c18conc).

Definition check_c18 (c : c18case) : N :=
  match c with
  | C18B fc =>
      let p := c18b_ok fc.2 in
      if c18b_model fc.2 then (if p then 0 else 2)%N else (if p then 1 else 2)%N
  | C18F c => code (corr_ok c) (C18F_obs c)
  | C18C k => check_c18c k
  end.

(* ---------- C13 ---------- *)
From Cache Require Import Transfer.

Record c13case := C13Case {
  c13_tbl : list (key * N);        (* target hash of every source key *)
  c13_src : list entry;            (* Walk of the source (sorted by key) *)
  c13_t1 : list entry;             (* Walk of the restored cache *)
  c13_t2 : list entry;             (* Walk after relaying once more *)
  c13_counts : list Z;             (* Dump, Restore, Dump, Restore *)
  c13_noerr : bool;
  c13_cfg : bcfg;
}.

Definition check_c13 (c : c13case) : N :=
  let n := Z.of_nat (length (c13_src c)) in
  let p := c13_noerr c
           && bool_decide (c13_t1 c ≡ₚ c13_src c) && bool_decide (c13_t2 c ≡ₚ c13_src c)
           && bool_decide (c13_counts c = [n; n; n; n]) in
  let model := (map_to_list (restore (table_hash (c13_tbl c)) ∅ (dump (c13_src c))).1).*2 in
  let m := bool_decide (model ≡ₚ c13_t1 c) in
  if m then (if p then 0 else 2)%N else (if p then 1 else 2)%N.

(* ---------- C14 ---------- *)
Inductive c14mode := MOk | MMismatch | MFail | MCut.

Inductive c14case :=
| C14T (tbl : list (key * N)) (mode : c14mode)
       (exporter : list (N * list entry))                 (* name, entries in dump order *)
       (importer : list (N * list entry * list entry))    (* name, content before, content after *)
       (import_ok : bool)
| C14H (base : N) (fps : list N) (obs : list (list N * N)).

Definition overlay (init order : list entry) : list entry :=
  order ++ List.filter (fun e => negb (bool_decide (eK e ∈ map eK order))) init.

Definition prefixes {A} (l : list A) : list (list A) := map (fun n => take n l) (seq 0 (S (length l))).

Definition c14t_ok (mode : c14mode) (exporter : list (N * list entry)) (imp : N * list entry * list entry) : bool :=
  let '(name, init, final) := imp in
  match list_find (fun x => bool_decide (x.1 = name)) exporter, mode with
  | Some (_, (_, order)), MOk => bool_decide (final ≡ₚ overlay init order)
  | Some (_, (_, order)), MCut => existsb (fun pre => bool_decide (final ≡ₚ overlay init pre)) (prefixes order)
  | _, _ => bool_decide (final ≡ₚ init)
  end.

Definition c14t_model (tbl : list (key * N)) (mode : c14mode) (exporter : list (N * list entry))
           (imp : N * list entry * list entry) : bool :=
  let '(name, init, final) := imp in
  let h := table_hash tbl in
  let m0 := restore_entries h ∅ init in
  match list_find (fun x => bool_decide (x.1 = name)) exporter, mode with
  | Some (_, (_, order)), MOk => bool_decide ((map_to_list (restore h m0 (dump order)).1).*2 ≡ₚ final)
  | Some (_, (_, order)), MCut =>
      existsb (fun n => bool_decide ((map_to_list (restore_truncated h m0 (dump order) n).1).*2 ≡ₚ final))
              (seq 0 (S (length order)))
  | _, _ => bool_decide ((map_to_list m0).*2 ≡ₚ final)
  end.

Definition set_eqb (a b : list N) : bool :=
  forallb (fun x => bool_decide (x ∈ b)) a && forallb (fun x => bool_decide (x ∈ a)) b.

Definition c14h_ok (obs : list (list N * N)) : bool :=
  forallb (fun o1 => forallb (fun o2 =>
     (* same set of types => same hash; one more type => different hash *)
     (if set_eqb o1.1 o2.1 then (o1.2 =? o2.2)%N else true) &&
     (match o2.1 with
      | t :: rest => if negb (bool_decide (t ∈ rest)) && set_eqb rest o1.1 then negb (o1.2 =? o2.2)%N else true
      | [] => true
      end)) obs) obs.

Definition c14h_model (base : N) (fps : list N) (obs : list (list N * N)) : bool :=
  (base =? 0)%N &&
  forallb (fun o => ((register (fun t : N => nth (N.to_nat t) fps 0%N) st0 o.1).1 =? o.2)%N) obs.

Definition check_c14 (c : c14case) : N :=
  match c with
  | C14T tbl mode ex im ok =>
      let p := ok && forallb (c14t_ok mode ex) im in
      let m := forallb (c14t_model tbl mode ex) im in
      if m then (if p then 0 else 2)%N else (if p then 1 else 2)%N
  | C14H base fps obs =>
      let p := c14h_ok obs in
      if c14h_model base fps obs then (if p then 0 else 2)%N else (if p then 1 else 2)%N
  end.


(* ---------- C09 (all parts) ---------- *)
(* Failover part: callers overwrite their key buffer right after Get returns; every backend access, build and
   return of a Get (and of its background build) must carry the key the Get was called with, and no key
   lock may leak *)
Definition spawn_keys (ls : list mlabel) : list (tid * key) :=
  omap (fun l => match l with MSpawn t k _ _ _ _ _ => Some (t, k) | _ => None end) ls.

Definition key_of_tid (sk : list (tid * key)) (t : tid) : option key :=
  match list_find (fun p => bool_decide (p.1 = t) || bool_decide (bg_tid p.1 = t)) sk with
  | Some (_, p) => Some p.2
  | None => None
  end.

Definition C09F_obs (c : fcase) : bool :=
  let sk := spawn_keys (fc_labels c) in
  (fc_final_locks c =? 0) &&
  C02_obs (impl_trace c) &&   (* nothing returned for k was produced for, or stored under, another key (equal hashes included) *)
  forallb (fun e => match e with
     | FRead t k _ | FWrite t k _ _ _ _ | FBuildStart t k | FBuildEnd t k _ | FReturn t k _ _ =>
         bool_decide (key_of_tid sk t = Some k)
     | _ => true end) (impl_trace c).

Inductive c09case := C09B (fc : flavour * bcase) | C09F (c : fcase).

Definition check_c09 (c : c09case) : N :=
  match c with
  | C09B fc => check_c09b fc
  | C09F f => code (corr_ok f) (C09F_obs f)
  end.

(* ---------- C15 ---------- *)
From Cache Require Import Index.

Inductive ires15 := IOk | IErr | IPanic | IOther.
#[global] Instance ires15_eq_dec : EqDecision ires15.
Proof. solve_decision. Defined.
Record c15act := mkAct {
  a_labels : list label; a_broken : list (cid * key); a_order : list cname; a_mid : list (key * list label); a_res : ires15; a_cnt : Z;
  a_caches : list (cid * list key);                       (* contents after the call, sorted *)
  a_index : list (cname * list (label * list key));       (* index after the call (VerifIndexSize), empty lists dropped *)
}.
Record c15case := C15Case {
  c15_caches : list (cid * list key);
  c15_dels : list (cname * list cid);
  c15_adds : list (cname * key * list label);
  c15_acts : list c15act;
}.

Definition idx_of (dels : list (cname * list cid)) (adds : list (cname * key * list label)) : idx :=
  mkIdx (foldl (fun m a => let '(n, k, ls) := a in <[n := add_labels (default ∅ (m !! n)) k ls]> m) ∅ adds)
        (list_to_map dels).

Definition cache_keys (l : list (cid * list key)) (c : cid) : list key :=
  match list_find (fun p => bool_decide (p.1 = c)) l with Some (_, p) => p.2 | None => [] end.

Definition index_keys (l : list (cname * list (label * list key))) (n : cname) (lb : label) : list key :=
  match list_find (fun p => bool_decide (p.1 = n)) l with
  | Some (_, p) => match list_find (fun q => bool_decide (q.1 = lb)) p.2 with Some (_, q) => q.2 | None => [] end
  | None => []
  end.

Definition all_names : list cname := [1; 2]%N.
Definition all_labels : list label := [1; 2; 3; 4]%N.

Definition should_go (ix : idx) (ls : list label) (n : cname) : list key :=
  concat (map (fun l => default [] (default ∅ (i_labeled ix !! n) !! l)) ls).

Definition name_of_cache (dels : list (cname * list cid)) (c : cid) : cname :=
  match list_find (fun p => bool_decide (c ∈ p.2)) dels with Some (_, p) => p.1 | None => 0%N end.

(* the property on what the implementation did, given the index the history of calls implies *)
Definition c15_act_ok (dels : list (cname * list cid)) (ix : idx) (before : list (cid * list key)) (a : c15act) : bool :=
  let cids := map fst before in
  let removed := fold_right Z.add 0 (map (fun c => Z.of_nat (length (cache_keys before c)) - Z.of_nat (length (cache_keys (a_caches a) c))) cids) in
  let subset := forallb (fun c => forallb (fun k => bool_decide (k ∈ cache_keys before c)) (cache_keys (a_caches a) c)) cids in
  let untouched := forallb (fun c => forallb (fun k =>
        bool_decide (k ∈ should_go ix (a_labels a) (name_of_cache dels c)) || bool_decide (k ∈ cache_keys (a_caches a) c))
        (cache_keys before c)) cids in
  match a_res a with
  | IOk =>
      subset && untouched && (a_cnt a =? removed) &&
      forallb (fun c => forallb (fun k => negb (bool_decide (k ∈ cache_keys (a_caches a) c)))
                                (should_go ix (a_labels a) (name_of_cache dels c))) cids
  | IErr => subset && untouched && (a_cnt a =? removed) && negb (bool_decide (a_broken a = []))
  | _ => false
  end.

Fixpoint c15_run (dels : list (cname * list cid)) (ix : idx) (cs : caches) (before : list (cid * list key))
         (acts : list c15act) : bool * bool :=
  match acts with
  | [] => (true, true)
  | a :: r =>
    let '(ok, cnt, ix', cs') := invalidate (a_broken a) (a_order a) ix cs (a_labels a) 0 (a_mid a) in
    let m := eqb (bool_decide (a_res a = IOk)) ok && (a_cnt a =? cnt) &&
             forallb (fun c => bool_decide (cache_keys (a_caches a) c = default [] (cs' !! c))) (map fst before) &&
             forallb (fun n => forallb (fun l =>
                bool_decide (index_keys (a_index a) n l = default [] (default ∅ (i_labeled ix' !! n) !! l))) all_labels) all_names in
    let p := c15_act_ok dels ix before a in
    let '(m', p') := c15_run dels ix' cs' (a_caches a) r in
    (m && m', p && p')
  end.

Definition check_c15 (c : c15case) : N :=
  let '(m, p) := c15_run (c15_dels c) (idx_of (c15_dels c) (c15_adds c)) (list_to_map (c15_caches c)) (c15_caches c) (c15_acts c) in
  code m p.

(* ---------- C16 (dynamic part) ---------- *)
Inductive c16case := C16Pair (reports : N).
Definition check_c16 (c : c16case) : N := match c with C16Pair n => if (n =? 0)%N then 0%N else 2%N end.

(* ---------- C08: the linearization found by the search, re-checked against BackendConc.sspec ---------- *)
From Cache Require Import BackendConc.

Record c08op := mkOp8 { o_call : Z; o_ret : Z; o_op : sop; o_res : sres }.
Record c08case := mkC08 { c08_found : bool; c08_ops : list c08op }.

(* all slot contents the specification allows after the operations, the eviction choice unknown *)
Definition c08_next (ss : list (option sent)) (x : c08op) : list (option sent) :=
  remove_dups (flat_map (fun s =>
    flat_map (fun ch => let '(s', r) := sspec s (o_op x) ch in if decide (r = o_res x) then [s'] else [])
             (match o_op x with SEvict _ => [false; true] | _ => [false] end)) ss).

Fixpoint c08_legal (ss : list (option sent)) (l : list c08op) : bool :=
  match l with
  | [] => negb (bool_decide (ss = []))
  | x :: r => c08_legal (c08_next ss x) r
  end.

(* the order respects real time: nothing is placed before an operation that had returned before it was called *)
Fixpoint c08_realtime (l : list c08op) : bool :=
  match l with
  | [] => true
  | x :: r => forallb (fun y => negb (o_ret y <? o_call x)) r && c08_realtime r
  end.

Definition check_c08 (c : c08case) : N :=
  if c08_found c && c08_legal [None] (c08_ops c) && c08_realtime (c08_ops c) then 0%N else 2%N.

