(* CheckProofs.v — the window predicate the C11 check evaluates on the implementation's observations (Check.c11_scan:
   [Walk B; writes ...; cleanup at now; Walk A] => A is B with the writes applied minus exactly the long-expired
   entries) holds of the model's own results for every hash function, configuration and operation sequence.  So
   the predicate can only be false on a trace the model cannot produce: it is never the predicate that is wrong
   about conforming code. *)
From Cache Require Import Base Backend Spec Cleanup Check.

Section WithHash.
Context (hash : key -> N).

(* every entry sits in the slot of its own key *)
Definition slotted (m : gmap N entry) : Prop := forall h e, m !! h = Some e -> hash (eK e) = h.

Definition vals (m : gmap N entry) : list entry := (map_to_list m).*2.

Lemma vals_insert_new m h e : m !! h = None -> vals (<[h := e]> m) ≡ₚ e :: vals m.
Proof. intros Hn. unfold vals. rewrite (map_to_list_insert m h e Hn). reflexivity. Qed.

Lemma vals_delete m h e : m !! h = Some e -> e :: vals (delete h m) ≡ₚ vals m.
Proof. intros Hs. unfold vals. rewrite <- (map_to_list_delete m h e Hs). reflexivity. Qed.

Lemma elem_of_vals m e : e ∈ vals m <-> exists h, m !! h = Some e.
Proof.
  unfold vals. rewrite elem_of_list_fmap. split.
  - intros ([h e'] & -> & Hin). apply elem_of_map_to_list in Hin. eauto.
  - intros (h & Hl). exists (h, e). split; [reflexivity|]. apply elem_of_map_to_list. exact Hl.
Qed.

Lemma slotted_delete m h : slotted m -> slotted (delete h m).
Proof. intros Hs h' e Hl. apply lookup_delete_Some in Hl as [_ Hl]. eauto. Qed.

Lemma filter_all {A} (P : A -> bool) (l : list A) : (forall x, x ∈ l -> P x = true) -> List.filter P l = l.
Proof.
  induction l as [|x l IH]; intros H; cbn; [reflexivity|].
  rewrite (H x) by (left). f_equal. apply IH. intros y Hy. apply H. right. exact Hy.
Qed.

Lemma filter_perm {A} (P : A -> bool) (l1 l2 : list A) : l1 ≡ₚ l2 -> List.filter P l1 ≡ₚ List.filter P l2.
Proof.
  induction 1 as [|x l1 l2 _ IH|x y l|l1 l2 l3 _ IH1 _ IH2]; cbn.
  - reflexivity.
  - destruct (P x); [constructor|]; exact IH.
  - destruct (P x), (P y); try reflexivity. constructor.
  - etransitivity; eauto.
Qed.

(* removing slot h = dropping the entries whose key hashes to h *)
Lemma vals_delete_filter m h : slotted m ->
  vals (delete h m) ≡ₚ List.filter (fun e => negb (hash (eK e) =? h)%N) (vals m).
Proof.
  intros Hs.
  assert (Hall : forall m', slotted m' -> m' !! h = None ->
            List.filter (fun e => negb (hash (eK e) =? h)%N) (vals m') = vals m').
  { intros m' Hs' Hn. apply filter_all. intros e He. apply elem_of_vals in He as (h' & Hl).
    rewrite (Hs' _ _ Hl). apply negb_true_iff, N.eqb_neq. intros ->. congruence. }
  destruct (m !! h) as [e|] eqn:Hl.
  - rewrite <- (filter_perm _ _ _ (vals_delete m h e Hl)). cbn.
    rewrite (Hs _ _ Hl), N.eqb_refl. cbn. symmetry. rewrite Hall; [reflexivity|apply slotted_delete, Hs|apply lookup_delete].
  - rewrite delete_notin by exact Hl. rewrite Hall by assumption. reflexivity.
Qed.

Lemma vals_insert m h e : slotted m ->
  vals (<[h := e]> m) ≡ₚ e :: List.filter (fun x => negb (hash (eK x) =? h)%N) (vals m).
Proof.
  intros Hs. rewrite <- insert_delete_insert. rewrite vals_insert_new by apply lookup_delete.
  constructor. apply vals_delete_filter, Hs.
Qed.

(* the delete-expired scan on the map = the filter on its entries *)
Lemma vals_filter (P : entry -> bool) (m : gmap N entry) :
  vals (filter (fun he : N * entry => P he.2 = true) m) ≡ₚ List.filter P (vals m).
Proof.
  induction m as [|h e m Hn IH] using map_ind.
  - rewrite map_filter_empty. unfold vals. rewrite map_to_list_empty. reflexivity.
  - rewrite (filter_perm P _ _ (vals_insert_new m h e Hn)). cbn.
    destruct (P e) eqn:HP.
    + rewrite map_filter_insert_True by exact HP.
      rewrite vals_insert_new by (apply map_filter_lookup_None; left; exact Hn). constructor. exact IH.
    + rewrite map_filter_insert_not'; [exact IH|cbn; congruence|intros y Hy; congruence].
Qed.

Lemma map_strip_filter (P : entry -> bool) (l : list entry) :
  (forall e, P (strip_e e) = P e) -> map strip_e (List.filter P l) = List.filter P (map strip_e l).
Proof.
  intros HP. induction l as [|e l IH]; cbn; [reflexivity|].
  rewrite HP. destruct (P e); cbn; rewrite IH; reflexivity.
Qed.

(* what c11_scan carries from a Walk to the next cleanup: the content, up to the usage counters *)
Definition tracks (s : bstate) (prev : option (list entry)) : Prop :=
  match prev with Some B => map strip_e B ≡ₚ map strip_e (vals (data s)) | None => True end.

Lemma slotted_step cfg s o : slotted (data s) -> slotted (data (b_step hash cfg s o).1.1).
Proof.
  intros Hs. destruct o as [k v t now jit|k skip now|k|now| | | |k now|k v now jit|now victims]; cbn.
  - unfold b_write. destruct (trait_ttl cfg t jit) as [ttl inc]. cbn. intros h e Hl.
    apply lookup_insert_Some in Hl as [[<- <-]|[_ Hl]]; [reflexivity|eauto].
  - unfold b_read. destruct skip; [exact Hs|]. unfold find.
    destruct (data s !! hash k) as [e|] eqn:Hl; [|exact Hs]. destruct (decide (eK e = k)) as [Hk|]; [|exact Hs].
    assert (Hins : slotted (<[hash k := bump cfg now e]> (data s))).
    { intros h e' Hl'. apply lookup_insert_Some in Hl' as [[<- <-]|[_ Hl']]; [|eauto].
      unfold bump. destruct (c_strategy cfg); cbn; congruence. }
    destruct (expired now e); exact Hins.
  - unfold b_delete. destruct (find hash (data s) k); [apply slotted_delete|]; exact Hs.
  - intros h e Hl. rewrite lookup_fmap in Hl. destruct (data s !! h) as [e0|] eqn:H0; [|discriminate].
    injection Hl as <-. cbn. eauto.
  - intros h e Hl. rewrite lookup_empty in Hl. discriminate.
  - exact Hs.
  - exact Hs.
  - unfold b_read, find.
    destruct (data s !! hash k) as [e|] eqn:Hl; [|exact Hs]. destruct (decide (eK e = k)) as [Hk|]; [|exact Hs].
    assert (Hins : slotted (<[hash k := bump cfg now e]> (data s))).
    { intros h e' Hl'. apply lookup_insert_Some in Hl' as [[<- <-]|[_ Hl']]; [|eauto].
      unfold bump. destruct (c_strategy cfg); cbn; congruence. }
    destruct (expired now e); exact Hins.
  - unfold b_write. destruct (trait_ttl cfg 0 jit) as [ttl inc]. cbn. intros h e Hl.
    apply lookup_insert_Some in Hl as [[<- <-]|[_ Hl]]; [reflexivity|eauto].
  - assert (H1 : slotted (data (b_delete_expired cfg s now))).
    { unfold b_delete_expired. destruct (negb (eff_ttl cfg =? unlimited) || (0 <? expset s)); [|exact Hs].
      cbn. intros h e Hl. apply map_filter_lookup_Some in Hl as [Hl _]. eauto. }
    unfold b_remove_hashes. cbn. induction (map hash victims) as [|x l IH]; cbn; [exact H1|apply slotted_delete, IH].
Qed.

(* only Walk answers with a Walk *)
Lemma step_walk_result cfg s o l : (b_step hash cfg s o).1.2 = RWalk l -> o = OWalk /\ l = vals (data s).
Proof.
  destruct o as [k v t now jit|k skip now|k|now| | | |k now|k v now jit|now victims]; cbn; intros H.
  all: try discriminate.
  - unfold b_write in H. destruct (trait_ttl cfg t jit). discriminate.
  - unfold b_read in H. destruct skip; [discriminate|]. destruct (find hash (data s) k) as [e|]; [|discriminate].
    destruct (expired now e); discriminate.
  - unfold b_delete in H. destruct (find hash (data s) k); discriminate.
  - injection H as <-. split; reflexivity.
  - unfold b_read in H. destruct (find hash (data s) k) as [e|]; [|discriminate]. destruct (expired now e); discriminate.
  - unfold b_write in H. destruct (trait_ttl cfg 0 jit). discriminate.
Qed.

Lemma long_expired_strip b e : long_expired b (strip_e e) = long_expired b e.
Proof. reflexivity. Qed.

Theorem c11_scan_model cfg : forall ops s prev,
  slotted (data s) -> tracks s prev ->
  c11_scan hash cfg s ops (b_run hash cfg s (map no_victims ops)).1.2 prev = true.
Proof.
  induction ops as [|o ops IH]; intros s prev Hs Ht; [reflexivity|].
  cbn [map b_run]. destruct (b_step hash cfg s (no_victims o)) as [[s1 r] ev] eqn:Hstep.
  destruct (b_run hash cfg s1 (map no_victims ops)) as [[s2 rs] evs] eqn:Hrun. cbn [fst snd c11_scan].
  rewrite Hstep. cbn [fst snd].
  assert (Hs1 : slotted (data s1)).
  { pose proof (slotted_step cfg s (no_victims o) Hs) as H. rewrite Hstep in H. exact H. }
  apply andb_true_iff. split.
  - (* the window check *)
    destruct o as [k v t now jit|k skip now|k|now| | | |k now|k v now jit|now victims]; try reflexivity.
    destruct prev as [B|]; [|reflexivity]. destruct rs as [|[| | | |A] rs']; try reflexivity.
    apply bool_decide_eq_true.
    (* A is the Walk of the state the cleanup left *)
    destruct ops as [|o2 ops2]; [cbn in Hrun; congruence|].
    cbn [map b_run] in Hrun. destruct (b_step hash cfg s1 (no_victims o2)) as [[s3 r3] ev3] eqn:Hstep2.
    destruct (b_run hash cfg s3 (map no_victims ops2)) as [[s4 rs4] evs4]. injection Hrun as _ Hr _.
    subst r3.
    pose proof (step_walk_result cfg s1 (no_victims o2) A) as Hw. rewrite Hstep2 in Hw. destruct (Hw eq_refl) as [_ ->].
    cbn in Hstep. injection Hstep as <- _ _. unfold b_remove_hashes. cbn [foldr data].
    unfold after_delete_expired, cleanup_active, b_delete_expired.
    destruct (negb (eff_ttl cfg =? unlimited) || (0 <? expset s)); [|symmetry; exact Ht].
    cbn [data].
    rewrite (map_strip_filter (fun e => negb (long_expired (now - eff_del_after cfg) e))) by (intros e; reflexivity).
    etransitivity; [|apply filter_perm; symmetry; exact Ht].
    rewrite <- (map_strip_filter (fun e => negb (long_expired (now - eff_del_after cfg) e))) by (intros e; reflexivity).
    apply fmap_Permutation.
    rewrite <- (vals_filter (fun e => negb (long_expired (now - eff_del_after cfg) e))).
    unfold vals. f_equiv. f_equiv. apply map_filter_ext. intros h e _. cbn.
    destruct (long_expired (now - eff_del_after cfg) e); cbn; split; congruence.
  - (* the rest of the scan, with what is carried on *)
    specialize (IH s1). rewrite Hrun in IH. cbn [fst snd] in IH. apply IH; [exact Hs1|].
    destruct r as [|rv|re|rn|l].
    5: { pose proof (step_walk_result cfg s (no_victims o) l) as Hw. rewrite Hstep in Hw. destruct (Hw eq_refl) as [Ho ->].
         assert (s1 = s) as ->. { destruct o; cbn in Ho; try discriminate. cbn in Hstep. congruence. }
         destruct o; cbn in Ho; try discriminate. cbn. reflexivity. }
    all: destruct o as [k v t now jit|k skip now|k|now| | | |k now|k v now jit|now victims]; try exact I.
    all: destruct prev as [B|]; try exact I.
    all: cbn in Hstep; unfold b_write in Hstep; destruct (trait_ttl cfg t jit) as [ttl inc] eqn:Httl; try discriminate Hstep.
    all: injection Hstep as <- _; cbn [tracks data]; unfold apply_write; rewrite Httl; cbn [fst].
    all: symmetry; etransitivity; [apply (Permutation_map strip_e), vals_insert, Hs|]; cbn [map].
    all: constructor.
    all: rewrite (map_strip_filter (fun e => negb (hash (eK e) =? hash k)%N) B) by (intros e; reflexivity).
    all: rewrite (map_strip_filter (fun e => negb (hash (eK e) =? hash k)%N) (vals (data s))) by (intros e; reflexivity).
    all: apply filter_perm; symmetry; exact Ht.
Qed.

(* from the empty cache: every run of the model satisfies the window predicate *)
Corollary c11_scan_model_runs cfg ops :
  c11_scan hash cfg b0 ops (b_run hash cfg b0 (map no_victims ops)).1.2 None = true.
Proof. apply c11_scan_model; [intros h e H; cbn in H; rewrite lookup_empty in H; discriminate|exact I]. Qed.
End WithHash.
