(* Cleanup.v — the janitor cycle (trait.go:67-110) and eviction (evictLeast in the three backends).

   invokeCleanup: (1) deleteExpired(now - DeleteExpiredAfter), skipped for UnlimitedTTL while no
   expiration was ever set; (2) if a soft limit is breached or EvictionNeeded() holds:
   frac := EvictFraction (0 -> 0.1); on a count breach frac := 1 - CountSoftLimit*(1-frac)/count;
   evictLeast(frac): collect (hash, metric) of every entry, sort ascending by metric, delete the first
   int(float64(len)*frac) by hash. Metric: E for EvictMostExpired, C (last-served stamp or serve
   count) for LRU / LFU.  The sort is a parameter with its specification as hypotheses (sort.Slice is
   not stable and map iteration order is arbitrary: any permutation that is sorted may result). *)
From Cache Require Import Base Backend.
From Coq Require Import Sorting.Sorted.

Definition metric (st : strategy) (e : entry) : Z :=
  match st with MostExpired => eE e | LRU | LFU => eC e end.

Definition le2 (a b : N * Z) : Prop := a.2 <= b.2.

Section Evict.
  Context (sort : list (N * Z) -> list (N * Z)).

  Definition collect (st : strategy) (m : gmap N entry) : list (N * Z) :=
    (fun he => (he.1, metric st he.2)) <$> map_to_list m.

  Definition victims (st : strategy) (m : gmap N entry) (n : nat) : list N :=
    (take n (sort (collect st m))).*1.

  Definition evict_least (st : strategy) (m : gmap N entry) (n : nat) : gmap N entry :=
    foldr delete m (victims st m n).
End Evict.

(* number of items to evict: int(float64(cnt) * frac), frac = fn/fd exact rational of the float64;
   the float product and truncation stay within one of the exact value *)
Definition evict_count_ok (cnt : Z) (fn fd : Z) (n : Z) : Prop :=
  0 <= n /\ Z.abs (n * fd - cnt * fn) <= fd.

(* relational form used on observations: [removed] is a valid eviction of [before] *)
Definition evict_rank_ok (st : strategy) (removed kept : list entry) : bool :=
  forallb (fun r => forallb (fun k => metric st r <=? metric st k) kept) removed.
