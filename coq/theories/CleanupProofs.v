From Cache Require Import Base Backend Spec Cleanup.
From Coq Require Import Sorting.Sorted.

(* ---------- C11: deleteExpired removes exactly the long-expired ---------- *)

Lemma delete_expired_exact c s now h e :
  let s' := b_delete_expired c s now in
  (negb (eff_ttl c =? unlimited) || (0 <? expset s) = true ->
     (data s' !! h = Some e <->
      data s !! h = Some e /\ ~ (eE e <> 0 /\ eE e < now - eff_del_after c))) /\
  (negb (eff_ttl c =? unlimited) || (0 <? expset s) = false -> s' = s).
Proof.
  unfold b_delete_expired. destruct (negb _ || _); split; try discriminate; try reflexivity.
  intros _. cbn. rewrite map_filter_lookup_Some. cbn. unfold long_expired.
  split; intros [H1 H2]; (split; [exact H1|]).
  - intros [Ha Hb]. replace (eE e =? 0) with false in H2 by lia. replace (eE e <? now - eff_del_after c) with true in H2 by lia.
    discriminate.
  - destruct (eE e =? 0) eqn:E0; cbn; [reflexivity|]. destruct (eE e <? now - eff_del_after c) eqn:E1; [|reflexivity].
    exfalso. apply H2. lia.
Qed.

(* survivors: fresh, recently expired and never-expiring entries survive any number of cycles *)
Definition survivor (c : bcfg) (tmax : time) (e : entry) : Prop :=
  eE e = 0 \/ tmax - eff_del_after c <= eE e.

Lemma delete_expired_keeps c s now tmax h e :
  now <= tmax -> data s !! h = Some e -> survivor c tmax e ->
  data (b_delete_expired c s now) !! h = Some e.
Proof.
  intros Hle Hl Hs. destruct (delete_expired_exact c s now h e) as [H1 H2].
  destruct (negb (eff_ttl c =? unlimited) || (0 <? expset s)) eqn:Hc.
  - apply H1; [reflexivity|]. split; [exact Hl|]. intros [Ha Hb]. destruct Hs as [Hs|Hs]; lia.
  - rewrite H2; auto.
Qed.

Fixpoint cycles (c : bcfg) (s : bstate) (nows : list time) : bstate :=
  match nows with
  | [] => s
  | t :: r => cycles c (b_delete_expired c s t) r
  end.

Lemma cycles_keep c nows : forall s tmax h e,
  Forall (fun t => t <= tmax) nows -> data s !! h = Some e -> survivor c tmax e ->
  data (cycles c s nows) !! h = Some e.
Proof.
  induction nows as [|t r IH]; intros s tmax h e Hf Hl Hs; cbn; [exact Hl|].
  inversion Hf; subst. eapply IH; eauto. eapply delete_expired_keeps; eauto.
Qed.

Lemma cycles_only_remove c nows : forall s h e,
  data (cycles c s nows) !! h = Some e -> data s !! h = Some e.
Proof.
  induction nows as [|t r IH]; intros s h e Hl; cbn in Hl; [exact Hl|].
  apply IH in Hl. unfold b_delete_expired in Hl. destruct (negb _ || _); [|exact Hl].
  cbn in Hl. apply map_filter_lookup_Some in Hl as [Hl _]. exact Hl.
Qed.

(* ---------- C12: eviction ---------- *)

Lemma elem_of_take_incl {A} (x : A) n l : x ∈ take n l -> x ∈ l.
Proof. intros H. rewrite <- (take_drop n l). apply elem_of_app. auto. Qed.

Lemma elem_of_drop_incl {A} (x : A) n l : x ∈ drop n l -> x ∈ l.
Proof. intros H. rewrite <- (take_drop n l). apply elem_of_app. auto. Qed.

Lemma NoDup_take {A} n (l : list A) : NoDup l -> NoDup (take n l).
Proof. intros H. rewrite <- (take_drop n l) in H. apply NoDup_app in H. tauto. Qed.

Section Evict.
  Context (sort : list (N * Z) -> list (N * Z)).
  Hypothesis sort_perm : forall l, sort l ≡ₚ l.
  Hypothesis sort_sorted : forall l, StronglySorted le2 (sort l).

  Lemma collect_nodup st m : NoDup (collect st m).*1.
  Proof.
    unfold collect. rewrite <- list_fmap_compose.
    replace ((fst ∘ (fun he : N * entry => (he.1, metric st he.2))) <$> map_to_list m) with ((map_to_list m).*1).
    - apply NoDup_fst_map_to_list.
    - apply list_fmap_ext. intros; reflexivity.
  Qed.

  Lemma collect_elem st m h v :
    (h, v) ∈ collect st m <-> exists e, m !! h = Some e /\ v = metric st e.
  Proof.
    unfold collect. rewrite elem_of_list_fmap. split.
    - intros ([h' e] & [= -> ->] & Hin). apply elem_of_map_to_list in Hin. eauto.
    - intros (e & Hl & ->). exists (h, e). split; [reflexivity|]. apply elem_of_map_to_list. exact Hl.
  Qed.

  Lemma sorted_take_drop (l : list (N * Z)) n a b :
    StronglySorted le2 l -> a ∈ take n l -> b ∈ drop n l -> a.2 <= b.2.
  Proof.
    revert n. induction l as [|x l IH]; intros n Hs Ha Hb.
    - rewrite take_nil in Ha. inversion Ha.
    - destruct n as [|n]; [inversion Ha|]. cbn in Ha, Hb. inversion Hs as [|? ? Hs' Hall]; subst.
      apply elem_of_cons in Ha as [->|Ha].
      + rewrite Forall_forall in Hall. apply Hall. apply (elem_of_drop_incl _ n). exact Hb.
      + eapply IH; eauto.
  Qed.

  (* every removed entry ranks no higher than every kept entry *)
  Lemma evict_rank st m n h e h' e' :
    m !! h = Some e -> evict_least sort st m n !! h = None ->
    evict_least sort st m n !! h' = Some e' ->
    metric st e <= metric st e'.
  Proof.
    unfold evict_least, victims. intros Hl Hrem Hkept.
    apply lookup_foldr_delete_Some in Hkept as [Hni Hl'].
    assert (Hin : h ∈ (take n (sort (collect st m))).*1).
    { destruct (decide (h ∈ (take n (sort (collect st m))).*1)) as [?|Hn]; [assumption|].
      rewrite lookup_foldr_delete_not_elem_of in Hrem by exact Hn. congruence. }
    apply elem_of_list_fmap in Hin as ([h0 v] & -> & Hin). cbn in *.
    assert (Hv : (h0, v) ∈ collect st m).
    { rewrite <- (sort_perm (collect st m)). eapply elem_of_take_incl; eauto. } 
    apply collect_elem in Hv as (e0 & Hl0 & ->). assert (e0 = e) as -> by congruence.
    assert (Hk : (h', metric st e') ∈ sort (collect st m)).
    { rewrite (sort_perm (collect st m)). apply collect_elem. eauto. }
    rewrite <- (take_drop n (sort (collect st m))) in Hk. apply elem_of_app in Hk as [Hk|Hk].
    - exfalso. apply Hni. apply elem_of_list_fmap. exists (h', metric st e'). auto.
    - apply (sorted_take_drop _ n (h0, metric st e) (h', metric st e') (sort_sorted _) Hin Hk).
  Qed.

  (* exactly min(n, size) entries are removed, nothing else changes *)
  Lemma evict_size st m n :
    size (evict_least sort st m n) = (size m - min n (size m))%nat.
  Proof.
    unfold evict_least, victims.
    assert (Hnd : NoDup (take n (sort (collect st m))).*1).
    { rewrite fmap_take. apply NoDup_take. rewrite (sort_perm (collect st m)). apply collect_nodup. }
    assert (Hall : forall h, h ∈ (take n (sort (collect st m))).*1 -> is_Some (m !! h)).
    { intros h Hin. apply elem_of_list_fmap in Hin as ([h0 v] & -> & Hin).
      assert (Hv : (h0, v) ∈ collect st m) by (rewrite <- (sort_perm (collect st m)); eapply elem_of_take_incl; eauto).
      apply collect_elem in Hv as (e0 & Hl0 & _). eauto. }
    assert (Hlen : length (take n (sort (collect st m))).*1 = min n (size m)).
    { rewrite fmap_length, take_length. rewrite (Permutation_length (sort_perm _)).
      unfold collect. rewrite fmap_length. reflexivity. }
    rewrite <- Hlen. clear Hlen.
    induction ((take n (sort (collect st m))).*1) as [|h hs IH]; cbn; [lia|].
    apply NoDup_cons in Hnd as [Hni Hnd].
    rewrite map_size_delete. rewrite lookup_foldr_delete_not_elem_of by exact Hni.
    destruct (Hall h) as [e He]; [set_solver|]. rewrite He.
    rewrite IH; [|exact Hnd|intros; apply Hall; set_solver].
    assert (length hs < size m)%nat; [|lia].
    assert (Hsub : forall x, x ∈ h :: hs -> x ∈ (map_to_list m).*1).
    { intros x Hx. destruct (Hall x Hx) as [ex Hex]. apply elem_of_list_fmap. exists (x, ex). split; [reflexivity|].
      apply elem_of_map_to_list. exact Hex. }
    assert (Hle : (length (h :: hs) <= length (map_to_list m).*1)%nat).
    { apply submseteq_length, NoDup_submseteq; [constructor; assumption|exact Hsub]. }
    rewrite fmap_length in Hle. cbn in Hle. unfold size, map_size. lia.
  Qed.

  Lemma evict_untouched st m n h e :
    evict_least sort st m n !! h = Some e -> m !! h = Some e.
  Proof. unfold evict_least. intros Hl. apply lookup_foldr_delete_Some in Hl as [_ Hl]. exact Hl. Qed.
End Evict.

(* count arithmetic: coming down to CountSoftLimit*(1-f) within one entry *)
Lemma count_target (cnt L fn fd n : Z) :
  0 < fd -> 0 < cnt ->
  (* n within one of cnt * (1 - L*(1-f)/cnt) = cnt - L*(fd-fn)/fd *)
  Z.abs (n * fd - (cnt * fd - L * (fd - fn))) <= fd ->
  Z.abs ((cnt - n) * fd - L * (fd - fn)) <= fd.
Proof. intros. lia. Qed.
