(* Conc.v — traces of memory and synchronization events, happens-before, data races, and the
   soundness of the lockset discipline: if every pair of conflicting accesses is guarded by a common
   mutex (held in write mode by every writer), the trace has no data race.

   Happens-before follows the Go memory model for sync.Mutex / sync.RWMutex: program order, and an
   Unlock is synchronized before a later Lock of the same mutex when at least one of the two is in
   write mode (Unlock -> Lock / RLock, RUnlock -> Lock). sync/atomic accesses never race with each
   other. *)
From Cache Require Import Base.

Definition thr := N.
Definition loc := N.
Definition mtx := N.

Inductive ev :=
| Acc (t : thr) (l : loc) (w : bool) (atomic : bool)
| Lock (t : thr) (m : mtx) (w : bool)        (* w = true: Lock, w = false: RLock *)
| Unlock (t : thr) (m : mtx) (w : bool).

#[global] Instance ev_eq_dec : EqDecision ev.
Proof. solve_decision. Defined.

Definition ev_thr (e : ev) : thr := match e with Acc t _ _ _ | Lock t _ _ | Unlock t _ _ => t end.

Definition trace := list ev.

Inductive hb (tr : trace) : nat -> nat -> Prop :=
| hb_po i j e1 e2 : (i < j)%nat -> tr !! i = Some e1 -> tr !! j = Some e2 -> ev_thr e1 = ev_thr e2 -> hb tr i j
| hb_sync i j t1 t2 m w1 w2 : (i < j)%nat -> tr !! i = Some (Unlock t1 m w1) -> tr !! j = Some (Lock t2 m w2) ->
                              w1 || w2 = true -> hb tr i j
| hb_trans i j k : hb tr i j -> hb tr j k -> hb tr i k.

(* thread t holds mutex m in mode w at position i *)
Definition held (tr : trace) (i : nat) (t : thr) (m : mtx) (w : bool) : Prop :=
  exists l, (l < i)%nat /\ tr !! l = Some (Lock t m w) /\
            forall k, (l < k < i)%nat -> tr !! k <> Some (Unlock t m w).

(* the mutexes are respected: nobody acquires a mutex held by somebody else unless both are readers *)
Definition wf (tr : trace) : Prop :=
  forall l t m w, tr !! l = Some (Lock t m w) ->
  forall t' w', t' <> t -> held tr l t' m w' -> w || w' = false.

Definition conflict (e1 e2 : ev) : Prop :=
  match e1, e2 with
  | Acc t1 l1 w1 a1, Acc t2 l2 w2 a2 => t1 <> t2 /\ l1 = l2 /\ (w1 || w2 = true) /\ (a1 && a2 = false)
  | _, _ => False
  end.

Definition race (tr : trace) (i j : nat) : Prop :=
  exists e1 e2, (i < j)%nat /\ tr !! i = Some e1 /\ tr !! j = Some e2 /\ conflict e1 e2 /\ ~ hb tr i j.

(* lockset discipline: conflicting accesses share a mutex, writers hold it in write mode *)
Definition guarded (tr : trace) : Prop :=
  forall i j t1 l w1 a1 t2 w2 a2,
    (i < j)%nat -> tr !! i = Some (Acc t1 l w1 a1) -> tr !! j = Some (Acc t2 l w2 a2) ->
    conflict (Acc t1 l w1 a1) (Acc t2 l w2 a2) ->
    exists m m1 m2, held tr i t1 m m1 /\ held tr j t2 m m2 /\ (w1 = true -> m1 = true) /\ (w2 = true -> m2 = true).

(* bounded search for an event in an open interval *)
Lemma find_between (tr : trace) (e : ev) (lo hi : nat) :
  (forall k, (lo < k < hi)%nat -> tr !! k <> Some e) \/ (exists k, (lo < k < hi)%nat /\ tr !! k = Some e).
Proof.
  induction hi as [|hi IH].
  - left. intros k Hk. lia.
  - destruct IH as [Hnone|(k & Hk & He)].
    + destruct (decide (lo < hi)%nat) as [Hlt|Hge].
      * destruct (decide (tr !! hi = Some e)) as [Heq|Hne].
        -- right. exists hi. split; [lia|exact Heq].
        -- left. intros k Hk. destruct (decide (k = hi)) as [->|Hn]; [exact Hne|]. apply Hnone. lia.
      * left. intros k Hk. lia.
    + right. exists k. split; [lia|exact He].
Qed.

Theorem lockset_sound (tr : trace) : wf tr -> guarded tr -> forall i j, ~ race tr i j.
Proof.
  intros Hwf Hg i j (e1 & e2 & Hij & H1 & H2 & Hc & Hnhb). apply Hnhb.
  destruct e1 as [t1 l1 w1 a1| |]; try contradiction. destruct e2 as [t2 l2 w2 a2| |]; try contradiction.
  pose proof Hc as (Hne & <- & Hw & Ha).
  destruct (Hg _ _ _ _ _ _ _ _ _ Hij H1 H2 Hc) as (m & m1 & m2 & Hh1 & Hh2 & Hm1 & Hm2).
  assert (Hmode : m1 || m2 = true).
  { destruct w1; [rewrite (Hm1 eq_refl); reflexivity|]. destruct w2; [rewrite (Hm2 eq_refl); apply orb_true_r|discriminate]. }
  destruct Hh1 as (p1 & Hp1 & Hl1 & Hno1). destruct Hh2 as (p2 & Hp2 & Hl2 & Hno2).
  (* the section of t2 containing j starts after i *)
  assert (Hp2i : (i < p2)%nat).
  { destruct (decide (i < p2)%nat) as [?|Hge]; [assumption|exfalso].
    assert (p2 <> i) by (intros ->; rewrite H1 in Hl2; discriminate).
    destruct (decide (p1 < p2)%nat) as [Hlt|Hnlt].
    - (* t1 locked first and still holds at p2 *)
      assert (Hh : held tr p2 t1 m m1).
      { exists p1. split; [exact Hlt|]. split; [exact Hl1|]. intros k Hk. apply Hno1. lia. }
      pose proof (Hwf _ _ _ _ Hl2 _ _ Hne Hh) as Hx. rewrite orb_comm in Hx. congruence.
    - assert (p1 <> p2) by (intros ->; rewrite Hl1 in Hl2; injection Hl2 as -> _; contradiction).
      assert (Hh : held tr p1 t2 m m2).
      { exists p2. split; [lia|]. split; [exact Hl2|]. intros k Hk. apply Hno2. lia. }
      pose proof (Hwf _ _ _ _ Hl1 _ _ (not_eq_sym Hne) Hh) as Hx. congruence. }
  (* t1 released m between its lock and p2 *)
  destruct (find_between tr (Unlock t1 m m1) p1 p2) as [Hnone|(k & Hk & Hu)].
  - exfalso. assert (Hh : held tr p2 t1 m m1).
    { exists p1. split; [lia|]. split; [exact Hl1|exact Hnone]. }
    pose proof (Hwf _ _ _ _ Hl2 _ _ Hne Hh) as Hx. rewrite orb_comm in Hx. congruence.
  - assert (Hik : (i < k)%nat).
    { destruct (decide (i < k)%nat) as [?|Hge]; [assumption|exfalso].
      assert (k <> i) by (intros ->; rewrite H1 in Hu; discriminate).
      apply (Hno1 k); [lia|exact Hu]. }
    eapply hb_trans; [eapply (hb_po tr i k); eauto|].
    eapply hb_trans; [eapply (hb_sync tr k p2); eauto; lia|].
    eapply (hb_po tr p2 j); eauto.
Qed.

(* ------------------------------------------------------------------ *)
(* The static table: per access site a location CLASS, read/write, atomic or plain, and the mutex
   classes held (with mode), each marked whether the mutex lives in the same object as the location.
   Instances: a location instance is (class, object); a mutex of class c marked same-object guards
   exactly the locations of its own object. *)
Record site := mkSite {
  s_op : N;                                  (* operation (function) id *)
  s_loc : N;                                 (* location class *)
  s_write : bool;
  s_atomic : bool;                           (* sync/atomic, sync.Map method, or channel operation *)
  s_init : bool;                             (* initialization of an object that is not yet published *)
  s_locks : list (N * bool * bool);          (* mutex class, write mode, same object as the location *)
}.

Definition site_conflict (a b : site) : bool :=
  (s_loc a =? s_loc b)%N && (s_write a || s_write b) && negb (s_atomic a && s_atomic b)
  && negb (s_init a) && negb (s_init b).

Definition common_guard (a b : site) : bool :=
  existsb (fun la => let '(ma, wa, sa) := la in
    sa && (negb (s_write a) || wa) &&
    existsb (fun lb => let '(mb, wb, sb) := lb in
      (ma =? mb)%N && sb && (negb (s_write b) || wb)) (s_locks b)) (s_locks a).

(* every pair of conflicting sites (a site conflicts with itself: two threads may run the same code) *)
Definition lockset_ok (tbl : list site) : bool :=
  forallb (fun a => forallb (fun b => negb (site_conflict a b) || common_guard a b) tbl) tbl.

(* a trace instantiates a table: every access is an instance of a site on some object, holding
   instances of the site's mutexes (same-object ones on the access's object) *)
Definition loc_of (cls obj : N) : loc := Npos (encode (cls, obj)).
Definition mtx_of (cls obj : N) : mtx := Npos (encode (cls, obj)).

Definition instance_of (tr : trace) (tbl : list site) : Prop :=
  forall i t l w a, tr !! i = Some (Acc t l w a) ->
    exists s obj, s ∈ tbl /\ s_init s = false /\ l = loc_of (s_loc s) obj /\ w = s_write s /\ a = s_atomic s /\
      forall mc mw same, (mc, mw, same) ∈ s_locks s -> same = true -> held tr i t (mtx_of mc obj) mw.

Lemma loc_of_inj c1 o1 c2 o2 : loc_of c1 o1 = loc_of c2 o2 -> c1 = c2 /\ o1 = o2.
Proof. unfold loc_of. intros [= H]. apply (inj encode) in H. injection H as -> ->. auto. Qed.

Theorem table_race_free (tr : trace) (tbl : list site) :
  lockset_ok tbl = true -> wf tr -> instance_of tr tbl -> forall i j, ~ race tr i j.
Proof.
  intros Hok Hwf Hinst. apply lockset_sound; [exact Hwf|].
  intros i j t1 l w1 a1 t2 w2 a2 Hij H1 H2 (Hne & _ & Hw & Ha).
  destruct (Hinst _ _ _ _ _ H1) as (s1 & o1 & Hs1 & Hi1 & Hl1 & -> & -> & Hlk1).
  destruct (Hinst _ _ _ _ _ H2) as (s2 & o2 & Hs2 & Hi2 & Hl2 & -> & -> & Hlk2).
  rewrite Hl1 in Hl2. apply loc_of_inj in Hl2 as [Hcls ->].
  unfold lockset_ok in Hok. rewrite forallb_forall in Hok. specialize (Hok s1 (proj1 (elem_of_list_In _ _) Hs1)).
  rewrite forallb_forall in Hok. specialize (Hok s2 (proj1 (elem_of_list_In _ _) Hs2)).
  assert (Hconf : site_conflict s1 s2 = true).
  { unfold site_conflict. rewrite Hcls, N.eqb_refl, Hw, Ha, Hi1, Hi2. reflexivity. }
  rewrite Hconf in Hok. cbn in Hok. unfold common_guard in Hok.
  apply existsb_exists in Hok as ([[ma wa] sa] & Hina & Hga).
  apply andb_prop in Hga as [Hga Hgb]. apply andb_prop in Hga as [Hsa Hwa].
  apply existsb_exists in Hgb as ([[mb wb] sb] & Hinb & Hgb).
  apply andb_prop in Hgb as [Hgb Hwb]. apply andb_prop in Hgb as [Hm Hsb].
  apply N.eqb_eq in Hm. subst mb. destruct sa; [|discriminate]. destruct sb; [|discriminate].
  exists (mtx_of ma o2), wa, wb. split; [|split; [|split]].
  - apply (Hlk1 ma wa true); [apply elem_of_list_In, Hina|reflexivity].
  - apply (Hlk2 ma wb true); [apply elem_of_list_In, Hinb|reflexivity].
  - intros Hws. rewrite Hws in Hwa. cbn in Hwa. exact Hwa.
  - intros Hws. rewrite Hws in Hwb. cbn in Hwb. exact Hwb.
Qed.
