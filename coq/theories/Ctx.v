(* Ctx.v — executable model of the part of context.Context that C06 speaks about.

   A Go context is a chain of layers; the model keeps them innermost first.  `context.WithValue`,
   `WithCancel`, `WithDeadline/WithTimeout` are the standard library's (modelled, not verified: their
   documented contract); `LDetach` is the library's own `detachedContext{parent}` (context.go:66-85):
   Deadline() = (zero, false), Done() = nil, Err() = nil, Value(k) = parent.Value(k).

   The environment of an observation is the set of cancel functions that have been called so far and the
   clock reading. *)
From Cache Require Import Base.

Inductive clayer :=
| LValue (k v : N)        (* context.WithValue *)
| LCancel (id : N)        (* context.WithCancel; id names its CancelFunc *)
| LDeadline (t : Z)       (* context.WithDeadline / WithTimeout, absolute instant *)
| LDetach.                (* cache.detachedContext{parent} *)

Definition gctx := list clayer.   (* innermost layer first; [] = context.Background() *)

Inductive cerr := Canceled | DeadlineExceeded.

Definition mem_n (x : N) (l : list N) : bool := existsb (N.eqb x) l.

(* ctx.Err(): nil (None) unless some enclosing cancellation has happened; a detached context never reports one *)
Fixpoint ctx_err (cancelled : list N) (now : Z) (c : gctx) : option cerr :=
  match c with
  | [] => None
  | LDetach :: _ => None
  | LValue _ _ :: r => ctx_err cancelled now r
  | LCancel id :: r =>
      match ctx_err cancelled now r with
      | Some e => Some e
      | None => if mem_n id cancelled then Some Canceled else None
      end
  | LDeadline t :: r =>
      match ctx_err cancelled now r with
      | Some e => Some e
      | None => if t <=? now then Some DeadlineExceeded else None
      end
  end.

(* ctx.Done() == nil: nothing between here and the root (or the detachment) can ever cancel *)
Fixpoint ctx_done_nil (c : gctx) : bool :=
  match c with
  | [] => true
  | LDetach :: _ => true
  | LValue _ _ :: r => ctx_done_nil r
  | LCancel _ :: _ => false
  | LDeadline _ :: _ => false
  end.

(* ctx.Deadline(): the earliest enclosing deadline, none through a detachment *)
Fixpoint ctx_deadline (c : gctx) : option Z :=
  match c with
  | [] => None
  | LDetach :: _ => None
  | LValue _ _ :: r => ctx_deadline r
  | LCancel _ :: r => ctx_deadline r
  | LDeadline t :: r =>
      match ctx_deadline r with
      | Some t' => Some (Z.min t t')
      | None => Some t
      end
  end.

(* ctx.Value(k): the innermost binding; a detachment forwards to its parent *)
Fixpoint ctx_value (k : N) (c : gctx) : option N :=
  match c with
  | [] => None
  | LValue k' v :: r => if N.eqb k k' then Some v else ctx_value k r
  | _ :: r => ctx_value k r
  end.

(* the context a builder runs under: the Get's own context for a synchronous build, the detached one for a
   background build (failover.go ctxSync); on top of it the frontend only ever adds value layers (the TTL
   cell of refreshStale lives in a sibling context, never in the builder's) *)
Definition builder_ctx (bg : bool) (caller : gctx) : gctx := if bg then LDetach :: caller else caller.

Definition value_only (p : gctx) : bool := forallb (fun l => match l with LValue _ _ => true | _ => false end) p.

(* one observation made by a builder of the harness at entry and exit *)
Record ctxobs := mkCtxObs {
  co_bg : bool;
  co_caller : gctx;
  co_cancelled_entry : list N; co_now_entry : Z;
  co_cancelled_exit : list N; co_now_exit : Z;
  co_err_entry_nil : bool; co_err_exit_nil : bool;     (* observed: ctx.Err() == nil *)
  co_done_nil : bool; co_has_deadline : bool;          (* observed: ctx.Done() == nil, Deadline() ok *)
  co_value_key : N; co_value_visible : bool;           (* observed: ctx.Value(key) != nil *)
}.

Definition is_none {A} (o : option A) : bool := match o with None => true | Some _ => false end.

(* model and implementation agree on everything observed *)
Definition ctxobs_agree (o : ctxobs) : bool :=
  let c := builder_ctx (co_bg o) (co_caller o) in
  Bool.eqb (is_none (ctx_err (co_cancelled_entry o) (co_now_entry o) c)) (co_err_entry_nil o)
  && Bool.eqb (is_none (ctx_err (co_cancelled_exit o) (co_now_exit o) c)) (co_err_exit_nil o)
  && Bool.eqb (ctx_done_nil c) (co_done_nil o)
  && Bool.eqb (negb (is_none (ctx_deadline c))) (co_has_deadline o)
  && Bool.eqb (negb (is_none (ctx_value (co_value_key o) c))) (co_value_visible o).

(* the property, on the implementation's own observations: a background build is neither cancelled nor
   deadlined, whatever the caller did, and still sees the caller's values; a synchronous build sees them too *)
Definition ctxobs_prop (o : ctxobs) : bool :=
  Bool.eqb (co_value_visible o) (negb (is_none (ctx_value (co_value_key o) (co_caller o))))
  && (if co_bg o then co_err_entry_nil o && co_err_exit_nil o && co_done_nil o && negb (co_has_deadline o) else true).
