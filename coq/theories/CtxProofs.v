(* CtxProofs.v — what the detached context guarantees, for every caller context, every set of cancellations
   and every instant. *)
From Cache Require Import Base Ctx.

Lemma detach_err p cancelled now c :
  value_only p = true -> ctx_err cancelled now (p ++ LDetach :: c) = None.
Proof.
  induction p as [|l p IH]; cbn [app ctx_err value_only forallb]; [reflexivity|].
  destruct l; cbn; try discriminate. intros H. apply IH, H.
Qed.

Lemma detach_done_nil p c : value_only p = true -> ctx_done_nil (p ++ LDetach :: c) = true.
Proof.
  induction p as [|l p IH]; cbn [app ctx_done_nil value_only forallb]; [reflexivity|].
  destruct l; cbn; try discriminate. intros H. apply IH, H.
Qed.

Lemma detach_deadline p c : value_only p = true -> ctx_deadline (p ++ LDetach :: c) = None.
Proof.
  induction p as [|l p IH]; cbn [app ctx_deadline value_only forallb]; [reflexivity|].
  destruct l; cbn; try discriminate. intros H. apply IH, H.
Qed.

Lemma detach_value k p c :
  ctx_value k (p ++ LDetach :: c) = match ctx_value k p with Some v => Some v | None => ctx_value k c end.
Proof.
  induction p as [|l p IH]; cbn [app ctx_value]; [reflexivity|].
  destruct l; try exact IH. destruct (N.eqb k k0); [reflexivity|exact IH].
Qed.

(* the statement of C06 about the background build: whatever the caller's context is made of, whichever of its
   cancel functions have been called and whatever the time is, the builder's context reports no error, has
   no Done channel and no deadline, and resolves every key exactly as the caller's context does — also
   under any value layers put on top of it *)
Theorem detached_never_cancelled : forall caller p cancelled now,
  value_only p = true ->
  ctx_err cancelled now (p ++ builder_ctx true caller) = None /\
  ctx_done_nil (p ++ builder_ctx true caller) = true /\
  ctx_deadline (p ++ builder_ctx true caller) = None /\
  (forall k, ctx_value k (builder_ctx true caller) = ctx_value k caller).
Proof.
  intros caller p cancelled now Hp. unfold builder_ctx.
  split; [apply detach_err, Hp|]. split; [apply detach_done_nil, Hp|]. split; [apply detach_deadline, Hp|].
  intros k. reflexivity.
Qed.

(* a synchronous build runs under the caller's own context *)
Lemma sync_ctx_is_callers caller : builder_ctx false caller = caller.
Proof. reflexivity. Qed.

(* cancellation is permanent and deadlines do not un-expire: an error never goes away *)
Lemma mem_n_subseteq x l l' : (forall y, mem_n y l = true -> mem_n y l' = true) -> mem_n x l = true -> mem_n x l' = true.
Proof. auto. Qed.

Theorem ctx_err_monotone : forall c cancelled cancelled' now now',
  (forall y, mem_n y cancelled = true -> mem_n y cancelled' = true) -> now <= now' ->
  ctx_err cancelled now c <> None -> ctx_err cancelled' now' c <> None.
Proof.
  induction c as [|l c IH]; intros cancelled cancelled' now now' Hsub Hle; cbn [ctx_err]; [auto|].
  destruct l as [k v|id|t|]; [apply IH; assumption| | |auto].
  - specialize (IH cancelled cancelled' now now' Hsub Hle).
    destruct (ctx_err cancelled now c) eqn:E1.
    + destruct (ctx_err cancelled' now' c); [discriminate|]. intros _. exfalso. apply IH; [discriminate|reflexivity].
    + destruct (ctx_err cancelled' now' c); [discriminate|].
      destruct (mem_n id cancelled) eqn:Em; [|auto]. rewrite (Hsub _ Em). discriminate.
  - specialize (IH cancelled cancelled' now now' Hsub Hle).
    destruct (ctx_err cancelled now c) eqn:E1.
    + destruct (ctx_err cancelled' now' c); [discriminate|]. intros _. exfalso. apply IH; [discriminate|reflexivity].
    + destruct (ctx_err cancelled' now' c); [discriminate|].
      destruct (t <=? now) eqn:Et; [|auto].
      assert (t <=? now' = true) as -> by lia. discriminate.
Qed.

(* an observation on which implementation and model agree satisfies the property *)
Theorem agree_implies_prop : forall o, ctxobs_agree o = true -> ctxobs_prop o = true.
Proof.
  intros o. unfold ctxobs_agree, ctxobs_prop.
  rewrite !andb_true_iff, !eqb_true_iff. intros [[[[He Hx] Hd] Hl] Hv].
  split.
  - rewrite <- Hv. destruct (co_bg o); reflexivity.
  - destruct (co_bg o) eqn:Hbg; [|reflexivity].
    cbn [builder_ctx] in *. cbn in He, Hx, Hd, Hl.
    rewrite <- He, <- Hx, <- Hd, <- Hl. reflexivity.
Qed.
