(* Failover.v — small-step interleaving model of Failover.Get / FailoverOf.Get
   (failover.go:138-387, failover_go1.18.go:128-369).

   One label = one step of one Get (or of its background build goroutine): every shared access and
   every call-out the frontend makes is its own step, so the interleavings of the model contain the
   call-out granularity C01..C06 quantify over. The backend is an ORACLE: the result of each backend
   Read / Write call-out is an input of the step (any answer, any injected fault), as are builder
   outcomes and clock readings. The failure cache (f.Errors) is internal state of the model.

   The model describes the code with the repairs recorded in known_findings.json applied:
   the background build works on its own copy of the key (a thread's key is a value), every owner exit
   publishes its error before releasing, the too-stale value is kept for the failure fallback, the
   failure cache entry lives FailedUpdateTTL regardless of the caller's context TTL. *)
From Cache Require Import Base.

Inductive variant := Legacy | Generic.
#[global] Instance variant_eq_dec : EqDecision variant.
Proof. solve_decision. Defined.

Record fcfg := mkFcfg {
  f_variant : variant;
  f_sync_update : bool;
  f_sync_read : bool;
  f_fail_hard : bool;
  f_max_stale : dur;       (* MaxStaleness; 0 = any staleness is acceptable *)
  f_failed_ttl : dur;      (* FailedUpdateTTL after defaulting (0 -> 20s); the failure cache exists iff > -1 *)
  f_update_ttl : dur;      (* UpdateTTL after defaulting (0 -> 1m) *)
  f_debug : bool;          (* a debug logger is configured *)
  f_warn : bool;           (* a warn logger is configured *)
  f_stat : bool;           (* a stats tracker is configured *)
}.

Definition tid := N.
Definition klid := N.

(* result of a backend Read call-out *)
Inductive rres := RHit (v : val) | RMiss | RExp (v : val) (at_ : time) | RFault (n : Z).
#[global] Instance rres_eq_dec : EqDecision rres.
Proof. solve_decision. Defined.

Definition rres_err (r : rres) : option err :=
  match r with
  | RHit _ => None
  | RMiss => Some ENotFound
  | RExp v a => Some (EExpired v a)
  | RFault n => Some (EOther n)
  end.

(* oracle bundle of a step: each step uses the components it needs *)
Record orc := mkOrc {
  o_now : time;                 (* clock reading *)
  o_rd : rres;                  (* answer of backend.Read *)
  o_wr : option Z;              (* backend.Write: None = ok, Some n = rejected with error n *)
  o_built : val + Z;            (* builder: inl v = value, inr n = error n *)
  o_upd : list dur;             (* the builder's WithTTL(ctx, ttl, true) calls, in order *)
  o_errexp : time;              (* expiry instant the failure cache stores (its jitter is an input) *)
}.

Inductive pc :=
| PStart
| PPreRead                      (* co: backend.Read before the lock (SyncRead off) *)
| PAcquire                      (* f.lock section: find or create the key lock *)
| PSyncRead                     (* co: backend.Read inside the key lock (SyncRead on) *)
| PClassify                     (* valueFromError / freshEnough, reads the clock *)
| PWaitLog                      (* co: debug "waiting for cache value" *)
| PWaiting                      (* <-keyLock.lock *)
| PRefreshLog                   (* co: debug "refreshing expired value" *)
| PRefreshStat                  (* co: stats cache_refreshed *)
| PRefreshWrite                 (* co: backend.Write(WithTTL(ctx, UpdateTTL, false), key, stale) *)
| PFailCache                    (* recentlyFailed: failure cache read *)
| PCtxSync                      (* ctxSync + sync/background decision *)
| PBuildLog                     (* co: debug "building cache value" *)
| PBuilderEntry                 (* inside the builder, at its entry *)
| PBuilderExit                  (* inside the builder, about to return *)
| PStatFailed                   (* co: stats cache_failed *)
| PErrWrite                     (* failure cache write *)
| PBuildWrite                   (* co: backend.Write(ctx, key, built) *)
| PStatBuild                    (* co: stats cache_build (deferred) *)
| PPublish                      (* keyLock.val, keyLock.err = result *)
| PWarnLog                      (* co: warn "failed to update ..." *)
| PFallback                     (* stale fallback decision of the synchronous path *)
| PRelease                      (* f.lock section: delete(keyLocks, key); close(keyLock.lock) *)
| PDone.
#[global] Instance pc_eq_dec : EqDecision pc.
Proof. solve_decision. Defined.

Record kl := mkKl { kl_val : val; kl_err : option err; kl_closed : bool; kl_key : key (* ghost: the key this lock was created for *) }.
#[global] Instance kl_eq_dec : EqDecision kl.
Proof. solve_decision. Defined.

Record thread := mkThread {
  t_pc : pc;
  t_key : key;
  t_skip : bool;                (* context carries SkipRead *)
  t_cell : option dur;          (* TTL cell of the context (None = no cell) *)
  t_value : val;                (* `value` / `val`: the acceptable stale value, else nil / zero *)
  t_err : option rres;          (* `err`: the failed backend read (None once refreshed) *)
  t_own : option klid;          (* Some id: this thread must release key lock id (!alreadyLocked) *)
  t_wait : option klid;         (* Some id: found id locked by somebody else (alreadyLocked) *)
  t_bg : bool;                  (* background build goroutine *)
  t_res : val * option err;     (* build result, then the pending return value *)
}.

Inductive fev :=
| FRead (t : tid) (k : key) (r : rres)
| FWrite (t : tid) (k : key) (v : val) (ttl : dur) (refresh : bool) (res : option Z)  (* None = stored; Some n = rejected with error n *)
| FBuildStart (t : tid) (k : key)
| FBuildEnd (t : tid) (k : key) (r : val + Z)
| FStat (t : tid) (m : metric)
| FLog (t : tid) (which : N)    (* 1 waiting, 2 refreshing, 3 building, 4 warn *)
| FErrWrite (t : tid) (k : key) (e : err) (exp : time)
| FErrHit (t : tid) (k : key) (e : err)
| FReturn (t : tid) (k : key) (v : val) (e : option err).

Record fstate := mkF {
  threads : gmap tid thread;
  keyLocks : gmap key klid;
  kls : gmap klid kl;
  next_kl : klid;
  errs : gmap key (err * time);   (* failure cache: error, expiry instant (0 = never) *)
  flog : list fev;                (* ghost: newest last *)
}.

Definition f0 : fstate := mkF ∅ ∅ ∅ 0%N ∅ [].

Inductive flabel :=
| LSpawn (t : tid) (k : key) (skip : bool) (cell : option dur)   (* a new Get call *)
| LStep (t : tid) (o : orc).

(* --- context TTL cell: WithTTL(ctx, ttl, true) keeps the minimal non-zero value --- *)
Definition upd_cell (existing ttl : dur) : dur :=
  if negb (ttl =? 0) && ((existing =? 0) || (ttl <? existing)) then ttl else existing.

Definition apply_upd (cell : option dur) (upd : list dur) : option dur :=
  match cell with
  | None => None                     (* nothing to update: the builder's WithTTL creates its own value *)
  | Some c => Some (fold_left upd_cell upd c)
  end.

Definition cell_ttl (cell : option dur) : dur := default 0 cell.

(* --- helpers --- *)
(* valueFromError / freshEnough: MaxStaleness == 0 || time.Since(expiredAt) < MaxStaleness *)
Definition fresh_enough_impl (max_stale : dur) (now : time) (at_ : time) : bool :=
  (max_stale =? 0) || (now - at_ <? max_stale).
(* `value != nil` of the legacy variant: token 0 is nil *)
Definition nil_impl (v : val) : bool := v =? 0.

Definition bg_tid (t : tid) : tid := (t + 1000)%N.

Definition set_pc (th : thread) (p : pc) : thread :=
  mkThread p (t_key th) (t_skip th) (t_cell th) (t_value th) (t_err th) (t_own th) (t_wait th) (t_bg th) (t_res th).

Definition set_res (th : thread) (p : pc) (r : val * option err) : thread :=
  mkThread p (t_key th) (t_skip th) (t_cell th) (t_value th) (t_err th) (t_own th) (t_wait th) (t_bg th) r.

Definition upd_thread (s : fstate) (t : tid) (th : thread) (ev : list fev) : fstate :=
  mkF (<[t := th]> (threads s)) (keyLocks s) (kls s) (next_kl s) (errs s) (flog s ++ ev).

Definition set_kl (s : fstate) (id : klid) (f : kl -> kl) : fstate :=
  mkF (threads s) (keyLocks s) (alter f id (kls s)) (next_kl s) (errs s) (flog s).

(* an owner that leaves: through PRelease; a waiter or an unlocked reader: straight to PDone *)
Definition leave (th : thread) (r : val * option err) : thread :=
  set_res th (match t_own th with Some _ => PRelease | None => PDone end) r.

Definition ret_events (t : tid) (th : thread) : list fev :=
  if t_bg th then [] else [FReturn t (t_key th) (t_res th).1 (t_res th).2].

Section Model.
(* The staleness test and the nil test are parameters of the model (instantiated with
   [fresh_enough_impl] / [nil_impl] for execution): every theorem holds for any such tests, and the
   decision-table theorem of C03 can be checked by computation with them left abstract. *)
Context (fe : dur -> time -> time -> bool) (nilb : val -> bool).
Definition fresh_enough (c : fcfg) (now at_ : time) : bool := fe (f_max_stale c) now at_.

(* the value a failing synchronous build falls back to, if any *)
Definition fallback (c : fcfg) (th : thread) : option val :=
  if f_fail_hard c then None
  else match f_variant c with
       | Legacy =>
           if negb (nilb (t_value th)) then Some (t_value th)
           else match t_err th with
                | Some (RExp v _) => if negb (nilb v) then Some v else None
                | _ => None
                end
       | Generic =>
           match t_err th with
           | None => Some (t_value th)
           | Some (RExp v _) => Some v
           | _ => None
           end
       end.

Definition nil_or_val (c : fcfg) (th : thread) : val :=
  match f_variant c with Legacy => 0 | Generic => t_value th end.

(* after the builder region: which step follows a pc, skipping absent loggers / trackers *)
Definition after_refresh_log (c : fcfg) : pc := if f_stat c then PRefreshStat else PRefreshWrite.
Definition to_refresh (c : fcfg) : pc := if f_debug c then PRefreshLog else after_refresh_log c.
Definition to_build (c : fcfg) : pc := if f_debug c then PBuildLog else PBuilderEntry.
(* invoking the builder is part of the step that reaches PBuilderEntry (the thread is then inside it) *)
Definition build_ev (c : fcfg) (t : tid) (k : key) : list fev := if f_debug c then [] else [FBuildStart t k].
Definition to_wait (c : fcfg) : pc := if f_debug c then PWaitLog else PWaiting.
Definition after_failed (c : fcfg) : pc := if 0 <=? f_failed_ttl c then PErrWrite else (if f_stat c then PStatBuild else PPublish).
Definition to_stat_build (c : fcfg) : pc := if f_stat c then PStatBuild else PPublish.

Definition fstep (c : fcfg) (s : fstate) (l : flabel) : option fstate :=
  match l with
  | LSpawn t k skip cell =>
    match threads s !! t with
    | None =>
        if (t <? 1000)%N   (* thread ids of Get calls; t + 1000 is reserved for the background build of t *)
        then Some (upd_thread s t (mkThread PStart k skip cell 0 None None None false (0, None)) [])
        else None
    | Some _ => None
    end
  | LStep t o =>
    match threads s !! t with
    | None => None
    | Some th =>
      let k := t_key th in
      match t_pc th with
      | PStart =>
          Some (upd_thread s t (set_pc th (if f_sync_read c then PAcquire else PPreRead)) [])
      | PPreRead =>
          let ev := [FRead t k (o_rd o)] in
          match o_rd o with
          | RHit v => Some (upd_thread s t (set_res th PDone (v, None)) (ev ++ [FReturn t k v None]))
          | r => Some (upd_thread s t
                    (mkThread PAcquire k (t_skip th) (t_cell th) (t_value th) (Some r) None None false (t_res th)) ev)
          end
      | PAcquire =>
          let nxt := if f_sync_read c then PSyncRead else PClassify in
          match keyLocks s !! k with
          | Some id =>
              Some (upd_thread s t
                (mkThread nxt k (t_skip th) (t_cell th) (t_value th) (t_err th) None (Some id) false (t_res th)) [])
          | None =>
              let id := next_kl s in
              Some (mkF (<[t := mkThread nxt k (t_skip th) (t_cell th) (t_value th) (t_err th) (Some id) None false (t_res th)]> (threads s))
                        (<[k := id]> (keyLocks s)) (<[id := mkKl 0 None false k]> (kls s)) (id + 1)%N (errs s) (flog s))
          end
      | PSyncRead =>
          let ev := [FRead t k (o_rd o)] in
          match o_rd o with
          | RHit v =>
              let s1 := match t_own th with Some id => set_kl s id (fun x => mkKl v (kl_err x) (kl_closed x) (kl_key x)) | None => s end in
              let th' := leave th (v, None) in
              Some (upd_thread s1 t th' (ev ++ (if decide (t_pc th' = PDone) then ret_events t th' else [])))
          | r => Some (upd_thread s t
                    (mkThread PClassify k (t_skip th) (t_cell th) (t_value th) (Some r) (t_own th) (t_wait th) false (t_res th)) ev)
          end
      | PClassify =>
          match t_own th with
          | None =>   (* somebody else holds the key lock *)
              match t_err th with
              | Some (RExp v a) =>
                  if fresh_enough c (o_now o) a
                  then Some (upd_thread s t (set_res th PDone (v, None)) [FReturn t k v None])
                  else Some (upd_thread s t (set_pc th (to_wait c)) [])
              | Some (RFault n) =>
                  match f_variant c with
                  | Legacy => Some (upd_thread s t (set_res th PDone (0, Some (EOther n))) [FReturn t k 0 (Some (EOther n))])
                  | Generic => Some (upd_thread s t (set_pc th (to_wait c)) [])
                  end
              | _ => Some (upd_thread s t (set_pc th (to_wait c)) [])
              end
          | Some id =>  (* owner *)
              match t_err th with
              | Some (RExp v a) =>
                  if fresh_enough c (o_now o) a
                  then Some (upd_thread s t
                         (mkThread (to_refresh c) k (t_skip th) (t_cell th) v (t_err th) (t_own th) (t_wait th) false (t_res th)) [])
                  else Some (upd_thread s t (set_pc th PFailCache) [])
              | Some (RFault n) =>
                  match f_variant c with
                  | Legacy =>
                      let s1 := set_kl s id (fun x => mkKl (kl_val x) (Some (EOther n)) (kl_closed x) (kl_key x)) in
                      Some (upd_thread s1 t (leave th (0, Some (EOther n))) [])
                  | Generic => Some (upd_thread s t (set_pc th PFailCache) [])
                  end
              | _ => Some (upd_thread s t (set_pc th PFailCache) [])
              end
          end
      | PWaitLog => Some (upd_thread s t (set_pc th PWaiting) [FLog t 1])
      | PWaiting =>
          match t_wait th with
          | Some id =>
              match kls s !! id with
              | Some x => if kl_closed x
                          then Some (upd_thread s t (set_res th PDone (kl_val x, kl_err x)) [FReturn t k (kl_val x) (kl_err x)])
                          else None
              | None => None
              end
          | None => None
          end
      | PRefreshLog => Some (upd_thread s t (set_pc th (after_refresh_log c)) [FLog t 2])
      | PRefreshStat => Some (upd_thread s t (set_pc th PRefreshWrite) [FStat t MRefreshed])
      | PRefreshWrite =>
          match o_wr o, t_own th with
          | None, _ =>
              Some (upd_thread s t
                (mkThread PFailCache k (t_skip th) (t_cell th) (t_value th) None (t_own th) (t_wait th) false (t_res th))
                [FWrite t k (t_value th) (f_update_ttl c) true None])
          | Some n, Some id =>
              let s1 := set_kl s id (fun x => mkKl (kl_val x) (Some (EWrapped n)) (kl_closed x) (kl_key x)) in
              Some (upd_thread s1 t (leave th (0, Some (EWrapped n)))
                                [FWrite t k (t_value th) (f_update_ttl c) true (Some n)])
          | Some n, None => None
          end
      | PFailCache =>
          let hit := if (0 <=? f_failed_ttl c) && negb (t_skip th)
                     then match errs s !! k with
                          | Some (e, ex) => if (ex =? 0) || (o_now o <=? ex) then Some e else None
                          | None => None
                          end
                     else None in
          match hit, t_own th with
          | Some e, Some id =>
              let s1 := set_kl s id (fun x => mkKl (kl_val x) (Some e) (kl_closed x) (kl_key x)) in
              Some (upd_thread s1 t (leave th (nil_or_val c th, Some e)) [FErrHit t k e])
          | Some e, None => None
          | None, _ => Some (upd_thread s t (set_pc th PCtxSync) [])
          end
      | PCtxSync =>
          if f_sync_update c || bool_decide (t_err th <> None)
          then Some (upd_thread s t (set_pc th (to_build c)) (build_ev c t k))
          else (* background build: ownership moves to a new goroutine working on its own copy of the key *)
            match threads s !! bg_tid t with
            | Some _ => None
            | None =>
              let bg := mkThread (to_build c) k (t_skip th) (t_cell th) (t_value th) (t_err th) (t_own th) None true (0, None) in
              let fg := mkThread PDone k (t_skip th) (t_cell th) (t_value th) (t_err th) None None false (t_value th, None) in
              Some (mkF (<[bg_tid t := bg]> (<[t := fg]> (threads s))) (keyLocks s) (kls s) (next_kl s) (errs s)
                        (flog s ++ [FReturn t k (t_value th) None] ++ build_ev c (bg_tid t) k))
            end
      | PBuildLog => Some (upd_thread s t (set_pc th PBuilderEntry) [FLog t 3; FBuildStart t k])
      | PBuilderEntry => Some (upd_thread s t (set_pc th PBuilderExit) [])
      | PBuilderExit =>
          let cell' := apply_upd (t_cell th) (o_upd o) in
          match o_built o with
          | inl v =>
              Some (upd_thread s t
                (mkThread PBuildWrite k (t_skip th) cell' (t_value th) (t_err th) (t_own th) (t_wait th) (t_bg th) (v, None))
                [FBuildEnd t k (inl v)])
          | inr n =>
              Some (upd_thread s t
                (mkThread (if f_stat c then PStatFailed else after_failed c) k (t_skip th) cell' (t_value th) (t_err th)
                          (t_own th) (t_wait th) (t_bg th) (0, Some (EOther n)))
                [FBuildEnd t k (inr n)])
          end
      | PStatFailed => Some (upd_thread s t (set_pc th (after_failed c)) [FStat t MFailed])
      | PErrWrite =>
          match (t_res th).2 with
          | Some e =>
              Some (mkF (<[t := set_pc th (to_stat_build c)]> (threads s)) (keyLocks s) (kls s) (next_kl s)
                        (<[k := (e, o_errexp o)]> (errs s)) (flog s ++ [FErrWrite t k e (o_errexp o)]))
          | None => None
          end
      | PBuildWrite =>
          match o_wr o with
          | None =>
              Some (upd_thread s t (set_pc th (to_stat_build c))
                     [FWrite t k (t_res th).1 (cell_ttl (t_cell th)) false None])
          | Some n =>
              Some (upd_thread s t (set_res th (to_stat_build c) (0, Some (EOther n)))
                     [FWrite t k (t_res th).1 (cell_ttl (t_cell th)) false (Some n)])
          end
      | PStatBuild => Some (upd_thread s t (set_pc th PPublish) [FStat t MBuild])
      | PPublish =>
          match t_own th with
          | Some id =>
              let s1 := set_kl s id (fun x => mkKl (t_res th).1 (t_res th).2 (kl_closed x) (kl_key x)) in
              match (t_res th).2 with
              | None => Some (upd_thread s1 t (set_pc th PRelease) [])
              | Some _ => Some (upd_thread s1 t (set_pc th (if f_warn c then PWarnLog else (if t_bg th then PRelease else PFallback))) [])
              end
          | None => None
          end
      | PWarnLog => Some (upd_thread s t (set_pc th (if t_bg th then PRelease else PFallback)) [FLog t 4])
      | PFallback =>
          match fallback c th with
          | Some v => Some (upd_thread s t (set_res th PRelease (v, None)) [])
          | None => Some (upd_thread s t (set_pc th PRelease) [])
          end
      | PRelease =>
          match t_own th with
          | Some id =>
              let th' := mkThread PDone k (t_skip th) (t_cell th) (t_value th) (t_err th) None (t_wait th) (t_bg th) (t_res th) in
              Some (mkF (<[t := th']> (threads s)) (delete k (keyLocks s))
                        (alter (fun x => mkKl (kl_val x) (kl_err x) true (kl_key x)) id (kls s)) (next_kl s) (errs s)
                        (flog s ++ ret_events t th'))
          | None => None
          end
      | PDone => None
      end
    end
  end.

Fixpoint frun (c : fcfg) (s : fstate) (ls : list flabel) : option fstate :=
  match ls with
  | [] => Some s
  | l :: r => match fstep c s l with Some s' => frun c s' r | None => None end
  end.

End Model.

Definition fstep_x := fstep fresh_enough_impl nil_impl.
Definition frun_x := frun fresh_enough_impl nil_impl.

(* ---- observation predicates on event logs ---- *)

(* builder intervals of one key never overlap: scanning the log, at most one build per key is open *)
Fixpoint c01_scan (open : list key) (l : list fev) : bool :=
  match l with
  | [] => true
  | FBuildStart _ k :: r => negb (bool_decide (k ∈ open)) && c01_scan (k :: open) r
  | FBuildEnd _ k _ :: r => c01_scan (List.filter (fun x => negb (bool_decide (x = k))) open) r
  | _ :: r => c01_scan open r
  end.
Definition C01_obs (l : list fev) : bool := c01_scan [] l.

Definition building (th : thread) : bool := bool_decide (t_pc th = PBuilderEntry \/ t_pc th = PBuilderExit).

Definition all_done (s : fstate) : Prop := forall t th, threads s !! t = Some th -> t_pc th = PDone.
