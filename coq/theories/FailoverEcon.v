(* FailoverEcon.v — build economy (C05) on the interleaving model.

   Single flight under SyncRead: every builder invocation for key k is preceded by a read of k that the
   invoking Get (or the Get that spawned the background build) made UNDER the key lock and that did not
   hit, and no build result for k was stored between that read and the invocation. Hence, against any
   backend that answers a read of k with a hit once a build result for k was stored (while it is
   fresh), no further builder invocation for k can happen: a burst of N Gets costs one successful build.

   Failure suppression: the failure cache gates the way to the builder (lemmas at the end). *)
From Cache Require Import Base Failover FailoverProofs FailoverProv.

Definition is_bw (k : key) (e : fev) : bool :=
  match e with FWrite _ k' _ _ false None => bool_decide (k' = k) | _ => false end.
Definition miss_read (r : rres) : bool := match r with RHit _ => false | _ => true end.
Definition no_bw (k : key) (l : list fev) : bool := forallb (fun e => negb (is_bw k e)) l.

Definition since_read (log : list fev) (t : tid) (k : key) : Prop :=
  exists l1 l2 t0 r, log = l1 ++ FRead t0 k r :: l2 /\ (t0 = t \/ t = bg_tid t0) /\ miss_read r = true /\ no_bw k l2 = true.

Lemma since_read_app log evs t k : since_read log t k -> no_bw k evs = true -> since_read (log ++ evs) t k.
Proof.
  intros (l1 & l2 & t0 & r & -> & Ht & Hr & Hn) He. exists l1, (l2 ++ evs), t0, r. split_and!; auto.
  - by rewrite <- app_assoc.
  - unfold no_bw in *. rewrite forallb_app. by rewrite Hn, He.
Qed.

Lemma since_read_new log t k r : miss_read r = true -> since_read (log ++ [FRead t k r]) t k.
Proof. intros Hr. exists log, [], t, r. split_and!; auto. Qed.

Lemma since_read_bg log t k : since_read log t k -> (t < 1000)%N -> since_read log (bg_tid t) k.
Proof.
  intros (l1 & l2 & t0 & r & -> & [->|Ht] & Hr & Hn) Hlt.
  - exists l1, l2, t, r. split_and!; auto.
  - exfalso. unfold bg_tid in Ht. lia.
Qed.

(* every builder invocation in the log is preceded by such a read *)
Fixpoint builds_ok (pre l : list fev) : Prop :=
  match l with
  | [] => True
  | ev :: r => (match ev with FBuildStart t k => since_read pre t k | _ => True end) /\ builds_ok (pre ++ [ev]) r
  end.

Lemma builds_ok_app l1 : forall pre l2, builds_ok pre (l1 ++ l2) <-> builds_ok pre l1 /\ builds_ok (pre ++ l1) l2.
Proof.
  induction l1 as [|ev l1 IH]; intros pre l2; cbn [app builds_ok].
  - rewrite app_nil_r. tauto.
  - rewrite IH. rewrite <- app_assoc. cbn [app]. tauto.
Qed.

Definition pre_build (p : pc) : bool :=
  match p with
  | PClassify | PRefreshLog | PRefreshStat | PRefreshWrite | PFailCache | PCtxSync | PBuildLog => true
  | _ => false
  end.

Section Econ.
Context (fe : dur -> time -> time -> bool) (nilb : val -> bool).
Notation fstep := (fstep fe nilb).
Notation frun := (frun fe nilb).

Record SInv (s : fstate) : Prop := {
  si_thr : forall t th, threads s !! t = Some th -> is_Some (t_own th) -> pre_build (t_pc th) = true ->
                        since_read (flog s) t (t_key th);
  si_builds : builds_ok [] (flog s);
}.

Lemma SInv_init : SInv f0.
Proof. split; cbn; [|done]. intros *. by rewrite lookup_empty. Qed.

(* what another thread appends is no build result for a key this owner holds *)
Lemma other_events c s t o s' th t1 th1 :
  LInv s -> threads s !! t = Some th -> fstep c s (LStep t o) = Some s' ->
  threads s !! t1 = Some th1 -> t1 <> t -> is_Some (t_own th1) ->
  exists evs, flog s' = flog s ++ evs /\ no_bw (t_key th1) evs = true.
Proof.
  intros Hi Ht Hs Ht1 Hne [id1 Ho1].
  pose proof (li_twf _ Hi _ _ Ht) as Hw.
  assert (Hkey : is_Some (t_own th) -> t_key th <> t_key th1).
  { intros [id Ho] Hk. apply Hne.
    pose proof (li_owner_lock _ Hi _ _ _ Ht Ho) as H1. pose proof (li_owner_lock _ Hi _ _ _ Ht1 Ho1) as H2.
    rewrite Hk in H1. rewrite H1 in H2. injection H2 as ->. symmetry. eapply (li_own_unique _ Hi); eauto. }
  fstep_cases Hs Ht.
  all: cbn [flog upd_thread set_kl]; eexists;
    (split; [first [reflexivity | (instantiate (1 := []); symmetry; apply app_nil_r)]|]).
  all: unfold build_ev, ret_events, leave, set_res, set_pc in *; cbn.
  all: repeat case_match; cbn; try reflexivity.
  all: rewrite ?andb_true_r; apply negb_true_iff, bool_decide_eq_false; apply Hkey;
       apply (tw_own _ Hw); match goal with H : t_pc _ = _ |- _ => rewrite H end; reflexivity.
Qed.

Lemma step_si_thr c s t o s' th :
  f_sync_read c = true ->
  LInv s -> SInv s -> threads s !! t = Some th -> fstep c s (LStep t o) = Some s' ->
  forall t1 th1, threads s' !! t1 = Some th1 -> is_Some (t_own th1) -> pre_build (t_pc th1) = true ->
                 since_read (flog s') t1 (t_key th1).
Proof.
  intros Hsr Hi Hp Ht Hs.
  pose proof (fun t1 th1 => other_events c s t o s' th t1 th1 Hi Ht Hs) as Hother.
  pose proof (si_thr _ Hp) as Hthr.
  pose proof (li_twf _ Hi _ _ Ht) as Hw.
  assert (Hlt : t_bg th = false -> (t < 1000)%N).
  { intros Hb. destruct (li_ids _ Hi _ _ Ht) as [[? _]|[? _]]; [done|congruence]. }
  pose proof (Hthr _ _ Ht) as Hme.
  fstep_cases Hs Ht.
  all: cbn [threads flog upd_thread set_kl] in *; intros t1 th1 Hl Ho Hpb.
  all: repeat (apply lookup_insert_Some in Hl as [[<- <-]|[? Hl]]).
  (* another thread *)
  all: try (match goal with Hn : ?a <> ?b |- _ =>
              destruct (Hother _ _ Hl (not_eq_sym Hn) Ho) as (evs & Hlog & Hnb) end;
            first [rewrite Hlog | rewrite <- (app_nil_r (flog s)), Hlog | idtac];
            apply since_read_app; [apply Hthr; assumption|exact Hnb]).
  all: unfold build_ev, ret_events, leave, set_res, set_pc, to_wait, to_refresh, after_refresh_log, to_build, after_failed, to_stat_build in *.
  all: cbn [t_err t_key t_value t_pc t_res t_own t_wait] in *.
  all: repeat case_match; try discriminate; simplify_eq; cbn in *; try discriminate.
  all: try (apply since_read_new; reflexivity).
  all: try (apply since_read_app; [|reflexivity]; apply Hme; [assumption|reflexivity]).
  all: try (apply since_read_app; [|reflexivity]; apply Hme; [by eexists|reflexivity]).
  apply since_read_app; [|reflexivity]. apply since_read_bg.
  - apply Hme; [|reflexivity]. apply (tw_own _ Hw). by rewrite Heqp.
  - apply Hlt. destruct (t_bg th) eqn:Hb; [|done]. pose proof (tw_bg _ Hw Hb) as Hx. by rewrite Heqp in Hx.
Qed.

Lemma step_builds c s t o s' th :
  LInv s -> SInv s -> threads s !! t = Some th -> fstep c s (LStep t o) = Some s' ->
  exists evs, flog s' = flog s ++ evs /\ builds_ok (flog s) evs.
Proof.
  intros Hi Hp Ht Hs.
  pose proof (si_thr _ Hp _ _ Ht) as Hme.
  pose proof (li_twf _ Hi _ _ Ht) as Hw.
  assert (Hlt : t_bg th = false -> (t < 1000)%N).
  { intros Hb. destruct (li_ids _ Hi _ _ Ht) as [[? _]|[? _]]; [done|congruence]. }
  fstep_cases Hs Ht.
  all: cbn [flog upd_thread set_kl]; eexists;
    (split; [first [reflexivity | (instantiate (1 := []); symmetry; apply app_nil_r)]|]).
  all: unfold build_ev, ret_events, leave, set_res, set_pc in *; cbn.
  all: repeat case_match; cbn; try tauto.
  all: try (split; [done|]); try (split; [|done]).
  all: assert (Hown : is_Some (t_own th)) by (apply (tw_own _ Hw); match goal with H : t_pc _ = _ |- _ => rewrite H end; reflexivity).
  - by apply Hme.
  - apply since_read_app; [|reflexivity]. apply since_read_bg; [by apply Hme|].
    apply Hlt. destruct (t_bg th) eqn:Hb; [|done]. pose proof (tw_bg _ Hw Hb) as Hx. by rewrite Heqp in Hx.
  - apply since_read_app; [|reflexivity]. by apply Hme.
Qed.

Lemma SInv_step c s l s' : f_sync_read c = true -> LInv s -> SInv s -> fstep c s l = Some s' -> SInv s'.
Proof.
  intros Hsr Hi Hp Hs. destruct l as [t k skip cell|t o].
  - cbn in Hs. destruct (threads s !! t) eqn:Hn; [discriminate|]. destruct (t <? 1000)%N; [|discriminate].
    injection Hs as <-. destruct Hp as [P1 P2].
    split; cbn [threads flog upd_thread]; rewrite ?app_nil_r; auto.
    intros t1 th1 Hl. apply lookup_insert_Some in Hl as [[<- <-]|[_ Hl]]; [intros [? ?]; discriminate|by apply P1].
  - destruct (threads s !! t) as [th|] eqn:Ht; [|unfold Failover.fstep in Hs; rewrite Ht in Hs; discriminate].
    destruct (step_builds _ _ _ _ _ _ Hi Hp Ht Hs) as (evs & Hlog & Hb).
    split.
    + eapply step_si_thr; eauto.
    + rewrite Hlog. apply builds_ok_app. split; [apply (si_builds _ Hp)|exact Hb].
Qed.

Lemma SInv_run c ls : f_sync_read c = true -> forall s s', LInv s -> SInv s -> frun c s ls = Some s' -> SInv s'.
Proof.
  intros Hsr. induction ls as [|l ls IH]; intros s s' Hi Hp Hr; cbn in Hr; [by simplify_eq|].
  destruct (fstep c s l) as [s1|] eqn:H1; [|discriminate].
  eapply IH; [eapply (LInv_step fe nilb); eauto|eapply SInv_step; eauto|exact Hr].
Qed.

(* C05, single flight: under SyncRead every builder invocation follows a read of the key under the key
   lock that did not hit, with no build result for the key stored in between. *)
Theorem single_flight c ls s pre post t k :
  f_sync_read c = true -> frun c f0 ls = Some s -> flog s = pre ++ FBuildStart t k :: post ->
  since_read pre t k.
Proof.
  intros Hsr Hr Hlog. pose proof (SInv_run c ls Hsr _ _ LInv_init SInv_init Hr) as Hp.
  pose proof (si_builds _ Hp) as Hb. rewrite Hlog in Hb. apply builds_ok_app in Hb as [_ Hb]. cbn in Hb. tauto.
Qed.

(* a backend is coherent for key k on a log if, once a build result for k was stored, every later
   read of k hits (the result stays fresh) *)
Definition coherent (k : key) (log : list fev) : Prop :=
  forall l1 l2 l3 t1 v ttl t2 r,
    log = l1 ++ FWrite t1 k v ttl false None :: l2 ++ FRead t2 k r :: l3 -> miss_read r = false.

(* ... then a successful build is never followed by another builder invocation for the key:
   a burst of Gets costs exactly one successful build *)
Theorem no_rebuild_while_fresh c ls s l1 l2 l3 t1 v ttl t2 k :
  f_sync_read c = true -> frun c f0 ls = Some s ->
  flog s = l1 ++ FWrite t1 k v ttl false None :: l2 ++ FBuildStart t2 k :: l3 ->
  coherent k (flog s) -> False.
Proof.
  intros Hsr Hr Hlog Hco.
  assert (Hlog' : flog s = (l1 ++ FWrite t1 k v ttl false None :: l2) ++ FBuildStart t2 k :: l3)
    by (rewrite Hlog, <- app_assoc; reflexivity).
  destruct (single_flight c ls s _ _ _ _ Hsr Hr Hlog') as (m1 & m2 & t0 & r & Heq & _ & Hmiss & Hnb).
  (* where does the read lie relative to the stored result? *)
  assert (Hsplit : forall (a b c' d : list fev) (x y : fev), a ++ x :: b = c' ++ y :: d ->
            (exists m, b = m ++ y :: d /\ c' = a ++ x :: m) \/ (a = c' /\ x = y /\ b = d) \/
            (exists m, d = m ++ x :: b /\ a = c' ++ y :: m)).
  { intros a. induction a as [|h a IH]; intros b c' d x y He; destruct c' as [|h' c'']; cbn in He.
    - right; left. by simplify_eq.
    - left. exists c''. by simplify_eq.
    - right; right. exists a. by simplify_eq.
    - assert (h = h') as <- by congruence.
      assert (He' : a ++ x :: b = c'' ++ y :: d) by congruence.
      destruct (IH _ _ _ _ _ He') as [(m & -> & ->)|[(-> & -> & ->)|(m & -> & ->)]].
      + left. by exists m.
      + right; left. done.
      + right; right. by exists m. }
  destruct (Hsplit _ _ _ _ _ _ Heq) as [(m & Hl2 & Hm1)|[(_ & Hx & _)|(m & Hm2 & Hl1)]].
  - (* the read lies after the stored result: coherence makes it a hit *)
    assert (miss_read r = false); [|congruence].
    eapply (Hco l1 m (m2 ++ FBuildStart t2 k :: l3)). rewrite Hlog, Hl2. rewrite <- !app_assoc. reflexivity.
  - discriminate.
  - (* the stored result lies after the read: excluded by no_bw *)
    rewrite Hm2 in Hnb. unfold no_bw in Hnb. rewrite forallb_app in Hnb. cbn in Hnb.
    rewrite bool_decide_eq_true_2 in Hnb by done. cbn in Hnb. by rewrite andb_false_r in Hnb.
Qed.

(* ---------- failure suppression ---------- *)
Definition live_failure (s : fstate) (k : key) (now : time) (e : err) : Prop :=
  exists ex, errs s !! k = Some (e, ex) /\ ((ex =? 0) || (now <=? ex)) = true.

Definition finished (p : pc) : bool := match p with PRelease | PDone => true | _ => false end.

(* the gate: a Get that checks the failure cache while a failure for its key is live does not go on to
   the builder; it leaves with the cached error *)
Lemma gate_hit c s t o s' th e :
  threads s !! t = Some th -> t_pc th = PFailCache -> 0 <= f_failed_ttl c -> t_skip th = false ->
  live_failure s (t_key th) (o_now o) e ->
  fstep c s (LStep t o) = Some s' ->
  exists th', threads s' !! t = Some th' /\ finished (t_pc th') = true /\ (t_res th').2 = Some e /\
              flog s' = flog s ++ [FErrHit t (t_key th) e].
Proof.
  intros Ht Hpc Httl Hskip (ex & He & Hlive) Hs.
  unfold Failover.fstep in Hs. rewrite Ht, Hpc in Hs.
  assert (H0 : (0 <=? f_failed_ttl c) = true) by lia. rewrite H0, Hskip, He, Hlive in Hs. cbn in Hs.
  destruct (t_own th) as [id|] eqn:Ho; [|discriminate]. injection Hs as <-.
  eexists. split; [cbn; apply lookup_insert|]. unfold leave. rewrite Ho. cbn. done.
Qed.

(* ... and once the cached failure has expired (or there is none) the same check lets the Get through, towards
   the builder *)
Lemma gate_open c s t o s' th :
  threads s !! t = Some th -> t_pc th = PFailCache ->
  (forall e ex, errs s !! t_key th = Some (e, ex) -> ex <> 0 /\ ex < o_now o) ->
  fstep c s (LStep t o) = Some s' ->
  exists th', threads s' !! t = Some th' /\ t_pc th' = PCtxSync /\ flog s' = flog s ++ [].
Proof.
  intros Ht Hpc Hexp Hs. unfold Failover.fstep in Hs. rewrite Ht, Hpc in Hs.
  assert (Hmiss : (if (0 <=? f_failed_ttl c) && negb (t_skip th)
                   then match errs s !! t_key th with
                        | Some (e, ex) => if (ex =? 0) || (o_now o <=? ex) then Some e else None
                        | None => None
                        end
                   else None) = None).
  { destruct ((0 <=? f_failed_ttl c) && negb (t_skip th)); [|done].
    destruct (errs s !! t_key th) as [[e ex]|] eqn:He; [|done].
    destruct (Hexp e ex eq_refl) as [Hnz Hlt].
    replace ((ex =? 0) || (o_now o <=? ex)) with false by lia. done. }
  rewrite Hmiss in Hs. injection Hs as <-. eexists. split; [cbn; apply lookup_insert|]. done.
Qed.

(* a Get that has left never comes back: it is never inside the builder again *)
Lemma finished_stays c s t th l s' :
  threads s !! t = Some th -> finished (t_pc th) = true -> fstep c s l = Some s' ->
  exists th', threads s' !! t = Some th' /\ finished (t_pc th') = true.
Proof.
  intros Ht Hf Hs. destruct l as [t1 k skip cell|t1 o].
  - cbn in Hs. destruct (threads s !! t1) eqn:Hn; [discriminate|]. destruct (t1 <? 1000)%N; [|discriminate].
    injection Hs as <-. exists th. split; [|done]. cbn. rewrite lookup_insert_ne; [done|congruence].
  - destruct (decide (t1 = t)) as [->|Hne].
    + unfold Failover.fstep in Hs. rewrite Ht in Hs.
      destruct (t_pc th) eqn:Hpc; try discriminate.
      destruct (t_own th) as [id|] eqn:Ho; [|discriminate]. injection Hs as <-.
      eexists. split; [cbn; apply lookup_insert|reflexivity].
    + destruct (threads s !! t1) as [th1|] eqn:Ht1; [|unfold Failover.fstep in Hs; rewrite Ht1 in Hs; discriminate].
      destruct (fstep_rank fe nilb _ _ _ _ _ _ Ht1 Hs) as [(th' & Hthr & _)|(fg & bg & Hthr & Hn & _)]; rewrite Hthr.
      * exists th. split; [|done]. by rewrite lookup_insert_ne.
      * destruct (decide (bg_tid t1 = t)) as [<-|Hne2]; [congruence|].
        exists th. split; [|done]. rewrite lookup_insert_ne by done. by rewrite lookup_insert_ne.
Qed.

Lemma finished_forever c ls : forall s s' t th,
  threads s !! t = Some th -> finished (t_pc th) = true -> frun c s ls = Some s' ->
  exists th', threads s' !! t = Some th' /\ finished (t_pc th') = true.
Proof.
  induction ls as [|l ls IH]; intros s s' t th Ht Hf Hr; cbn in Hr; [simplify_eq; eauto|].
  destruct (fstep c s l) as [s1|] eqn:H1; [|discriminate].
  destruct (finished_stays _ _ _ _ _ _ Ht Hf H1) as (th1 & Ht1 & Hf1). eapply IH; eauto.
Qed.

(* FailedUpdateTTL = -1: failures are never cached, so nothing suppresses the next build *)
Record NoErrs (s : fstate) : Prop := {
  ne_errs : errs s = ∅;
  ne_pc : forall t th, threads s !! t = Some th -> t_pc th <> PErrWrite;
}.

Lemma no_failure_cache c ls : f_failed_ttl c < 0 -> forall s s', NoErrs s -> frun c s ls = Some s' -> NoErrs s'.
Proof.
  intros Hneg. induction ls as [|l ls IH]; intros s s' [He Hpc] Hr; cbn in Hr; [by simplify_eq|].
  destruct (fstep c s l) as [s1|] eqn:H1; [|discriminate]. eapply IH; [|exact Hr].
  assert (H0 : (0 <=? f_failed_ttl c) = false) by lia.
  destruct l as [t k skip cell|t o].
  - cbn in H1. destruct (threads s !! t) eqn:Hn; [discriminate|]. destruct (t <? 1000)%N; [|discriminate].
    injection H1 as <-. split; [exact He|]. cbn. intros t1 th1 Hl.
    apply lookup_insert_Some in Hl as [[<- <-]|[_ Hl]]; [done|by eapply Hpc].
  - destruct (threads s !! t) as [th|] eqn:Ht; [|unfold Failover.fstep in H1; rewrite Ht in H1; discriminate].
    pose proof (Hpc _ _ Ht) as Hme.
    fstep_cases H1 Ht; try done.
    all: split; [cbn; exact He|].
    all: cbn [threads upd_thread set_kl]; intros t1 th1 Hl.
    all: repeat (apply lookup_insert_Some in Hl as [[<- <-]|[? Hl]]); try (by eapply Hpc).
    all: unfold leave, set_res, set_pc, to_wait, to_refresh, after_refresh_log, to_build, after_failed, to_stat_build in *;
         cbn; rewrite ?H0; repeat case_match; done.
Qed.

End Econ.
