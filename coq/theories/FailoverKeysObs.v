(* FailoverKeysObs.v — the key-tag predicate of the C09 check (Check.C09F_obs, third conjunct: every backend access,
   builder call and return of a Get — and of its background build — carries the key that Get was called with) holds of
   the event log of every reachable state of the interleaving model, for the keys of the model's own spawn labels. *)
From Cache Require Import Base Failover FailoverProofs FailoverRun FailoverObs Check.

Definition keyed (e : fev) : option (tid * key) :=
  match e with
  | FRead t k _ | FWrite t k _ _ _ _ | FBuildStart t k | FBuildEnd t k _ | FReturn t k _ _ => Some (t, k)
  | _ => None
  end.

Definition lspawns (ls : list flabel) : list (tid * key) :=
  omap (fun l => match l with LSpawn t k _ _ => Some (t, k) | _ => None end) ls.

Definition tags_ok (sk : list (tid * key)) (l : list fev) : bool :=
  forallb (fun e => match e with
     | FRead t k _ | FWrite t k _ _ _ _ | FBuildStart t k | FBuildEnd t k _ | FReturn t k _ _ =>
         bool_decide (key_of_tid sk t = Some k)
     | _ => true end) l.

Lemma key_of_tid_app l1 l2 t :
  key_of_tid (l1 ++ l2) t = match key_of_tid l1 t with Some k => Some k | None => key_of_tid l2 t end.
Proof.
  unfold key_of_tid.
  destruct (list_find (λ p : tid * key, bool_decide (p.1 = t) || bool_decide (bg_tid p.1 = t)) l1) as [[i p]|] eqn:E.
  - rewrite (list_find_app_l _ _ l2 _ _ E). reflexivity.
  - rewrite (list_find_app_r _ _ l2 E).
    destruct (list_find (λ p : tid * key, bool_decide (p.1 = t) || bool_decide (bg_tid p.1 = t)) l2) as [[j p]|]; reflexivity.
Qed.

Lemma key_of_tid_none sk t :
  (forall t' k', (t', k') ∈ sk -> t' <> t /\ bg_tid t' <> t) -> key_of_tid sk t = None.
Proof.
  intros H. unfold key_of_tid.
  destruct (list_find _ sk) as [[i [pt pk]]|] eqn:E; [|reflexivity].
  apply list_find_Some in E as (Hl & Hp & _). apply elem_of_list_lookup_2 in Hl. destruct (H _ _ Hl) as [H1 H2].
  cbn in Hp. apply orb_prop_elim in Hp as [Hp|Hp]; apply bool_decide_unpack in Hp; contradiction.
Qed.

Section Keys.
Context (fe : dur -> time -> time -> bool) (nilb : val -> bool).
Notation fstep := (fstep fe nilb).
Notation frun := (frun fe nilb).

Ltac fstep_cases Hs Ht :=
  unfold Failover.fstep in Hs; rewrite Ht in Hs;
  repeat match type of Hs with
  | context [match ?x with _ => _ end] => destruct x eqn:?; try discriminate
  end; try (injection Hs as <-).

(* the events of a step carry the thread's key, under its id or (at the hand-over only) that of its background goroutine *)
Lemma step_keys c s t o s' th :
  threads s !! t = Some th -> fstep c s (LStep t o) = Some s' ->
  exists evs, flog s' = flog s ++ evs /\
    (forall e t' k', e ∈ evs -> keyed e = Some (t', k') ->
       (t' = t \/ (t' = bg_tid t /\ t_pc th = PCtxSync)) /\ k' = t_key th).
Proof.
  intros Ht Hs. fstep_cases Hs Ht.
  all: eexists; split; [first [cbn; reflexivity|cbn; symmetry; apply app_nil_r]|].
  all: intros ev0 tt kk Hin Hk; unfold ret_events, build_ev, leave, set_res, set_pc in Hin; cbn in Hin;
       repeat case_match; cbn in Hin;
       repeat (apply elem_of_cons in Hin as [->|Hin]); try (apply elem_of_nil in Hin; destruct Hin);
       cbn in Hk; try discriminate Hk; injection Hk as <- <-; auto.
Qed.

Definition KInv (sk : list (tid * key)) (s : fstate) : Prop :=
  (forall t th, threads s !! t = Some th -> key_of_tid sk t = Some (t_key th)) /\
  (forall t k, (t, k) ∈ sk -> (t < 1000)%N /\ is_Some (threads s !! t)) /\
  (forall t, threads s !! t = None -> (t < 1000)%N -> threads s !! bg_tid t = None) /\
  tags_ok sk (flog s) = true.

Lemma tags_ok_app sk l1 l2 : tags_ok sk (l1 ++ l2) = tags_ok sk l1 && tags_ok sk l2.
Proof. apply forallb_app. Qed.

Lemma tags_ok_mono sk sk' l :
  (forall t k, key_of_tid sk t = Some k -> key_of_tid sk' t = Some k) -> tags_ok sk l = true -> tags_ok sk' l = true.
Proof.
  intros Hm. unfold tags_ok. rewrite !forallb_forall. intros H e Hin. specialize (H e Hin).
  destruct e; try exact H; apply bool_decide_eq_true; apply bool_decide_eq_true in H; apply Hm, H.
Qed.

Lemma tags_ok_events sk evs :
  (forall e t' k', e ∈ evs -> keyed e = Some (t', k') -> key_of_tid sk t' = Some k') -> tags_ok sk evs = true.
Proof.
  intros H. unfold tags_ok. apply forallb_forall. intros e Hin. apply elem_of_list_In in Hin.
  destruct e; try reflexivity; apply bool_decide_eq_true; eapply H; eauto; reflexivity.
Qed.

Lemma bg_key sk t k : (forall t' k', (t', k') ∈ sk -> (t' < 1000)%N) -> (t < 1000)%N ->
  key_of_tid sk t = Some k -> key_of_tid sk (bg_tid t) = Some k.
Proof.
  intros Hlt Ht. unfold key_of_tid.
  destruct (list_find (λ p : tid * key, bool_decide (p.1 = t) || bool_decide (bg_tid p.1 = t)) sk) as [[i [pt pk]]|] eqn:E; [|discriminate].
  intros H. cbn in H. injection H as <-.
  apply list_find_Some in E as (Hl & Hp & Hleast). cbn in Hp.
  assert (Hp1 : pt = t).
  { apply orb_prop_elim in Hp as [Hp|Hp]; apply bool_decide_unpack in Hp; [exact Hp|].
    exfalso. pose proof (bg_tid_ge pt). unfold tid, bg_tid in *. lia. }
  assert (E2 : list_find (λ q : tid * key, bool_decide (q.1 = bg_tid t) || bool_decide (bg_tid q.1 = bg_tid t)) sk = Some (i, (pt, pk))).
  { apply list_find_Some. split; [exact Hl|]. split.
    - cbn. apply orb_prop_intro. right. apply bool_decide_pack. congruence.
    - intros j [qt qk] Hj Hlt' Hq. apply (Hleast j (qt, qk) Hj Hlt'). cbn in *.
      apply orb_prop_elim in Hq as [Hq|Hq]; apply bool_decide_unpack in Hq.
      + exfalso. pose proof (Hlt qt qk (elem_of_list_lookup_2 _ _ _ Hj)) as Hq1. pose proof (bg_tid_ge t) as Hq2.
        unfold tid, bg_tid in *. lia.
      + apply orb_prop_intro. left. apply bool_decide_pack. apply (bg_tid_inj _ _ Hq). }
  rewrite E2. reflexivity.
Qed.

Lemma KInv_step c sk s l s' : LInv s -> KInv sk s -> fstep c s l = Some s' -> KInv (sk ++ lspawns [l]) s'.
Proof.
  intros HL (Hthr & Hsk & Hbgfree & Htags) Hs. destruct l as [t k skip cell|t o].
  - (* a new Get *)
    cbn in Hs. destruct (threads s !! t) eqn:Ht; [discriminate|]. destruct (t <? 1000)%N eqn:Hlt; [|discriminate].
    apply N.ltb_lt in Hlt. injection Hs as <-. cbn [lspawns omap].
    assert (Hnew : key_of_tid sk t = None).
    { apply key_of_tid_none. intros pt pk Hp. destruct (Hsk pt pk Hp) as [Hp1 [th Hp2]]. split; [intros Heq; subst pt; unfold tid in *; congruence|].
      pose proof (bg_tid_ge pt). unfold tid, bg_tid in *. lia. }
    assert (Hmono : forall t2 k2, key_of_tid sk t2 = Some k2 -> key_of_tid (sk ++ [(t, k)]) t2 = Some k2).
    { intros t2 k2 H. rewrite key_of_tid_app, H. reflexivity. }
    repeat split.
    + intros t2 th2 Hl. cbn in Hl. apply lookup_insert_Some in Hl as [[<- <-]|[Hne Hl]].
      * rewrite key_of_tid_app, Hnew. cbn. unfold key_of_tid. cbn. rewrite bool_decide_true by reflexivity. reflexivity.
      * apply Hmono, Hthr, Hl.
    + apply elem_of_app in H as [H|H]; [eapply Hsk, H|]. apply elem_of_list_singleton in H. injection H as -> ->. exact Hlt.
    + apply elem_of_app in H as [H|H].
      * destruct (Hsk _ _ H) as [_ [th Hth]]. cbn. destruct (decide (t0 = t)) as [->|Hne]; [rewrite lookup_insert; eauto|].
        rewrite lookup_insert_ne by congruence. eauto.
      * apply elem_of_list_singleton in H. injection H as -> ->. cbn. rewrite lookup_insert. eauto.
    + intros t2 Hl Hlt2. cbn in Hl |- *. apply lookup_insert_None in Hl as [Hl Hne].
      rewrite lookup_insert_ne by (pose proof (bg_tid_ge t2); lia). apply Hbgfree; assumption.
    + cbn. rewrite app_nil_r. eapply tags_ok_mono; [exact Hmono|exact Htags].
  - destruct (threads s !! t) as [th|] eqn:Ht; [|unfold Failover.fstep in Hs; rewrite Ht in Hs; discriminate].
    cbn [lspawns omap]. rewrite app_nil_r.
    destruct (step_keys _ _ _ _ _ _ Ht Hs) as (evs & Hlog & Hev).
    destruct (step_shape fe nilb _ _ _ _ _ _ Ht Hs) as (evs' & Hlog' & Hcase).
    assert (Hlt_all : forall t' k', (t', k') ∈ sk -> (t' < 1000)%N) by (intros t' k' Hp; eapply Hsk, Hp).
    assert (Hfg : t_pc th = PCtxSync -> (t < 1000)%N).
    { intros Hpc. destruct (li_ids _ HL _ _ Ht) as [[H _]|[Hbg _]]; [exact H|].
      pose proof (tw_bg _ (li_twf _ HL _ _ Ht) Hbg) as Ha. rewrite Hpc in Ha. discriminate. }
    assert (Htag_new : tags_ok sk evs = true).
    { apply tags_ok_events. intros e t' k' Hin Hk. destruct (Hev _ _ _ Hin Hk) as [[->|[-> Hpc]] ->]; [apply Hthr, Ht|].
      apply bg_key; [exact Hlt_all|exact (Hfg Hpc)|apply Hthr, Ht]. }
    destruct Hcase as [(th' & Hthr' & Hk' & _)|(fg & bg & Hthr' & Hn & Hpc & Hpf & Hpb & Hkb & Hkf & _)].
    + repeat split.
      * intros t2 th2 Hl. rewrite Hthr' in Hl. apply lookup_insert_Some in Hl as [[<- <-]|[_ Hl]]; [rewrite Hk'; apply Hthr, Ht|apply Hthr, Hl].
      * eapply Hsk, H.
      * destruct (Hsk _ _ H) as [_ [th2 Hth2]]. rewrite Hthr'. destruct (decide (t0 = t)) as [->|Hne]; [rewrite lookup_insert; eauto|].
        rewrite lookup_insert_ne by congruence. eauto.
      * intros t2 Hl Hlt2. rewrite Hthr' in Hl |- *. apply lookup_insert_None in Hl as [Hl Hne].
        destruct (decide (bg_tid t2 = t)) as [Heq|Hne2]; [|rewrite lookup_insert_ne by congruence; apply Hbgfree; assumption].
        exfalso. pose proof (Hbgfree t2 Hl Hlt2) as Hb. rewrite Heq in Hb. congruence.
      * rewrite Hlog, tags_ok_app, Htags, Htag_new. reflexivity.
    + assert (Htlt : (t < 1000)%N) by exact (Hfg Hpc).
      repeat split.
      * intros t2 th2 Hl. rewrite Hthr' in Hl. apply lookup_insert_Some in Hl as [[<- <-]|[_ Hl]].
        -- rewrite Hkb. apply bg_key; [exact Hlt_all|exact Htlt|apply Hthr, Ht].
        -- apply lookup_insert_Some in Hl as [[<- <-]|[_ Hl]]; [rewrite Hkf; apply Hthr, Ht|apply Hthr, Hl].
      * eapply Hsk, H.
      * destruct (Hsk _ _ H) as [Hp1 [th2 Hth2]]. rewrite Hthr'.
        rewrite lookup_insert_ne by (pose proof (bg_tid_ge t); unfold tid, bg_tid in *; lia).
        destruct (decide (t0 = t)) as [->|Hne]; [rewrite lookup_insert; eauto|]. rewrite lookup_insert_ne by congruence. eauto.
      * intros t2 Hl Hlt2. rewrite Hthr' in Hl |- *. apply lookup_insert_None in Hl as [Hl Hne]. apply lookup_insert_None in Hl as [Hl Hne2].
        assert (bg_tid t2 <> bg_tid t) by (intros Heq; apply bg_tid_inj in Heq; congruence).
        rewrite lookup_insert_ne by congruence. rewrite lookup_insert_ne by (pose proof (bg_tid_ge t2); lia).
        apply Hbgfree; assumption.
      * rewrite Hlog, tags_ok_app, Htags, Htag_new. reflexivity.
Qed.

Lemma KInv_run c ls : forall sk s s', LInv s -> KInv sk s -> frun c s ls = Some s' -> KInv (sk ++ lspawns ls) s'.
Proof.
  induction ls as [|l ls IH]; intros sk s s' HL Hi Hr; cbn in Hr.
  - injection Hr as <-. cbn. rewrite app_nil_r. exact Hi.
  - destruct (fstep c s l) as [s1|] eqn:Hs; [|discriminate].
    replace (l :: ls) with ([l] ++ ls) by reflexivity. unfold lspawns. rewrite omap_app, app_assoc.
    eapply IH; [eapply (LInv_step fe nilb); eauto|eapply KInv_step; eauto|exact Hr].
Qed.

Lemma KInv_init : KInv [] f0.
Proof.
  split; [|split; [|split]].
  - intros t th Hl. cbn in Hl. rewrite lookup_empty in Hl. discriminate.
  - intros t k Hin. apply elem_of_nil in Hin. destruct Hin.
  - intros t _ _. cbn. apply lookup_empty.
  - reflexivity.
Qed.

(* every event of every reachable log carries the key of the Get it belongs to *)
Theorem c09_tags_hold c ls s : frun c f0 ls = Some s -> tags_ok (lspawns ls) (flog s) = true.
Proof. intros Hr. exact (proj2 (proj2 (proj2 (KInv_run c ls [] f0 s LInv_init KInv_init Hr)))). Qed.
End Keys.
