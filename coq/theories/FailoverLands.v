(* FailoverLands.v — where a completed build lands (C04: "a later Get ... observes the result of the last
   completed build", also when the caller reuses the key slice): in every reachable state of the interleaving
   model, every successful return of a builder for key k with value v is followed, as the next write of that
   thread, by backend.Write(k, v) — under the key the build was started for, with the value the builder
   returned — and no other write of that thread comes in between.  The predicate is executable and is also
   evaluated on the implementation's traces (FailoverObs.C04_obs). *)
From Cache Require Import Base Failover FailoverProofs FailoverRun FailoverObs.

Lemma wlands_app pend l1 l2 :
  wlands pend (l1 ++ l2) = match wlands pend l1 with Some p => wlands p l2 | None => None end.
Proof.
  revert pend; induction l1 as [|[t k v|t k v] l1 IH]; intros pend; cbn; [reflexivity|apply IH|].
  destruct (pend !! t) as [kv|]; [|apply IH]. destruct (bool_decide (kv = (k, v))); [apply IH|reflexivity].
Qed.

Section Lands.
Context (fe : dur -> time -> time -> bool) (nilb : val -> bool).
Notation fstep := (fstep fe nilb).
Notation frun := (frun fe nilb).

(* what one step of thread t contributes, and where it leaves the thread *)
Definition step_wevs (t : tid) (th : thread) (o : orc) : list wev :=
  match t_pc th with
  | PBuildWrite => [WWrite t (t_key th) (t_res th).1]
  | PRefreshWrite => [WWrite t (t_key th) (t_value th)]
  | PBuilderExit => match o_built o with inl v => [WEnd t (t_key th) v] | inr _ => [] end
  | _ => []
  end.

Ltac fstep_cases Hs Ht :=
  unfold Failover.fstep in Hs; rewrite Ht in Hs;
  repeat match type of Hs with
  | context [match ?x with _ => _ end] => destruct x eqn:?; try discriminate
  end; try (injection Hs as <-).

Lemma lands_shape c s t o s' th :
  threads s !! t = Some th -> fstep c s (LStep t o) = Some s' ->
  exists evs, flog s' = flog s ++ evs /\ omap wproj evs = step_wevs t th o /\
    ((exists th', threads s' = <[t := th']> (threads s) /\
        (forall v, t_pc th = PBuilderExit -> o_built o = inl v ->
                   t_pc th' = PBuildWrite /\ t_key th' = t_key th /\ (t_res th').1 = v)) \/
     (exists fg bg, threads s' = <[bg_tid t := bg]> (<[t := fg]> (threads s)) /\ threads s !! bg_tid t = None /\
        t_pc th = PCtxSync)).
Proof.
  intros Ht Hs. fstep_cases Hs Ht.
  all: try (eexists; split; [first [cbn; reflexivity|cbn; symmetry; apply app_nil_r]|]; split;
            [unfold step_wevs, leave, set_res, set_pc, ret_events, build_ev in *; cbn;
             repeat match goal with H : t_pc _ = _ |- _ => rewrite H end; cbn;
             repeat case_match; cbn in *; try reflexivity; try congruence; try discriminate|]).
  all: try (left; eexists; split; [cbn; reflexivity|]; intros v0 Hp Hb; cbn;
            first [congruence | (repeat split; congruence) | discriminate]).
  all: try (right; do 2 eexists; split; [cbn; reflexivity|]; split; [first [assumption|reflexivity]|]; first [assumption|reflexivity]).
Qed.

Definition LandsInv (s : fstate) : Prop :=
  exists pend : gmap tid (key * val),
    lands ∅ (flog s) = Some pend /\
    forall t k v, pend !! t = Some (k, v) ->
      exists th, threads s !! t = Some th /\ t_pc th = PBuildWrite /\ t_key th = k /\ (t_res th).1 = v.

Lemma LandsInv_step c s l s' : LandsInv s -> fstep c s l = Some s' -> LandsInv s'.
Proof.
  intros (pend & Hl & Hat) Hs. destruct l as [t k skip cell|t o].
  - (* a new Get: nothing logged, the new thread's id was unused *)
    cbn in Hs. destruct (threads s !! t) eqn:Ht; [discriminate|]. destruct (t <? 1000)%N; [|discriminate].
    injection Hs as <-. exists pend; cbn; split; [rewrite app_nil_r; exact Hl|].
    intros t2 k2 v2 Hp. destruct (Hat _ _ _ Hp) as (th & Hth & Hrest). exists th. split; [|exact Hrest].
    rewrite lookup_insert_ne; [exact Hth|]. intros <-. congruence.
  - destruct (threads s !! t) as [th|] eqn:Ht; [|unfold Failover.fstep in Hs; rewrite Ht in Hs; discriminate].
    destruct (lands_shape _ _ _ _ _ _ Ht Hs) as (evs & Hlog & Hev & Hthr).
    assert (Hnone : t_pc th <> PBuildWrite -> pend !! t = None).
    { intros Hne. destruct (pend !! t) as [[k v]|] eqn:Hp; [|reflexivity].
      destruct (Hat _ _ _ Hp) as (th2 & Hth2 & Hpc & _). congruence. }
    assert (Hframe : forall (m : gmap tid thread) t2 k2 v2 (p : gmap tid (key * val)),
               (forall t3, t3 <> t -> m !! t3 = threads s !! t3 \/ (threads s !! t3 = None /\ pend !! t3 = None)) ->
               t2 <> t -> p !! t2 = pend !! t2 -> p !! t2 = Some (k2, v2) ->
               exists th, m !! t2 = Some th /\ t_pc th = PBuildWrite /\ t_key th = k2 /\ (t_res th).1 = v2).
    { intros m t2 k2 v2 p Hm Hne Hsame Hp. rewrite Hsame in Hp. destruct (Hat _ _ _ Hp) as (th2 & Hth2 & Hrest).
      exists th2. split; [|exact Hrest]. destruct (Hm _ Hne) as [->|[Hn _]]; [exact Hth2|congruence]. }
    assert (Hl' : forall p', wlands pend (step_wevs t th o) = Some p' -> lands ∅ (flog s') = Some p').
    { intros p' Hw. unfold lands in *. rewrite Hlog, omap_app, wlands_app, Hl, Hev. exact Hw. }
    unfold step_wevs in Hl'.
    destruct Hthr as [(th' & Hthr & Hexit)|(fg & bg & Hthr & Hbgn & Hpc)].
    + assert (Hm : forall t3, t3 <> t -> threads s' !! t3 = threads s !! t3 \/ (threads s !! t3 = None /\ pend !! t3 = None)).
      { intros t3 Hne. left. rewrite Hthr. apply lookup_insert_ne. congruence. }
      destruct (t_pc th) eqn:Hp; cbn [wlands] in Hl'.
      all: try (exists pend; split; [apply Hl'; reflexivity|]; intros t2 k2 v2 Hp2;
                destruct (decide (t2 = t)) as [->|Hne]; [rewrite Hnone in Hp2 by discriminate; discriminate|];
                eapply (Hframe _ t2 k2 v2 pend); [exact Hm|exact Hne|reflexivity|exact Hp2]; fail).
      * (* PRefreshWrite: the refreshed stale value; nothing is pending for this thread *)
        rewrite Hnone in Hl' by discriminate. exists pend; split; [apply Hl'; reflexivity|]. intros t2 k2 v2 Hp2.
        destruct (decide (t2 = t)) as [->|Hne]; [rewrite Hnone in Hp2 by discriminate; discriminate|].
        eapply (Hframe _ t2 k2 v2 pend); [exact Hm|exact Hne|reflexivity|exact Hp2].
      * (* PBuilderExit *)
        destruct (o_built o) as [v|n] eqn:Hb; cbn [wlands] in Hl'.
        -- destruct (Hexit v eq_refl eq_refl) as (Hpc' & Hk' & Hr').
           exists (<[t := (t_key th, v)]> pend); split; [apply Hl'; reflexivity|]. intros t2 k2 v2 Hp2.
           destruct (decide (t2 = t)) as [->|Hne].
           ++ rewrite lookup_insert in Hp2. injection Hp2 as <- <-. exists th'. rewrite Hthr, lookup_insert. auto.
           ++ eapply (Hframe _ t2 k2 v2 (<[t := (t_key th, v)]> pend)); [exact Hm|exact Hne|apply lookup_insert_ne; congruence|exact Hp2].
        -- exists pend; split; [apply Hl'; reflexivity|]. intros t2 k2 v2 Hp2.
           destruct (decide (t2 = t)) as [->|Hne]; [rewrite Hnone in Hp2 by discriminate; discriminate|].
           eapply (Hframe _ t2 k2 v2 pend); [exact Hm|exact Hne|reflexivity|exact Hp2].
      * (* PBuildWrite: the pending result, if recorded, is exactly what is written *)
        destruct (pend !! t) as [[k0 v0]|] eqn:Hpt.
        -- destruct (Hat _ _ _ Hpt) as (th2 & Hth2 & _ & Hk2 & Hv2). rewrite Ht in Hth2. injection Hth2 as <-.
           rewrite bool_decide_true in Hl' by (rewrite Hk2, Hv2; reflexivity).
           exists (delete t pend); split; [apply Hl'; reflexivity|]. intros t2 k2 v2 Hp2.
           destruct (decide (t2 = t)) as [->|Hne]; [rewrite lookup_delete in Hp2; discriminate|].
           eapply (Hframe _ t2 k2 v2 (delete t pend)); [exact Hm|exact Hne|apply lookup_delete_ne; congruence|exact Hp2].
        -- exists pend; split; [apply Hl'; reflexivity|]. intros t2 k2 v2 Hp2.
           destruct (decide (t2 = t)) as [->|Hne]; [congruence|]. eapply (Hframe _ t2 k2 v2 pend); [exact Hm|exact Hne|reflexivity|exact Hp2].
    + (* the background build is handed to a new goroutine *)
      rewrite Hpc in Hl'. cbn [wlands] in Hl'. exists pend; split; [apply Hl'; reflexivity|]. intros t2 k2 v2 Hp2.
      assert (Hnt : pend !! t = None) by (apply Hnone; congruence).
      assert (Hnb : pend !! bg_tid t = None).
      { destruct (pend !! bg_tid t) as [[k v]|] eqn:Hpb; [|reflexivity].
        destruct (Hat _ _ _ Hpb) as (th2 & Hth2 & _). congruence. }
      destruct (decide (t2 = t)) as [->|Hne]; [congruence|].
      destruct (decide (t2 = bg_tid t)) as [->|Hne2]; [congruence|].
      eapply (Hframe (threads s') t2 k2 v2 pend); [|exact Hne|reflexivity|exact Hp2]. intros t3 Hne3. rewrite Hthr.
      destruct (decide (t3 = bg_tid t)) as [->|Hne4]; [right; auto|].
      left. rewrite lookup_insert_ne by congruence. apply lookup_insert_ne. congruence.
Qed.

Lemma LandsInv_init : LandsInv f0.
Proof. exists ∅; split; [reflexivity|]. intros t k v H. rewrite lookup_empty in H. discriminate. Qed.

Lemma LandsInv_run c ls : forall s s', LandsInv s -> frun c s ls = Some s' -> LandsInv s'.
Proof.
  induction ls as [|l ls IH]; intros s s' Hi Hr; cbn in Hr; [injection Hr as <-; exact Hi|].
  destruct (fstep c s l) as [s1|] eqn:Hs; [|discriminate]. eapply IH; [eapply LandsInv_step; eauto|exact Hr].
Qed.

(* every completed build lands under its own key with its own value, in every reachable state *)
Theorem build_lands c ls s : frun c f0 ls = Some s -> c04_lands (flog s) = true.
Proof.
  intros Hr. destruct (LandsInv_run _ _ _ _ LandsInv_init Hr) as (pend & Hl & _). unfold c04_lands. rewrite Hl. reflexivity.
Qed.

(* and at quiescence nothing is pending: every value a builder returned has been handed to the backend *)
Theorem build_lands_quiescent c ls s :
  frun c f0 ls = Some s -> all_done s -> lands ∅ (flog s) = Some ∅.
Proof.
  intros Hr Hd. destruct (LandsInv_run _ _ _ _ LandsInv_init Hr) as (pend & Hl & Hat). rewrite Hl. f_equal.
  apply map_eq. intros t. rewrite lookup_empty. destruct (pend !! t) as [[k v]|] eqn:Hp; [|reflexivity].
  destruct (Hat _ _ _ Hp) as (th & Hth & Hpc & _). rewrite (Hd _ _ Hth) in Hpc. discriminate.
Qed.
End Lands.
