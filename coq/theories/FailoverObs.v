(* FailoverObs.v — decidable property predicates evaluated on the event trace the IMPLEMENTATION
   produced (the concatenated observations of the harness), one per property. *)
From Cache Require Import Base Failover FailoverRun.

(* trace with the clock reading of the macro step each event belongs to *)
Definition timed_trace (ls : list mlabel) : list (time * fev) :=
  concat (map (fun l => map (fun e => (label_now l, e)) (label_obs l).1) ls).

(* ---------- C02: provenance ---------- *)
Definition prov_val (k : key) (v : val) (before : list fev) : bool :=
  existsb (fun e => match e with
    | FBuildEnd _ k' (inl v') => bool_decide (k = k') && (v =? v')
    | FRead _ k' (RHit v') | FRead _ k' (RExp v' _) => bool_decide (k = k') && (v =? v')
    | _ => false end) before.

Definition prov_err (k : key) (er : err) (before : list fev) : bool :=
  match er with
  | EOther n => existsb (fun e => match e with
       | FBuildEnd _ k' (inr n') => bool_decide (k = k') && (n =? n')
       | FRead _ k' (RFault n') => bool_decide (k = k') && (n =? n')
       | FWrite _ k' _ _ _ (Some n') => bool_decide (k = k') && (n =? n')
       | _ => false end) before
  | EWrapped n => existsb (fun e => match e with
       | FWrite _ k' _ _ _ (Some n') => bool_decide (k = k') && (n =? n')
       | _ => false end) before
  | _ => false
  end.

Fixpoint c02_scan (before : list fev) (l : list fev) : bool :=
  match l with
  | [] => true
  | e :: r =>
    (match e with
     | FReturn _ k v None => prov_val k v before
     | FReturn _ k _ (Some er) => prov_err k er before
     | _ => true
     end) && c02_scan (before ++ [e]) r
  end.
Definition C02_obs (l : list fev) : bool := c02_scan [] l.

(* ---------- C03: the decision table of a lone Get (README bullets 2-7) ---------- *)
Inductive entry_class := Absent | Fresh (v : val) | StaleOK (v : val) | TooStale (v : val).

Record outcome := mkOutcome {
  oc_val : option val;            (* Some v: returned (v, nil);  None: returned an error *)
  oc_err : option err;
  oc_built : bool;                (* the builder was invoked *)
  oc_before : bool;               (* ... before Get returned *)
  oc_writes : list (val * dur);   (* backend writes in order: (value, TTL seen) *)
}.
#[global] Instance outcome_eq_dec : EqDecision outcome.
Proof. solve_decision. Defined.

Section Table.
  Context (nilb : val -> bool).
  (* what the README promises. [ttl] = TTL of the caller's context (0 = backend default), [uttl] = UpdateTTL *)
  Definition spec_table (variant_ : variant) (su fh : bool) (uttl ttl : dur)
             (ec : entry_class) (failhit : option err) (built : val + Z) : outcome :=
    let served v := match variant_ with Legacy => negb (nilb v) | Generic => true end in
    match ec with
    | Fresh v => mkOutcome (Some v) None false false []
    | Absent =>
        match failhit, built with
        | Some e, _ => mkOutcome None (Some e) false false []
        | None, inl u => mkOutcome (Some u) None true true [(u, ttl)]
        | None, inr n => mkOutcome None (Some (EOther n)) true true []
        end
    | TooStale v =>
        match failhit, built with
        | Some e, _ => mkOutcome None (Some e) false false []
        | None, inl u => mkOutcome (Some u) None true true [(u, ttl)]
        | None, inr n => if negb fh && served v then mkOutcome (Some v) None true true []
                         else mkOutcome None (Some (EOther n)) true true []
        end
    | StaleOK v =>
        match failhit with
        | Some e => mkOutcome None (Some e) false false [(v, uttl)]
        | None =>
          if su then
            match built with
            | inl u => mkOutcome (Some u) None true true [(v, uttl); (u, ttl)]
            | inr n => if negb fh && served v then mkOutcome (Some v) None true true [(v, uttl)]
                       else mkOutcome None (Some (EOther n)) true true [(v, uttl)]
            end
          else
            match built with
            | inl u => mkOutcome (Some v) None true false [(v, uttl); (u, ttl)]
            | inr n => mkOutcome (Some v) None true false [(v, uttl)]
            end
        end
    end.
End Table.

(* the outcome of the Get of thread [t] as it appears in a trace *)
Definition index_of (p : fev -> bool) (l : list fev) : option nat :=
  match list_find (fun e => p e = true) l with Some (i, _) => Some i | None => None end.

Definition is_return_of (t : tid) (e : fev) : bool := match e with FReturn t' _ _ _ => (t =? t')%N | _ => false end.
Definition is_bstart_of (t : tid) (e : fev) : bool :=
  match e with FBuildStart t' _ => (t =? t')%N || (bg_tid t =? t')%N | _ => false end.

Definition trace_outcome (t : tid) (l : list fev) : option outcome :=
  match list_find (fun e => is_return_of t e = true) l with
  | Some (ir, FReturn _ _ v e) =>
      let ib := index_of (is_bstart_of t) l in
      Some (mkOutcome (match e with None => Some v | Some _ => None end) e
                      (bool_decide (ib <> None))
                      (match ib with Some i => bool_decide (i < ir)%nat | None => false end)
                      (omap (fun x => match x with
                                      | FWrite t' _ v ttl _ None => if (t =? t')%N || (bg_tid t =? t')%N then Some (v, ttl) else None
                                      | _ => None end) l))
  | _ => None
  end.

Definition classify (max_stale : dur) (now : time) (r : rres) : option entry_class :=
  match r with
  | RMiss => Some Absent
  | RHit v => Some (Fresh v)
  | RExp v a => Some (if fresh_enough_impl max_stale now a then StaleOK v else TooStale v)
  | RFault _ => None
  end.

(* ---------- C04 ---------- *)
Definition all_returned (ls : list mlabel) : bool :=
  match last ls with
  | Some l => forallb (fun ts => bool_decide (ts.2 = SDone)) (label_obs l).2
  | None => true
  end.

(* last value successfully written under k before position n *)
Definition last_written (k : key) (l : list fev) : option val :=
  match list_find (fun e => match e with FWrite _ k' _ _ _ None => bool_decide (k = k') | _ => false end = true) (reverse l) with
  | Some (_, FWrite _ _ v _ _ _) => Some v
  | _ => None
  end.

(* follow-up Gets (tid >= 500) after quiescence and forced expiry: each must invoke the builder and must
   have read what the last successful write left *)
Fixpoint c04_follow (before : list fev) (l : list fev) : bool :=
  match l with
  | [] => true
  | e :: r =>
    (match e with
     | FRead t k rd =>
         if (500 <=? t)%N && (t <? 1000)%N then
           match last_written k before, rd with
           | Some v, RExp v' _ | Some v, RHit v' => v =? v'
           | Some _, _ => false
           | None, _ => true
           end
         else true
     | FReturn t k _ _ =>
         if (500 <=? t)%N && (t <? 1000)%N
         then existsb (fun x => is_bstart_of t x) (before ++ r)
         else true
     | _ => true
     end) && c04_follow (before ++ [e]) r
  end.

(* where a completed build lands: the first write of a thread after its builder returned v for key k is
   backend.Write(k, v) — the key the build was started for (not whatever the caller's key buffer holds by then) and
   the value the builder returned.  FailoverLands.build_lands proves it of every reachable state of the model. *)
Inductive wev :=
| WEnd (t : tid) (k : key) (v : val)     (* builder of thread t returned v for key k *)
| WWrite (t : tid) (k : key) (v : val).  (* thread t called backend.Write(k, v) *)

Definition wproj (e : fev) : option wev :=
  match e with
  | FBuildEnd t k (inl v) => Some (WEnd t k v)
  | FWrite t k v _ _ _ => Some (WWrite t k v)
  | _ => None
  end.

(* pend: threads whose builder has returned a value that is not written yet *)
Fixpoint wlands (pend : gmap tid (key * val)) (l : list wev) : option (gmap tid (key * val)) :=
  match l with
  | [] => Some pend
  | WEnd t k v :: r => wlands (<[t := (k, v)]> pend) r
  | WWrite t k v :: r =>
      match pend !! t with
      | Some kv => if bool_decide (kv = (k, v)) then wlands (delete t pend) r else None
      | None => wlands pend r
      end
  end.

Definition lands (pend : gmap tid (key * val)) (l : list fev) : option (gmap tid (key * val)) :=
  wlands pend (omap wproj l).

Definition c04_lands (l : list fev) : bool :=
  match lands ∅ l with Some _ => true | None => false end.

Definition C04_obs (c : fcase) : bool :=
  (fc_final_locks c =? 0) && all_returned (fc_labels c) && c04_follow [] (impl_trace c) && c04_lands (impl_trace c).

(* ---------- C05 ---------- *)
(* SyncRead on: once a build of k has been stored successfully, no builder is invoked for k again
   (the scenarios keep the result fresh: no sleeps beyond the TTL, no SkipRead, no TTL cells) *)
Fixpoint c05_single (built : list key) (l : list fev) : bool :=
  match l with
  | [] => true
  | FBuildStart _ k :: r => negb (bool_decide (k ∈ built)) && c05_single built r
  | FWrite t k _ _ _ None :: r =>
      (* a write that follows the builder's return of the same thread is the build result *)
      c05_single (k :: built) r
  | _ :: r => c05_single built r
  end.

(* the writes that count: build results, i.e. successful writes after the thread's own FBuildEnd *)
Fixpoint mark_build_writes (ended : list tid) (l : list fev) : list fev :=
  match l with
  | [] => []
  | FBuildEnd t k x :: r => FBuildEnd t k x :: mark_build_writes (t :: ended) r
  | FWrite t k v ttl f res :: r =>
      (if bool_decide (t ∈ ended) then [FWrite t k v ttl f res] else []) ++ mark_build_writes ended r
  | e :: r => e :: mark_build_writes ended r
  end.

Definition C05_single_obs (l : list fev) : bool := c05_single [] (mark_build_writes [] l).

(* after a failed build at t0 no builder runs for the key before t0 + FailedUpdateTTL*(1 - J/2), J = 0.1
   (the failure cache is a ShardedMap with default jitter); SkipRead Gets are exempt *)
Fixpoint c05_fail (ft : dur) (skips : list tid) (fails : list (key * time)) (l : list (time * fev)) : bool :=
  match l with
  | [] => true
  | (t1, FBuildStart t k) :: r =>
      (bool_decide (t ∈ skips) || bool_decide ((t - 1000)%N ∈ skips) ||
       forallb (fun kf => negb (bool_decide (kf.1 = k)) || (ft - ft / 20 - 1 <=? t1 - kf.2)) fails)
      && c05_fail ft skips fails r
  | (t0, FBuildEnd _ k (inr _)) :: r => c05_fail ft skips ((k, t0) :: fails) r
  | _ :: r => c05_fail ft skips fails r
  end.

Definition C05_fail_obs (c : fcase) (skips : list tid) : bool :=
  if 0 <=? f_failed_ttl (fc_cfg c) then c05_fail (f_failed_ttl (fc_cfg c)) skips [] (timed_trace (fc_labels c)) else true.

(* ---------- C06 ---------- *)
(* expected TTL of the final store of a Get whose context carries [cell] and whose builder made [upd] *)
Definition expected_ttl (cell : option dur) (upd : list dur) : dur := cell_ttl (apply_upd cell upd).

Record getinfo := mkGet { g_tid : tid; g_cell : option dur; g_upd : list dur; g_skip : bool; g_ok : bool }.

(* per Get: every build-result write carries the expected TTL, every earlier write (the stale re-store)
   carries UpdateTTL; a SkipRead Get invokes the builder and, if it succeeds, stores the result *)
Definition fev_tid (e : fev) : tid :=
  match e with
  | FRead t _ _ | FWrite t _ _ _ _ _ | FBuildStart t _ | FBuildEnd t _ _ | FStat t _ | FLog t _
  | FErrWrite t _ _ _ | FErrHit t _ _ | FReturn t _ _ _ => t
  end.

(* the part of the trace from the first event of thread [t] on: what was in flight while that Get ran *)
Fixpoint since_first (t : tid) (l : list fev) : list fev :=
  match l with
  | [] => []
  | e :: r => if (fev_tid e =? t)%N then l else since_first t r
  end.

Definition c06_get_ok (uttl : dur) (l : list fev) (before : list fev) (g : getinfo) : bool :=
  (* [before]: what had been observed when this Get was called *)
  (* thread t' (a foreground Get) had already returned — hence released its key lock — when this Get started *)
  let gone t' := existsb (is_return_of t') before in
  let mine := List.filter (fun e => match e with
      | FWrite t _ _ _ _ _ | FBuildEnd t _ _ | FBuildStart t _ => (t =? g_tid g)%N || (t =? bg_tid (g_tid g))%N
      | _ => false end) l in
  let fix go (after_end : bool) (m : list fev) : bool :=
    match m with
    | [] => true
    | FBuildEnd _ _ _ :: r => go true r
    | FWrite _ _ _ ttl _ _ :: r =>
        (if after_end then ttl =? expected_ttl (g_cell g) (g_upd g) else ttl =? uttl) && go after_end r
    | _ :: r => go after_end r
    end in
  go false mine &&
  (if g_skip g then
     (* the backend never served it a cached value ... *)
     negb (existsb (fun e => match e with
                             | FRead t _ (RHit _) | FRead t _ (RExp _ _) => (t =? g_tid g)%N
                             | _ => false end) l) &&
     (* ... so it either built (and stored a successful result) itself, or it waited for a build of the
        same key that was in flight and received that build's result *)
     (if existsb (fun e => match e with FBuildStart _ _ => true | _ => false end) mine
      then negb (g_ok g) || existsb (fun e => match e with FWrite _ _ _ _ _ _ => true | _ => false end) mine
      else match list_find (fun e => is_return_of (g_tid g) e = true) l with
           | Some (_, FReturn _ k v None) =>
               (* the owner's result: a build, or (SyncRead) the value the owner read inside the key lock *)
               existsb (fun e => match e with
                                 | FBuildEnd t' k' (inl v') => bool_decide (k = k') && (v =? v') && negb (gone t')
                                 | FRead t' k' (RHit v') => negb (t' =? g_tid g)%N && bool_decide (k = k') && (v =? v') && negb (gone t')
                                 | _ => false end) l
           | Some (_, FReturn _ k _ (Some (EOther n))) =>
               (* the error of a build whose owner still held the key lock when this Get started, not one replayed
                  from the failure cache (a background owner leaves no return event: such a build is accepted) *)
               existsb (fun e => match e with
                                 | FBuildEnd t' k' (inr n') => bool_decide (k = k') && (n =? n') && negb (gone t')
                                 (* ... or the result of the Get that held the key lock (e.g. a cached failure it replayed) *)
                                 | FReturn t' k' _ (Some (EOther n')) =>
                                     negb (t' =? g_tid g)%N && bool_decide (k = k') && (n =? n') && negb (gone t')
                                 | _ => false end) l
           | _ => false
           end)
   else true).

(* ---------- C18 (failover part) ---------- *)
Definition count_ev (p : fev -> bool) (l : list fev) : Z := Z.of_nat (length (List.filter p l)).

(* a write that precedes the thread's own builder invocation is the stale re-store *)
Fixpoint refresh_writes (started : list tid) (l : list fev) : Z :=
  match l with
  | [] => 0
  | FBuildStart t _ :: r => refresh_writes (t :: started) r
  | FWrite t _ _ _ _ _ :: r => (if bool_decide (t ∈ started) then 0 else 1) + refresh_writes started r
  | _ :: r => refresh_writes started r
  end.

Definition C18F_obs (c : fcase) : bool :=
  let l := impl_trace c in
  if f_stat (fc_cfg c) then
    (count_ev (fun e => match e with FStat _ MBuild => true | _ => false end) l
       =? count_ev (fun e => match e with FBuildStart _ _ => true | _ => false end) l) &&
    (count_ev (fun e => match e with FStat _ MFailed => true | _ => false end) l
       =? count_ev (fun e => match e with FBuildEnd _ _ (inr _) => true | _ => false end) l) &&
    (count_ev (fun e => match e with FStat _ MRefreshed => true | _ => false end) l =? refresh_writes [] l)
  else count_ev (fun e => match e with FStat _ _ => true | _ => false end) l =? 0.
