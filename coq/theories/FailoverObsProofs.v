(* FailoverObsProofs.v — the executable provenance predicate the C02 check evaluates on implementation traces
   (FailoverObs.C02_obs) holds of the event log of every reachable state of the interleaving model: it is implied by the
   provenance invariant (FailoverProv.PInv.pi_rets).  A code-2 verdict of check_c02 is therefore a trace the model
   cannot produce. *)
From Cache Require Import Base Failover FailoverProofs FailoverProv FailoverRun FailoverObs.

Lemma existsb_elem {A} (p : A -> bool) (l : list A) x : x ∈ l -> p x = true -> existsb p l = true.
Proof. intros Hin Hp. apply existsb_exists. exists x. split; [apply elem_of_list_In, Hin|exact Hp]. Qed.

Lemma prov_val_of_vprov log k v : vprov log k v -> prov_val k v log = true.
Proof.
  intros [(t & Hin)|(t & r & Hin & Hr)]; unfold prov_val.
  - eapply existsb_elem; [exact Hin|]. cbn. rewrite bool_decide_true by reflexivity. cbn. apply Z.eqb_refl.
  - eapply existsb_elem; [exact Hin|]. destruct r as [v'| |v' a|n]; cbn in Hr; try discriminate;
      injection Hr as ->; cbn; rewrite bool_decide_true by reflexivity; cbn; apply Z.eqb_refl.
Qed.

Lemma prov_err_of_eprov log k e : eprov log k e -> prov_err k e log = true.
Proof.
  destruct e as [|v a|n|n]; cbn; try tauto.
  - intros [(t & Hin)|[(t & Hin)|(t & v & ttl & Hin)]]; (eapply existsb_elem; [exact Hin|]); cbn;
      rewrite bool_decide_true by reflexivity; cbn; apply Z.eqb_refl.
  - intros (t & v & ttl & Hin). eapply existsb_elem; [exact Hin|]. cbn.
    rewrite bool_decide_true by reflexivity. cbn. apply Z.eqb_refl.
Qed.

Lemma c02_scan_of_rets_ok : forall l pre, rets_ok pre l -> c02_scan pre l = true.
Proof.
  induction l as [|ev l IH]; intros pre H; [reflexivity|]. cbn in H. destruct H as [Hev Hrest].
  cbn [c02_scan]. apply andb_true_iff. split; [|apply IH, Hrest].
  destruct ev as [| | | | | | | |t k v e]; try reflexivity.
  unfold rprov in Hev. cbn in Hev. destruct e as [e|]; [apply prov_err_of_eprov|apply prov_val_of_vprov]; exact Hev.
Qed.

Theorem c02_obs_holds (fe : dur -> time -> time -> bool) (nilb : val -> bool) : nilb 0 = true ->
  forall c ls s, frun fe nilb c f0 ls = Some s -> C02_obs (flog s) = true.
Proof.
  intros Hnil c ls s Hr. unfold C02_obs. apply c02_scan_of_rets_ok.
  exact (pi_rets _ _ (PInv_run fe nilb Hnil c ls _ _ LInv_init (PInv_init c) Hr)).
Qed.
