(* FailoverProofs.v — invariants of the interleaving model of Failover.Get: key-lock discipline
   (C01, C04). Everything is proved for arbitrary staleness / nil tests [fe], [nilb], arbitrary
   configurations, and every label sequence (any number of Gets on any keys, any interleaving, any
   oracle answers). *)
From Cache Require Import Base Failover.

Section Proofs.
Context (fe : dur -> time -> time -> bool) (nilb : val -> bool).
Notation fstep := (fstep fe nilb).
Notation frun := (frun fe nilb).

Definition needs_own (p : pc) : bool :=
  match p with
  | PRefreshLog | PRefreshStat | PRefreshWrite | PFailCache | PCtxSync | PBuildLog | PBuilderEntry | PBuilderExit
  | PStatFailed | PErrWrite | PBuildWrite | PStatBuild | PPublish | PWarnLog | PFallback | PRelease => true
  | _ => false
  end.
Definition wait_pc (p : pc) : bool := match p with PWaitLog | PWaiting => true | _ => false end.
Definition err_pc (p : pc) : bool := match p with PStatFailed | PErrWrite => true | _ => false end.
Definition early_pc (p : pc) : bool := match p with PStart | PPreRead | PAcquire => true | _ => false end.
Definition mid_pc (p : pc) : bool := match p with PSyncRead | PClassify => true | _ => false end.

Definition after_ctx (p : pc) : bool :=
  match p with
  | PBuildLog | PBuilderEntry | PBuilderExit | PStatFailed | PErrWrite | PBuildWrite | PStatBuild | PPublish
  | PWarnLog | PRelease | PDone => true
  | _ => false
  end.

(* thread-local well-formedness: which locals a program counter guarantees *)
Record twf (th : thread) : Prop := {
  tw_bg : t_bg th = true -> after_ctx (t_pc th) = true;
  tw_own : needs_own (t_pc th) = true -> is_Some (t_own th);
  tw_wait : wait_pc (t_pc th) = true -> t_own th = None /\ is_Some (t_wait th);
  tw_err : err_pc (t_pc th) = true -> is_Some (t_res th).2;
  tw_done : t_pc th = PDone -> t_own th = None;
  tw_early : early_pc (t_pc th) = true -> t_own th = None /\ t_wait th = None;
  tw_mid : mid_pc (t_pc th) = true -> is_Some (t_own th) \/ is_Some (t_wait th);
}.

Definition closed_of (m : gmap klid kl) (id : klid) : option (bool * key) :=
  option_map (fun x => (kl_closed x, kl_key x)) (m !! id).

(* a step that leaves the lock state alone *)
Record local_step (s s' : fstate) (t : tid) (th th' : thread) : Prop := {
  ls_threads : threads s' = <[t := th']> (threads s);
  ls_locks : keyLocks s' = keyLocks s;
  ls_next : next_kl s' = next_kl s;
  ls_kls : forall id, closed_of (kls s') id = closed_of (kls s) id;
  ls_key : t_key th' = t_key th;
  ls_own : t_own th' = t_own th;
  ls_wait : t_wait th' = t_wait th;
  ls_bg : t_bg th' = t_bg th;
}.

Inductive effect (s s' : fstate) (t : tid) (th : thread) : Prop :=
| EffLocal th' : local_step s s' t th th' -> twf th' -> effect s s' t th
| EffAcqNew th' :
    t_own th = None -> keyLocks s !! t_key th = None ->
    threads s' = <[t := th']> (threads s) ->
    t_bg th = false -> t_bg th' = false ->
    keyLocks s' = <[t_key th := next_kl s]> (keyLocks s) ->
    kls s' = <[next_kl s := mkKl 0 None false (t_key th)]> (kls s) ->
    next_kl s' = (next_kl s + 1)%N ->
    t_key th' = t_key th -> t_own th' = Some (next_kl s) -> t_wait th' = None -> twf th' ->
    effect s s' t th
| EffAcqWait th' id :
    t_own th = None -> keyLocks s !! t_key th = Some id ->
    threads s' = <[t := th']> (threads s) ->
    t_bg th = false -> t_bg th' = false ->
    keyLocks s' = keyLocks s -> kls s' = kls s -> next_kl s' = next_kl s ->
    t_key th' = t_key th -> t_own th' = None -> t_wait th' = Some id -> twf th' ->
    effect s s' t th
| EffRelease th' id :
    t_own th = Some id ->
    threads s' = <[t := th']> (threads s) ->
    keyLocks s' = delete (t_key th) (keyLocks s) ->
    kls s' = alter (fun x => mkKl (kl_val x) (kl_err x) true (kl_key x)) id (kls s) ->
    next_kl s' = next_kl s ->
    t_key th' = t_key th -> t_own th' = None -> t_pc th' = PDone -> t_bg th' = t_bg th -> t_wait th' = t_wait th -> twf th' ->
    effect s s' t th
| EffSpawnBg fg bg id :
    t_own th = Some id -> threads s !! bg_tid t = None ->
    threads s' = <[bg_tid t := bg]> (<[t := fg]> (threads s)) ->
    t_bg th = false -> t_bg fg = false -> t_bg bg = true ->
    keyLocks s' = keyLocks s -> kls s' = kls s -> next_kl s' = next_kl s ->
    t_key fg = t_key th -> t_own fg = None -> t_wait fg = None -> t_pc fg = PDone -> twf fg ->
    t_key bg = t_key th -> t_own bg = Some id -> t_wait bg = None -> twf bg ->
    effect s s' t th.

Lemma closed_of_alter (m : gmap klid kl) f id id' :
  (forall x, kl_closed (f x) = kl_closed x /\ kl_key (f x) = kl_key x) ->
  closed_of (alter f id m) id' = closed_of m id'.
Proof.
  intros Hf. unfold closed_of. destruct (decide (id = id')) as [<-|Hne].
  - rewrite lookup_alter. destruct (m !! id) as [x|]; cbn; [|reflexivity].
    destruct (Hf x) as [-> ->]. reflexivity.
  - rewrite lookup_alter_ne by exact Hne. reflexivity.
Qed.

Ltac twf_solve :=
  constructor; cbn; intros; try discriminate; try tauto; try congruence; eauto;
  repeat match goal with
  | H : is_Some None |- _ => destruct H; discriminate
  | |- is_Some (Some _) => eexists; reflexivity
  end.

Ltac local_solve :=
  constructor; [cbn; reflexivity|..]; cbn; try reflexivity; try congruence;
  try (intros; apply closed_of_alter; intros; cbn; auto).

(* the frame lemma: every step is one of five shapes *)
Lemma fstep_effect c s t o s' th :
  threads s !! t = Some th -> twf th ->
  fstep c s (LStep t o) = Some s' -> effect s s' t th.
Proof.
  intros Ht Hw Hs. unfold Failover.fstep in Hs. rewrite Ht in Hs.
  destruct Hw as [Hbgf Hown Hwait Herr Hdone Hearly Hmid].
  destruct (t_pc th) eqn:Hpc; cbn in *;
    try (assert (Hnb : t_bg th = false) by (destruct (t_bg th); [specialize (Hbgf eq_refl); discriminate|reflexivity])).
  - (* PStart *)
    injection Hs as <-. destruct (Hearly eq_refl) as [Ho Hwt].
    eapply EffLocal with (th' := set_pc th _); [local_solve|].
    destruct (f_sync_read c); twf_solve.
  - (* PPreRead *)
    destruct (Hearly eq_refl) as [Ho Hwt].
    destruct (o_rd o); injection Hs as <-;
      (eapply EffLocal; [local_solve|twf_solve]).
  - (* PAcquire *)
    destruct (Hearly eq_refl) as [Ho Hwt].
    destruct (keyLocks s !! t_key th) as [id|] eqn:Hk; injection Hs as <-.
    + eapply EffAcqWait; eauto; cbn; try reflexivity. destruct (f_sync_read c); twf_solve.
    + eapply EffAcqNew; eauto; cbn; try reflexivity. destruct (f_sync_read c); twf_solve.
  - (* PSyncRead *)
    destruct (o_rd o); injection Hs as <-.
    + destruct (t_own th) as [id|] eqn:Ho; unfold leave; rewrite Ho; cbn;
        (eapply EffLocal; [local_solve|twf_solve]).
    + eapply EffLocal; [local_solve|twf_solve].
    + eapply EffLocal; [local_solve|twf_solve].
    + eapply EffLocal; [local_solve|twf_solve].
  - (* PClassify *)
    destruct (t_own th) as [id|] eqn:Ho.
    + destruct (t_err th) as [[v| |v a|n]|]; try (injection Hs as <-; eapply EffLocal; [local_solve|twf_solve]).
      * destruct (fresh_enough fe c (o_now o) a); injection Hs as <-.
        -- eapply EffLocal; [local_solve|]. unfold to_refresh, after_refresh_log.
           destruct (f_debug c), (f_stat c); twf_solve.
        -- eapply EffLocal; [local_solve|twf_solve].
      * destruct (f_variant c); injection Hs as <-.
        -- unfold leave; rewrite Ho. eapply EffLocal; [local_solve|twf_solve].
        -- eapply EffLocal; [local_solve|twf_solve].
    + assert (Hwt : is_Some (t_wait th)) by (destruct (Hmid eq_refl) as [[? H]|H]; [discriminate|exact H]).
      assert (Hto : twf (set_pc th (to_wait c))).
      { unfold to_wait. destruct (f_debug c); twf_solve. }
      destruct (t_err th) as [[v| |v a|n]|]; try (injection Hs as <-; eapply EffLocal; [local_solve|exact Hto]).
      * destruct (fresh_enough fe c (o_now o) a); injection Hs as <-.
        -- eapply EffLocal; [local_solve|twf_solve].
        -- eapply EffLocal; [local_solve|exact Hto].
      * destruct (f_variant c); injection Hs as <-.
        -- eapply EffLocal; [local_solve|twf_solve].
        -- eapply EffLocal; [local_solve|exact Hto].
  - (* PWaitLog *)
    destruct (Hwait eq_refl) as [Ho Hwt]. injection Hs as <-. eapply EffLocal; [local_solve|twf_solve].
  - (* PWaiting *)
    destruct (Hwait eq_refl) as [Ho Hwt].
    destruct (t_wait th) as [id|]; [|discriminate].
    destruct (kls s !! id) as [x|]; [|discriminate]. destruct (kl_closed x); [|discriminate].
    injection Hs as <-. eapply EffLocal; [local_solve|twf_solve].
  - (* PRefreshLog *)
    injection Hs as <-. eapply EffLocal; [local_solve|]. unfold after_refresh_log. destruct (f_stat c); twf_solve.
  - (* PRefreshStat *)
    injection Hs as <-. eapply EffLocal; [local_solve|twf_solve].
  - (* PRefreshWrite *)
    destruct (Hown eq_refl) as [id Ho].
    destruct (o_wr o) as [n|].
    + rewrite Ho in Hs. injection Hs as <-. unfold leave; rewrite Ho. eapply EffLocal; [local_solve|twf_solve].
    + injection Hs as <-. eapply EffLocal; [local_solve|twf_solve].
  - (* PFailCache *)
    destruct (Hown eq_refl) as [id Ho]. rewrite Ho in Hs.
    match type of Hs with context [match ?h with _ => _ end] => destruct h as [e|] end.
    + injection Hs as <-. unfold leave; rewrite Ho. eapply EffLocal; [local_solve|twf_solve].
    + injection Hs as <-. eapply EffLocal; [local_solve|twf_solve].
  - (* PCtxSync *)
    destruct (Hown eq_refl) as [id Ho].
    destruct (f_sync_update c || bool_decide (t_err th <> None)).
    + injection Hs as <-. eapply EffLocal; [local_solve|]. unfold to_build. destruct (f_debug c); twf_solve.
    + destruct (threads s !! bg_tid t) eqn:Hbg; [discriminate|]. injection Hs as <-.
      unfold to_build. destruct (f_debug c);
        (eapply EffSpawnBg; eauto; cbn; try reflexivity; twf_solve).
  - (* PBuildLog *)
    injection Hs as <-. eapply EffLocal; [local_solve|twf_solve].
  - (* PBuilderEntry *)
    injection Hs as <-. eapply EffLocal; [local_solve|twf_solve].
  - (* PBuilderExit *)
    destruct (o_built o) as [v|n]; injection Hs as <-.
    + eapply EffLocal; [local_solve|twf_solve].
    + eapply EffLocal; [local_solve|]. unfold after_failed.
      destruct (f_stat c), (0 <=? f_failed_ttl c); twf_solve.
  - (* PStatFailed *)
    destruct (Herr eq_refl) as [e He].
    injection Hs as <-. eapply EffLocal; [local_solve|]. unfold after_failed.
    destruct (f_stat c), (0 <=? f_failed_ttl c); twf_solve.
  - (* PErrWrite *)
    destruct (Herr eq_refl) as [e He]. rewrite He in Hs. injection Hs as <-.
    eapply EffLocal with (th' := set_pc th (to_stat_build c)); [local_solve|]. unfold to_stat_build. destruct (f_stat c); twf_solve.
  - (* PBuildWrite *)
    destruct (o_wr o); injection Hs as <-;
      (eapply EffLocal; [local_solve|]; unfold to_stat_build; destruct (f_stat c); twf_solve).
  - (* PStatBuild *)
    injection Hs as <-. eapply EffLocal; [local_solve|twf_solve].
  - (* PPublish *)
    destruct (Hown eq_refl) as [id Ho]. rewrite Ho in Hs.
    destruct ((t_res th).2); injection Hs as <-.
    + eapply EffLocal; [local_solve|]. destruct (f_warn c), (t_bg th) eqn:Hb; twf_solve.
    + eapply EffLocal; [local_solve|twf_solve].
  - (* PWarnLog *)
    injection Hs as <-. eapply EffLocal; [local_solve|]. destruct (t_bg th) eqn:Hb; twf_solve.
  - (* PFallback *)
    destruct (fallback nilb c th); injection Hs as <-; (eapply EffLocal; [local_solve|twf_solve]).
  - (* PRelease *)
    destruct (Hown eq_refl) as [id Ho]. rewrite Ho in Hs. injection Hs as <-.
    eapply EffRelease; eauto; cbn; try reflexivity. twf_solve.
  - discriminate.
Qed.


(* ------------------------------------------------------------------ *)
(* the key-lock invariant *)
Record LInv (s : fstate) : Prop := {
  li_twf : forall t th, threads s !! t = Some th -> twf th;
  (* a registered key lock has an owner working on that key *)
  li_lock_owner : forall k id, keyLocks s !! k = Some id ->
      exists t th, threads s !! t = Some th /\ t_own th = Some id /\ t_key th = k;
  (* an owner's lock is registered under the owner's key *)
  li_owner_lock : forall t th id, threads s !! t = Some th -> t_own th = Some id ->
      keyLocks s !! t_key th = Some id;
  li_own_unique : forall t1 t2 th1 th2 id, threads s !! t1 = Some th1 -> threads s !! t2 = Some th2 ->
      t_own th1 = Some id -> t_own th2 = Some id -> t1 = t2;
  li_kls_bound : forall id x, kls s !! id = Some x -> (id < next_kl s)%N;
  li_locks_open : forall k id, keyLocks s !! k = Some id ->
      exists x, kls s !! id = Some x /\ kl_closed x = false /\ kl_key x = k;
  li_open_locked : forall id x, kls s !! id = Some x -> kl_closed x = false -> keyLocks s !! kl_key x = Some id;
  li_wait_known : forall t th id, threads s !! t = Some th -> t_wait th = Some id ->
      exists x, kls s !! id = Some x /\ kl_key x = t_key th;
  (* the thread id of a background build is free while its Get is running *)
  li_bg_free : forall t th, threads s !! t = Some th -> (t < 1000)%N -> t_pc th <> PDone -> threads s !! bg_tid t = None;
  li_ids : forall t th, threads s !! t = Some th ->
      ((t < 1000)%N /\ t_bg th = false) \/ (t_bg th = true /\ exists t0, t = bg_tid t0 /\ (t0 < 1000)%N /\ is_Some (threads s !! t0));
}.

Lemma LInv_init : LInv f0.
Proof. constructor; cbn; intros; rewrite lookup_empty in *; discriminate. Qed.

Lemma closed_of_inv m id b k : closed_of m id = Some (b, k) -> exists x, m !! id = Some x /\ kl_closed x = b /\ kl_key x = k.
Proof. unfold closed_of. destruct (m !! id) as [x|]; [|discriminate]. cbn. intros [= <- <-]. eauto. Qed.

Lemma closed_of_Some m id x : m !! id = Some x -> closed_of m id = Some (kl_closed x, kl_key x).
Proof. unfold closed_of. intros ->. reflexivity. Qed.

Lemma bg_tid_ge t : (1000 <= bg_tid t)%N.
Proof. unfold bg_tid. lia. Qed.

Lemma bg_tid_inj t1 t2 : bg_tid t1 = bg_tid t2 -> t1 = t2.
Proof. unfold bg_tid. lia. Qed.

Lemma step_not_done c s t o s' th : threads s !! t = Some th -> fstep c s (LStep t o) = Some s' -> t_pc th <> PDone.
Proof. intros Ht Hs Hp. unfold Failover.fstep in Hs. rewrite Ht, Hp in Hs. discriminate. Qed.

(* lookups after replacing the stepping thread *)
Lemma lookup_thr (m : gmap tid thread) t th' t1 th1 :
  <[t := th']> m !! t1 = Some th1 -> (t1 = t /\ th1 = th') \/ (t1 <> t /\ m !! t1 = Some th1).
Proof.
  destruct (decide (t1 = t)) as [->|Hne]; [rewrite lookup_insert; intros [= <-]; auto|].
  rewrite lookup_insert_ne by congruence. auto.
Qed.

Lemma ids_insert (m : gmap tid thread) t th th' :
  m !! t = Some th -> t_bg th' = t_bg th ->
  (forall t1 th1, m !! t1 = Some th1 ->
      ((t1 < 1000)%N /\ t_bg th1 = false) \/ (t_bg th1 = true /\ exists t0, t1 = bg_tid t0 /\ (t0 < 1000)%N /\ is_Some (m !! t0))) ->
  forall t1 th1, <[t := th']> m !! t1 = Some th1 ->
      ((t1 < 1000)%N /\ t_bg th1 = false) \/
      (t_bg th1 = true /\ exists t0, t1 = bg_tid t0 /\ (t0 < 1000)%N /\ is_Some (<[t := th']> m !! t0)).
Proof.
  intros Ht Hbg H t1 th1 Hl.
  assert (Hsome : forall t0, is_Some (m !! t0) -> is_Some (<[t := th']> m !! t0)).
  { intros t0 [x Hx]. destruct (decide (t0 = t)) as [->|Hne]; [rewrite lookup_insert; eauto|].
    rewrite lookup_insert_ne by congruence. eauto. }
  apply lookup_thr in Hl as [[-> ->]|[Hne Hl]].
  - destruct (H _ _ Ht) as [[? ?]|(? & t0 & ? & ? & ?)]; [left; split; congruence|right].
    split; [congruence|]. exists t0. auto.
  - destruct (H _ _ Hl) as [[? ?]|(? & t0 & ? & ? & ?)]; [left; auto|right]. split; [auto|]. exists t0. auto.
Qed.

Lemma bg_free_insert (m : gmap tid thread) t th th' :
  m !! t = Some th -> t_pc th <> PDone ->
  (forall t1 th1, m !! t1 = Some th1 -> (t1 < 1000)%N -> t_pc th1 <> PDone -> m !! bg_tid t1 = None) ->
  forall t1 th1, <[t := th']> m !! t1 = Some th1 -> (t1 < 1000)%N -> t_pc th1 <> PDone ->
                 <[t := th']> m !! bg_tid t1 = None.
Proof.
  intros Ht Hnd H t1 th1 Hl Hlt Hp.
  assert (Hb : m !! bg_tid t1 = None).
  { apply lookup_thr in Hl as [[-> ->]|[Hne Hl]]; eauto. }
  destruct (decide (bg_tid t1 = t)) as [Heq|Hne]; [congruence|].
  rewrite lookup_insert_ne by congruence. exact Hb.
Qed.

Lemma LInv_step c s l s' : LInv s -> fstep c s l = Some s' -> LInv s'.
Proof.
  intros [Htw Hlo Hol Huq Hkb Hop Hcl Hwk Hbf Hid] Hs. destruct l as [t k skip cell|t o].
  - (* a new Get *)
    cbn in Hs. destruct (threads s !! t) eqn:Ht; [discriminate|].
    destruct (t <? 1000)%N eqn:Hlt; [|discriminate]. injection Hs as <-. apply N.ltb_lt in Hlt.
    assert (Hbgt : threads s !! bg_tid t = None).
    { destruct (threads s !! bg_tid t) as [thb|] eqn:Hb; [|reflexivity].
      destruct (Hid _ _ Hb) as [[Hx _]|(_ & t0 & Heq & _ & [x Hx])]; [pose proof (bg_tid_ge t); lia|].
      unfold bg_tid in Heq. assert (t0 = t) by lia. subst. congruence. }
    constructor; cbn; auto.
    + intros t' th' Hl. apply lookup_thr in Hl as [[-> ->]|[Hne Hl]]; [twf_solve|eauto].
    + intros k' id Hk. destruct (Hlo _ _ Hk) as (t' & th' & Hl & Ho & Hkk).
      exists t', th'. split; [|auto]. rewrite lookup_insert_ne; [exact Hl|]. intros <-. congruence.
    + intros t' th' id Hl Ho. apply lookup_thr in Hl as [[-> ->]|[Hne Hl]]; [discriminate|eauto].
    + intros t1 t2 th1 th2 id H1 H2 Ho1 Ho2.
      apply lookup_thr in H1 as [[-> ->]|[Hn1 H1]]; [discriminate|].
      apply lookup_thr in H2 as [[-> ->]|[Hn2 H2]]; [discriminate|]. eauto.
    + intros t' th' id Hl Hw. apply lookup_thr in Hl as [[-> ->]|[Hne Hl]]; [discriminate|eauto].
    + intros t' th' Hl Hlt' Hnd. apply lookup_thr in Hl as [[-> ->]|[Hne Hl]].
      * rewrite lookup_insert_ne; [exact Hbgt|]. pose proof (bg_tid_ge t). lia.
      * rewrite lookup_insert_ne; [eauto|]. pose proof (bg_tid_ge t'). lia.
    + intros t' th' Hl.
      assert (Hsome : forall t0, is_Some (threads s !! t0) -> is_Some (<[t := mkThread PStart k skip cell 0 None None None false (0, None)]> (threads s) !! t0)).
      { intros t0 [x Hx]. destruct (decide (t0 = t)) as [->|Hne]; [rewrite lookup_insert; eauto|].
        rewrite lookup_insert_ne by congruence. eauto. }
      apply lookup_thr in Hl as [[-> ->]|[Hne Hl]]; [left; auto|].
      destruct (Hid _ _ Hl) as [?|(? & t0 & ? & ? & ?)]; [left; auto|right; split; [auto|exists t0; auto]].
  - (* a step of thread t *)
    destruct (threads s !! t) as [th|] eqn:Ht; [|unfold Failover.fstep in Hs; rewrite Ht in Hs; discriminate].
    pose proof (step_not_done _ _ _ _ _ _ Ht Hs) as Hnd.
    destruct (fstep_effect _ _ _ _ _ _ Ht (Htw _ _ Ht) Hs)
      as [th' [Hthr Hlk Hnx Hkl Hkey Hown Hwt Hbg] Htw'
         |th' Hno Hnk Hthr Hbt Hbt' Hlk Hkl Hnx Hkey Hown Hwt Htw'
         |th' id Hno Hsk Hthr Hbt Hbt' Hlk Hkl Hnx Hkey Hown Hwt Htw'
         |th' id Hso Hthr Hlk Hkl Hnx Hkey Hown Hpc Hbg Hwt Htw'
         |fg bg id Hso Hbgn Hthr Hbt Hbf' Hbb Hlk Hkl Hnx Hkf Hof Hwf Hpf Htwf Hkb' Hob Hwb Htwb].
    + (* local *)
      constructor; rewrite ?Hthr, ?Hlk, ?Hnx.
      * intros t1 th1 Hl. apply lookup_thr in Hl as [[-> ->]|[Hne Hl]]; eauto.
      * intros k id Hk. destruct (Hlo _ _ Hk) as (t0 & th0 & Hl & Ho & Hkk).
        destruct (decide (t0 = t)) as [->|Hne].
        -- exists t, th'. rewrite lookup_insert. rewrite Ht in Hl. injection Hl as <-. split; [reflexivity|]. split; congruence.
        -- exists t0, th0. rewrite lookup_insert_ne by congruence. auto.
      * intros t1 th1 id Hl Ho. apply lookup_thr in Hl as [[-> ->]|[Hne Hl]]; [|eauto].
        rewrite Hkey. apply (Hol _ _ _ Ht). congruence.
      * intros t1 t2 th1 th2 id H1 H2 Ho1 Ho2.
        apply lookup_thr in H1 as [[-> ->]|[Hn1 H1]]; apply lookup_thr in H2 as [[-> ->]|[Hn2 H2]]; auto.
        -- symmetry. apply (Huq _ _ _ _ id H2 Ht); congruence.
        -- apply (Huq _ _ _ _ id H1 Ht); congruence.
        -- eauto.
      * intros id x Hx. pose proof (closed_of_Some _ _ _ Hx) as Hc. rewrite Hkl in Hc.
        apply closed_of_inv in Hc as (x0 & Hx0 & _). eauto.
      * intros k id Hk. destruct (Hop _ _ Hk) as (x & Hx & Hc & Hkk).
        pose proof (closed_of_Some _ _ _ Hx) as Hcc. rewrite <- Hkl in Hcc.
        apply closed_of_inv in Hcc as (x' & Hx' & Hc' & Hk'). exists x'. split; [exact Hx'|]. split; congruence.
      * intros id x Hx Hc. pose proof (closed_of_Some _ _ _ Hx) as Hcc. rewrite Hkl in Hcc.
        apply closed_of_inv in Hcc as (x0 & Hx0 & Hc0 & Hk0). rewrite <- Hk0. apply Hcl; congruence.
      * intros t1 th1 id Hl Hw.
        assert (Hx : exists x, kls s !! id = Some x /\ kl_key x = t_key th1).
        { apply lookup_thr in Hl as [[-> ->]|[Hne Hl]]; [|eauto]. rewrite Hkey. apply (Hwk _ _ _ Ht). congruence. }
        destruct Hx as (x & Hx & Hkk). pose proof (closed_of_Some _ _ _ Hx) as Hcc. rewrite <- Hkl in Hcc.
        apply closed_of_inv in Hcc as (x' & Hx' & _ & Hk'). exists x'. split; [exact Hx'|congruence].
      * eapply bg_free_insert; eauto.
      * eapply ids_insert; eauto.
    + (* a new key lock *)
      constructor; rewrite ?Hthr, ?Hlk, ?Hnx, ?Hkl.
      * intros t1 th1 Hl. apply lookup_thr in Hl as [[-> ->]|[Hne Hl]]; eauto.
      * intros k id Hk. destruct (decide (k = t_key th)) as [->|Hnek].
        -- rewrite lookup_insert in Hk. injection Hk as <-. exists t, th'. rewrite lookup_insert. auto.
        -- rewrite lookup_insert_ne in Hk by congruence. destruct (Hlo _ _ Hk) as (t0 & th0 & Hl & Ho & Hkk).
           exists t0, th0. rewrite lookup_insert_ne; [auto|]. intros <-. congruence.
      * intros t1 th1 id Hl Ho. apply lookup_thr in Hl as [[-> ->]|[Hne Hl]].
        -- rewrite Hkey, lookup_insert. congruence.
        -- pose proof (Hol _ _ _ Hl Ho) as Hk. rewrite lookup_insert_ne; [exact Hk|]. intros Heq. congruence.
      * intros t1 t2 th1 th2 id H1 H2 Ho1 Ho2.
        assert (Hfresh : forall t0 th0, threads s !! t0 = Some th0 -> t_own th0 <> Some (next_kl s)).
        { intros t0 th0 Hl Ho. pose proof (Hol _ _ _ Hl Ho) as Hk. destruct (Hop _ _ Hk) as (x & Hx & _).
          pose proof (Hkb _ _ Hx). lia. }
        apply lookup_thr in H1 as [[-> ->]|[Hn1 H1]]; apply lookup_thr in H2 as [[-> ->]|[Hn2 H2]]; auto.
        -- exfalso. apply (Hfresh _ _ H2). congruence.
        -- exfalso. apply (Hfresh _ _ H1). congruence.
        -- eauto.
      * intros id x Hx. destruct (decide (id = next_kl s)) as [->|Hne]; [lia|].
        rewrite lookup_insert_ne in Hx by congruence. pose proof (Hkb _ _ Hx). lia.
      * intros k id Hk. destruct (decide (k = t_key th)) as [->|Hnek].
        -- rewrite lookup_insert in Hk. injection Hk as <-. rewrite lookup_insert. eexists. split; [reflexivity|]. auto.
        -- rewrite lookup_insert_ne in Hk by congruence. destruct (Hop _ _ Hk) as (x & Hx & Hc & Hkk).
           exists x. rewrite lookup_insert_ne; [auto|]. intros <-. pose proof (Hkb _ _ Hx). lia.
      * intros id x Hx Hc. destruct (decide (id = next_kl s)) as [->|Hne].
        -- rewrite lookup_insert in Hx. injection Hx as <-. cbn. apply lookup_insert.
        -- rewrite lookup_insert_ne in Hx by congruence. pose proof (Hcl _ _ Hx Hc) as Hk.
           rewrite lookup_insert_ne; [exact Hk|]. intros Heq. congruence.
      * intros t1 th1 id Hl Hw. apply lookup_thr in Hl as [[-> ->]|[Hne Hl]]; [congruence|].
        destruct (Hwk _ _ _ Hl Hw) as (x & Hx & Hkk). exists x. rewrite lookup_insert_ne; [auto|].
        intros <-. pose proof (Hkb _ _ Hx). lia.
      * eapply bg_free_insert; eauto.
      * eapply ids_insert; eauto; congruence.
    + (* found the key locked *)
      constructor; rewrite ?Hthr, ?Hlk, ?Hnx, ?Hkl; auto.
      * intros t1 th1 Hl. apply lookup_thr in Hl as [[-> ->]|[Hne Hl]]; eauto.
      * intros k id' Hk. destruct (Hlo _ _ Hk) as (t0 & th0 & Hl & Ho & Hkk).
        exists t0, th0. rewrite lookup_insert_ne; [auto|]. intros <-. congruence.
      * intros t1 th1 id' Hl Ho. apply lookup_thr in Hl as [[-> ->]|[Hne Hl]]; [congruence|eauto].
      * intros t1 t2 th1 th2 id' H1 H2 Ho1 Ho2.
        apply lookup_thr in H1 as [[-> ->]|[Hn1 H1]]; [congruence|].
        apply lookup_thr in H2 as [[-> ->]|[Hn2 H2]]; [congruence|]. eauto.
      * intros t1 th1 id' Hl Hw. apply lookup_thr in Hl as [[-> ->]|[Hne Hl]]; [|eauto].
        assert (id' = id) by congruence. subst. destruct (Hop _ _ Hsk) as (x & Hx & _ & Hkk). exists x. split; [exact Hx|congruence].
      * eapply bg_free_insert; eauto.
      * eapply ids_insert; eauto; congruence.
    + (* release *)
      pose proof (Hol _ _ _ Ht Hso) as Hmine.
      constructor; rewrite ?Hthr, ?Hlk, ?Hnx, ?Hkl.
      * intros t1 th1 Hl. apply lookup_thr in Hl as [[-> ->]|[Hne Hl]]; eauto.
      * intros k id' Hk. apply lookup_delete_Some in Hk as [Hnek Hk].
        destruct (Hlo _ _ Hk) as (t0 & th0 & Hl & Ho & Hkk).
        exists t0, th0. rewrite lookup_insert_ne; [auto|]. intros <-. congruence.
      * intros t1 th1 id' Hl Ho. apply lookup_thr in Hl as [[-> ->]|[Hne Hl]]; [congruence|].
        pose proof (Hol _ _ _ Hl Ho) as Hk. rewrite lookup_delete_ne; [exact Hk|].
        intros Heq. rewrite <- Heq in Hk. assert (id' = id) by congruence. subst.
        apply Hne. apply (Huq _ _ _ _ id Hl Ht Ho Hso).
      * intros t1 t2 th1 th2 id' H1 H2 Ho1 Ho2.
        apply lookup_thr in H1 as [[-> ->]|[Hn1 H1]]; [congruence|].
        apply lookup_thr in H2 as [[-> ->]|[Hn2 H2]]; [congruence|]. eauto.
      * intros id' x Hx. apply lookup_alter_Some in Hx as [(_ & x0 & Hx0 & _)|[_ Hx0]]; eauto.
      * intros k id' Hk. apply lookup_delete_Some in Hk as [Hnek Hk].
        destruct (Hop _ _ Hk) as (x & Hx & Hc & Hkk). exists x. rewrite lookup_alter_ne; [auto|].
        intros <-. destruct (Hop _ _ Hmine) as (x2 & Hx2 & _ & Hk2). congruence.
      * intros id' x Hx Hc. apply lookup_alter_Some in Hx as [(<- & x0 & Hx0 & ->)|[Hne Hx0]]; [discriminate|].
        pose proof (Hcl _ _ Hx0 Hc) as Hk. rewrite lookup_delete_ne; [exact Hk|].
        intros Heq. rewrite <- Heq in Hk. congruence.
      * intros t1 th1 id' Hl Hw.
        assert (Hx : exists x, kls s !! id' = Some x /\ kl_key x = t_key th1).
        { apply lookup_thr in Hl as [[-> ->]|[Hne Hl]]; [|eauto].
          rewrite Hkey. apply (Hwk _ _ _ Ht). congruence. }
        destruct Hx as (x & Hx & Hkk). destruct (decide (id' = id)) as [->|Hne].
        -- eexists. rewrite lookup_alter, Hx. split; [reflexivity|exact Hkk].
        -- exists x. rewrite lookup_alter_ne by congruence. auto.
      * intros t1 th1 Hl Hlt Hp. apply lookup_thr in Hl as [[-> ->]|[Hne Hl]]; [congruence|].
        pose proof (Hbf _ _ Hl Hlt Hp) as Hb.
        destruct (decide (bg_tid t1 = t)) as [Heq|Hn]; [congruence|]. rewrite lookup_insert_ne by congruence. exact Hb.
      * eapply ids_insert; eauto.
    + (* the build moves to a background goroutine *)
      assert (Hnt : bg_tid t <> t) by (unfold bg_tid; lia).
      assert (Hlt : (t < 1000)%N).
      { destruct (Hid _ _ Ht) as [[? _]|[? _]]; [assumption|congruence]. }
      assert (Hlk2 : forall t1 th1, <[bg_tid t := bg]> (<[t := fg]> (threads s)) !! t1 = Some th1 ->
                (t1 = bg_tid t /\ th1 = bg) \/ (t1 = t /\ th1 = fg) \/ (t1 <> t /\ t1 <> bg_tid t /\ threads s !! t1 = Some th1)).
      { intros t1 th1 Hl. apply lookup_thr in Hl as [[-> ->]|[Hne Hl]]; [auto|].
        apply lookup_thr in Hl as [[-> ->]|[Hne2 Hl]]; auto. }
      constructor; rewrite ?Hthr, ?Hlk, ?Hnx, ?Hkl; auto.
      * intros t1 th1 Hl. apply Hlk2 in Hl as [[-> ->]|[[-> ->]|(_ & _ & Hl)]]; eauto.
      * intros k id' Hk. destruct (Hlo _ _ Hk) as (t0 & th0 & Hl & Ho & Hkk).
        destruct (decide (t0 = t)) as [->|Hne].
        -- rewrite Ht in Hl. injection Hl as <-. exists (bg_tid t), bg. rewrite lookup_insert. split; [reflexivity|]. split; congruence.
        -- exists t0, th0. rewrite lookup_insert_ne, lookup_insert_ne by congruence. auto.
      * intros t1 th1 id' Hl Ho. apply Hlk2 in Hl as [[-> ->]|[[-> ->]|(_ & _ & Hl)]]; [|congruence|eauto].
        rewrite Hkb'. apply (Hol _ _ _ Ht). congruence.
      * intros t1 t2 th1 th2 id' H1 H2 Ho1 Ho2.
        apply Hlk2 in H1 as [[-> ->]|[[-> ->]|(Hn1 & Hn1' & H1)]]; apply Hlk2 in H2 as [[-> ->]|[[-> ->]|(Hn2 & Hn2' & H2)]];
          auto; try congruence.
        -- exfalso. apply Hn2. apply (Huq _ _ _ _ id H2 Ht); congruence.
        -- exfalso. apply Hn1. apply (Huq _ _ _ _ id H1 Ht); congruence.
        -- eauto.
      * intros t1 th1 id' Hl Hw. apply Hlk2 in Hl as [[-> ->]|[[-> ->]|(_ & _ & Hl)]]; [congruence| |eauto].
        congruence.
      * intros t1 th1 Hl Hlt1 Hp. apply Hlk2 in Hl as [[-> ->]|[[-> ->]|(Hn1 & Hn2 & Hl)]].
        -- pose proof (bg_tid_ge t). lia.
        -- congruence.
        -- pose proof (Hbf _ _ Hl Hlt1 Hp) as Hb.
           rewrite lookup_insert_ne by (intros Heq; apply bg_tid_inj in Heq; congruence).
           destruct (decide (bg_tid t1 = t)) as [Heq|Hn]; [congruence|]. rewrite lookup_insert_ne by congruence. exact Hb.
      * intros t1 th1 Hl.
        assert (Hsome : forall t0, is_Some (threads s !! t0) -> is_Some (<[bg_tid t := bg]> (<[t := fg]> (threads s)) !! t0)).
        { intros t0 [x Hx]. destruct (decide (t0 = bg_tid t)) as [->|Hne]; [rewrite lookup_insert; eauto|].
          rewrite lookup_insert_ne by congruence. destruct (decide (t0 = t)) as [->|Hne2]; [rewrite lookup_insert; eauto|].
          rewrite lookup_insert_ne by congruence. eauto. }
        apply Hlk2 in Hl as [[-> ->]|[[-> ->]|(_ & _ & Hl)]].
        -- right. split; [exact Hbb|]. exists t. split; [reflexivity|]. split; [exact Hlt|]. apply Hsome. eauto.
        -- left. auto.
        -- destruct (Hid _ _ Hl) as [?|(? & t0 & ? & ? & ?)]; [left; auto|right; split; [auto|exists t0; auto]].
Qed.

(* every reachable state satisfies the invariant *)
Lemma LInv_run c ls : forall s s', LInv s -> frun c s ls = Some s' -> LInv s'.
Proof.
  induction ls as [|l ls IH]; intros s s' Hi Hr; cbn in Hr.
  - injection Hr as <-. exact Hi.
  - destruct (fstep c s l) as [s1|] eqn:Hs; [|discriminate]. eapply IH; [|exact Hr]. eapply LInv_step; eauto.
Qed.


(* ------------------------------------------------------------------ *)
(* C01: at most one thread per key is inside the builder, in every reachable state *)
Definition in_builder (th : thread) : Prop := t_pc th = PBuilderEntry \/ t_pc th = PBuilderExit.

Lemma no_overlapping_builds c ls s :
  frun c f0 ls = Some s ->
  forall t1 t2 th1 th2, threads s !! t1 = Some th1 -> threads s !! t2 = Some th2 ->
    in_builder th1 -> in_builder th2 -> t_key th1 = t_key th2 -> t1 = t2.
Proof.
  intros Hr t1 t2 th1 th2 H1 H2 Hb1 Hb2 Hk.
  pose proof (LInv_run _ _ _ _ LInv_init Hr) as [Htw _ Hol Huq _ _ _ _ _ _].
  assert (Ho1 : is_Some (t_own th1)) by (apply (tw_own _ (Htw _ _ H1)); destruct Hb1 as [-> | ->]; reflexivity).
  assert (Ho2 : is_Some (t_own th2)) by (apply (tw_own _ (Htw _ _ H2)); destruct Hb2 as [-> | ->]; reflexivity).
  destruct Ho1 as [id1 Ho1], Ho2 as [id2 Ho2].
  pose proof (Hol _ _ _ H1 Ho1) as Hl1. pose proof (Hol _ _ _ H2 Ho2) as Hl2. rewrite Hk in Hl1.
  assert (id1 = id2) by congruence. subst. eapply Huq; eauto.
Qed.

(* more generally: the whole owner region (refresh, failure cache, build, publish, release) is exclusive per key *)
Lemma owner_region_exclusive c ls s :
  frun c f0 ls = Some s ->
  forall t1 t2 th1 th2, threads s !! t1 = Some th1 -> threads s !! t2 = Some th2 ->
    needs_own (t_pc th1) = true -> needs_own (t_pc th2) = true -> t_key th1 = t_key th2 -> t1 = t2.
Proof.
  intros Hr t1 t2 th1 th2 H1 H2 Hb1 Hb2 Hk.
  pose proof (LInv_run _ _ _ _ LInv_init Hr) as [Htw _ Hol Huq _ _ _ _ _ _].
  destruct (tw_own _ (Htw _ _ H1) Hb1) as [id1 Ho1]. destruct (tw_own _ (Htw _ _ H2) Hb2) as [id2 Ho2].
  pose proof (Hol _ _ _ H1 Ho1) as Hl1. pose proof (Hol _ _ _ H2 Ho2) as Hl2. rewrite Hk in Hl1.
  assert (id1 = id2) by congruence. subst. eapply Huq; eauto.
Qed.

(* C04: when every Get and every background build has finished, no key lock remains and every key
   lock that ever existed has been closed *)
Lemma quiescent_unlocked c ls s :
  frun c f0 ls = Some s -> all_done s ->
  keyLocks s = ∅ /\ forall id x, kls s !! id = Some x -> kl_closed x = true.
Proof.
  intros Hr Hd. pose proof (LInv_run _ _ _ _ LInv_init Hr) as [Htw Hlo _ _ _ _ Hcl _ _ _].
  assert (He : keyLocks s = ∅).
  { apply map_empty. intros k. destruct (keyLocks s !! k) as [id|] eqn:Hk; [|reflexivity].
    destruct (Hlo _ _ Hk) as (t & th & Hl & Ho & _).
    pose proof (tw_done _ (Htw _ _ Hl) (Hd _ _ Hl)). congruence. }
  split; [exact He|]. intros id x Hx. destruct (kl_closed x) eqn:Hc; [reflexivity|].
  pose proof (Hcl _ _ Hx Hc) as Hk. rewrite He, lookup_empty in Hk. discriminate.
Qed.

(* C04: no deadlock. In every reachable state that is not finished, some thread can take a step
   (whatever the oracle answers): the call-outs return, so every Get completes. *)
Lemma enabled_unless_waiting c s t th o :
  LInv s -> threads s !! t = Some th -> t_pc th <> PDone -> t_pc th <> PWaiting ->
  exists s', fstep c s (LStep t o) = Some s'.
Proof.
  intros [Htw _ _ _ _ _ _ _ Hbf Hid] Ht Hnd Hnw.
  pose proof (Htw _ _ Ht) as [Hbgf Hown Hwait Herr Hdone Hearly Hmid].
  unfold Failover.fstep. rewrite Ht.
  destruct (t_pc th) eqn:Hpc; try contradiction; cbn in *; eauto.
  - destruct (o_rd o); eauto.
  - destruct (keyLocks s !! t_key th); eauto.
  - destruct (o_rd o); eauto.
  - destruct (t_own th); destruct (t_err th) as [[| | |]|]; eauto;
      try (destruct (fresh_enough fe c (o_now o) at_); eauto); destruct (f_variant c); eauto.
  - destruct (Hown eq_refl) as [id ->]. destruct (o_wr o); eauto.
  - destruct (Hown eq_refl) as [id ->].
    match goal with |- context [match ?h with _ => _ end] => destruct h end; eauto.
  - destruct (f_sync_update c || bool_decide (t_err th <> None)); eauto.
    assert (Hlt : (t < 1000)%N).
    { destruct (Hid _ _ Ht) as [[? _]|[Hb _]]; [assumption|]. specialize (Hbgf Hb). discriminate. }
    rewrite (Hbf _ _ Ht Hlt) by congruence. eauto.
  - destruct (o_built o); eauto.
  - destruct (Herr eq_refl) as [e ->]. eauto.
  - destruct (o_wr o); eauto.
  - destruct (Hown eq_refl) as [id ->]. destruct ((t_res th).2); eauto.
  - destruct (fallback nilb c th); eauto.
  - destruct (Hown eq_refl) as [id ->]. eauto.
Qed.

Lemma no_deadlock c ls s o :
  frun c f0 ls = Some s -> ~ all_done s ->
  exists t s', fstep c s (LStep t o) = Some s'.
Proof.
  intros Hr Hnd. pose proof (LInv_run _ _ _ _ LInv_init Hr) as Hi.
  (* some thread is not done *)
  assert (Hex : exists t th, threads s !! t = Some th /\ t_pc th <> PDone).
  { destruct (decide (map_Forall (fun _ th => t_pc th = PDone) (threads s))) as [Hall|Hn].
    - exfalso. apply Hnd. intros t th Hl. apply (Hall _ _ Hl).
    - apply map_not_Forall in Hn; [|apply _]. destruct Hn as (t & th & Hl & Hp). eauto. }
  destruct Hex as (t & th & Ht & Hp).
  destruct (decide (t_pc th = PWaiting)) as [Hw|Hnw]; [|destruct (enabled_unless_waiting c s t th o Hi Ht Hp Hnw) as [s' Hs]; eauto].
  (* a waiter: either its lock is closed (it can return) or the lock's owner can move *)
  destruct Hi as [Htw Hlo Hol Huq Hkb Hop Hcl Hwk Hbf Hid].
  destruct (tw_wait _ (Htw _ _ Ht)) as [Hno [id Hwt]]; [rewrite Hw; reflexivity|].
  destruct (Hwk _ _ _ Ht Hwt) as (x & Hx & Hkx).
  destruct (kl_closed x) eqn:Hc.
  - exists t. unfold Failover.fstep. rewrite Ht, Hw, Hwt, Hx, Hc. eauto.
  - pose proof (Hcl _ _ Hx Hc) as Hk. destruct (Hlo _ _ Hk) as (t' & th' & Hl' & Ho' & _).
    assert (Hi : LInv s) by (constructor; assumption).
    assert (Hp' : t_pc th' <> PDone) by (intros Hd; pose proof (tw_done _ (Htw _ _ Hl') Hd); congruence).
    assert (Hw' : t_pc th' <> PWaiting).
    { intros Hd. destruct (tw_wait _ (Htw _ _ Hl')) as [Hn _]; [rewrite Hd; reflexivity|]. congruence. }
    destruct (enabled_unless_waiting c s t' th' o Hi Hl' Hp' Hw') as [s' Hs]. eauto.
Qed.


(* ------------------------------------------------------------------ *)
(* C04: bounded progress. Every step of a thread strictly decreases a measure; a Get and its
   background build take at most 30 steps of their own. *)
Definition rank (p : pc) : nat :=
  match p with
  | PStart => 30 | PPreRead => 29 | PAcquire => 28 | PSyncRead => 27 | PClassify => 26
  | PWaitLog => 25 | PWaiting => 24 | PRefreshLog => 23 | PRefreshStat => 22 | PRefreshWrite => 21
  | PFailCache => 20 | PCtxSync => 19 | PBuildLog => 18 | PBuilderEntry => 17 | PBuilderExit => 16
  | PStatFailed => 15 | PErrWrite => 14 | PBuildWrite => 13 | PStatBuild => 12 | PPublish => 11
  | PWarnLog => 10 | PFallback => 9 | PRelease => 8 | PDone => 0
  end.

Definition msum (m : gmap tid thread) : nat := map_fold (fun _ th acc => rank (t_pc th) + acc)%nat 0%nat m.

Lemma msum_insert_new m t th : m !! t = None -> msum (<[t := th]> m) = (rank (t_pc th) + msum m)%nat.
Proof.
  intros Hn. unfold msum. rewrite map_fold_insert_L; [reflexivity| |exact Hn]. intros. lia.
Qed.

Lemma msum_insert_upd m t th th' : m !! t = Some th -> (msum (<[t := th']> m) + rank (t_pc th) = msum m + rank (t_pc th'))%nat.
Proof.
  intros Hl. rewrite <- (insert_delete m t th Hl) at 2. rewrite <- (insert_delete_insert m t th').
  rewrite !msum_insert_new by apply lookup_delete. lia.
Qed.

Definition measure (s : fstate) : nat := msum (threads s).

Ltac fstep_cases Hs Ht :=
  unfold Failover.fstep in Hs; rewrite Ht in Hs;
  repeat match type of Hs with
  | context [match ?x with _ => _ end] => destruct x eqn:?; try discriminate
  end; try (injection Hs as <-).

Lemma fstep_rank c s t o s' th :
  threads s !! t = Some th -> fstep c s (LStep t o) = Some s' ->
  (exists th', threads s' = <[t := th']> (threads s) /\ (rank (t_pc th') < rank (t_pc th))%nat) \/
  (exists fg bg, threads s' = <[bg_tid t := bg]> (<[t := fg]> (threads s)) /\ threads s !! bg_tid t = None /\
                 (rank (t_pc fg) + rank (t_pc bg) < rank (t_pc th))%nat).
Proof.
  intros Ht Hs. fstep_cases Hs Ht.
  all: try (left; eexists; split; [cbn; reflexivity|];
            unfold leave, set_res, set_pc, to_wait, to_refresh, after_refresh_log, to_build, after_failed, to_stat_build in *;
            cbn; repeat case_match; cbn; lia).
  all: try (right; do 2 eexists; split; [cbn; reflexivity|]; split; [first [assumption|reflexivity]|];
            unfold to_build; cbn; repeat case_match; cbn; lia).
Qed.

Lemma fstep_measure c s t o s' : fstep c s (LStep t o) = Some s' -> (measure s' < measure s)%nat.
Proof.
  intros Hs. destruct (threads s !! t) as [th|] eqn:Ht; [|unfold Failover.fstep in Hs; rewrite Ht in Hs; discriminate].
  destruct (fstep_rank _ _ _ _ _ _ Ht Hs) as [(th' & Hthr & Hr)|(fg & bg & Hthr & Hn & Hr)]; unfold measure; rewrite Hthr.
  - pose proof (msum_insert_upd (threads s) t th th' Ht). lia.
  - rewrite msum_insert_new by (rewrite lookup_insert_ne; [exact Hn|unfold bg_tid; lia]).
    pose proof (msum_insert_upd (threads s) t th fg Ht). lia.
Qed.

(* hence: a schedule consisting of thread steps only (no new Get arrives) has at most [measure s] steps *)
Definition is_step (l : flabel) : bool := match l with LStep _ _ => true | LSpawn _ _ _ _ => false end.

Lemma steps_bounded c ls : forall s s',
  forallb is_step ls = true -> frun c s ls = Some s' -> (length ls + measure s' <= measure s)%nat.
Proof.
  induction ls as [|l ls IH]; intros s s' Hall Hr; cbn in *.
  - injection Hr as <-. lia.
  - apply andb_prop in Hall as [Hl Hall]. destruct (fstep c s l) as [s1|] eqn:Hs; [|discriminate].
    destruct l as [|t o]; [discriminate|]. pose proof (fstep_measure _ _ _ _ _ Hs). specialize (IH _ _ Hall Hr). lia.
Qed.

(* a new Get adds exactly 30 to the measure *)
Lemma spawn_measure c s t k skip cell s' :
  fstep c s (LSpawn t k skip cell) = Some s' -> measure s' = (30 + measure s)%nat.
Proof.
  cbn. destruct (threads s !! t) eqn:Ht; [discriminate|]. destruct (t <? 1000)%N; [|discriminate].
  intros [= <-]. unfold measure; cbn. rewrite msum_insert_new by exact Ht. reflexivity.
Qed.


(* ------------------------------------------------------------------ *)
(* what a step appends to the ghost log, as a function of the pc transition *)
Inductive bev := BStart (k : key) | BEnd (k : key) (ok : bool) | BStat (m : metric) | BRefresh.

Definition bproj (e : fev) : option bev :=
  match e with
  | FBuildStart _ k => Some (BStart k)
  | FBuildEnd _ k r => Some (BEnd k (match r with inl _ => true | inr _ => false end))
  | FStat _ m => Some (BStat m)
  | FWrite _ _ _ _ true _ => Some BRefresh
  | _ => None
  end.

Definition inb (p : pc) : bool := match p with PBuilderEntry | PBuilderExit => true | _ => false end.

(* events expected from the transition of one thread from pc p to pc p' (key k) *)
Definition trans_evs (k : key) (p p' : pc) (built_ok : bool) : list bev :=
  (match p with
   | PRefreshStat => [BStat MRefreshed]
   | PRefreshWrite => [BRefresh]
   | PStatFailed => [BStat MFailed]
   | PStatBuild => [BStat MBuild]
   | PBuilderExit => [BEnd k built_ok]
   | _ => []
   end) ++ (if negb (inb p) && inb p' then [BStart k] else []).

(* program counters a step can lead to *)
Definition succs (c : fcfg) (p : pc) : list pc :=
  match p with
  | PStart => [PAcquire; PPreRead]
  | PPreRead => [PDone; PAcquire]
  | PAcquire => [PSyncRead; PClassify]
  | PSyncRead => [PRelease; PDone; PClassify]
  | PClassify => [PDone; to_wait c; to_refresh c; PFailCache; PRelease]
  | PWaitLog => [PWaiting]
  | PWaiting => [PDone]
  | PRefreshLog => [after_refresh_log c]
  | PRefreshStat => [PRefreshWrite]
  | PRefreshWrite => [PFailCache; PRelease; PDone]
  | PFailCache => [PRelease; PDone; PCtxSync]
  | PCtxSync => [to_build c]
  | PBuildLog => [PBuilderEntry]
  | PBuilderEntry => [PBuilderExit]
  | PBuilderExit => [PBuildWrite; (if f_stat c then PStatFailed else after_failed c)]
  | PStatFailed => [after_failed c]
  | PErrWrite => [to_stat_build c]
  | PBuildWrite => [to_stat_build c]
  | PStatBuild => [PPublish]
  | PPublish => [PRelease; PWarnLog; PFallback]
  | PWarnLog => [PRelease; PFallback]
  | PFallback => [PRelease]
  | PRelease => [PDone]
  | PDone => []
  end.

Lemma step_shape c s t o s' th :
  threads s !! t = Some th -> fstep c s (LStep t o) = Some s' ->
  exists evs, flog s' = flog s ++ evs /\
    ((exists th', threads s' = <[t := th']> (threads s) /\ t_key th' = t_key th /\ In (t_pc th') (succs c (t_pc th)) /\
        (t_pc th = PBuilderExit -> (t_pc th' = PBuildWrite <-> exists v, o_built o = inl v)) /\
        omap bproj evs = trans_evs (t_key th) (t_pc th) (t_pc th') (match o_built o with inl _ => true | inr _ => false end)) \/
     (exists fg bg, threads s' = <[bg_tid t := bg]> (<[t := fg]> (threads s)) /\ threads s !! bg_tid t = None /\
        t_pc th = PCtxSync /\ t_pc fg = PDone /\ t_pc bg = to_build c /\ t_key bg = t_key th /\ t_key fg = t_key th /\
        omap bproj evs = (if inb (t_pc bg) then [BStart (t_key th)] else []))).
Proof.
  intros Ht Hs. fstep_cases Hs Ht.
  all: try (eexists; split; [first [cbn; reflexivity|cbn; symmetry; apply app_nil_r]|]; left; eexists; split; [cbn; reflexivity|]; split;
            [unfold leave, set_res, set_pc; cbn; repeat case_match; reflexivity|]; split;
            [unfold succs, leave, set_res, set_pc; cbn; repeat case_match; cbn; first [tauto|congruence]|]; split;
            [cbn; intros Hx; first [discriminate Hx | (unfold after_failed, to_stat_build; split; [intros Hy; first [solve [eauto] | (repeat case_match; discriminate Hy)] | intros [? Hz]; first [reflexivity | congruence | discriminate Hz]])]|];
            unfold trans_evs, leave, set_res, set_pc, ret_events, build_ev, to_wait, to_refresh, after_refresh_log, to_build, after_failed, to_stat_build in *;
            cbn; repeat case_match; cbn in *; try reflexivity; try congruence; try discriminate).
  all: try (eexists; split; [cbn; reflexivity|]; right; do 2 eexists; split; [cbn; reflexivity|];
            split; [first [assumption|reflexivity]|]; cbn; unfold build_ev, to_build; repeat case_match; cbn in *; try discriminate; repeat split; auto).
Qed.


(* ------------------------------------------------------------------ *)
(* counting framework: (weighted events in the log) = (weighted threads), by induction over runs *)
Definition zsum (f : thread -> Z) (m : gmap tid thread) : Z := map_fold (fun _ th acc => f th + acc) 0 m.

Lemma zsum_insert_new f m t th : m !! t = None -> zsum f (<[t := th]> m) = f th + zsum f m.
Proof. intros Hn. unfold zsum. rewrite map_fold_insert_L; [reflexivity| |exact Hn]. intros. lia. Qed.

Lemma zsum_insert_upd f m t th th' : m !! t = Some th -> zsum f (<[t := th']> m) = zsum f m + f th' - f th.
Proof.
  intros Hl. rewrite <- (insert_delete m t th Hl) at 2. rewrite <- (insert_delete_insert m t th').
  rewrite !zsum_insert_new by apply lookup_delete. lia.
Qed.

Lemma zsum_empty f : zsum f ∅ = 0.
Proof. unfold zsum. apply map_fold_empty. Qed.

Lemma zsum_zero f m : (forall t th, m !! t = Some th -> f th = 0) -> zsum f m = 0.
Proof.
  induction m as [|t th m Hn IH] using map_ind; intros H; [apply zsum_empty|].
  rewrite zsum_insert_new by exact Hn. rewrite IH.
  - rewrite (H t th); [lia|apply lookup_insert].
  - intros t' th' Hl. apply (H t'). rewrite lookup_insert_ne; [exact Hl|]. intros <-. congruence.
Qed.

Section Count.
  Context (c : fcfg) (w : key -> pc -> Z) (d : bev -> Z).
  Definition dsum (l : list bev) : Z := foldr (fun e a => d e + a) 0 l.
  Definition wthreads (s : fstate) : Z := zsum (fun th => w (t_key th) (t_pc th)) (threads s).

  Hypothesis Hstart : forall k, w k PStart = 0.
  Hypothesis Hdone : forall k, w k PDone = 0.
  Hypothesis Htrans : forall k p p' ok, In p' (succs c p) ->
      (p = PBuilderExit -> (p' = PBuildWrite <-> ok = true)) ->
      dsum (trans_evs k p p' ok) = w k p' - w k p.
  Hypothesis Hspawn : forall k, dsum (if inb (to_build c) then [BStart k] else []) = w k (to_build c) - w k PCtxSync.

  Lemma dsum_app l1 l2 : dsum (l1 ++ l2) = dsum l1 + dsum l2.
  Proof. unfold dsum. induction l1 as [|e l1 IH]; cbn [app foldr]; lia. Qed.

  Lemma count_step s l s' :
    fstep c s l = Some s' -> dsum (omap bproj (flog s')) - wthreads s' = dsum (omap bproj (flog s)) - wthreads s.
  Proof.
    intros Hs. destruct l as [t k skip cell|t o].
    - cbn in Hs. destruct (threads s !! t) eqn:Ht; [discriminate|]. destruct (t <? 1000)%N; [|discriminate].
      injection Hs as <-. unfold wthreads; cbn [threads flog upd_thread]. rewrite app_nil_r, zsum_insert_new by exact Ht. cbn [t_key t_pc]. rewrite Hstart. lia.
    - destruct (threads s !! t) as [th|] eqn:Ht; [|unfold Failover.fstep in Hs; rewrite Ht in Hs; discriminate].
      destruct (step_shape _ _ _ _ _ _ Ht Hs) as (evs & Hlog & [(th' & Hthr & Hk & Hin & Hex & Hev)|(fg & bg & Hthr & Hn & Hp & Hpf & Hpb & Hkb & Hkf & Hev)]).
      + rewrite Hlog, omap_app, dsum_app, Hev. unfold wthreads. rewrite Hthr, (zsum_insert_upd _ _ _ _ _ Ht). cbn beta. rewrite Hk.
        rewrite (Htrans (t_key th) (t_pc th) (t_pc th')); [lia|exact Hin|].
        intros Hb. rewrite (Hex Hb). destruct (o_built o); split; intros; eauto; try discriminate. destruct H as [? ?]; discriminate.
      + rewrite Hlog, omap_app, dsum_app, Hev. unfold wthreads. rewrite Hthr.
        rewrite zsum_insert_new by (rewrite lookup_insert_ne; [exact Hn|unfold bg_tid; lia]).
        rewrite (zsum_insert_upd _ _ _ _ _ Ht). cbn beta. rewrite Hkb, Hkf, Hp, Hpf, Hpb, Hdone.
        pose proof (Hspawn (t_key th)) as Hsp. rewrite Hpb in Hev. lia.
  Qed.

  Lemma count_run ls : forall s s', frun c s ls = Some s' ->
    dsum (omap bproj (flog s')) - wthreads s' = dsum (omap bproj (flog s)) - wthreads s.
  Proof.
    induction ls as [|l ls IH]; intros s s' Hr; cbn in Hr; [injection Hr as <-; reflexivity|].
    destruct (fstep c s l) as [s1|] eqn:Hs; [|discriminate]. rewrite (IH _ _ Hr). eapply count_step; eauto.
  Qed.

  Lemma count_inv ls s : frun c f0 ls = Some s -> dsum (omap bproj (flog s)) = wthreads s.
  Proof. intros Hr. pose proof (count_run _ _ _ Hr) as H. unfold wthreads in H at 2. cbn in H. rewrite zsum_empty in H. lia. Qed.

  Lemma count_quiescent ls s : frun c f0 ls = Some s -> all_done s -> dsum (omap bproj (flog s)) = 0.
  Proof.
    intros Hr Hd. rewrite (count_inv _ _ Hr). unfold wthreads. apply zsum_zero. intros t th Hl. rewrite (Hd _ _ Hl). apply Hdone.
  Qed.
End Count.


(* ------------------------------------------------------------------ *)
(* C18 (failover part): metrics of the frontend *)
Definition b2z (b : bool) : Z := if b then 1 else 0.
Definition cntb (p : bev -> bool) (l : list bev) : Z := foldr (fun e a => b2z (p e) + a) 0 l.

Lemma dsum_diff (pin pout : bev -> bool) l :
  dsum (fun e => b2z (pin e) - b2z (pout e)) l = cntb pin l - cntb pout l.
Proof. unfold dsum, cntb. induction l as [|e l IH]; cbn [foldr]; lia. Qed.

Definition is_bstart (e : bev) : bool := match e with BStart _ => true | _ => false end.
Definition is_bfail (e : bev) : bool := match e with BEnd _ false => true | _ => false end.
Definition is_brefresh (e : bev) : bool := match e with BRefresh => true | _ => false end.
Definition is_bstat (m : metric) (e : bev) : bool := match e with BStat m' => bool_decide (m = m') | _ => false end.

Definition in_build_region (p : pc) : bool :=
  match p with PBuilderEntry | PBuilderExit | PStatFailed | PErrWrite | PBuildWrite | PStatBuild => true | _ => false end.

Ltac trans_solve Hstat :=
  intros k p p' ok Hin Hex; destruct p; cbn [succs In] in Hin;
  unfold to_wait, to_refresh, after_refresh_log, to_build, after_failed, to_stat_build in Hin; rewrite ?Hstat in Hin;
  repeat match type of Hin with
         | _ \/ _ => destruct Hin as [Hin|Hin]
         | False => destruct Hin
         | context [if ?b then _ else _] => destruct b eqn:?
         end; subst; try discriminate;
  destruct ok;
  first [reflexivity
        | (exfalso; destruct (Hex eq_refl) as [H1 H2]; first [discriminate (H2 eq_refl)|discriminate (H1 eq_refl)])].

Lemma builds_counted c ls s :
  f_stat c = true -> frun c f0 ls = Some s ->
  cntb is_bstart (omap bproj (flog s)) - cntb (is_bstat MBuild) (omap bproj (flog s))
  = wthreads (fun _ p => b2z (in_build_region p)) s.
Proof.
  intros Hstat Hr. rewrite <- dsum_diff.
  apply (count_inv c (fun _ p => b2z (in_build_region p)) _) with (ls := ls); auto.
  - trans_solve Hstat.
  - intros k. unfold to_build. destruct (f_debug c); reflexivity.
Qed.

Lemma failed_counted c ls s :
  f_stat c = true -> frun c f0 ls = Some s ->
  cntb is_bfail (omap bproj (flog s)) - cntb (is_bstat MFailed) (omap bproj (flog s))
  = wthreads (fun _ p => b2z (bool_decide (p = PStatFailed))) s.
Proof.
  intros Hstat Hr. rewrite <- dsum_diff.
  apply (count_inv c (fun _ p => b2z (bool_decide (p = PStatFailed))) _) with (ls := ls); auto.
  - trans_solve Hstat.
  - intros k. unfold to_build. destruct (f_debug c); reflexivity.
Qed.

Lemma refreshed_counted c ls s :
  f_stat c = true -> frun c f0 ls = Some s ->
  cntb (is_bstat MRefreshed) (omap bproj (flog s)) - cntb is_brefresh (omap bproj (flog s))
  = wthreads (fun _ p => b2z (bool_decide (p = PRefreshWrite))) s.
Proof.
  intros Hstat Hr. rewrite <- dsum_diff.
  apply (count_inv c (fun _ p => b2z (bool_decide (p = PRefreshWrite))) _) with (ls := ls); auto.
  - trans_solve Hstat.
  - intros k. unfold to_build. destruct (f_debug c); reflexivity.
Qed.

Lemma wthreads_done w s : (forall k, w k PDone = 0) -> all_done s -> wthreads w s = 0.
Proof. intros Hd Ha. unfold wthreads. apply zsum_zero. intros t th Hl. rewrite (Ha _ _ Hl). apply Hd. Qed.

(* at quiescence the totals agree exactly *)
Lemma failover_totals c ls s :
  f_stat c = true -> frun c f0 ls = Some s -> all_done s ->
  let l := omap bproj (flog s) in
  cntb (is_bstat MBuild) l = cntb is_bstart l /\
  cntb (is_bstat MFailed) l = cntb is_bfail l /\
  cntb (is_bstat MRefreshed) l = cntb is_brefresh l.
Proof.
  intros Hstat Hr Hd. cbn zeta.
  pose proof (builds_counted _ _ _ Hstat Hr) as H1. pose proof (failed_counted _ _ _ Hstat Hr) as H2.
  pose proof (refreshed_counted _ _ _ Hstat Hr) as H3.
  rewrite wthreads_done in H1, H2, H3 by (auto; reflexivity). lia.
Qed.


(* ------------------------------------------------------------------ *)
(* C01 on the event log: builder intervals of one key never overlap *)
Fixpoint pscan (open : list key) (l : list bev) : bool :=
  match l with
  | [] => true
  | BStart k :: r => negb (bool_decide (k ∈ open)) && pscan (k :: open) r
  | BEnd k _ :: r => pscan (List.filter (fun x => negb (bool_decide (x = k))) open) r
  | _ :: r => pscan open r
  end.

Fixpoint popen (open : list key) (l : list bev) : list key :=
  match l with
  | [] => open
  | BStart k :: r => popen (k :: open) r
  | BEnd k _ :: r => popen (List.filter (fun x => negb (bool_decide (x = k))) open) r
  | _ :: r => popen open r
  end.

Lemma c01_scan_proj open l : c01_scan open l = pscan open (omap bproj l).
Proof.
  revert open. induction l as [|e l IH]; intros open; [reflexivity|].
  destruct e; cbn; try apply IH; try (rewrite IH; reflexivity).
  destruct refresh; cbn; apply IH.
Qed.

Lemma pscan_app open l1 l2 : pscan open (l1 ++ l2) = pscan open l1 && pscan (popen open l1) l2.
Proof.
  revert open. induction l1 as [|e l1 IH]; intros open; [reflexivity|].
  destruct e; cbn; rewrite ?IH, ?andb_assoc; reflexivity.
Qed.

Lemma popen_app open l1 l2 : popen open (l1 ++ l2) = popen (popen open l1) l2.
Proof. revert open. induction l1 as [|e l1 IH]; intros open; [reflexivity|]. destruct e; cbn; apply IH. Qed.

Definition builders_of (s : fstate) (k : key) : Prop :=
  exists t th, threads s !! t = Some th /\ inb (t_pc th) = true /\ t_key th = k.

Record TInv (s : fstate) : Prop := {
  ti_scan : pscan [] (omap bproj (flog s)) = true;
  ti_open : forall k, k ∈ popen [] (omap bproj (flog s)) <-> builders_of s k;
}.

Lemma inb_in_builder th : inb (t_pc th) = true <-> in_builder th.
Proof. unfold in_builder. destruct (t_pc th); cbn; split; intros H; try discriminate; auto; destruct H; discriminate. Qed.

Lemma elem_of_filter_ne (k k' : key) open :
  k' ∈ List.filter (fun x => negb (bool_decide (x = k))) open <-> k' ∈ open /\ k' <> k.
Proof.
  rewrite elem_of_list_In, filter_In, <- elem_of_list_In. rewrite negb_true_iff, bool_decide_eq_false. tauto.
Qed.

Lemma TInv_run c ls : forall s, frun c f0 ls = Some s -> TInv s.
Proof.
  induction ls as [|l ls IH] using rev_ind; intros s Hr.
  - injection Hr as <-. split; [reflexivity|]. intros k; cbn. split; [intros H; inversion H|].
    intros (t & th & Hl & _). cbn in Hl. rewrite lookup_empty in Hl. discriminate.
  - (* split the run at its last label *)
    assert (Hsplit : exists s0, frun c f0 ls = Some s0 /\ fstep c s0 l = Some s).
    { clear IH. revert Hr. generalize f0. induction ls as [|l0 ls IHl]; intros s0 Hr; cbn in *.
      - destruct (fstep c s0 l) as [s1|] eqn:E; [|discriminate]. injection Hr as <-. eauto.
      - destruct (fstep c s0 l0) as [s1|]; [|discriminate]. apply IHl, Hr. }
    destruct Hsplit as (s0 & Hr0 & Hs). specialize (IH _ Hr0). destruct IH as [Hscan Hopen].
    pose proof (no_overlapping_builds _ _ _ Hr0) as Hex0.
    assert (Hr' : frun c f0 (ls ++ [l]) = Some s) by exact Hr.
    pose proof (no_overlapping_builds _ _ _ Hr') as Hex1.
    destruct l as [t k skip cell|t o].
    + (* new Get: log unchanged, the new thread is not in a builder *)
      cbn in Hs. destruct (threads s0 !! t) eqn:Ht; [discriminate|]. destruct (t <? 1000)%N; [|discriminate].
      injection Hs as <-. split; cbn; rewrite app_nil_r; [exact Hscan|].
      intros k'. rewrite Hopen. unfold builders_of; cbn. split.
      * intros (t' & th' & Hl & Hb & Hk). exists t', th'. rewrite lookup_insert_ne; [auto|]. intros <-. congruence.
      * intros (t' & th' & Hl & Hb & Hk). apply lookup_thr in Hl as [[-> ->]|[Hne Hl]]; [discriminate|eauto].
    + destruct (threads s0 !! t) as [th|] eqn:Ht; [|unfold Failover.fstep in Hs; rewrite Ht in Hs; discriminate].
      destruct (step_shape _ _ _ _ _ _ Ht Hs) as (evs & Hlog & [(th' & Hthr & Hk & Hin & Hexit & Hev)|(fg & bg & Hthr & Hn & Hp & Hpf & Hpb & Hkb & Hkf & Hev)]).
      * (* ordinary step *)
        cut (pscan [] (omap bproj (flog s)) = true /\ forall k, k ∈ popen [] (omap bproj (flog s)) <-> builders_of s k); [intros [? ?]; constructor; assumption|].
        rewrite Hlog, omap_app, Hev. unfold trans_evs.
        assert (Hl' : threads s !! t = Some th') by (rewrite Hthr; apply lookup_insert).
        assert (Hother : forall t2 th2, t2 <> t -> (threads s !! t2 = Some th2 <-> threads s0 !! t2 = Some th2)).
        { intros t2 th2 Hne. rewrite Hthr, lookup_insert_ne by congruence. tauto. }
        destruct (inb (t_pc th)) eqn:Hib; [destruct (inb (t_pc th')) eqn:Hib'|destruct (inb (t_pc th')) eqn:Hib']; cbn [negb andb app].
        -- (* stays in the builder: PBuilderEntry -> PBuilderExit *)
           assert (Hpc : t_pc th = PBuilderEntry).
           { destruct (t_pc th) eqn:E; try discriminate; [reflexivity|]. exfalso. cbn in Hin.
             unfold after_failed, to_stat_build in Hin. destruct (f_stat c), (0 <=? f_failed_ttl c);
               repeat (destruct Hin as [Hin|Hin]; [rewrite <- Hin in Hib'; discriminate|]); destruct Hin. }
           rewrite Hpc. cbn [app]. rewrite !app_nil_r. split; [exact Hscan|].
           intros k'. rewrite Hopen. unfold builders_of. split.
           ++ intros (t2 & th2 & Hl2 & Hb2 & Hk2). destruct (decide (t2 = t)) as [->|Hne].
              ** exists t, th'. rewrite Ht in Hl2. injection Hl2 as <-. split; [exact Hl'|]. split; [exact Hib'|congruence].
              ** exists t2, th2. rewrite (Hother _ _ Hne). auto.
           ++ intros (t2 & th2 & Hl2 & Hb2 & Hk2). destruct (decide (t2 = t)) as [->|Hne].
              ** exists t, th. rewrite Hl' in Hl2. injection Hl2 as <-. split; [exact Ht|]. split; [exact Hib|congruence].
              ** exists t2, th2. rewrite <- (Hother _ _ Hne). auto.
        -- (* leaves the builder: a BEnd event *)
           assert (Hpc : t_pc th = PBuilderExit).
           { destruct (t_pc th) eqn:E; try discriminate; [|reflexivity]. exfalso. cbn in Hin. destruct Hin as [Hin|[]].
             rewrite <- Hin in Hib'. discriminate. }
           rewrite Hpc. cbn [app]. rewrite pscan_app, popen_app, Hscan. cbn.
           split; [reflexivity|]. intros k'. rewrite elem_of_filter_ne, Hopen. unfold builders_of. split.
           ++ intros [(t2 & th2 & Hl2 & Hb2 & Hk2) Hnk]. destruct (decide (t2 = t)) as [->|Hne].
              ** rewrite Ht in Hl2. injection Hl2 as <-. congruence.
              ** exists t2, th2. rewrite (Hother _ _ Hne). auto.
           ++ intros (t2 & th2 & Hl2 & Hb2 & Hk2). destruct (decide (t2 = t)) as [->|Hne].
              ** rewrite Hl' in Hl2. injection Hl2 as <-. congruence.
              ** rewrite (Hother _ _ Hne) in Hl2. split; [eauto|].
                 intros ->. apply Hne. apply (Hex0 t2 t th2 th Hl2 Ht); [apply inb_in_builder; exact Hb2|apply inb_in_builder; exact Hib|exact Hk2].
        -- (* enters the builder: a BStart event, and nobody else builds this key *)
           assert (Hnone : ~ builders_of s0 (t_key th)).
           { intros (t2 & th2 & Hl2 & Hb2 & Hk2). assert (Hne : t2 <> t) by (intros ->; congruence).
             apply Hne. apply (Hex1 t2 t th2 th'); [rewrite (Hother _ _ Hne); exact Hl2|exact Hl'|apply inb_in_builder; exact Hb2|apply inb_in_builder; exact Hib'|congruence]. }
           assert (Hpre : forall X, (match t_pc th with
                     | PRefreshStat => [BStat MRefreshed] | PRefreshWrite => [BRefresh] | PStatFailed => [BStat MFailed]
                     | PStatBuild => [BStat MBuild] | PBuilderExit => [BEnd (t_key th) X] | _ => [] end) = [] \/
                     exists e, (match t_pc th with
                     | PRefreshStat => [BStat MRefreshed] | PRefreshWrite => [BRefresh] | PStatFailed => [BStat MFailed]
                     | PStatBuild => [BStat MBuild] | PBuilderExit => [BEnd (t_key th) X] | _ => [] end) = [e] /\ pscan [] [e] = true /\ (forall o l, pscan o (e :: l) = pscan o l) /\ (forall o l, popen o (e :: l) = popen o l)).
           { intros X. destruct (t_pc th); auto; try discriminate; right; eexists; split; try reflexivity; repeat split; reflexivity. }
           rewrite pscan_app, popen_app, Hscan. cbn [andb].
           destruct (Hpre (match o_built o with inl _ => true | inr _ => false end)) as [->|(e & -> & _ & Hps & Hpo)]; cbn [app].
           ++ cbn. split.
              ** rewrite andb_true_r. apply negb_true_iff, bool_decide_eq_false. rewrite Hopen. exact Hnone.
              ** intros k'. rewrite elem_of_cons, Hopen. unfold builders_of. split.
                 --- intros [->|(t2 & th2 & Hl2 & Hb2 & Hk2)].
                     +++ exists t, th'. auto.
                     +++ assert (Hne : t2 <> t) by (intros ->; congruence). exists t2, th2. rewrite (Hother _ _ Hne). auto.
                 --- intros (t2 & th2 & Hl2 & Hb2 & Hk2). destruct (decide (t2 = t)) as [->|Hne].
                     +++ left. rewrite Hl' in Hl2. injection Hl2 as <-. congruence.
                     +++ right. exists t2, th2. rewrite <- (Hother _ _ Hne). auto.
           ++ rewrite Hps, Hpo. cbn. split.
              ** rewrite andb_true_r. apply negb_true_iff, bool_decide_eq_false. rewrite Hopen. exact Hnone.
              ** intros k'. rewrite elem_of_cons, Hopen. unfold builders_of. split.
                 --- intros [->|(t2 & th2 & Hl2 & Hb2 & Hk2)].
                     +++ exists t, th'. auto.
                     +++ assert (Hne : t2 <> t) by (intros ->; congruence). exists t2, th2. rewrite (Hother _ _ Hne). auto.
                 --- intros (t2 & th2 & Hl2 & Hb2 & Hk2). destruct (decide (t2 = t)) as [->|Hne].
                     +++ left. rewrite Hl' in Hl2. injection Hl2 as <-. congruence.
                     +++ right. exists t2, th2. rewrite <- (Hother _ _ Hne). auto.
        -- (* outside the builder before and after: no build events *)
           assert (Hpre : forall X, pscan (popen [] (omap bproj (flog s0))) ((match t_pc th with
                     | PRefreshStat => [BStat MRefreshed] | PRefreshWrite => [BRefresh] | PStatFailed => [BStat MFailed]
                     | PStatBuild => [BStat MBuild] | PBuilderExit => [BEnd (t_key th) X] | _ => [] end) ++ []) = true /\
                     popen (popen [] (omap bproj (flog s0))) ((match t_pc th with
                     | PRefreshStat => [BStat MRefreshed] | PRefreshWrite => [BRefresh] | PStatFailed => [BStat MFailed]
                     | PStatBuild => [BStat MBuild] | PBuilderExit => [BEnd (t_key th) X] | _ => [] end) ++ []) = popen [] (omap bproj (flog s0))).
           { intros X. destruct (t_pc th); try discriminate; split; reflexivity. }
           destruct (Hpre (match o_built o with inl _ => true | inr _ => false end)) as [Hp1 Hp2].
           rewrite pscan_app, popen_app, Hscan, Hp1, Hp2. split; [reflexivity|].
           intros k'. rewrite Hopen. unfold builders_of. split.
           ++ intros (t2 & th2 & Hl2 & Hb2 & Hk2). assert (Hne : t2 <> t) by (intros ->; congruence).
              exists t2, th2. rewrite (Hother _ _ Hne). auto.
           ++ intros (t2 & th2 & Hl2 & Hb2 & Hk2). assert (Hne : t2 <> t) by (intros ->; congruence).
              exists t2, th2. rewrite <- (Hother _ _ Hne). auto.
      * (* the build moves to a background goroutine *)
        cut (pscan [] (omap bproj (flog s)) = true /\ forall k, k ∈ popen [] (omap bproj (flog s)) <-> builders_of s k); [intros [? ?]; constructor; assumption|].
        rewrite Hlog, omap_app, Hev.
        assert (Hnt : bg_tid t <> t) by (unfold bg_tid; lia).
        assert (Hlb : threads s !! bg_tid t = Some bg) by (rewrite Hthr; apply lookup_insert).
        assert (Hlf : threads s !! t = Some fg) by (rewrite Hthr, lookup_insert_ne by exact Hnt; apply lookup_insert).
        assert (Hother : forall t2 th2, t2 <> t -> t2 <> bg_tid t -> (threads s !! t2 = Some th2 <-> threads s0 !! t2 = Some th2)).
        { intros t2 th2 Hn1 Hn2. rewrite Hthr, lookup_insert_ne, lookup_insert_ne by congruence. tauto. }
        assert (Hthnb : inb (t_pc th) = false) by (rewrite Hp; reflexivity).
        assert (Hfgnb : inb (t_pc fg) = false) by (rewrite Hpf; reflexivity).
        assert (Hs0 : forall t2 th2, threads s0 !! t2 = Some th2 -> inb (t_pc th2) = true -> t2 <> t /\ t2 <> bg_tid t).
        { intros t2 th2 Hl2 Hb2. split; intros ->; congruence. }
        destruct (inb (t_pc bg)) eqn:Hbb.
        -- assert (Hnone : ~ builders_of s0 (t_key th)).
           { intros (t2 & th2 & Hl2 & Hb2 & Hk2). destruct (Hs0 _ _ Hl2 Hb2) as [Hn1 Hn2].
             apply Hn2. apply (Hex1 t2 (bg_tid t) th2 bg); [rewrite (Hother _ _ Hn1 Hn2); exact Hl2|exact Hlb|apply inb_in_builder; exact Hb2|apply inb_in_builder; exact Hbb|congruence]. }
           rewrite pscan_app, popen_app, Hscan. cbn. split.
           ++ rewrite andb_true_r. apply negb_true_iff, bool_decide_eq_false. rewrite Hopen. exact Hnone.
           ++ intros k'. rewrite elem_of_cons, Hopen. unfold builders_of. split.
              ** intros [->|(t2 & th2 & Hl2 & Hb2 & Hk2)].
                 --- exists (bg_tid t), bg. auto.
                 --- destruct (Hs0 _ _ Hl2 Hb2) as [Hn1 Hn2]. exists t2, th2. rewrite (Hother _ _ Hn1 Hn2). auto.
              ** intros (t2 & th2 & Hl2 & Hb2 & Hk2). destruct (decide (t2 = bg_tid t)) as [->|Hn2].
                 --- left. rewrite Hlb in Hl2. injection Hl2 as <-. congruence.
                 --- destruct (decide (t2 = t)) as [->|Hn1]; [rewrite Hlf in Hl2; injection Hl2 as <-; congruence|].
                     right. exists t2, th2. rewrite <- (Hother _ _ Hn1 Hn2). auto.
        -- rewrite app_nil_r. split; [exact Hscan|]. intros k'. rewrite Hopen. unfold builders_of. split.
           ++ intros (t2 & th2 & Hl2 & Hb2 & Hk2). destruct (Hs0 _ _ Hl2 Hb2) as [Hn1 Hn2].
              exists t2, th2. rewrite (Hother _ _ Hn1 Hn2). auto.
           ++ intros (t2 & th2 & Hl2 & Hb2 & Hk2).
              destruct (decide (t2 = bg_tid t)) as [->|Hn2]; [rewrite Hlb in Hl2; injection Hl2 as <-; congruence|].
              destruct (decide (t2 = t)) as [->|Hn1]; [rewrite Hlf in Hl2; injection Hl2 as <-; congruence|].
              exists t2, th2. rewrite <- (Hother _ _ Hn1 Hn2). auto.
Qed.

(* C01 as a property of the ghost log of every reachable state *)
Lemma c01_obs_holds c ls s : frun c f0 ls = Some s -> C01_obs (flog s) = true.
Proof. intros Hr. unfold C01_obs. rewrite c01_scan_proj. apply (ti_scan _ (TInv_run _ _ _ Hr)). Qed.


(* ------------------------------------------------------------------ *)
(* C16, the one place where the discipline is ownership + channel rather than a mutex: kl.val / kl.err.
   A step changes a key lock record only if the stepping thread owns it (or creates it), an owned
   record is still open, and a waiter reads a record only once it is closed: every write happens
   before close(kl.lock), every read after the receive from it. *)
Lemma kls_change c s t o s' th :
  LInv s -> threads s !! t = Some th -> fstep c s (LStep t o) = Some s' ->
  forall kid, kls s' !! kid = kls s !! kid \/ t_own th = Some kid \/ (kls s !! kid = None /\ kid = next_kl s /\ t_own th = None).
Proof.
  intros Hi Ht Hs kid.
  assert (Hfresh : kls s !! next_kl s = None).
  { destruct (kls s !! next_kl s) as [x|] eqn:Hx; [|reflexivity]. pose proof (li_kls_bound _ Hi _ _ Hx). lia. }
  pose proof (li_twf _ Hi _ _ Ht) as Hw.
  fstep_cases Hs Ht; cbn; auto.
  all: try (match goal with
            | |- context [alter _ ?i _ !! ?j] => destruct (decide (i = j)) as [<-|Hne]; [right; left; first [reflexivity|assumption]|left; apply lookup_alter_ne; exact Hne]
            end).
  all: try (match goal with |- context [<[?n := _]> _ !! ?j] => destruct (decide (n = j)) as [<-|Hne] end; [|left; apply lookup_insert_ne; exact Hne];
            right; right; split; [exact Hfresh|]; split; [reflexivity|];
            apply (tw_early _ Hw); match goal with H : t_pc _ = _ |- _ => rewrite H end; reflexivity).
  all: try (match goal with
            | |- context [alter _ ?i _ !! ?j] => destruct (decide (i = j)) as [<-|Hne]; [right; left; first [reflexivity|assumption]|left; apply lookup_alter_ne; exact Hne]
            end).
Qed.

(* a record that is written is owned, registered and still open *)
Lemma kl_written_open c s t o s' th id x :
  LInv s -> threads s !! t = Some th -> fstep c s (LStep t o) = Some s' ->
  kls s !! id = Some x -> kls s' !! id <> Some x ->
  t_own th = Some id /\ kl_closed x = false.
Proof.
  intros Hi Ht Hs Hx Hne. destruct (kls_change _ _ _ _ _ _ Hi Ht Hs id) as [Heq|[Ho|(Hn & _)]]; [congruence| |congruence].
  split; [exact Ho|]. pose proof (li_owner_lock _ Hi _ _ _ Ht Ho) as Hk.
  destruct (li_locks_open _ Hi _ _ Hk) as (x' & Hx' & Hc & _). congruence.
Qed.

(* a waiter returns what it reads from a record only after the record was closed *)
Lemma waiter_reads_closed c s t o s' th :
  threads s !! t = Some th -> t_pc th = PWaiting -> fstep c s (LStep t o) = Some s' ->
  exists id x, t_wait th = Some id /\ kls s !! id = Some x /\ kl_closed x = true /\
               option_map t_res (threads s' !! t) = Some (kl_val x, kl_err x).
Proof.
  intros Ht Hp Hs. unfold Failover.fstep in Hs. rewrite Ht, Hp in Hs.
  destruct (t_wait th) as [id|]; [|discriminate]. destruct (kls s !! id) as [x|] eqn:Hx; [|discriminate].
  destruct (kl_closed x) eqn:Hc; [|discriminate]. injection Hs as <-. exists id, x. cbn. rewrite lookup_insert. auto.
Qed.

(* once closed, a record never changes again *)
Lemma closed_is_final c s l s' id x :
  LInv s -> fstep c s l = Some s' -> kls s !! id = Some x -> kl_closed x = true -> kls s' !! id = Some x.
Proof.
  intros Hi Hs Hx Hc. destruct l as [t k skip cell|t o].
  - cbn in Hs. destruct (threads s !! t); [discriminate|]. destruct (t <? 1000)%N; [|discriminate]. injection Hs as <-. exact Hx.
  - destruct (threads s !! t) as [th|] eqn:Ht; [|unfold Failover.fstep in Hs; rewrite Ht in Hs; discriminate].
    destruct (decide (kls s' !! id = Some x)) as [?|Hne]; [assumption|].
    destruct (kl_written_open _ _ _ _ _ _ _ _ Hi Ht Hs Hx Hne) as [_ Ho]. congruence.
Qed.

End Proofs.
