(* FailoverProv.v — provenance of everything Failover.Get returns (C02), as an invariant of the
   interleaving model over its ghost event log. Holds for every staleness test and every nil test that
   recognises the zero token, every configuration, every label sequence. *)
From Cache Require Import Base Failover FailoverProofs.

Ltac fstep_cases Hs Ht :=
  unfold Failover.fstep in Hs; rewrite Ht in Hs;
  repeat match type of Hs with
  | context [match ?x with _ => _ end] => destruct x eqn:?; try discriminate
  end; try (injection Hs as <-).

Section Prov.
Context (fe : dur -> time -> time -> bool) (nilb : val -> bool).
Notation fstep := (fstep fe nilb).
Notation frun := (frun fe nilb).

Definition rval (r : rres) : option val :=
  match r with RHit v | RExp v _ => Some v | _ => None end.

(* value provenance: built for this key, or read from the backend under this key *)
Definition vprov (log : list fev) (k : key) (v : val) : Prop :=
  (exists t, FBuildEnd t k (inl v) ∈ log) \/ (exists t r, FRead t k r ∈ log /\ rval r = Some v).

(* error provenance: a builder invocation for this key, or the backend (read fault, rejected write) *)
Definition eprov (log : list fev) (k : key) (e : err) : Prop :=
  match e with
  | EOther n => (exists t, FBuildEnd t k (inr n) ∈ log) \/ (exists t, FRead t k (RFault n) ∈ log)
                \/ (exists t v ttl, FWrite t k v ttl false (Some n) ∈ log)
  | EWrapped n => exists t v ttl, FWrite t k v ttl true (Some n) ∈ log
  | _ => False
  end.

Definition rprov (log : list fev) (k : key) (r : val * option err) : Prop :=
  match r.2 with None => vprov log k r.1 | Some e => eprov log k e end.

Lemma vprov_mono l l' k v : vprov l k v -> vprov (l ++ l') k v.
Proof.
  intros [(t & H)|(t & r & H & Hr)]; [left; exists t|right; exists t, r; split; [|done]];
    apply elem_of_app; by left.
Qed.

Lemma eprov_mono l l' k e : eprov l k e -> eprov (l ++ l') k e.
Proof.
  destruct e as [|v a|n|n]; cbn; try done.
  - intros [(t & H)|[(t & H)|(t & v & ttl & H)]].
    + left. exists t. apply elem_of_app; by left.
    + right; left. exists t. apply elem_of_app; by left.
    + right; right. exists t, v, ttl. apply elem_of_app; by left.
  - intros (t & v & ttl & H). exists t, v, ttl. apply elem_of_app; by left.
Qed.

Lemma rprov_mono l l' k r : rprov l k r -> rprov (l ++ l') k r.
Proof. unfold rprov. destruct r.2; [apply eprov_mono|apply vprov_mono]. Qed.

(* every return in the log is provenanced by what precedes it *)
Fixpoint rets_ok (pre l : list fev) : Prop :=
  match l with
  | [] => True
  | ev :: r => (match ev with FReturn t k v e => rprov pre k (v, e) | _ => True end) /\ rets_ok (pre ++ [ev]) r
  end.

Lemma rets_ok_app l1 : forall pre l2, rets_ok pre (l1 ++ l2) <-> rets_ok pre l1 /\ rets_ok (pre ++ l1) l2.
Proof.
  induction l1 as [|ev l1 IH]; intros pre l2; cbn [app rets_ok].
  - rewrite app_nil_r. tauto.
  - rewrite IH. rewrite <- app_assoc. cbn [app]. tauto.
Qed.

(* ---------- per-thread facts ---------- *)
Definition uses_val (p : pc) : bool :=
  match p with
  | PFailCache | PCtxSync | PBuildLog | PBuilderEntry | PBuilderExit | PStatFailed | PErrWrite | PBuildWrite
  | PStatBuild | PPublish | PWarnLog | PFallback => true
  | _ => false
  end.
Definition refresh_pc (p : pc) : bool :=
  match p with PRefreshLog | PRefreshStat | PRefreshWrite => true | _ => false end.
Definition res_pc (p : pc) : bool :=
  match p with
  | PStatFailed | PErrWrite | PBuildWrite | PStatBuild | PPublish | PWarnLog | PFallback | PRelease => true
  | _ => false
  end.
Definition pub_pc (p : pc) : bool :=
  match p with PWarnLog | PFallback | PRelease => true | _ => false end.

Record tprov (c : fcfg) (log : list fev) (th : thread) : Prop := {
  tp_err : forall r, t_err th = Some r -> exists t', FRead t' (t_key th) r ∈ log;
  tp_val : t_value th = 0 \/ vprov log (t_key th) (t_value th);
  tp_noerr : uses_val (t_pc th) = true -> t_err th = None -> vprov log (t_key th) (t_value th);
  tp_refresh : refresh_pc (t_pc th) = true -> vprov log (t_key th) (t_value th);
  tp_res : res_pc (t_pc th) = true -> rprov log (t_key th) (t_res th);
  tp_classify : t_pc th = PClassify -> is_Some (t_err th);
  tp_acquire : t_pc th = PAcquire -> f_sync_read c = false -> is_Some (t_err th);
}.

Lemma tprov_mono c l l' th : tprov c l th -> tprov c (l ++ l') th.
Proof.
  intros [H1 H2 H3 H4 H5 H6 H7]. split; auto.
  - intros r Hr. destruct (H1 r Hr) as (t' & H). exists t'. apply elem_of_app; by left.
  - destruct H2 as [?|?]; [by left|right; by apply vprov_mono].
  - intros ? ?. apply vprov_mono; auto.
  - intros ?. apply vprov_mono; auto.
  - intros ?. apply rprov_mono; auto.
Qed.

Definition klprov (log : list fev) (x : kl) : Prop := rprov log (kl_key x) (kl_val x, kl_err x).

Record PInv (c : fcfg) (s : fstate) : Prop := {
  pi_thr : forall t th, threads s !! t = Some th -> tprov c (flog s) th;
  pi_closed : forall id x, kls s !! id = Some x -> kl_closed x = true -> klprov (flog s) x;
  pi_pub : forall t th id x, threads s !! t = Some th -> t_own th = Some id -> pub_pc (t_pc th) = true ->
                             kls s !! id = Some x -> klprov (flog s) x;
  pi_errs : forall k e ex, errs s !! k = Some (e, ex) -> eprov (flog s) k e;
  pi_rets : rets_ok [] (flog s);
  (* the owner that is about to do its read under the key lock has not published anything yet *)
  pi_fresh : forall t th id x, threads s !! t = Some th -> t_own th = Some id -> t_pc th = PSyncRead ->
                               kls s !! id = Some x -> kl_err x = None;
}.

Lemma PInv_init c : PInv c f0.
Proof. split; cbn; try done; intros *; rewrite lookup_empty; done. Qed.

(* ---------- one step: the log grows, and the returns it adds are provenanced ---------- *)
Lemma step_rets c s t o s' th :
  LInv s -> PInv c s -> threads s !! t = Some th -> fstep c s (LStep t o) = Some s' ->
  exists evs, flog s' = flog s ++ evs /\ rets_ok (flog s) evs.
Proof.
  intros Hi Hp Ht Hs.
  pose proof (pi_thr _ _ Hp _ _ Ht) as Hth.
  fstep_cases Hs Ht.
  all: cbn [flog upd_thread set_kl]; eexists;
    (split; [first [reflexivity | (instantiate (1 := []); symmetry; apply app_nil_r)]|]).
  all: unfold build_ev, ret_events, leave, set_res, set_pc in *; cbn.
  all: repeat case_match; cbn; try tauto.
  all: try (split; [done|split; [|done]]; right; eexists t, (RHit _);
            split; [apply elem_of_app; right; apply elem_of_list_singleton; reflexivity|reflexivity]).
  all: try (split; [|done]).
  - (* a waiter-to-be returns the stale value it read *)
    match goal with H : t_err th = Some _ |- _ => destruct (tp_err _ _ _ Hth _ H) as (t' & Ht') end.
    right. eexists t', _. split; [exact Ht'|reflexivity].
  - (* legacy: the failed read *)
    match goal with H : t_err th = Some _ |- _ => destruct (tp_err _ _ _ Hth _ H) as (t' & Ht') end.
    right; left. by exists t'.
  - (* a waiter returns what the closed key lock holds *)
    match goal with Hw : t_wait th = Some ?id, Hk : kls s !! ?id = Some ?x, Hc : kl_closed ?x = true |- _ =>
      destruct (li_wait_known _ Hi _ _ _ Ht Hw) as (x' & Hx' & Hkey); rewrite Hk in Hx'; injection Hx' as <-;
      pose proof (pi_closed _ _ Hp _ _ Hk Hc) as Hcl; unfold klprov in Hcl; rewrite Hkey in Hcl; exact Hcl end.
  - (* background update: the caller gets the stale value *)
    apply (tp_noerr _ _ _ Hth); [match goal with H : t_pc th = _ |- _ => rewrite H end; reflexivity|].
    match goal with H : _ || _ = false |- _ => apply orb_false_elim in H as [_ Hb] end.
    apply bool_decide_eq_false in Hb. destruct (t_err th); [exfalso; apply Hb; done|done].
  - apply (tp_noerr _ _ _ Hth); [match goal with H : t_pc th = _ |- _ => rewrite H end; reflexivity|].
    match goal with H : _ || _ = false |- _ => apply orb_false_elim in H as [_ Hb] end.
    apply bool_decide_eq_false in Hb. destruct (t_err th); [exfalso; apply Hb; done|done].
  - (* the owner returns its pending result *)
    pose proof (tp_res _ _ _ Hth) as Hr.
    match goal with H : t_pc th = _ |- _ => rewrite H in Hr end. specialize (Hr eq_refl).
    destruct (t_res th); exact Hr.
Qed.

Lemma step_errs c s t o s' th :
  LInv s -> PInv c s -> threads s !! t = Some th -> fstep c s (LStep t o) = Some s' ->
  forall k e ex, errs s' !! k = Some (e, ex) -> eprov (flog s') k e.
Proof.
  intros Hi Hp Ht Hs k e ex.
  destruct (step_rets _ _ _ _ _ _ Hi Hp Ht Hs) as (evs & Hlog & _). rewrite Hlog.
  pose proof (pi_thr _ _ Hp _ _ Ht) as Hth.
  assert (Hcase : errs s' = errs s \/
                  exists e' ex', t_pc th = PErrWrite /\ (t_res th).2 = Some e' /\ errs s' = <[t_key th := (e', ex')]> (errs s)).
  { fstep_cases Hs Ht; cbn; auto. right. do 2 eexists. split_and!; [done|done|reflexivity]. }
  destruct Hcase as [->|(e' & ex' & Hpc & Hres & ->)].
  - intros H. apply eprov_mono. eapply pi_errs; eauto.
  - intros H. apply eprov_mono. apply lookup_insert_Some in H as [[<- [= <- <-]]|[_ H]].
    + pose proof (tp_res _ _ _ Hth) as Hr. rewrite Hpc in Hr. specialize (Hr eq_refl).
      unfold rprov in Hr. by rewrite Hres in Hr.
    + eapply pi_errs; eauto.
Qed.

Context (Hnil : nilb 0 = true).

Lemma fallback_prov c log th v :
  tprov c log th -> uses_val (t_pc th) = true -> fallback nilb c th = Some v -> vprov log (t_key th) v.
Proof.
  intros [E1 E2 E3 _ _ _ _] Hu. specialize (E3 Hu). unfold fallback.
  destruct (f_fail_hard c); [discriminate|]. destruct (f_variant c).
  - destruct (nilb (t_value th)) eqn:Hn; cbn.
    + destruct (t_err th) as [[| |v' a|]|] eqn:He; try discriminate.
      destruct (nilb v'); cbn; [discriminate|]. intros [= <-].
      destruct (E1 _ eq_refl) as (t' & Ht'). right. exists t', (RExp v' a). done.
    + intros [= <-]. destruct E2 as [E2|E2]; [|exact E2]. rewrite E2, Hnil in Hn. discriminate.
  - destruct (t_err th) as [[| |v' a|]|] eqn:He; try discriminate.
    + intros [= <-]. destruct (E1 _ eq_refl) as (t' & Ht'). right. exists t', (RExp v' a). done.
    + intros [= <-]. by apply E3.
Qed.

Ltac in_new := apply elem_of_app; right; cbn; repeat (first [apply elem_of_list_here | apply elem_of_list_further]).
Ltac in_old := apply elem_of_app; left.

Lemma step_thr c s t o s' th :
  LInv s -> PInv c s -> threads s !! t = Some th -> fstep c s (LStep t o) = Some s' ->
  forall t1 th1, threads s' !! t1 = Some th1 -> tprov c (flog s') th1.
Proof.
  intros Hi Hp Ht Hs.
  pose proof (pi_thr _ _ Hp _ _ Ht) as Hth.
  pose proof (pi_errs _ _ Hp) as Herrs.
  destruct Hth as [E1 E2 E3 E4 E5 E6 E7].
  fstep_cases Hs Ht.
  all: cbn [threads flog upd_thread set_kl]; intros t1 th1 Hl.
  all: repeat (apply lookup_insert_Some in Hl as [[<- <-]|[? Hl]]).
  all: try (first [apply tprov_mono | idtac]; eapply (pi_thr _ _ Hp); exact Hl).
  all: unfold build_ev, ret_events, leave, set_res, set_pc, to_wait, to_refresh, after_refresh_log, to_build, after_failed, to_stat_build in *.
  all: constructor; cbn [t_err t_key t_value t_pc t_res t_own t_wait]; intros.
  all: repeat case_match; try discriminate; simplify_eq; cbn in *; try discriminate; try done.
  all: repeat match goal with
       | H : true = true -> _ |- _ => specialize (H eq_refl)
       | H : false = true -> _ |- _ => clear H
       | H : ?p = ?p -> _ |- _ => specialize (H eq_refl)
       end.
  all: rewrite ?app_nil_r.
  all: try (auto; fail).
  all: try (match goal with H : t_err ?thx = Some ?r |- exists _, FRead _ _ ?r ∈ _ =>
              let tt := fresh "tt" in let Htt := fresh "Htt" in
              destruct (E1 _ H) as (tt & Htt); exists tt; first [exact Htt | in_old; exact Htt] end).
  all: try (eexists; in_new; fail).
  all: try (eexists _, _, _; in_new; fail).
  all: try (destruct E2 as [E2|E2]; [left; exact E2|right; first [exact E2 | apply vprov_mono; exact E2]]).
  all: try (apply vprov_mono; auto; fail).
  all: try (apply rprov_mono; auto; fail).
  all: try (left; eexists; in_new; fail).
  all: try (right; right; eexists _, _, _; in_new; fail).
  all: try (right; eexists _, _; split; [in_new|reflexivity]; fail).
  all: try (apply eprov_mono; eapply Herrs; eassumption).
  (* values taken from the failed read the thread remembers *)
  all: try (match goal with H : t_err ?thx = Some (RExp ?v ?a) |- _ =>
              let tt := fresh "tt" in let Htt := fresh "Htt" in
              destruct (E1 _ H) as (tt & Htt);
              first [right|idtac]; first [apply vprov_mono|idtac]; right; exists tt, (RExp v a); split; [exact Htt|reflexivity] end).
  all: try congruence.
  all: try (match goal with E : is_Some None |- _ => destruct E; discriminate end).
  all: try match goal with E : forall r, Some ?r0 = Some r -> _ |- _ =>
         let tt := fresh "tt" in let Htt := fresh "Htt" in destruct (E _ eq_refl) as (tt & Htt);
         first [ exists tt; first [exact Htt|in_old; exact Htt]
               | right; right; exists tt, r0; split; [exact Htt|reflexivity]
               | right; exists tt, r0; split; [exact Htt|reflexivity] ]
       end.
  eapply (fallback_prov c (flog s) th); [|by rewrite Heqp|eassumption].
  split; auto; rewrite Heqp; intros; discriminate.
Qed.

Lemma klprov_mono l l' x : klprov l x -> klprov (l ++ l') x.
Proof. apply rprov_mono. Qed.

Lemma owner_kl s t th id :
  LInv s -> threads s !! t = Some th -> t_own th = Some id ->
  exists x, kls s !! id = Some x /\ kl_closed x = false /\ kl_key x = t_key th.
Proof.
  intros Hi Ht Ho. pose proof (li_owner_lock _ Hi _ _ _ Ht Ho) as Hk.
  exact (li_locks_open _ Hi _ _ Hk).
Qed.

Lemma other_kl c s t o s' th t1 th1 id :
  LInv s -> threads s !! t = Some th -> fstep c s (LStep t o) = Some s' ->
  threads s !! t1 = Some th1 -> t1 <> t -> t_own th1 = Some id -> kls s' !! id = kls s !! id.
Proof.
  intros Hi Ht Hs Ht1 Hne Ho.
  destruct (kls_change fe nilb _ _ _ _ _ _ Hi Ht Hs id) as [Heq|[Ho'|(Hn & _)]]; [exact Heq| |].
  - exfalso. apply Hne. eapply (li_own_unique _ Hi); eauto.
  - destruct (owner_kl _ _ _ _ Hi Ht1 Ho) as (x & Hx & _). congruence.
Qed.

Lemma step_pub c s t o s' th :
  LInv s -> PInv c s -> threads s !! t = Some th -> fstep c s (LStep t o) = Some s' ->
  forall t1 th1 id x, threads s' !! t1 = Some th1 -> t_own th1 = Some id -> pub_pc (t_pc th1) = true ->
                      kls s' !! id = Some x -> klprov (flog s') x.
Proof.
  intros Hi Hp Ht Hs.
  destruct (step_rets _ _ _ _ _ _ Hi Hp Ht Hs) as (evs & Hlog & _).
  pose proof (fun t1 th1 id => other_kl c s t o s' th t1 th1 id Hi Ht Hs) as Hother.
  pose proof (pi_thr _ _ Hp _ _ Ht) as Hth.
  pose proof (pi_errs _ _ Hp) as Herrs.
  pose proof (pi_pub _ _ Hp) as Hpub0.
  pose proof (owner_kl s t th) as Hown. specialize (Hown).
  destruct Hth as [E1 E2 E3 E4 E5 E6 E7].
  fstep_cases Hs Ht.
  all: cbn [threads flog kls upd_thread set_kl] in *; intros t1 th1 id x Hl Ho Hpub Hx.
  all: repeat (apply lookup_insert_Some in Hl as [[<- <-]|[? Hl]]).
  (* another thread: its record is untouched *)
  all: try (match goal with Hn : ?a <> ?b |- _ => try rewrite (Hother _ _ _ Hl (not_eq_sym Hn) Ho) in Hx end;
            first [apply klprov_mono|idtac]; eapply Hpub0; eassumption).
  all: unfold build_ev, ret_events, leave, set_res, set_pc, to_wait, to_refresh, after_refresh_log, to_build, after_failed, to_stat_build in *.
  all: cbn [t_err t_key t_value t_pc t_res t_own t_wait] in *.
  all: repeat case_match; try discriminate; simplify_eq; cbn in *; try discriminate.
  (* the record is untouched and was already published *)
  all: try (first [apply klprov_mono|idtac]; eapply Hpub0;
            [exact Ht|eassumption|match goal with H : t_pc _ = _ |- _ => rewrite H end; reflexivity|eassumption]).
  (* the step publishes *)
  all: match type of Hx with alter _ ?k _ !! _ = _ =>
         destruct (Hown k Hi Ht ltac:(first [reflexivity|assumption])) as (x0 & Hx0 & _ & Hkey);
         try (pose proof (pi_fresh _ _ Hp _ _ _ _ Ht ltac:(eassumption) ltac:(eassumption) Hx0) as Hfresh) end;
       rewrite lookup_alter in Hx;
       rewrite Hx0 in Hx; cbn in Hx; injection Hx as <-; unfold klprov, rprov; cbn; rewrite Hkey.
  all: rewrite ?app_nil_r.
  all: try (rewrite Hfresh; right; eexists _, _; split; [in_new|reflexivity]).
  all: try (match goal with H : t_err ?thx = Some (RFault ?n) |- _ =>
              destruct (E1 _ H) as (tt & Htt); right; left; exists tt; exact Htt end).
  all: try (eexists _, _, _; in_new; fail).
  all: try (first [apply eprov_mono|idtac]; eapply Herrs; eassumption).
  all: repeat match goal with
       | H : true = true -> _ |- _ => specialize (H eq_refl)
       end.
  all: unfold rprov in E5.
  all: try (match goal with H : (t_res ?thx).2 = _ |- _ => rewrite H in E5 end; exact E5).
  destruct (E1 _ eq_refl) as (tt & Htt). right; left. by exists tt.
Qed.

Lemma step_closed c s t o s' th :
  LInv s -> PInv c s -> threads s !! t = Some th -> fstep c s (LStep t o) = Some s' ->
  forall id x, kls s' !! id = Some x -> kl_closed x = true -> klprov (flog s') x.
Proof.
  intros Hi Hp Ht Hs id x Hx Hc.
  destruct (step_rets _ _ _ _ _ _ Hi Hp Ht Hs) as (evs & Hlog & _). rewrite Hlog. apply klprov_mono.
  destruct (decide (kls s' !! id = kls s !! id)) as [Heq|Hne].
  { rewrite Heq in Hx. eapply pi_closed; eauto. }
  pose proof (li_twf _ Hi _ _ Ht) as Hw.
  destruct (kls_change fe nilb _ _ _ _ _ _ Hi Ht Hs id) as [?|[Ho|(Hn & Hid & Ho)]]; [done| |].
  - destruct (owner_kl _ _ _ _ Hi Ht Ho) as (x0 & Hx0 & Hopen & Hkey).
    pose proof (fun H => pi_pub _ _ Hp _ _ _ x0 Ht Ho H Hx0) as Hpub.
    clear Hlog. fstep_cases Hs Ht; cbn [kls upd_thread set_kl] in *; try done.
    all: simplify_eq; rewrite ?lookup_alter, ?Hx0 in Hx; cbn in Hx; simplify_eq; cbn in Hc; try congruence.
    all: try (rewrite lookup_insert_ne in Hne by (intros ->; pose proof (li_kls_bound _ Hi _ _ Hx0); lia); done).
    all: try (exfalso; match goal with H : t_pc ?thx = PAcquire |- _ =>
                destruct (tw_early _ Hw ltac:(by rewrite H)) as [Hnone _]; congruence end).
    apply Hpub. reflexivity.
  - exfalso. clear Hlog. fstep_cases Hs Ht; cbn [kls upd_thread set_kl] in *; try done.
    all: try (rewrite lookup_alter_ne in Hne by congruence; done).
    all: subst id; rewrite lookup_insert in Hx; injection Hx as <-; cbn in Hc; discriminate.
Qed.

Lemma step_fresh c s t o s' th :
  LInv s -> PInv c s -> threads s !! t = Some th -> fstep c s (LStep t o) = Some s' ->
  forall t1 th1 id x, threads s' !! t1 = Some th1 -> t_own th1 = Some id -> t_pc th1 = PSyncRead ->
                      kls s' !! id = Some x -> kl_err x = None.
Proof.
  intros Hi Hp Ht Hs.
  pose proof (fun t1 th1 id => other_kl c s t o s' th t1 th1 id Hi Ht Hs) as Hother.
  pose proof (pi_fresh _ _ Hp) as Hfresh0.
  fstep_cases Hs Ht.
  all: cbn [threads kls upd_thread set_kl] in *; intros t1 th1 id x Hl Ho Hpc Hx.
  all: repeat (apply lookup_insert_Some in Hl as [[<- <-]|[? Hl]]).
  all: try (match goal with Hn : ?a <> ?b |- _ => try rewrite (Hother _ _ _ Hl (not_eq_sym Hn) Ho) in Hx end;
            eapply Hfresh0; eassumption).
  all: unfold leave, set_res, set_pc, to_wait, to_refresh, after_refresh_log, to_build, after_failed, to_stat_build in *.
  all: cbn [t_err t_key t_value t_pc t_res t_own t_wait] in *.
  all: repeat case_match; try discriminate; simplify_eq.
  all: rewrite lookup_insert in Hx; by simplify_eq.
Qed.

Lemma PInv_step c s l s' : LInv s -> PInv c s -> fstep c s l = Some s' -> PInv c s'.
Proof.
  intros Hi Hp Hs. destruct l as [t k skip cell|t o].
  - cbn in Hs. destruct (threads s !! t) eqn:Hn; [discriminate|]. destruct (t <? 1000)%N; [|discriminate].
    injection Hs as <-. destruct Hp as [P1 P2 P3 P4 P5 P6].
    split; cbn [threads kls errs flog upd_thread]; rewrite ?app_nil_r; auto.
    + intros t1 th1 Hl. apply lookup_insert_Some in Hl as [[<- <-]|[_ Hl]]; [|by eapply P1].
      split; cbn; try done; auto.
    + intros t1 th1 id x Hl. apply lookup_insert_Some in Hl as [[<- <-]|[_ Hl]]; [done|by eapply P3].
    + intros t1 th1 id x Hl. apply lookup_insert_Some in Hl as [[<- <-]|[_ Hl]]; [done|by eapply P6].
  - destruct (threads s !! t) as [th|] eqn:Ht; [|unfold Failover.fstep in Hs; rewrite Ht in Hs; discriminate].
    destruct (step_rets _ _ _ _ _ _ Hi Hp Ht Hs) as (evs & Hlog & Hrets).
    split.
    + eapply step_thr; eauto.
    + eapply step_closed; eauto.
    + eapply step_pub; eauto.
    + eapply step_errs; eauto.
    + rewrite Hlog. apply rets_ok_app. split; [apply (pi_rets _ _ Hp)|exact Hrets].
    + eapply step_fresh; eauto.
Qed.

Lemma PInv_run c ls : forall s s', LInv s -> PInv c s -> frun c s ls = Some s' -> PInv c s'.
Proof.
  induction ls as [|l ls IH]; intros s s' Hi Hp Hr; cbn in Hr; [by simplify_eq|].
  destruct (fstep c s l) as [s1|] eqn:H1; [|discriminate].
  eapply IH; [eapply (LInv_step fe nilb); eauto|eapply PInv_step; eauto|exact Hr].
Qed.

Lemma rets_ok_split pre post t k v e :
  rets_ok [] (pre ++ FReturn t k v e :: post) -> rprov pre k (v, e).
Proof. intros H. apply rets_ok_app in H as [_ H]. cbn in H. tauto. Qed.

(* C02: whatever a Get returns was produced for that key before the Get returned — built by the builder
   for the key, or read from the backend under the key; an error comes from a builder invocation for the
   key (possibly via the failure cache) or from the backend. *)
Theorem provenance c ls s pre post t k v e :
  frun c f0 ls = Some s -> flog s = pre ++ FReturn t k v e :: post -> rprov pre k (v, e).
Proof.
  intros Hr Hlog. pose proof (PInv_run c ls _ _ (LInv_init) (PInv_init c) Hr) as Hp.
  apply (rets_ok_split pre post t). rewrite <- Hlog. apply (pi_rets _ _ Hp).
Qed.

End Prov.
