(* FailoverRun.v — macro steps (one harness release = the call-out step plus the internal steps
   up to the next parking point, then the wake-up of waiters) and the comparators of the
   correspondence run. Part of the checker, not of the theorems. *)
From Cache Require Import Base Failover.

Inductive fstatus := SDone | SWaiting | SRead | SWrite | SBEntry | SBExit | SLog (n : N) | SStat (m : metric)
                   | SPost.   (* parked right after a backend call-out returned: any pc *)
#[global] Instance fstatus_eq_dec : EqDecision fstatus.
Proof. solve_decision. Defined.

Definition status_of (p : pc) : option fstatus :=
  match p with
  | PPreRead | PSyncRead => Some SRead
  | PRefreshWrite | PBuildWrite => Some SWrite
  | PWaitLog => Some (SLog 1)
  | PRefreshLog => Some (SLog 2)
  | PBuildLog => Some (SLog 3)
  | PWarnLog => Some (SLog 4)
  | PRefreshStat => Some (SStat MRefreshed)
  | PStatFailed => Some (SStat MFailed)
  | PStatBuild => Some (SStat MBuild)
  | PBuilderEntry => Some SBEntry
  | PBuilderExit => Some SBExit
  | PWaiting => Some SWaiting
  | PDone => Some SDone
  | _ => None
  end.

Inductive mlabel :=
| MSpawn (t : tid) (k : key) (skip : bool) (cell : option dur) (now : time) (evs : list fev) (sts : list (tid * fstatus))
| MRun (t : tid) (o : orc) (evs : list fev) (sts : list (tid * fstatus))
| MRun1 (t : tid) (o : orc) (evs : list fev) (sts : list (tid * fstatus))   (* exactly one step: the call-out *)
| MCont (t : tid) (o : orc) (evs : list fev) (sts : list (tid * fstatus)).  (* from right after a call-out to the next parking point *)

(* run the internal steps of thread t until it parks *)
Fixpoint run_internal (fuel : nat) (c : fcfg) (s : fstate) (t : tid) (o : orc) : option fstate :=
  match fuel with
  | O => None
  | S f =>
    match threads s !! t with
    | None => None
    | Some th =>
      match status_of (t_pc th) with
      | Some _ => Some s
      | None => match fstep_x c s (LStep t o) with
                | Some s' => run_internal f c s' t o
                | None => None
                end
      end
    end
  end.

(* waiters whose key lock has been closed return without any call-out *)
Definition wake_all (c : fcfg) (s : fstate) (o : orc) : fstate :=
  foldr (fun tt acc =>
           match threads acc !! tt.1 with
           | Some th => if decide (t_pc th = PWaiting)
                        then match fstep_x c acc (LStep tt.1 o) with Some s' => s' | None => acc end
                        else acc
           | None => acc
           end) s (map_to_list (threads s)).

Definition dummy_orc : orc := mkOrc 0 RMiss None (inl 0) [] 0.

Definition macro (c : fcfg) (s : fstate) (l : mlabel) : option fstate :=
  match l with
  | MSpawn t k skip cell _ _ _ =>
      match fstep_x c s (LSpawn t k skip cell) with
      | Some s1 => run_internal 40 c s1 t dummy_orc
      | None => None
      end
  | MRun t o _ _ =>
      match fstep_x c s (LStep t o) with
      | Some s1 =>
          match run_internal 40 c s1 t o with
          | Some s2 => Some (wake_all c s2 o)
          | None => None
          end
      | None => None
      end
  | MRun1 t o _ _ => fstep_x c s (LStep t o)
  | MCont t o _ _ =>
      match run_internal 40 c s t o with
      | Some s2 => Some (wake_all c s2 o)
      | None => None
      end
  end.

(* projection of the ghost log to what the harness observes *)
Definition observable (e : fev) : option fev :=
  match e with
  | FErrWrite _ _ _ _ | FErrHit _ _ _ => None
  | FWrite t k v ttl _ res => Some (FWrite t k v ttl false res)
  | _ => Some e
  end.

#[global] Instance fev_eq_dec : EqDecision fev.
Proof. solve_decision. Defined.

Definition label_obs (l : mlabel) : list fev * list (tid * fstatus) :=
  match l with MSpawn _ _ _ _ _ e s | MRun _ _ e s | MRun1 _ _ e s | MCont _ _ e s => (e, s) end.

Definition label_now (l : mlabel) : time :=
  match l with MSpawn _ _ _ _ n _ _ => n | MRun _ o _ _ | MRun1 _ o _ _ | MCont _ o _ _ => o_now o end.

Definition statuses_ok (s : fstate) (sts : list (tid * fstatus)) : bool :=
  forallb (fun ts => match threads s !! ts.1 with
                     | Some th => bool_decide (ts.2 = SPost) || bool_decide (status_of (t_pc th) = Some ts.2)
                     | None => false
                     end) sts &&
  forallb (fun tt => bool_decide (tt.1 ∈ map fst sts) || bool_decide (t_pc tt.2 = PDone)) (map_to_list (threads s)).

(* returns: Some (final state, index of first disagreement or 0) *)
Fixpoint run_macros (c : fcfg) (s : fstate) (ls : list mlabel) (i : N) : fstate * N :=
  match ls with
  | [] => (s, 0%N)
  | l :: r =>
    match macro c s l with
    | None => (s, i)
    | Some s' =>
      let new := omap observable (drop (length (flog s)) (flog s')) in
      let '(evs, sts) := label_obs l in
      if bool_decide (new ≡ₚ evs) && statuses_ok s' sts
      then run_macros c s' r (i + 1)%N
      else (s', i)
    end
  end.

Record fcase := FCase {
  fc_cfg : fcfg;
  fc_labels : list mlabel;
  fc_final_locks : Z;          (* VerifKeyLocks() after everything finished *)
}.

Definition impl_trace (c : fcase) : list fev := concat (map (fun l => (label_obs l).1) (fc_labels c)).

(* 0 = the implementation followed the model step by step and ended with no key lock *)
Definition corr_ok (c : fcase) : bool :=
  let '(s, bad) := run_macros (fc_cfg c) f0 (fc_labels c) 1%N in
  (bad =? 0)%N && bool_decide (keyLocks s = ∅) && (fc_final_locks c =? 0).

Definition code (m p : bool) : N := if m then (if p then 0 else 2)%N else (if p then 1 else 2)%N.
