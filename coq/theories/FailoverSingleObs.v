(* FailoverSingleObs.v — the single-flight predicate of the C05 check (FailoverObs.C05_single_obs: once the result of a
   build of k has been stored, no builder is invoked for k again) holds of the log of every reachable state of the
   model with SyncRead on, against a backend that is coherent on that log (a stored build result stays readable: the
   scenarios of the check keep it fresh).  The predicate recognises a build result on a trace as "a successful write
   of a thread after its own builder returned"; that this is the model's build write (refresh flag off) is the
   started/ended invariant of FailoverStatsObs. *)
From Cache Require Import Base Failover FailoverProofs FailoverEcon FailoverRun FailoverObs FailoverStatsObs.

Lemma c05_single_scan (whole : list fev) :
  (forall l1 t1 k v ttl l2 t2 l3, whole = l1 ++ FWrite t1 k v ttl false None :: l2 ++ FBuildStart t2 k :: l3 -> False) ->
  forall l pre ended built st,
    whole = pre ++ l ->
    swf st (omap sproj l) = true ->
    (forall t, t ∈ ended -> t ∈ st) ->
    (forall k, k ∈ built -> exists l1 t1 v ttl l2, pre = l1 ++ FWrite t1 k v ttl false None :: l2) ->
    c05_single built (mark_build_writes ended l) = true.
Proof.
  intros Hno. induction l as [|e l IH]; intros pre ended built st Hw Hswf Hsub Hb; [reflexivity|].
  assert (Hw' : whole = (pre ++ [e]) ++ l) by (rewrite <- app_assoc; exact Hw).
  assert (Hb' : forall k, k ∈ built -> exists l1 t1 v ttl l2, pre ++ [e] = l1 ++ FWrite t1 k v ttl false None :: l2).
  { intros k Hk. destruct (Hb k Hk) as (l1 & t1 & v & ttl & l2 & ->). exists l1, t1, v, ttl, (l2 ++ [e]).
    rewrite <- app_assoc. reflexivity. }
  destruct e as [t k r|t k v ttl f res|t k|t k r|t m|t w|t k e ex|t k e|t k v e]; cbn in Hswf |- *.
  all: try (eapply IH; eauto; fail).
  - (* FWrite *)
    apply andb_true_iff in Hswf as [Hf Hswf]. apply Bool.eqb_prop in Hf.
    destruct (bool_decide (t ∈ ended)) eqn:Hin; cbn [app].
    + apply bool_decide_eq_true in Hin. pose proof (Hsub _ Hin) as Hst.
      rewrite bool_decide_true in Hf by exact Hst. cbn in Hf. subst f.
      destruct res as [n|]; cbn [c05_single].
      * eapply IH; eauto.
      * eapply IH; [exact Hw'|exact Hswf|exact Hsub|].
        intros k' Hk'. apply elem_of_cons in Hk' as [->|Hk']; [|apply Hb', Hk'].
        exists pre, t, v, ttl, []. reflexivity.
    + eapply IH; eauto.
  - (* FBuildStart: no build result for k may have been stored before *)
    apply andb_true_iff. split.
    + apply negb_true_iff, bool_decide_eq_false. intros Hk. destruct (Hb k Hk) as (l1 & t1 & v & ttl & l2 & ->).
      eapply (Hno l1 t1 k v ttl l2 t l). rewrite Hw, <- app_assoc. reflexivity.
    + eapply IH; [exact Hw'|exact Hswf| |exact Hb']. intros t' Ht'. right. apply Hsub, Ht'.
  - (* FBuildEnd: the thread had been started *)
    apply andb_true_iff in Hswf as [Hst Hswf]. apply bool_decide_eq_true in Hst.
    eapply IH; [exact Hw'|exact Hswf| |exact Hb']. intros t' Ht'. apply elem_of_cons in Ht' as [->|Ht']; [exact Hst|apply Hsub, Ht'].
Qed.

Theorem c05_single_holds (fe : dur -> time -> time -> bool) (nilb : val -> bool) c ls s :
  f_sync_read c = true -> frun fe nilb c f0 ls = Some s -> (forall k, coherent k (flog s)) ->
  C05_single_obs (flog s) = true.
Proof.
  intros Hsr Hr Hco. unfold C05_single_obs.
  apply (c05_single_scan (flog s)) with (pre := []) (st := []).
  - intros l1 t1 k v ttl l2 t2 l3 Hlog. exact (no_rebuild_while_fresh fe nilb c ls s l1 l2 l3 t1 v ttl t2 k Hsr Hr Hlog (Hco k)).
  - reflexivity.
  - exact (proj1 (SInv_run fe nilb c ls _ _ (SInv_init) Hr)).
  - intros t H. apply elem_of_nil in H. destruct H.
  - intros k H. apply elem_of_nil in H. destruct H.
Qed.
