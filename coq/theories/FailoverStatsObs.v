(* FailoverStatsObs.v — the executable metrics predicate the C18 check evaluates on implementation traces of the
   failover frontend (FailoverObs.C18F_obs: cache_build = builder invocations, cache_failed = failed builds,
   cache_refreshed = stale re-stores, and no metric at all without a stats tracker) holds of the event log of every
   quiescent reachable state of the interleaving model.  The stale re-stores are recognised on a trace as "a write of a
   thread that precedes its own builder invocation"; that this reading coincides with the model's refresh flag is an
   invariant over all schedules (a thread that has not reached its builder has no BuildStart event; a thread that writes
   a build result has one). *)
From Cache Require Import Base Failover FailoverProofs FailoverRun FailoverObs.

(* ---- the predicate on a bare log ---- *)
Definition c18f_log (stat : bool) (l : list fev) : bool :=
  if stat then
    (count_ev (fun e => match e with FStat _ MBuild => true | _ => false end) l
       =? count_ev (fun e => match e with FBuildStart _ _ => true | _ => false end) l) &&
    (count_ev (fun e => match e with FStat _ MFailed => true | _ => false end) l
       =? count_ev (fun e => match e with FBuildEnd _ _ (inr _) => true | _ => false end) l) &&
    (count_ev (fun e => match e with FStat _ MRefreshed => true | _ => false end) l =? refresh_writes [] l)
  else count_ev (fun e => match e with FStat _ _ => true | _ => false end) l =? 0.

Lemma C18F_obs_unfold c : C18F_obs c = c18f_log (f_stat (fc_cfg c)) (impl_trace c).
Proof. reflexivity. Qed.

(* ---- counting: filter-length = weighted count of the projected events ---- *)
Lemma count_ev_cntb (p : fev -> bool) (q : bev -> bool) (l : list fev) :
  (forall e, p e = match bproj e with Some b => q b | None => false end) ->
  count_ev p l = cntb q (omap bproj l).
Proof.
  intros H. unfold count_ev, cntb. induction l as [|e l IH]; [reflexivity|].
  cbn [List.filter]. rewrite (H e).
  change (omap bproj (e :: l)) with (match bproj e with Some y => y :: omap bproj l | None => omap bproj l end).
  destruct (bproj e) as [b|]; [|exact IH].
  cbn [foldr]. destruct (q b); cbn [b2z length].
  - rewrite Nat2Z.inj_succ, IH. lia.
  - rewrite IH. lia.
Qed.

(* ---- the started-scan ---- *)
Inductive sev := SStart (t : tid) | SWr (t : tid) (refresh : bool) | SEnd (t : tid).
Definition sproj (e : fev) : option sev :=
  match e with
  | FBuildStart t _ => Some (SStart t)
  | FWrite t _ _ _ f _ => Some (SWr t f)
  | FBuildEnd t _ _ => Some (SEnd t)
  | _ => None
  end.

Fixpoint swf (st : list tid) (l : list sev) : bool :=
  match l with
  | [] => true
  | SStart t :: r => swf (t :: st) r
  | SWr t f :: r => Bool.eqb f (negb (bool_decide (t ∈ st))) && swf st r
  | SEnd t :: r => bool_decide (t ∈ st) && swf st r      (* a builder returns only after it was invoked *)
  end.

Fixpoint sstarted (st : list tid) (l : list sev) : list tid :=
  match l with
  | [] => st
  | SStart t :: r => sstarted (t :: st) r
  | SWr _ _ :: r => sstarted st r
  | SEnd _ :: r => sstarted st r
  end.

Lemma swf_app st l1 l2 : swf st (l1 ++ l2) = swf st l1 && swf (sstarted st l1) l2.
Proof.
  revert st; induction l1 as [|[t|t f|t] l1 IH]; intros st; cbn; [reflexivity|apply IH| |];
    rewrite IH, andb_assoc; reflexivity.
Qed.

Lemma sstarted_app st l1 l2 : sstarted st (l1 ++ l2) = sstarted (sstarted st l1) l2.
Proof. revert st; induction l1 as [|[t|t f|t] l1 IH]; intros st; cbn; auto. Qed.

Lemma refresh_writes_flag : forall l st, swf st (omap sproj l) = true ->
  refresh_writes st l = cntb is_brefresh (omap bproj l).
Proof.
  unfold cntb. induction l as [|e l IH]; intros st H; [reflexivity|].
  destruct e as [t k r|t k v ttl f res|t k|t k r|t m|t w|t k e ex|t k e|t k v e]; cbn in H |- *.
  all: try (rewrite (IH st H); lia).
  all: try (apply andb_true_iff in H as [_ H]; rewrite (IH st H); destruct r; lia).
  - (* FWrite *)
    apply andb_true_iff in H as [Hf H]. apply Bool.eqb_prop in Hf.
    rewrite (IH st H). destruct f; cbn.
    + symmetry in Hf. apply negb_true_iff in Hf. rewrite Hf. lia.
    + symmetry in Hf. apply negb_false_iff in Hf. rewrite Hf. lia.
  - (* FBuildStart *)
    rewrite (IH _ H). lia.
Qed.

Section Stats.
Context (fe : dur -> time -> time -> bool) (nilb : val -> bool).
Notation fstep := (fstep fe nilb).
Notation frun := (frun fe nilb).

Definition early (p : pc) : bool :=
  match p with
  | PStart | PPreRead | PAcquire | PSyncRead | PClassify | PRefreshLog | PRefreshStat | PRefreshWrite => true
  | _ => false
  end.
Definition inb3 (p : pc) : bool :=
  match p with PBuilderEntry | PBuilderExit | PBuildWrite => true | _ => false end.

Definition step_sevs (t : tid) (th th' : thread) : list sev :=
  match t_pc th with
  | PRefreshWrite => [SWr t true]
  | PBuildWrite => [SWr t false]
  | PBuildLog => [SStart t]
  | PBuilderExit => [SEnd t]
  | PCtxSync => if inb3 (t_pc th') then [SStart t] else []
  | _ => []
  end.

Ltac fstep_cases Hs Ht :=
  unfold Failover.fstep in Hs; rewrite Ht in Hs;
  repeat match type of Hs with
  | context [match ?x with _ => _ end] => destruct x eqn:?; try discriminate
  end; try (injection Hs as <-).

Lemma stat_shape c s t o s' th :
  threads s !! t = Some th -> fstep c s (LStep t o) = Some s' ->
  exists evs, flog s' = flog s ++ evs /\
    ((exists th', threads s' = <[t := th']> (threads s) /\ omap sproj evs = step_sevs t th th' /\
        (early (t_pc th') = true -> early (t_pc th) = true) /\
        (inb3 (t_pc th') = true -> inb3 (t_pc th) = true \/ t_pc th = PBuildLog \/ t_pc th = PCtxSync)) \/
     (exists fg bg, threads s' = <[bg_tid t := bg]> (<[t := fg]> (threads s)) /\ threads s !! bg_tid t = None /\
        t_pc th = PCtxSync /\ t_pc fg = PDone /\
        omap sproj evs = (if inb3 (t_pc bg) then [SStart (bg_tid t)] else []) /\ early (t_pc bg) = false)).
Proof.
  intros Ht Hs. fstep_cases Hs Ht.
  all: try (eexists; split; [first [cbn; reflexivity|cbn; symmetry; apply app_nil_r]|]; left; eexists; split; [cbn; reflexivity|];
            split; [unfold step_sevs, leave, set_res, set_pc, ret_events, build_ev, to_wait, to_refresh, after_refresh_log, to_build, after_failed, to_stat_build in *;
                    cbn; repeat match goal with H : t_pc _ = _ |- _ => rewrite H end; cbn;
                    repeat case_match; cbn in *; try reflexivity; try congruence; try discriminate|];
            split; unfold leave, set_res, set_pc, to_wait, to_refresh, after_refresh_log, to_build, after_failed, to_stat_build in *;
            cbn; repeat match goal with H : t_pc _ = _ |- _ => rewrite H end; cbn;
            repeat case_match; cbn in *; intros; try reflexivity; try congruence; try discriminate; auto).
  all: try (eexists; split; [cbn; reflexivity|]; right; do 2 eexists; split; [cbn; reflexivity|];
            split; [first [assumption|reflexivity]|]; split; [first [assumption|reflexivity]|]; split; [reflexivity|];
            unfold build_ev, to_build; cbn; repeat case_match; cbn in *; try discriminate; split; reflexivity).
Qed.

Definition SInv (s : fstate) : Prop :=
  swf [] (omap sproj (flog s)) = true /\
  let st := sstarted [] (omap sproj (flog s)) in
  (forall t th, threads s !! t = Some th ->
     (early (t_pc th) = true -> t ∉ st) /\ (inb3 (t_pc th) = true -> t ∈ st)) /\
  (forall t, threads s !! t = None -> t ∉ st).

Lemma SInv_init : SInv f0.
Proof.
  split; [reflexivity|]. cbn. split.
  - intros t th H. rewrite lookup_empty in H. discriminate.
  - intros t _ H. inversion H.
Qed.

Lemma SInv_step c s l s' : SInv s -> fstep c s l = Some s' -> SInv s'.
Proof.
  intros (Hwf & Hthr & Hnone) Hs. unfold SInv. cbn zeta in *. destruct l as [t k skip cell|t o].
  - cbn in Hs. destruct (threads s !! t) eqn:Ht; [discriminate|]. destruct (t <? 1000)%N; [|discriminate].
    injection Hs as <-. cbn. rewrite app_nil_r. split; [exact Hwf|]. split.
    + intros t2 th2 Hl. apply lookup_insert_Some in Hl as [[<- <-]|[Hne Hl]]; [|apply Hthr, Hl].
      cbn. split; [intros _; apply Hnone, Ht|discriminate].
    + intros t2 Hl. apply lookup_insert_None in Hl as [Hl _]. apply Hnone, Hl.
  - destruct (threads s !! t) as [th|] eqn:Ht; [|unfold Failover.fstep in Hs; rewrite Ht in Hs; discriminate].
    destruct (stat_shape _ _ _ _ _ _ Ht Hs) as (evs & Hlog & Hcase).
    destruct (Hthr _ _ Ht) as [Hearly Hin3].
    set (st := sstarted [] (omap sproj (flog s))) in *.
    rewrite Hlog, omap_app, swf_app, sstarted_app, Hwf. fold st. cbn [andb].
    destruct Hcase as [(th' & Hthr' & Hev & He' & Hi')|(fg & bg & Hthr' & Hbgn & Hpc & Hfg & Hev & Hbge)]; rewrite Hev.
    + unfold step_sevs.
      assert (Hother : forall t2 th2, t2 <> t -> threads s' !! t2 = Some th2 -> threads s !! t2 = Some th2).
      { intros t2 th2 Hne Hl. rewrite Hthr', lookup_insert_ne in Hl by congruence. exact Hl. }
      assert (Hnone' : forall t2, threads s' !! t2 = None -> threads s !! t2 = None /\ t2 <> t).
      { intros t2 Hl. rewrite Hthr' in Hl. apply lookup_insert_None in Hl as [Hl Hne]. split; [exact Hl|congruence]. }
      destruct (t_pc th) eqn:Hp; cbn [swf sstarted].
      (* PRefreshWrite, PBuildWrite: a write, the started set is unchanged *)
      10: { rewrite bool_decide_false by (apply Hearly; reflexivity). cbn. split; [reflexivity|]. split.
           - intros t2 th2 Hl. destruct (decide (t2 = t)) as [->|Hne].
             + rewrite Hthr', lookup_insert in Hl. injection Hl as <-. split; [intros _; apply Hearly; reflexivity|].
               intros Hi. destruct (Hi' Hi) as [H|[H|H]]; discriminate.
             + apply Hthr, (Hother _ _ Hne Hl).
           - intros t2 Hl. apply Hnone, (Hnone' _ Hl). }
      17: { rewrite bool_decide_true by (apply Hin3; reflexivity). cbn. split; [reflexivity|]. split.
           - intros t2 th2 Hl. destruct (decide (t2 = t)) as [->|Hne].
             + rewrite Hthr', lookup_insert in Hl. injection Hl as <-. split; [intros He; specialize (He' He); discriminate|].
               intros _. apply Hin3. reflexivity.
             + apply Hthr, (Hother _ _ Hne Hl).
           - intros t2 Hl. apply Hnone, (Hnone' _ Hl). }
      (* PBuildLog: the builder is invoked *)
      12: { split; [reflexivity|]. split.
           - intros t2 th2 Hl. destruct (decide (t2 = t)) as [->|Hne].
             + rewrite Hthr', lookup_insert in Hl. injection Hl as <-. split; [intros He; specialize (He' He); discriminate|].
               intros _. left.
             + destruct (Hthr _ _ (Hother _ _ Hne Hl)) as [H1 H2]. split.
               * intros He Hin. apply elem_of_cons in Hin as [->|Hin]; [congruence|]. exact (H1 He Hin).
               * intros Hi. right. exact (H2 Hi).
           - intros t2 Hl Hin. destruct (Hnone' _ Hl) as [Hl0 Hne]. apply elem_of_cons in Hin as [->|Hin]; [congruence|].
             exact (Hnone _ Hl0 Hin). }
      (* PCtxSync (synchronous build) *)
      11: { destruct (inb3 (t_pc th')) eqn:Hi3; cbn [swf sstarted]; (split; [reflexivity|]); split.
           - intros t2 th2 Hl. destruct (decide (t2 = t)) as [->|Hne].
             + rewrite Hthr', lookup_insert in Hl. injection Hl as <-. split; [intros He; specialize (He' He); discriminate|].
               intros _. left.
             + destruct (Hthr _ _ (Hother _ _ Hne Hl)) as [H1 H2]. split.
               * intros He Hin. apply elem_of_cons in Hin as [->|Hin]; [congruence|]. exact (H1 He Hin).
               * intros Hi. right. exact (H2 Hi).
           - intros t2 Hl Hin. destruct (Hnone' _ Hl) as [Hl0 Hne]. apply elem_of_cons in Hin as [->|Hin]; [congruence|].
             exact (Hnone _ Hl0 Hin).
           - intros t2 th2 Hl. destruct (decide (t2 = t)) as [->|Hne].
             + rewrite Hthr', lookup_insert in Hl. injection Hl as <-. split; [intros He; specialize (He' He); discriminate|].
               intros Hi. congruence.
             + apply Hthr, (Hother _ _ Hne Hl).
           - intros t2 Hl. apply Hnone, (Hnone' _ Hl). }
      (* PBuilderExit: the builder returns; it had been invoked *)
      12: { rewrite bool_decide_true by (apply Hin3; reflexivity). cbn. split; [reflexivity|]. split.
           - intros t2 th2 Hl. destruct (decide (t2 = t)) as [->|Hne].
             + rewrite Hthr', lookup_insert in Hl. injection Hl as <-. split; [intros He; specialize (He' He); discriminate|].
               intros _. apply Hin3. reflexivity.
             + apply Hthr, (Hother _ _ Hne Hl).
           - intros t2 Hl. apply Hnone, (Hnone' _ Hl). }
      (* every other pc: no event of interest *)
      all: split; [reflexivity|]; split;
        [intros t2 th2 Hl; destruct (decide (t2 = t)) as [->|Hne];
          [rewrite Hthr', lookup_insert in Hl; injection Hl as <-; split;
            [intros He; apply Hearly; exact (He' He)
            |intros Hi; destruct (Hi' Hi) as [H|[H|H]]; first [discriminate H | (apply Hin3; exact H)]]
          |apply Hthr, (Hother _ _ Hne Hl)]
        |intros t2 Hl; apply Hnone, (Hnone' _ Hl)].
    + (* background build handed to a new goroutine *)
      assert (Hother : forall t2 th2, t2 <> t -> t2 <> bg_tid t -> threads s' !! t2 = Some th2 -> threads s !! t2 = Some th2).
      { intros t2 th2 Hne Hne2 Hl. rewrite Hthr', lookup_insert_ne, lookup_insert_ne in Hl by congruence. exact Hl. }
      assert (Hbg_ne : bg_tid t <> t) by (unfold bg_tid; lia).
      destruct (inb3 (t_pc bg)) eqn:Hi3; cbn [swf sstarted]; (split; [reflexivity|]); split.
      * intros t2 th2 Hl. destruct (decide (t2 = bg_tid t)) as [->|Hne2].
        -- rewrite Hthr', lookup_insert in Hl. injection Hl as <-. split; [congruence|intros _; left].
        -- destruct (decide (t2 = t)) as [->|Hne].
           ++ rewrite Hthr', lookup_insert_ne, lookup_insert in Hl by congruence. injection Hl as <-.
              rewrite Hfg. split; discriminate.
           ++ destruct (Hthr _ _ (Hother _ _ Hne Hne2 Hl)) as [H1 H2]. split.
              ** intros He Hin. apply elem_of_cons in Hin as [->|Hin]; [congruence|]. exact (H1 He Hin).
              ** intros Hi. right. exact (H2 Hi).
      * intros t2 Hl Hin. rewrite Hthr' in Hl. apply lookup_insert_None in Hl as [Hl Hne2].
        apply lookup_insert_None in Hl as [Hl Hne]. apply elem_of_cons in Hin as [->|Hin]; [congruence|]. exact (Hnone _ Hl Hin).
      * intros t2 th2 Hl. destruct (decide (t2 = bg_tid t)) as [->|Hne2].
        -- rewrite Hthr', lookup_insert in Hl. injection Hl as <-. split; [congruence|congruence].
        -- destruct (decide (t2 = t)) as [->|Hne].
           ++ rewrite Hthr', lookup_insert_ne, lookup_insert in Hl by congruence. injection Hl as <-.
              rewrite Hfg. split; discriminate.
           ++ apply Hthr, (Hother _ _ Hne Hne2 Hl).
      * intros t2 Hl. rewrite Hthr' in Hl. apply lookup_insert_None in Hl as [Hl Hne2].
        apply lookup_insert_None in Hl as [Hl Hne]. exact (Hnone _ Hl).
Qed.

Lemma SInv_run c ls : forall s s', SInv s -> frun c s ls = Some s' -> SInv s'.
Proof.
  induction ls as [|l ls IH]; intros s s' Hi Hr; cbn in Hr; [injection Hr as <-; exact Hi|].
  destruct (fstep c s l) as [s1|] eqn:Hs; [|discriminate]. eapply IH; [eapply SInv_step; eauto|exact Hr].
Qed.

(* on every reachable log, "a write before the thread's own builder invocation" = the model's refresh flag *)
Lemma refresh_reading c ls s : frun c f0 ls = Some s ->
  refresh_writes [] (flog s) = cntb is_brefresh (omap bproj (flog s)).
Proof. intros Hr. apply refresh_writes_flag. exact (proj1 (SInv_run _ _ _ _ SInv_init Hr)). Qed.

(* ---- without a stats tracker no metric event is ever emitted ---- *)
Definition stat_pc (p : pc) : bool :=
  match p with PRefreshStat | PStatFailed | PStatBuild => true | _ => false end.

Definition NoStat (s : fstate) : Prop :=
  (forall t th, threads s !! t = Some th -> stat_pc (t_pc th) = false) /\
  cntb (fun b => match b with BStat _ => true | _ => false end) (omap bproj (flog s)) = 0.

Lemma cntb_app q l1 l2 : cntb q (l1 ++ l2) = cntb q l1 + cntb q l2.
Proof. unfold cntb. induction l1 as [|x l1 IH]; cbn; [lia|]. rewrite IH. lia. Qed.

Lemma NoStat_step c s l s' : f_stat c = false -> NoStat s -> fstep c s l = Some s' -> NoStat s'.
Proof.
  intros Hst [Hpc Hlog] Hs. destruct l as [t k skip cell|t o].
  - cbn in Hs. destruct (threads s !! t) eqn:Ht; [discriminate|]. destruct (t <? 1000)%N; [|discriminate].
    injection Hs as <-. split; cbn; [|rewrite app_nil_r; exact Hlog].
    intros t2 th2 Hl. apply lookup_insert_Some in Hl as [[<- <-]|[_ Hl]]; [reflexivity|eauto].
  - destruct (threads s !! t) as [th|] eqn:Ht; [|unfold Failover.fstep in Hs; rewrite Ht in Hs; discriminate].
    pose proof (Hpc _ _ Ht) as Hp.
    destruct (step_shape fe nilb _ _ _ _ _ _ Ht Hs) as (evs & Hl & [(th' & Hthr & Hk & Hin & Hexit & Hev)|(fg & bg & Hthr & Hn & Hpp & Hpf & Hpb & Hkb & Hkf & Hev)]).
    + split.
      * intros t2 th2 Hl2. rewrite Hthr in Hl2. apply lookup_insert_Some in Hl2 as [[<- <-]|[_ Hl2]]; [|eauto].
        unfold succs, to_wait, to_refresh, after_refresh_log, to_build, after_failed, to_stat_build in Hin. rewrite Hst in Hin.
        destruct (t_pc th); cbn in Hin; try discriminate Hp;
          repeat (destruct Hin as [Hin|Hin]; [rewrite <- Hin; repeat case_match; reflexivity|]); destruct Hin.
      * rewrite Hl, omap_app, cntb_app, Hlog, Hev. unfold trans_evs.
        destruct (t_pc th); try discriminate Hp; cbn; repeat case_match; reflexivity.
    + split.
      * intros t2 th2 Hl2. rewrite Hthr in Hl2. apply lookup_insert_Some in Hl2 as [[<- <-]|[_ Hl2]].
        -- rewrite Hpb. unfold to_build. destruct (f_debug c); reflexivity.
        -- apply lookup_insert_Some in Hl2 as [[<- <-]|[_ Hl2]]; [rewrite Hpf; reflexivity|eauto].
      * rewrite Hl, omap_app, cntb_app, Hlog, Hev. destruct (inb (t_pc bg)); reflexivity.
Qed.

Lemma NoStat_run c ls : f_stat c = false -> forall s s', NoStat s -> frun c s ls = Some s' -> NoStat s'.
Proof.
  intros Hst. induction ls as [|l ls IH]; intros s s' Hi Hr; cbn in Hr; [injection Hr as <-; exact Hi|].
  destruct (fstep c s l) as [s1|] eqn:Hs; [|discriminate]. eapply IH; [eapply NoStat_step; eauto|exact Hr].
Qed.

Lemma NoStat_init : NoStat f0.
Proof. split; [intros t th H; cbn in H; rewrite lookup_empty in H; discriminate|reflexivity]. Qed.

(* ---- the predicate holds at quiescence ---- *)
Theorem c18f_obs_holds c ls s :
  frun c f0 ls = Some s -> all_done s -> c18f_log (f_stat c) (flog s) = true.
Proof.
  intros Hr Hd. unfold c18f_log. destruct (f_stat c) eqn:Hst.
  - destruct (failover_totals fe nilb c ls s Hst Hr Hd) as (H1 & H2 & H3). cbn zeta in *.
    rewrite (count_ev_cntb _ (is_bstat MBuild)), (count_ev_cntb _ is_bstart),
            (count_ev_cntb _ (is_bstat MFailed)), (count_ev_cntb _ is_bfail),
            (count_ev_cntb _ (is_bstat MRefreshed)), (refresh_reading c ls s Hr).
    + rewrite H1, H2, H3, !Z.eqb_refl. reflexivity.
    + intros [ | | | |t m| | | |]; try reflexivity; try (destruct refresh; reflexivity). destruct m; reflexivity.
    + intros [ | | |t k r| | | | |]; try reflexivity; try (destruct refresh; reflexivity). destruct r; reflexivity.
    + intros [ | | | |t m| | | |]; try reflexivity; try (destruct refresh; reflexivity). destruct m; reflexivity.
    + intros [ | | | | | | | |]; try reflexivity; destruct refresh; reflexivity.
    + intros [ | | | |t m| | | |]; try reflexivity; try (destruct refresh; reflexivity). destruct m; reflexivity.
  - rewrite (count_ev_cntb _ (fun b => match b with BStat _ => true | _ => false end)).
    + rewrite (proj2 (NoStat_run c ls Hst _ _ NoStat_init Hr)). reflexivity.
    + intros [ | | | | | | | |]; try reflexivity; destruct refresh; reflexivity.
Qed.
End Stats.
