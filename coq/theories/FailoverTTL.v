(* FailoverTTL.v — how the TTL travels through Failover.Get (C06), on the interleaving model.

   The caller's context carries a TTL cell ([t_cell], None = no TTL in the context); the builder's
   WithTTL(ctx, ttl, true) calls ([o_upd], in order) update that cell keeping the minimal non-zero
   value; the built value is stored with the cell's TTL (0 = backend default); the temporary re-store
   of a stale value uses UpdateTTL in a context of its own and leaves the cell alone. *)
From Cache Require Import Base Failover FailoverProofs FailoverProv.

(* ---------- WithTTL(ctx, ttl, true): the minimal non-zero TTL wins ---------- *)
Lemma upd_cell_spec e t :
  let r := upd_cell e t in
  (r = e \/ r = t) /\ (r = 0 <-> e = 0 /\ t = 0) /\ (e <> 0 -> r <> 0 /\ r <= e) /\ (t <> 0 -> r <> 0 /\ r <= t).
Proof. unfold upd_cell. cbn. repeat case_match; lia. Qed.

Lemma fold_upd_spec upd : forall c,
  (fold_left upd_cell upd c = 0 <-> c = 0 /\ Forall (fun x => x = 0) upd) /\
  (fold_left upd_cell upd c <> 0 ->
     fold_left upd_cell upd c ∈ c :: upd /\ Forall (fun x => x = 0 \/ fold_left upd_cell upd c <= x) (c :: upd)).
Proof.
  induction upd as [|t upd IH]; intros c; cbn [fold_left].
  - split; [split; [intros ->; split; [done|constructor]|tauto]|].
    intros Hr. split; [apply elem_of_list_here|]. constructor; [right; lia|constructor].
  - destruct (IH (upd_cell c t)) as [IH1 IH2]. destruct (upd_cell_spec c t) as (Hsel & Hz & Hc & Ht).
    set (r := fold_left upd_cell upd (upd_cell c t)) in *.
    split.
    + rewrite IH1. split.
      * intros [H0 HF]. apply Hz in H0 as [-> ->]. split; [done|]. by constructor.
      * intros [-> HF]. inversion HF; subst. split; [apply Hz; done|done].
    + intros Hr. destruct (IH2 Hr) as [Hin HF]. split.
      * apply elem_of_cons in Hin as [Heq|Hin]; [|by do 2 apply elem_of_list_further].
        destruct Hsel as [Hs|Hs]; rewrite Hs in Heq; rewrite Heq; [apply elem_of_list_here|apply elem_of_list_further, elem_of_list_here].
      * inversion HF as [|? ? Hhd Htl]; subst.
        constructor; [|constructor; [|exact Htl]].
        -- destruct (decide (c = 0)) as [->|Hc0]; [by left|right]. destruct (Hc Hc0) as [Hnz Hl].
           destruct Hhd as [H0|Hle]; lia.
        -- destruct (decide (t = 0)) as [->|Ht0]; [by left|right]. destruct (Ht Ht0) as [Hnz Hl].
           destruct Hhd as [H0|Hle]; lia.
Qed.

(* no TTL in the caller's context: the builder's updates have nothing to update (interpretation O3) *)
Lemma apply_upd_none upd : apply_upd None upd = None.
Proof. reflexivity. Qed.

Section TTL.
Context (fe : dur -> time -> time -> bool) (nilb : val -> bool).
Notation fstep := (fstep fe nilb).

(* the cell of a thread changes at one place only: the builder's exit *)
Lemma cell_changes_only_in_builder c s t o s' th :
  threads s !! t = Some th -> fstep c s (LStep t o) = Some s' ->
  exists th', threads s' !! t = Some th' /\
    t_cell th' = (if decide (t_pc th = PBuilderExit) then apply_upd (t_cell th) (o_upd o) else t_cell th) /\
    (* a background build starts with the caller's cell and key *)
    (forall bg, threads s' !! bg_tid t = Some bg -> threads s !! bg_tid t = None ->
                t_cell bg = t_cell th /\ t_key bg = t_key th /\ t_skip bg = t_skip th).
Proof.
  intros Ht Hs. fstep_cases Hs Ht.
  all: cbn [threads upd_thread set_kl].
  all: try (eexists; split; [apply lookup_insert|]; split;
            [unfold leave, set_res, set_pc; cbn; repeat case_match; try done; congruence|];
            intros bg Hbg Hnone; rewrite lookup_insert_ne in Hbg by (unfold bg_tid; lia); congruence).
  (* the spawn of the background build *)
  all: eexists; split; [rewrite lookup_insert_ne by (unfold bg_tid; lia); apply lookup_insert|]; split;
       [cbn; repeat case_match; try done; congruence|].
  all: intros bg Hbg _; rewrite lookup_insert in Hbg; injection Hbg as <-; done.
Qed.

(* other threads' steps leave a thread's cell alone *)
Lemma cell_frame c s t o s' t1 th1 :
  threads s !! t1 = Some th1 -> t1 <> t -> fstep c s (LStep t o) = Some s' -> threads s' !! t1 = Some th1.
Proof.
  intros Ht1 Hne Hs.
  destruct (threads s !! t) as [th|] eqn:Ht; [|unfold Failover.fstep in Hs; rewrite Ht in Hs; discriminate].
  destruct (fstep_rank fe nilb _ _ _ _ _ _ Ht Hs) as [(th' & -> & _)|(fg & bg & -> & Hn & _)].
  - by rewrite lookup_insert_ne.
  - destruct (decide (bg_tid t = t1)) as [<-|?]; [congruence|]. rewrite lookup_insert_ne by done. by rewrite lookup_insert_ne.
Qed.

(* the built value is stored with the TTL of the cell, whatever path led to the build; the re-store of
   a stale value is a write with UpdateTTL that does not involve the cell *)
Lemma store_ttls c s t o s' th :
  threads s !! t = Some th -> fstep c s (LStep t o) = Some s' ->
  (t_pc th = PBuildWrite -> exists res, flog s' = flog s ++ [FWrite t (t_key th) (t_res th).1 (cell_ttl (t_cell th)) false res]) /\
  (t_pc th = PRefreshWrite -> exists res, flog s' = flog s ++ [FWrite t (t_key th) (t_value th) (f_update_ttl c) true res]) /\
  (forall k v ttl r res, FWrite t k v ttl r res ∈ flog s' -> FWrite t k v ttl r res ∈ flog s \/
      (r = false /\ t_pc th = PBuildWrite /\ ttl = cell_ttl (t_cell th)) \/
      (r = true /\ t_pc th = PRefreshWrite /\ ttl = f_update_ttl c)).
Proof.
  intros Ht Hs. fstep_cases Hs Ht; cbn [flog upd_thread set_kl]; split_and!; try (intros; discriminate); try (intros _; eexists; reflexivity).
  all: intros kk vv tt rr rs Hin; try (left; exact Hin).
  all: apply elem_of_app in Hin as [Hin|Hin]; [left; exact Hin|].
  all: unfold build_ev, ret_events, leave, set_res, set_pc in Hin; cbn in Hin.
  all: repeat case_match; cbn in Hin.
  all: repeat (apply elem_of_cons in Hin as [Hin|Hin]; [try discriminate|]); try (apply elem_of_nil in Hin; done).
  all: simplify_eq; right; first [left; done | right; done].
Qed.

(* a Get with SkipRead still stores what it built: nothing between the builder's success and the store
   looks at the flag *)
Lemma skip_still_stores c s t o s' th v :
  threads s !! t = Some th -> t_pc th = PBuilderExit -> o_built o = inl v -> fstep c s (LStep t o) = Some s' ->
  exists th', threads s' !! t = Some th' /\ t_pc th' = PBuildWrite /\ t_res th' = (v, None) /\ t_skip th' = t_skip th.
Proof.
  intros Ht Hpc Hb Hs. unfold Failover.fstep in Hs. rewrite Ht, Hpc, Hb in Hs. injection Hs as <-.
  eexists. split; [cbn; apply lookup_insert|]. done.
Qed.

End TTL.
