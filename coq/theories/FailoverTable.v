(* FailoverTable.v — C03: the outcome of a lone Get, computed by RUNNING the interleaving model
   (one Get and, if it starts one, its background build, to completion), equals the decision table
   transcribed from the README, for every configuration, entry state, failure-cache state, builder
   result, value, instant and duration. The staleness and nil tests are abstract parameters, so the
   case analysis is over finitely many shapes while values and times stay universally quantified. *)
From Cache Require Import Base Failover FailoverRun FailoverObs.

Section Lone.
Context (fe : dur -> time -> time -> bool) (nilb : val -> bool).

Fixpoint drive (fuel : nat) (c : fcfg) (s : fstate) (t : tid) (o : orc) : fstate :=
  match fuel with
  | O => s
  | S f => match fstep fe nilb c s (LStep t o) with
           | Some s' => drive f c s' t o
           | None => s
           end
  end.

Definition lone_key : key := [].

(* one Get (thread 1) with context TTL cell [cell], on a failure cache [errs0], every call-out answered
   from the oracle bundle [o]; then its background build (thread 1001), if any *)
Definition lone_get (c : fcfg) (cell : option dur) (errs0 : gmap key (err * time)) (o : orc) : fstate :=
  let s0 := mkF ∅ ∅ ∅ 0%N errs0 [] in
  match fstep fe nilb c s0 (LSpawn 1%N lone_key false cell) with
  | Some s1 => drive 40 c (drive 40 c s1 1%N o) 1001%N o
  | None => s0
  end.

Definition lone_outcome (c : fcfg) (cell : option dur) (errs0 : gmap key (err * time)) (o : orc) : option outcome :=
  trace_outcome 1%N (flog (lone_get c cell errs0 o)).

Definition classify_fe (max_stale : dur) (now : time) (r : rres) : option entry_class :=
  match r with
  | RMiss => Some Absent
  | RHit v => Some (Fresh v)
  | RExp v a => Some (if fe max_stale now a then StaleOK v else TooStale v)
  | RFault _ => None
  end.

(* failure cache: either empty or holding a never-expiring error for the key *)
Definition errs_of (hit : option err) : gmap key (err * time) :=
  match hit with Some e => {[ lone_key := (e, 0) ]} | None => ∅ end.

Definition mk_cfg (v : variant) (su sr fh : bool) (ms : dur) (ft_on : bool) (ftp : positive) (uttl : dur) (dbg wrn st : bool) : fcfg :=
  mkFcfg v su sr fh ms (if ft_on then Z.pos ftp else Z.neg ftp) uttl dbg wrn st.

End Lone.

(* value shapes: the nil test of the executable model computes on them with the magnitude left symbolic *)
Inductive vshape := V0 | Vpos (p : positive) | Vneg (p : positive).
Definition vval (s : vshape) : val := match s with V0 => 0 | Vpos p => Z.pos p | Vneg p => Z.neg p end.
Lemma vshape_all v : exists s, v = vval s.
Proof. destruct v as [|p|p]; [exists V0|exists (Vpos p)|exists (Vneg p)]; reflexivity. Qed.

Inductive rdshape := RdMiss | RdHit (x : vshape) | RdExp (x : vshape) (a : time).
Definition rd_of (r : rdshape) : rres :=
  match r with RdMiss => RMiss | RdHit x => RHit (vval x) | RdExp x a => RExp (vval x) a end.
Definition class_of (stale_ok : bool) (r : rdshape) : entry_class :=
  match r with
  | RdMiss => Absent
  | RdHit x => Fresh (vval x)
  | RdExp x _ => if stale_ok then StaleOK (vval x) else TooStale (vval x)
  end.

(* the table, for either answer of the staleness test, every value shape, every configuration *)
Lemma lone_table_shapes stale_ok v su sr fh ms ft_on ftp uttl dbg wrn st cell hit now r built upd errexp :
  lone_outcome (fun _ _ _ => stale_ok) nil_impl (mk_cfg v su sr fh ms ft_on ftp uttl dbg wrn st) cell
               (errs_of (if ft_on then hit else None)) (mkOrc now (rd_of r) None built upd errexp)
  = Some (spec_table nil_impl v su fh uttl (cell_ttl (apply_upd cell upd)) (class_of stale_ok r)
                     (if ft_on then hit else None) built).
Proof.
  destruct r as [|[|p|p]|[|p|p] a], stale_ok, v, su, sr, fh, ft_on, dbg, wrn, st, hit as [e|], cell as [cl|], built as [u|m];
    vm_compute; reflexivity.
Qed.

Lemma lone_table stale_ok v su sr fh ms ft_on ftp uttl dbg wrn st cell hit now rd built upd errexp ec :
  classify_fe (fun _ _ _ => stale_ok) ms now rd = Some ec ->
  lone_outcome (fun _ _ _ => stale_ok) nil_impl (mk_cfg v su sr fh ms ft_on ftp uttl dbg wrn st) cell
               (errs_of (if ft_on then hit else None)) (mkOrc now rd None built upd errexp)
  = Some (spec_table nil_impl v su fh uttl (cell_ttl (apply_upd cell upd)) ec (if ft_on then hit else None) built).
Proof.
  intros Hc. destruct rd as [x| |x a|n]; cbn in Hc; try discriminate; injection Hc as <-.
  - destruct (vshape_all x) as [sx ->]. apply (lone_table_shapes stale_ok _ _ _ _ _ _ _ _ _ _ _ _ _ _ (RdHit sx)).
  - apply (lone_table_shapes stale_ok _ _ _ _ _ _ _ _ _ _ _ _ _ _ RdMiss).
  - destruct (vshape_all x) as [sx ->]. apply (lone_table_shapes stale_ok _ _ _ _ _ _ _ _ _ _ _ _ _ _ (RdExp sx a)).
Qed.
