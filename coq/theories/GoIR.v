(* GoIR.v — a small intermediate representation of Go function bodies and its interpreter.

   The translator /verif/harness/cmd/gofunc dumps the bodies of selected functions of /repo, on every run,
   as terms of [gfunc] (Generated/Funcs.v); it decides nothing about their meaning.  Meaning is given here:
   [exec] interprets statements in continuation-passing style over an environment that binds locals and
   "leaves" (selector paths such as "c.Config.TimeToLive", printed as in the source) to values, and a
   table of primitives [P] (what a call such as atomic.LoadInt64 or c.Stat.Add does) that each tie file
   supplies.  Inputs of a function are symbolic Coq variables inside the values, so running the interpreter
   on a concrete body yields a decision tree over them, which the tie lemmas (Tie*.v) prove equal to the
   hand-written model functions for ALL inputs.

   Floats are symbolic terms ([fterm]); comparisons and the conversion to an integer are oracles ([fcmp],
   [ftrunc]) of the interpreter, so that a tie lemma pins the SHAPE of a float formula (e.g. the jitter term)
   without computing it. *)
From Coq Require Import String ZArith List Bool.
Import ListNotations.
Open Scope string_scope.
Open Scope Z_scope.

Inductive gexpr :=
| GId (x : string)
| GLeaf (p : string)
| GInt (z : Z)
| GFloat (n d : Z)
| GStr (s : string)
| GBool (b : bool)
| GNil
| GUn (op : string) (a : gexpr)
| GBin (op : string) (a b : gexpr)
| GCall (f : string) (args : list gexpr)
| GLit (ty : string) (fs : list (string * gexpr))
| GAssert (e : gexpr) (ty : string)
| GFunc (body : list gstmt)
| GSel (e : gexpr) (f : string)       (* a selector on an operand that is not a plain path, e.g. Config{...}.Use *)
| GOther (s : string)
with gstmt :=
| GExprS (e : gexpr)
| GAssign (lhs rhs : list gexpr)
| GVar (names : list string) (ty : string)
| GIf (init : list gstmt) (c : gexpr) (th el : list gstmt)
| GSwitch (tag : gexpr) (cases : list (list gexpr * list gstmt))
| GReturn (es : list gexpr)
| GBlock (l : list gstmt)
| GRange (k v : string) (coll : gexpr) (body : list gstmt)
| GWhile (c : gexpr) (body : list gstmt)
| GFor (init : gstmt) (c : gexpr) (post : gstmt) (body : list gstmt)
| GDefer (e : gexpr)
| GGo (e : gexpr)
| GBranch (what : string)      (* break / continue (unlabelled) *)
| GOtherS (s : string).

Record gfunc := mkGFunc { gf_name : string; gf_params : list string; gf_body : list gstmt }.

(* symbolic float terms *)
Inductive fterm :=
| FOfZ (z : Z)
| FConst (n d : Z)
| FSym (s : string)
| FBin (op : string) (a b : fterm).

Inductive value :=
| VZ (z : Z)
| VB (b : bool)
| VNil
| VStr (s : string)
| VF (f : fterm)
| VPtr (nonnil : bool) (name : string)      (* pointer / interface / func value that may be nil *)
| VRef (p : string)                          (* &path *)
| VRec (ty : string) (fs : list (string * value))
| VTup (l : list value)
| VBad (why : string).

Definition effect := (string * list value)%type.
Record st := mkSt {
  env : list (string * value); eff : list effect;
  defers : list (list gstmt);   (* deferred closures, newest first *)
  gos : list (list gstmt);      (* bodies of `go func() { ... }()`, oldest first: they run after the function has returned *)
}.

Inductive outcome :=
| Ret (vs : list value) (s : st)
| Fall (s : st)
| Bad (why : string).

Fixpoint lookup (x : string) (e : list (string * value)) : option value :=
  match e with
  | [] => None
  | (y, v) :: r => if String.eqb x y then Some v else lookup x r
  end.

Definition bind (x : string) (v : value) (s : st) : st := mkSt ((x, v) :: env s) (eff s) (defers s) (gos s).
Definition emit (f : string) (args : list value) (s : st) : st := mkSt (env s) (eff s ++ [(f, args)]) (defers s) (gos s).
Definition push_defer (b : list gstmt) (s : st) : st := mkSt (env s) (eff s) (b :: defers s) (gos s).
Definition clear_defers (s : st) : st := mkSt (env s) (eff s) [] (gos s).
Definition push_go (b : list gstmt) (s : st) : st := mkSt (env s) (eff s) (defers s) (gos s ++ [b]).
Definition clear_gos (s : st) : st := mkSt (env s) (eff s) (defers s) [].

Definition prims := string -> list value -> st -> option (value * st).

(* The interpreter is polymorphic in its answer type [R]: [kret] receives the values of a return statement
   and the final state, [kbad] a diagnosis when the body leaves the interpreted subset.  A tie lemma
   instantiates [kret] with its observation function, so that running the interpreter yields a decision tree
   whose leaves are already observations. *)
Section Interp.
  Context (P : prims).
  Context (fcmp : string -> fterm -> fterm -> bool).   (* float comparison oracle *)
  (* what a range loop over a collection does as a whole (loops are not unrolled: a tie file recognises the
     body it expects and says what the loop amounts to; None = not recognised) *)
  Context (loop : string -> string -> value -> list gstmt -> st -> option st).
  Context {R : Type} (kret : list value -> st -> R) (kbad : string -> R).

  Definition to_f (v : value) : option fterm :=
    match v with VF f => Some f | VZ z => Some (FOfZ z) | _ => None end.

  Definition binop (op : string) (a b : value) : value :=
    match op, a, b with
    | "==", VZ x, VZ y => VB (x =? y)
    | "!=", VZ x, VZ y => VB (negb (x =? y))
    | "<", VZ x, VZ y => VB (x <? y)
    | "<=", VZ x, VZ y => VB (x <=? y)
    | ">", VZ x, VZ y => VB (y <? x)
    | ">=", VZ x, VZ y => VB (y <=? x)
    | "+", VZ x, VZ y => VZ (x + y)
    | "-", VZ x, VZ y => VZ (x - y)
    | "*", VZ x, VZ y => VZ (x * y)
    | "^", VZ x, VZ y => VZ (Z.lxor x y)
    | "/", VZ x, VZ y => if y =? 0 then VBad "integer division by zero" else VZ (Z.quot x y)   (* Go truncates toward zero *)
    | "%", VZ x, VZ y => if y =? 0 then VBad "integer division by zero" else VZ (Z.rem x y)
    | "+", VStr x, VStr y => VStr (x ++ y)
    | "==", VB x, VB y => VB (Bool.eqb x y)
    | "!=", VB x, VB y => VB (negb (Bool.eqb x y))
    | "==", VStr x, VStr y => VB (String.eqb x y)
    | "!=", VStr x, VStr y => VB (negb (String.eqb x y))
    | "==", VPtr n _, VNil => VB (negb n)
    | "!=", VPtr n _, VNil => VB n
    | "==", VNil, VNil => VB true
    | "!=", VNil, VNil => VB false
    | "==", VRec _ _, VNil => VB false      (* a boxed value is not nil *)
    | "!=", VRec _ _, VNil => VB true
    | _, VF x, VF y =>
        if String.eqb op "+" || String.eqb op "-" || String.eqb op "*" || String.eqb op "/"
        then VF (FBin op x y) else VB (fcmp op x y)
    | _, _, _ => VBad ("binop " ++ op)
    end.

  Definition unop (op : string) (a : value) : value :=
    match op, a with
    | "!", VB x => VB (negb x)
    | "-", VZ x => VZ (- x)
    | "&", VRec ty fs => VRec ty fs          (* address of a composite literal: a fresh object *)
    | _, _ => VBad ("unop " ++ op)
    end.

  Definition assign1 (l : gexpr) (v : value) (s : st) : option st :=
    match l with
    | GId x => Some (bind x v s)
    | GLeaf p => if String.eqb p "_" then Some s else Some (emit ("assign " ++ p) [v] (bind p v s))   (* a store to shared state is an effect *)
    | _ => None
    end.

  Fixpoint assign_all (ls : list gexpr) (vs : list value) (s : st) : option st :=
    match ls, vs with
    | [], [] => Some s
    | l :: ls', v :: vs' => match assign1 l v s with Some s' => assign_all ls' vs' s' | None => None end
    | _, _ => None
    end.

  Fixpoint eval (fuel : nat) (e : gexpr) (s : st) (k : value -> st -> R) {struct fuel} : R :=
    match fuel with
    | O => kbad "fuel"
    | S fuel' =>
      let fix eval_list (es : list gexpr) (s : st) (k : list value -> st -> R) {struct es} : R :=
        match es with
        | [] => k [] s
        | e1 :: r => eval fuel' e1 s (fun v s1 => eval_list r s1 (fun vs s2 => k (v :: vs) s2))
        end in
      let fix eval_fields (fs : list (string * gexpr)) (s : st) (k : list (string * value) -> st -> R) {struct fs} : R :=
        match fs with
        | [] => k [] s
        | (n, e1) :: r => eval fuel' e1 s (fun v s1 => eval_fields r s1 (fun vs s2 => k ((n, v) :: vs) s2))
        end in
      match e with
      | GId x => match lookup x (env s) with Some v => k v s | None => kbad ("unbound " ++ x) end
      | GLeaf p => match lookup p (env s) with Some v => k v s | None => kbad ("unbound leaf " ++ p) end
      | GInt z => k (VZ z) s
      | GFloat n d => k (VF (FConst n d)) s
      | GStr x => k (VStr x) s
      | GBool b => k (VB b) s
      | GNil => k VNil s
      | GUn "&" (GLeaf p) => k (VRef p) s
      | GUn "&" (GId x) => k (VRef x) s
      | GUn "<-" (GLeaf p) =>       (* a channel receive: what it synchronises with is the primitive table's business *)
          match P "<-" [VRef p] s with
          | Some (v, s1) => k v s1
          | None => kbad ("receive from " ++ p) end
      | GUn op a => eval fuel' a s (fun v s1 => k (unop op v) s1)
      | GBin "&&" a b =>
          eval fuel' a s (fun v s1 => match v with
                                      | VB x => if x then eval fuel' b s1 k else k (VB false) s1
                                      | _ => kbad "&& on non-bool" end)
      | GBin "||" a b =>
          eval fuel' a s (fun v s1 => match v with
                                      | VB x => if x then k (VB true) s1 else eval fuel' b s1 k
                                      | _ => kbad "|| on non-bool" end)
      | GBin op a b => eval fuel' a s (fun va s1 => eval fuel' b s1 (fun vb s2 => k (binop op va vb) s2))
      | GCall f args =>
          eval_list args s (fun vs s1 => match P f vs s1 with
                                         | Some (v, s2) => k v s2
                                         | None => kbad ("unknown call " ++ f) end)
      | GLit ty fs => eval_fields fs s (fun vs s1 => k (VRec ty vs) s1)
      | GAssert a ty =>
          eval fuel' a s (fun v s1 => match P ("$assert:" ++ ty) [v] s1 with
                                      | Some (v', s2) => k v' s2
                                      | None => kbad ("unknown assertion " ++ ty) end)
      | GFunc _ => k (VPtr true "func") s
      | GSel a f => eval fuel' a s (fun v s1 => k (VRec "selection" [("of", v); ("field", VStr f)]) s1)
      | GOther x => kbad ("untranslated expression " ++ x)
      end
    end.

  Fixpoint eval_list (fuel : nat) (es : list gexpr) (s : st) (k : list value -> st -> R) : R :=
    match es with
    | [] => k [] s
    | e1 :: r => eval fuel e1 s (fun v s1 => eval_list fuel r s1 (fun vs s2 => k (v :: vs) s2))
    end.

  (* a multi-valued right-hand side: one call returning a tuple, or as many expressions as targets *)
  Definition spread (n : nat) (vs : list value) : list value :=
    match vs with
    | [VTup l] => if Nat.eqb n 1 then vs else l
    | _ => vs
    end.

  Fixpoint exec (fuel : nat) (x : gstmt) (s : st) (k : st -> R) {struct fuel} : R :=
    match fuel with
    | O => kbad "fuel"
    | S fuel' =>
      let fix exec_list (l : list gstmt) (s : st) (k : st -> R) {struct l} : R :=
        match l with
        | [] => k s
        | x1 :: r => exec fuel' x1 s (fun s1 => exec_list r s1 k)
        end in
      let fix cases (v : value) (cs : list (list gexpr * list gstmt)) (dflt : option (list gstmt)) (s : st) {struct cs} : R :=
        match cs with
        | [] => match dflt with Some b => exec_list b s k | None => k s end
        | ([], b) :: r => cases v r (Some b) s
        | (vals, b) :: r =>
            let fix any (vals : list gexpr) (s : st) {struct vals} : R :=
              match vals with
              | [] => cases v r dflt s
              | c1 :: more =>
                  eval fuel' c1 s (fun cv s1 => match binop "==" v cv with
                                                | VB hit => if hit then exec_list b s1 k else any more s1
                                                | _ => kbad "switch comparison" end)
              end in
            any vals s
        end in
      match x with
      | GExprS e => eval fuel' e s (fun _ s1 => k s1)
      | GAssign ls rs =>
          eval_list fuel' rs s (fun vs s1 => match assign_all ls (spread (length ls) vs) s1 with
                                             | Some s2 => k s2
                                             | None => kbad "assignment" end)
      | GVar names ty =>
          (fix go (ns : list string) (s : st) : R :=
             match ns with
             | [] => k s
             | n :: r => match P "$zero" [VStr ty] s with
                         | Some (v, s1) => go r (bind n v s1)
                         | None => kbad ("zero value of " ++ ty) end
             end) names s
      | GIf init c th el =>
          exec_list init s (fun s1 =>
            eval fuel' c s1 (fun v s2 => match v with
                                         | VB b => if b then exec_list th s2 k else exec_list el s2 k
                                         | _ => kbad "if on non-bool" end))
      | GSwitch tag cs => eval fuel' tag s (fun v s1 => cases v cs None s1)
      | GReturn es =>
          (* the results are evaluated, then the deferred closures run, newest first *)
          eval_list fuel' es s (fun vs s1 =>
            (fix rund (ds : list (list gstmt)) (s : st) {struct ds} : R :=
               match ds with
               | [] =>
                   (* the function has returned: the goroutines it started run now (the return is recorded first) *)
                   (fix rung (gs : list (list gstmt)) (s : st) {struct gs} : R :=
                      match gs with
                      | [] => kret (spread 0 vs) s
                      | g :: r =>
                          exec_list g s (fun s' =>
                            (fix rund2 (ds : list (list gstmt)) (s : st) {struct ds} : R :=
                               match ds with
                               | [] => rung r s
                               | d :: r2 => exec_list d s (fun s'' => rund2 r2 s'')
                               end) (defers s') (clear_defers s'))
                      end) (gos s) (clear_gos (match gos s with [] => s | _ => emit "return" (spread 0 vs) s end))
               | d :: r => exec_list d s (fun s' => rund r s')
               end) (defers s1) (clear_defers s1))
      | GBlock l => exec_list l s k
      | GRange kv vv coll body =>
          eval fuel' coll s (fun cv s1 => match loop kv vv cv body s1 with
                                          | Some s2 => k s2
                                          | None => kbad "loop not recognised" end)
      | GWhile _ body =>           (* `for cond { ... }` / `for { ... }`: recognised as a whole by the tie, like range loops *)
          match loop "$while" "" VNil body s with
          | Some s2 => k s2
          | None => kbad "loop not recognised" end
      | GFor _ _ _ body =>
          match loop "$for" "" VNil body s with
          | Some s2 => k s2
          | None => kbad "loop not recognised" end
      | GDefer e =>
          match e with
          | GCall "$closure" [GFunc body] => k (push_defer body s)     (* defer func() { ... }() *)
          | GCall f _ => k (emit ("defer " ++ f) [] s)                 (* defer x.Unlock(): recorded where it is registered *)
          | _ => kbad "defer"
          end
      | GGo (GCall "$closure" [GFunc body]) => k (push_go body s)
      | GGo (GCall f []) => k (emit "go" [VStr f] s)       (* `go c.method()`: which goroutine is started is observable *)
      | GGo _ => k (emit "go" [] s)
      | GBranch what => kret [VStr what] s     (* leaves the loop body being interpreted: reported like a return *)
      | GOtherS x => kbad ("untranslated statement " ++ x)
      end
    end.

  Fixpoint exec_list (fuel : nat) (l : list gstmt) (s : st) (k : st -> R) : R :=
    match l with
    | [] => k s
    | x1 :: r => exec fuel x1 s (fun s1 => exec_list fuel r s1 k)
    end.

  Fixpoint zip_params (ps : list string) (vs : list value) : list (string * value) :=
    match ps, vs with
    | p :: ps', v :: vs' => (p, v) :: zip_params ps' vs'
    | _, _ => []
    end.

  (* run a function on arguments, with [leaves] binding the selector paths it reads *)
  Definition run (f : gfunc) (args : list value) (leaves : list (string * value)) (kfall : st -> R) : R :=
    exec_list 60 (gf_body f) (mkSt (zip_params (gf_params f) args ++ leaves) [] [] [])
              (fun s => (fix rund (ds : list (list gstmt)) (s : st) {struct ds} : R :=
                           match ds with
                           | [] => kfall s
                           | d :: r => exec_list 60 d s (fun s' => rund r s')
                           end) (defers s) (clear_defers s)).
End Interp.

(* accessors used by tie lemmas about loops: the body of the first range loop nested in a statement list *)
Fixpoint first_range (fuel : nat) (l : list gstmt) : option (string * string * list gstmt) :=
  match fuel with
  | O => None
  | S fuel' =>
    match l with
    | [] => None
    | GRange k v _ body :: r =>
        match first_range fuel' body with
        | Some inner => Some inner
        | None => Some (k, v, body)
        end
    | GFor _ _ _ body :: r =>      (* an index loop over the same elements *)
        match first_range fuel' body with
        | Some inner => Some inner
        | None => Some ("", "", body)
        end
    | GBlock b :: r => match first_range fuel' b with Some x => Some x | None => first_range fuel' r end
    | _ :: r => first_range fuel' r
    end
  end.

Definition no_loop (k v : string) (c : value) (body : list gstmt) (s : st) : option st := None.

Definition effects_named (f : string) (l : list effect) : list (list value) :=
  map snd (filter (fun e => String.eqb (fst e) f) l).
