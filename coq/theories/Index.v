(* Index.v — InvalidationIndex (invalidator.go:50-195): labels -> keys per cache name, and
   InvalidateByLabels with its put-back on failure. The model follows the algorithm (cut the labels
   out of the index, delete label by label with a dedup set, on a deleter failure put the not yet
   deleted keys of the unfinished labels back), with the repairs of known_findings.json applied.

   Caches are sets of keys; a deleter call on (cache, key) fails iff the pair is in the oracle set
   [broken] (a backend outage), reports ErrNotFound iff the key is absent, and removes it otherwise. *)
From Cache Require Import Base.

Definition label := N.
Definition cid := N.
Definition cname := N.

Notation lkeys := (gmap label (list key)).            (* one cache name: label -> keys, in AddLabels order, repeats kept *)
Notation caches := (gmap cid (list key)).             (* cache contents (key sets as duplicate-free lists) *)

Definition add_labels (lk : lkeys) (k : key) (ls : list label) : lkeys :=
  foldl (fun m l => <[l := default [] (m !! l) ++ [k]]> m) lk ls.

(* Delete on one cache *)
Inductive dres := DOk | DNotFound | DFail.
Definition del1 (broken : list (cid * key)) (cs : caches) (c : cid) (k : key) : dres * caches :=
  if bool_decide ((c, k) ∈ broken) then (DFail, cs)
  else match cs !! c with
       | Some ks => if bool_decide (k ∈ ks) then (DOk, <[c := List.filter (fun x => negb (bool_decide (x = k))) ks]> cs)
                    else (DNotFound, cs)
       | None => (DNotFound, cs)
       end.

(* delete key k from every cache of the name, in order; stops at the first failure *)
Fixpoint del_key (broken : list (cid * key)) (cs : caches) (ds : list cid) (k : key) (cnt : Z) : bool * caches * Z :=
  match ds with
  | [] => (true, cs, cnt)
  | d :: r =>
    match del1 broken cs d k with
    | (DFail, cs') => (false, cs', cnt)
    | (DOk, cs') => del_key broken cs' r k (cnt + 1)
    | (DNotFound, cs') => del_key broken cs' r k cnt
    end
  end.

(* the keys of one label: returns (ok, caches, count, deleted-set) *)
Fixpoint del_keys (broken : list (cid * key)) (cs : caches) (ds : list cid) (ks : list key) (deleted : list key) (cnt : Z)
  : bool * caches * Z * list key :=
  match ks with
  | [] => (true, cs, cnt, deleted)
  | k :: r =>
    if bool_decide (k ∈ deleted) then del_keys broken cs ds r deleted cnt
    else match del_key broken cs ds k cnt with
         | (true, cs', cnt') => del_keys broken cs' ds r (k :: deleted) cnt'
         | (false, cs', cnt') => (false, cs', cnt', deleted)
         end
  end.

(* label by label over the cut; [pending] = labels of the cut not yet finished *)
Fixpoint del_labels (broken : list (cid * key)) (cut : list (label * list key)) (cs : caches) (ds : list cid)
         (deleted : list key) (cnt : Z) : bool * caches * Z * list key * list (label * list key) :=
  match cut with
  | [] => (true, cs, cnt, deleted, [])
  | (l, ks) :: r =>
    match del_keys broken cs ds ks deleted cnt with
    | (true, cs', cnt', deleted') => del_labels broken r cs' ds deleted' cnt'
    | (false, cs', cnt', deleted') => (false, cs', cnt', deleted', (l, ks) :: r)
    end
  end.

(* cutKeys: the distinct labels of the argument list with their keys, removed from the index *)
Fixpoint cut_keys (lk : lkeys) (ls : list label) (seen : list label) : list (label * list key) * lkeys :=
  match ls with
  | [] => ([], lk)
  | l :: r =>
    if bool_decide (l ∈ seen) then cut_keys lk r seen
    else let '(cut, lk') := cut_keys (delete l lk) r (l :: seen) in
         ((l, default [] (lk !! l)) :: cut, lk')
  end.

(* put back: the not yet deleted keys of the unfinished labels return to the index *)
Definition put_back (lk : lkeys) (pending : list (label * list key)) (deleted : list key) : lkeys :=
  foldl (fun m lks =>
           let keep := List.filter (fun k => negb (bool_decide (k ∈ deleted))) lks.2 in
           if decide (keep = []) then m else <[lks.1 := default [] (m !! lks.1) ++ keep]> m) lk pending.

(* InvalidateByLabels for one cache name *)
(* [mid]: AddLabels calls by others that land after the cut and before the put-back *)
Definition invalidate_name (broken : list (cid * key)) (lk : lkeys) (cs : caches) (ds : list cid) (ls : list label)
           (mid : list (key * list label)) : bool * Z * lkeys * caches :=
  let '(cut, lk1) := cut_keys lk ls [] in
  let lk2 := foldl (fun m a => add_labels m a.1 a.2) lk1 mid in
  let '(ok, cs', cnt, deleted, pending) := del_labels broken cut cs ds [] 0 in
  (ok, cnt, put_back lk2 pending deleted, cs').

Record idx := mkIdx { i_labeled : gmap cname lkeys; i_deleters : gmap cname (list cid) }.

(* all names, in the order the map iteration produced (an input); stops at the first failure *)
Fixpoint invalidate (broken : list (cid * key)) (order : list cname) (ix : idx) (cs : caches) (ls : list label) (cnt : Z)
         (mid : list (key * list label)) : bool * Z * idx * caches :=
  match order with
  | [] => (true, cnt, ix, cs)
  | n :: r =>
    match i_labeled ix !! n with
    | None => invalidate broken r ix cs ls cnt mid
    | Some lk =>
      (* interleaved AddLabels are only generated for the first name processed *)
      let '(ok, c, lk', cs') := invalidate_name broken lk cs (default [] (i_deleters ix !! n)) ls mid in
      let ix' := mkIdx (<[n := lk']> (i_labeled ix)) (i_deleters ix) in
      if ok then invalidate broken r ix' cs' ls (cnt + c) [] else (false, cnt + c, ix', cs')
    end
  end.

(* keys that carry one of the labels under a name *)
Definition labelled (lk : lkeys) (ls : list label) (k : key) : Prop := exists l, l ∈ ls /\ k ∈ default [] (lk !! l).
