(* IndexProofs.v — C15: label invalidation is complete, precise and loses nothing on failure. *)
From Cache Require Import Base Index.

Definition has (cs : caches) (c : cid) (k : key) : Prop := k ∈ default [] (cs !! c).
Definition absent (cs : caches) (ds : list cid) (k : key) : Prop := forall d, d ∈ ds -> ~ has cs d k.
Definition only_removes (cs cs' : caches) : Prop := forall c k, has cs' c k -> has cs c k.
(* cs' differs from cs at most on key k in the caches ds *)
Definition same_except (cs cs' : caches) (ds : list cid) (P : key -> Prop) : Prop :=
  forall c k, (~ P k \/ c ∉ ds) -> (has cs' c k <-> has cs c k).

Lemma elem_of_filter_neq (k x : key) ks :
  x ∈ List.filter (fun y => negb (bool_decide (y = k))) ks <-> x ∈ ks /\ x <> k.
Proof. rewrite elem_of_list_In, filter_In, <- elem_of_list_In, negb_true_iff, bool_decide_eq_false. tauto. Qed.

(* ---------- one deleter call ---------- *)
Lemma has_remove cs c ks k c' k' :
  cs !! c = Some ks ->
  has (<[c := List.filter (fun x => negb (bool_decide (x = k))) ks]> cs) c' k' <-> has cs c' k' /\ ~ (c' = c /\ k' = k).
Proof.
  intros Hc. unfold has in *. destruct (decide (c' = c)) as [->|Hne].
  - rewrite lookup_insert, Hc. cbn. rewrite elem_of_filter_neq. tauto.
  - rewrite lookup_insert_ne by congruence. tauto.
Qed.

Lemma del1_spec broken cs c k r cs' :
  del1 broken cs c k = (r, cs') ->
  only_removes cs cs' /\
  (forall c' k', (c' <> c \/ k' <> k) -> (has cs' c' k' <-> has cs c' k')) /\
  (r = DFail -> cs' = cs /\ (c, k) ∈ broken) /\
  (r <> DFail -> ~ has cs' c k /\ (c, k) ∉ broken).
Proof.
  unfold del1. destruct (bool_decide ((c, k) ∈ broken)) eqn:Hb.
  - apply bool_decide_eq_true in Hb. intros [= <- <-].
    split; [intros ? ? H; exact H|]. split; [tauto|]. split; [auto|]. intros H. contradiction.
  - apply bool_decide_eq_false in Hb.
    destruct (cs !! c) as [ks|] eqn:Hc.
    + destruct (bool_decide (k ∈ ks)) eqn:Hk; intros [= <- <-].
      * split; [intros c' k' H; apply (has_remove _ _ _ _ _ _ Hc) in H; tauto|].
        split; [intros c' k' H; rewrite (has_remove _ _ _ _ _ _ Hc); tauto|].
        split; [discriminate|]. intros _. split; [|exact Hb]. rewrite (has_remove _ _ _ _ _ _ Hc). tauto.
      * apply bool_decide_eq_false in Hk.
        split; [intros ? ? H; exact H|]. split; [tauto|]. split; [discriminate|].
        intros _. split; [|exact Hb]. unfold has. rewrite Hc. exact Hk.
    + intros [= <- <-].
      split; [intros ? ? H; exact H|]. split; [tauto|]. split; [discriminate|].
      intros _. split; [|exact Hb]. unfold has. rewrite Hc. cbn. intros H. inversion H.
Qed.

(* ---------- one key over all deleters of the name ---------- *)
Lemma del_key_spec broken ds : forall cs k cnt ok cs' cnt',
  del_key broken cs ds k cnt = (ok, cs', cnt') ->
  only_removes cs cs' /\
  (forall c k', k' <> k -> (has cs' c k' <-> has cs c k')) /\
  (forall c, c ∉ ds -> forall k', has cs' c k' <-> has cs c k') /\
  (ok = true -> absent cs' ds k) /\
  ((forall d, d ∈ ds -> (d, k) ∉ broken) -> ok = true) /\
  cnt <= cnt'.
Proof.
  induction ds as [|d ds IH]; intros cs k cnt ok cs' cnt' H; cbn in H.
  - simplify_eq. split_and!; try tauto; try lia; [intros ? ? Hx; exact Hx|intros _ ? Hx; inversion Hx].
  - destruct (del1 broken cs d k) as [r cs1] eqn:H1.
    destruct (del1_spec _ _ _ _ _ _ H1) as (Hmono & Hother & Hfail & Hnf).
    destruct r.
    + (* DOk *) destruct (IH _ _ _ _ _ _ H) as (M & O & N & A & B & C).
      destruct (Hnf ltac:(discriminate)) as [Hgone Hnb]. split_and!.
      * intros c k' Hh. apply Hmono, M, Hh.
      * intros c k' Hne. rewrite (O c k' Hne). apply Hother. right. exact Hne.
      * intros c Hc k'. rewrite (N c ltac:(set_solver) k'). apply Hother. left. set_solver.
      * intros Hok' d' Hd'. apply elem_of_cons in Hd' as [->|Hd']; [|apply (A Hok' _ Hd')].
        intros Hh. apply Hgone. apply M. exact Hh.
      * intros Hb. apply B. intros d' Hd'. apply Hb. set_solver.
      * lia.
    + (* DNotFound *) destruct (IH _ _ _ _ _ _ H) as (M & O & N & A & B & C).
      destruct (Hnf ltac:(discriminate)) as [Hgone Hnb]. split_and!.
      * intros c k' Hh. apply Hmono, M, Hh.
      * intros c k' Hne. rewrite (O c k' Hne). apply Hother. right. exact Hne.
      * intros c Hc k'. rewrite (N c ltac:(set_solver) k'). apply Hother. left. set_solver.
      * intros Hok' d' Hd'. apply elem_of_cons in Hd' as [->|Hd']; [|apply (A Hok' _ Hd')].
        intros Hh. apply Hgone. apply M. exact Hh.
      * intros Hb. apply B. intros d' Hd'. apply Hb. set_solver.
      * lia.
    + (* DFail *) simplify_eq. destruct (Hfail eq_refl) as [-> Hbr]. split_and!; try tauto; try lia;
        try (intros ? ? Hx; exact Hx); try discriminate.
      intros Hb. exfalso. apply (Hb d); [set_solver|exact Hbr].
Qed.

(* ---------- the keys of one label ---------- *)
Lemma del_keys_spec broken ds ks : forall cs deleted cnt ok cs' cnt' deleted',
  del_keys broken cs ds ks deleted cnt = (ok, cs', cnt', deleted') ->
  only_removes cs cs' /\
  (forall c k', k' ∉ ks -> (has cs' c k' <-> has cs c k')) /\
  (forall c, c ∉ ds -> forall k', has cs' c k' <-> has cs c k') /\
  (forall k, k ∈ deleted -> k ∈ deleted') /\
  (forall k, k ∈ deleted' -> k ∈ deleted \/ (k ∈ ks /\ absent cs' ds k)) /\
  (ok = true -> forall k, k ∈ ks -> k ∈ deleted') /\
  ((forall d k, d ∈ ds -> k ∈ ks -> (d, k) ∉ broken) -> ok = true) /\
  cnt <= cnt'.
Proof.
  induction ks as [|k ks IH]; intros cs deleted cnt ok cs' cnt' deleted' H; cbn in H.
  - simplify_eq. split_and!; try tauto; try lia; [intros ? ? Hx; exact Hx|intros _ ? Hx; inversion Hx].
  - destruct (bool_decide (k ∈ deleted)) eqn:Hd.
    + apply bool_decide_eq_true in Hd. destruct (IH _ _ _ _ _ _ _ H) as (M & O & N & D1 & D2 & A & B & C).
      split_and!; auto.
      * intros c k' Hni. apply O. set_solver.
      * intros k0 Hk0. destruct (D2 _ Hk0) as [?|[? ?]]; [auto|right; split; [set_solver|assumption]].
      * intros Hok k0 Hk0. apply elem_of_cons in Hk0 as [->|Hk0]; [apply D1, Hd|apply (A Hok _ Hk0)].
      * intros Hb. apply B. intros d k0 Hd0 Hk0. apply Hb; [assumption|set_solver].
    + apply bool_decide_eq_false in Hd.
      destruct (del_key broken cs ds k cnt) as [[ok1 cs1] cnt1] eqn:H1.
      destruct (del_key_spec _ _ _ _ _ _ _ _ H1) as (M1 & O1 & N1 & A1 & B1 & C1).
      destruct ok1.
      * destruct (IH _ _ _ _ _ _ _ H) as (M & O & N & D1 & D2 & A & B & C). split_and!.
        -- intros c k' Hh. apply M1, M, Hh.
        -- intros c k' Hni. rewrite (O c k' ltac:(set_solver)). apply O1. set_solver.
        -- intros c Hc k'. rewrite (N c Hc k'). apply N1. exact Hc.
        -- intros k0 Hk0. apply D1. set_solver.
        -- intros k0 Hk0. destruct (D2 _ Hk0) as [Hin|[Hin Ha]].
           ++ apply elem_of_cons in Hin as [->|Hin]; [|auto]. right. split; [set_solver|].
              intros d Hdd Hh. apply (A1 eq_refl d Hdd). apply M. exact Hh.
           ++ right. split; [set_solver|assumption].
        -- intros Hok k0 Hk0. apply elem_of_cons in Hk0 as [->|Hk0]; [apply D1; set_solver|apply (A Hok _ Hk0)].
        -- intros Hb. apply B. intros d k0 Hd0 Hk0. apply Hb; [assumption|set_solver].
        -- lia.
      * simplify_eq. split_and!; auto.
        all: try (intros c k' Hni; apply O1; set_solver).
        all: try discriminate.
        all: try (intros Hb; assert (false = true); [|discriminate]; apply B1; intros d Hdd; apply Hb; [assumption|set_solver]).
Qed.

(* ---------- label by label ---------- *)
Definition cut_keys_of (cut : list (label * list key)) : list key := concat (map snd cut).

Lemma cut_keys_of_cons l ks cut k : k ∈ cut_keys_of ((l, ks) :: cut) <-> k ∈ ks \/ k ∈ cut_keys_of cut.
Proof. unfold cut_keys_of; cbn. apply elem_of_app. Qed.

Lemma del_labels_spec broken ds cut : forall cs deleted cnt ok cs' cnt' deleted' pending,
  del_labels broken cut cs ds deleted cnt = (ok, cs', cnt', deleted', pending) ->
  only_removes cs cs' /\
  (forall c k', k' ∉ cut_keys_of cut -> (has cs' c k' <-> has cs c k')) /\
  (forall c, c ∉ ds -> forall k', has cs' c k' <-> has cs c k') /\
  (forall k, k ∈ deleted -> k ∈ deleted') /\
  (forall k, k ∈ deleted' -> k ∈ deleted \/ (k ∈ cut_keys_of cut /\ absent cs' ds k)) /\
  (ok = true -> pending = [] /\ forall k, k ∈ cut_keys_of cut -> k ∈ deleted') /\
  (ok = false -> forall l ks k, (l, ks) ∈ cut -> k ∈ ks -> k ∈ deleted' \/ (l, ks) ∈ pending) /\
  ((forall d k, d ∈ ds -> k ∈ cut_keys_of cut -> (d, k) ∉ broken) -> ok = true) /\
  cnt <= cnt'.
Proof.
  induction cut as [|[l ks] cut IH]; intros cs deleted cnt ok cs' cnt' deleted' pending H; cbn in H.
  - simplify_eq. split_and!; try tauto; try lia; try discriminate.
    + intros ? ? Hx; exact Hx.
    + intros _. split; [reflexivity|]. intros k Hk. inversion Hk.
  - destruct (del_keys broken cs ds ks deleted cnt) as [[[ok1 cs1] cnt1] del1] eqn:H1.
    destruct (del_keys_spec _ _ _ _ _ _ _ _ _ _ H1) as (M1 & O1 & N1 & D11 & D12 & A1 & B1 & C1).
    destruct ok1.
    + destruct (IH _ _ _ _ _ _ _ _ H) as (M & O & N & D1 & D2 & A & F & B & C). split_and!.
      * intros c k' Hh. apply M1, M, Hh.
      * intros c k' Hni. rewrite cut_keys_of_cons in Hni. rewrite (O c k' ltac:(tauto)). apply O1. tauto.
      * intros c Hc k'. rewrite (N c Hc k'). apply N1. exact Hc.
      * intros k0 Hk0. apply D1, D11, Hk0.
      * intros k0 Hk0. rewrite cut_keys_of_cons. destruct (D2 _ Hk0) as [Hin|[Hin Ha]].
        -- destruct (D12 _ Hin) as [?|[Hks Ha]]; [auto|]. right. split; [tauto|].
           intros d Hdd Hh. apply (Ha d Hdd). apply M. exact Hh.
        -- right. split; [tauto|assumption].
      * intros Hok. destruct (A Hok) as [Hp Hall]. split; [exact Hp|]. intros k0 Hk0.
        apply cut_keys_of_cons in Hk0 as [Hk0|Hk0]; [apply D1; apply (A1 eq_refl _ Hk0)|apply (Hall _ Hk0)].
      * intros Hf l0 ks0 k0 Hin Hk0. apply elem_of_cons in Hin as [Heq|Hin].
        -- injection Heq as -> ->. left. apply D1. apply (A1 eq_refl _ Hk0).
        -- apply (F Hf _ _ _ Hin Hk0).
      * intros Hb. apply B. intros d k0 Hd0 Hk0. apply Hb; [assumption|]. rewrite cut_keys_of_cons. tauto.
      * lia.
    + simplify_eq. split_and!; auto.
      all: try (intros c k' Hni; rewrite cut_keys_of_cons in Hni; apply O1; tauto).
      all: try (intros k0 Hk0; rewrite cut_keys_of_cons; destruct (D12 _ Hk0) as [?|[? ?]]; [auto|right; split; [tauto|assumption]]).
      all: try discriminate.
      all: try (intros _ l0 ks0 k0 Hin Hk0; right; exact Hin).
      all: try (intros Hb; assert (false = true); [|discriminate]; apply B1; intros d k0 Hd0 Hk0; apply Hb; [assumption|];
                rewrite cut_keys_of_cons; tauto).
Qed.

(* ---------- the cut ---------- *)
Lemma cut_keys_spec ls : forall lk seen cut lk',
  cut_keys lk ls seen = (cut, lk') ->
  (forall l, (l ∈ ls /\ l ∉ seen) -> lk' !! l = None) /\
  (forall l, l ∉ ls -> lk' !! l = lk !! l) /\
  (forall l, l ∈ ls -> l ∉ seen -> exists ks, (l, ks) ∈ cut /\ ks = default [] (lk !! l)) /\
  (forall l ks, (l, ks) ∈ cut -> l ∈ ls /\ l ∉ seen /\ ks = default [] (lk !! l)) /\
  (forall l, l ∈ seen -> l ∈ ls -> lk' !! l = lk !! l \/ lk' !! l = None).
Proof.
  induction ls as [|l ls IH]; intros lk seen cut lk' H; cbn in H.
  - simplify_eq. repeat split; try tauto; intros; try set_solver.
  - destruct (bool_decide (l ∈ seen)) eqn:Hs.
    + apply bool_decide_eq_true in Hs. destruct (IH _ _ _ _ H) as (A & B & C & D & E).
      split_and!.
      * intros x [Hin Hns]. apply A. split; [|assumption]. set_solver.
      * intros x Hni. apply B. set_solver.
      * intros x Hin Hns. apply C; [set_solver|assumption].
      * intros x ks Hin. destruct (D _ _ Hin) as (? & ? & ?). repeat split; auto. set_solver.
      * intros x Hin0 Hin1. destruct (decide (x ∈ ls)) as [Hl|Hl]; [apply E; assumption|]. left. apply B. exact Hl.
    + apply bool_decide_eq_false in Hs.
      destruct (cut_keys (delete l lk) ls (l :: seen)) as [cut1 lk1] eqn:H1. simplify_eq.
      destruct (IH _ _ _ _ H1) as (A & B & C & D & E).
      split_and!.
      * intros x [Hin Hns]. destruct (decide (x = l)) as [->|Hne].
        -- destruct (decide (l ∈ ls)) as [Hl|Hl].
           ++ destruct (E l ltac:(set_solver) Hl) as [He|He]; [etrans; [exact He|apply lookup_delete]|exact He].
           ++ etrans; [apply (B _ Hl)|apply lookup_delete].
        -- apply A. split; set_solver.
      * intros x Hni. etrans; [apply B; set_solver|apply lookup_delete_ne; set_solver].
      * intros x Hin Hns. destruct (decide (x = l)) as [->|Hne].
        -- eexists. split; [left|reflexivity].
        -- destruct (C x ltac:(set_solver) ltac:(set_solver)) as (ks & Hk & ->).
           exists (default [] (delete l lk !! x)). split; [right; exact Hk|]. rewrite lookup_delete_ne by congruence. reflexivity.
      * intros x ks Hin. apply elem_of_cons in Hin as [[= -> ->]|Hin].
        -- repeat split; auto. set_solver.
        -- destruct (D _ _ Hin) as (H2 & H3 & ->). repeat split; [set_solver|set_solver|].
           rewrite lookup_delete_ne; [reflexivity|]. set_solver.
      * intros x Hin0 Hin1. destruct (decide (x = l)) as [->|Hne]; [contradiction|].
        destruct (decide (x ∈ ls)) as [Hl|Hl].
        -- destruct (E x ltac:(set_solver) Hl) as [He|He]; [left; etrans; [exact He|apply lookup_delete_ne; congruence]|auto].
        -- left. etrans; [apply (B _ Hl)|apply lookup_delete_ne; congruence].
Qed.

(* ---------- the put-back ---------- *)
Lemma put_back_spec pending deleted : forall lk l,
  (forall k, k ∈ default [] (lk !! l) -> k ∈ default [] (put_back lk pending deleted !! l)) /\
  (forall ks k, (l, ks) ∈ pending -> k ∈ ks -> k ∉ deleted -> k ∈ default [] (put_back lk pending deleted !! l)).
Proof.
  induction pending as [|[l0 ks0] pending IH]; intros lk l; cbn.
  - split; [auto|]. intros ks k Hin. inversion Hin.
  - set (keep := List.filter (fun k => negb (bool_decide (k ∈ deleted))) ks0).
    set (lk1 := if decide (keep = []) then lk else <[l0 := default [] (lk !! l0) ++ keep]> lk).
    assert (Hmono : forall k, k ∈ default [] (lk !! l) -> k ∈ default [] (lk1 !! l)).
    { intros k Hk. unfold lk1. destruct (decide (keep = [])); [exact Hk|].
      destruct (decide (l = l0)) as [->|Hne]; [rewrite lookup_insert; cbn; set_solver|rewrite lookup_insert_ne by congruence; exact Hk]. }
    destruct (IH lk1 l) as [I1 I2]. split.
    + intros k Hk. apply I1, Hmono, Hk.
    + intros ks k Hin Hk Hnd. apply elem_of_cons in Hin as [[= -> ->]|Hin]; [|eapply I2; eauto].
      apply I1. unfold lk1.
      assert (Hkeep : k ∈ keep).
      { unfold keep. rewrite elem_of_list_In, filter_In, <- elem_of_list_In, negb_true_iff, bool_decide_eq_false. auto. }
      destruct (decide (keep = [])) as [He|_]; [rewrite He in Hkeep; inversion Hkeep|].
      rewrite lookup_insert. cbn. set_solver.
Qed.

(* ---------- InvalidateByLabels for one name ---------- *)
Lemma cut_labelled lk ls cut lk1 k :
  cut_keys lk ls [] = (cut, lk1) -> (k ∈ cut_keys_of cut <-> labelled lk ls k).
Proof.
  intros Hc. destruct (cut_keys_spec _ _ _ _ _ Hc) as (_ & _ & C3 & C4 & _). split.
  - intros Hck. unfold cut_keys_of in Hck. apply elem_of_list_In, in_concat in Hck as (ks & Hks & Hk).
    apply in_map_iff in Hks as ([l ks'] & Heq & Hin). cbn in Heq. subst ks'. apply elem_of_list_In in Hin.
    destruct (C4 _ _ Hin) as (Hl & _ & Hks). exists l. split; [exact Hl|]. rewrite <- Hks. apply elem_of_list_In, Hk.
  - intros (l & Hl & Hk). destruct (C3 l Hl ltac:(set_solver)) as (ks & Hin & Hks).
    unfold cut_keys_of. apply elem_of_list_In, in_concat. exists ks. split; [|rewrite Hks; apply elem_of_list_In, Hk].
    apply in_map_iff. exists (l, ks). split; [reflexivity|apply elem_of_list_In, Hin].
Qed.

Lemma invalidate_name_ok broken lk cs ds ls mid cnt lk' cs' :
  invalidate_name broken lk cs ds ls mid = (true, cnt, lk', cs') ->
  (* complete *)
  (forall k, labelled lk ls k -> absent cs' ds k) /\
  (* precise *)
  (forall c k, ~ labelled lk ls k -> (has cs' c k <-> has cs c k)) /\
  (forall c, c ∉ ds -> forall k, has cs' c k <-> has cs c k) /\
  only_removes cs cs' /\ 0 <= cnt.
Proof.
  unfold invalidate_name. destruct (cut_keys lk ls []) as [cut lk1] eqn:Hc.
  destruct (del_labels broken cut cs ds [] 0) as [[[[ok cs1] cnt1] deleted] pending] eqn:Hd.
  intros Heq; simplify_eq.
  destruct (del_labels_spec _ _ _ _ _ _ _ _ _ _ _ Hd) as (M & O & N & _ & D2 & A & _ & _ & Cn).
  destruct (A eq_refl) as [_ Hall]. split_and!; auto.
  - intros k Hl. apply (cut_labelled _ _ _ _ k Hc) in Hl.
    destruct (D2 _ (Hall _ Hl)) as [Hx|[_ Ha]]; [inversion Hx|exact Ha].
  - intros c k Hnl. apply O. intros Hck. apply Hnl. apply (cut_labelled _ _ _ _ k Hc). exact Hck.
Qed.

(* without an outage the call succeeds *)
Lemma invalidate_name_no_outage lk cs ds ls mid :
  exists cnt lk' cs', invalidate_name [] lk cs ds ls mid = (true, cnt, lk', cs').
Proof.
  unfold invalidate_name. destruct (cut_keys lk ls []) as [cut lk1] eqn:Hc.
  destruct (del_labels [] cut cs ds [] 0) as [[[[ok cs1] cnt1] deleted] pending] eqn:Hd.
  destruct (del_labels_spec _ _ _ _ _ _ _ _ _ _ _ Hd) as (_ & _ & _ & _ & _ & _ & _ & B & _).
  rewrite B; [eauto|]. intros d k _ _ Hin. inversion Hin.
Qed.

(* on failure nothing is lost: every labelled key is either gone from all caches of the name or
   still indexed under its label; and only labelled keys were touched *)
Lemma invalidate_name_fail broken lk cs ds ls mid cnt lk' cs' :
  invalidate_name broken lk cs ds ls mid = (false, cnt, lk', cs') ->
  (forall l k, l ∈ ls -> k ∈ default [] (lk !! l) -> absent cs' ds k \/ k ∈ default [] (lk' !! l)) /\
  (forall c k, ~ labelled lk ls k -> (has cs' c k <-> has cs c k)) /\
  only_removes cs cs' /\ 0 <= cnt.
Proof.
  unfold invalidate_name. destruct (cut_keys lk ls []) as [cut lk1] eqn:Hc.
  destruct (del_labels broken cut cs ds [] 0) as [[[[ok cs1] cnt1] deleted] pending] eqn:Hd.
  intros Heq; simplify_eq.
  destruct (cut_keys_spec _ _ _ _ _ Hc) as (_ & _ & C3 & C4 & _).
  destruct (del_labels_spec _ _ _ _ _ _ _ _ _ _ _ Hd) as (M & O & N & _ & D2 & _ & F & _ & Cn).
  split_and!; auto.
  - intros l k Hl Hk. destruct (C3 l Hl ltac:(set_solver)) as (ks & Hin & Hks).
    destruct (decide (k ∈ deleted)) as [Hdel|Hnd].
    + left. destruct (D2 _ Hdel) as [Hx|[_ Ha]]; [inversion Hx|exact Ha].
    + right. rewrite <- Hks in Hk. destruct (F eq_refl _ _ _ Hin Hk) as [?|Hp]; [contradiction|].
      eapply (proj2 (put_back_spec pending deleted _ l)); eauto.
  - intros c k Hnl. apply O. intros Hck. apply Hnl. apply (cut_labelled _ _ _ _ k Hc). exact Hck.
Qed.

(* retry after recovery: the second call succeeds and every originally labelled key is gone *)
Lemma invalidate_name_retry broken lk cs ds ls mid cnt lk' cs' :
  invalidate_name broken lk cs ds ls mid = (false, cnt, lk', cs') ->
  exists cnt2 lk2 cs2, invalidate_name [] lk' cs' ds ls [] = (true, cnt2, lk2, cs2) /\
    forall k, labelled lk ls k -> absent cs2 ds k.
Proof.
  intros Hf. destruct (invalidate_name_fail _ _ _ _ _ _ _ _ _ Hf) as (Hkeep & _ & _ & _).
  destruct (invalidate_name_no_outage lk' cs' ds ls []) as (cnt2 & lk2 & cs2 & H2).
  exists cnt2, lk2, cs2. split; [exact H2|].
  destruct (invalidate_name_ok _ _ _ _ _ _ _ _ _ H2) as (Hc & _ & _ & Hm & _).
  intros k (l & Hl & Hk). destruct (Hkeep l k Hl Hk) as [Ha|Hin].
  - intros d Hd Hh. apply (Ha d Hd). apply Hm. exact Hh.
  - apply Hc. exists l. auto.
Qed.

(* ---------- the returned count is exactly the number of cache entries removed ---------- *)
Definition csize (cs : caches) : Z := map_fold (fun _ ks acc => Z.of_nat (length ks) + acc) 0 cs.
Definition cs_nodup (cs : caches) : Prop := forall c ks, cs !! c = Some ks -> NoDup ks.

Lemma csize_insert_new (cs : caches) c ks : cs !! c = None -> csize (<[c := ks]> cs) = Z.of_nat (length ks) + csize cs.
Proof.
  intros Hn. unfold csize. rewrite map_fold_insert_L; [reflexivity| |exact Hn]. intros; lia.
Qed.

Lemma csize_insert_upd (cs : caches) c ks ks' :
  cs !! c = Some ks -> csize (<[c := ks']> cs) = csize cs - Z.of_nat (length ks) + Z.of_nat (length ks').
Proof.
  intros Hc. rewrite <- (insert_delete cs c ks Hc) at 2. rewrite <- (insert_delete_insert cs c ks').
  rewrite !csize_insert_new by apply lookup_delete. lia.
Qed.

Lemma filter_remove_length (k : key) ks :
  NoDup ks -> k ∈ ks ->
  Z.of_nat (length (List.filter (fun x => negb (bool_decide (x = k))) ks)) = Z.of_nat (length ks) - 1.
Proof.
  induction ks as [|x ks IH]; intros Hnd Hin; [by apply elem_of_nil in Hin|].
  apply NoDup_cons in Hnd as [Hx Hnd]. cbn [List.filter].
  destruct (decide (x = k)) as [->|Hne].
  - rewrite bool_decide_eq_true_2 by done. cbn [negb length].
    assert (Hsame : List.filter (fun x => negb (bool_decide (x = k))) ks = ks).
    { clear IH Hin Hnd. induction ks as [|y ks IH]; [done|]. cbn [List.filter].
      rewrite bool_decide_eq_false_2 by (intros ->; apply Hx; left). cbn. f_equal. apply IH.
      intros H. apply Hx. by right. }
    rewrite Hsame. lia.
  - rewrite bool_decide_eq_false_2 by done. cbn [negb length].
    apply elem_of_cons in Hin as [->|Hin]; [done|]. rewrite Nat2Z.inj_succ. rewrite (IH Hnd Hin). lia.
Qed.

Lemma filter_nodup (k : key) ks : NoDup ks -> NoDup (List.filter (fun x => negb (bool_decide (x = k))) ks).
Proof.
  induction ks as [|x ks IH]; intros Hnd; [constructor|]. apply NoDup_cons in Hnd as [Hx Hnd]. cbn [List.filter].
  destruct (negb (bool_decide (x = k))); [|by apply IH]. apply NoDup_cons. split; [|by apply IH].
  intros Hin. apply Hx. apply elem_of_list_In in Hin. apply filter_In in Hin as [Hin _]. by apply elem_of_list_In.
Qed.

Lemma del1_count broken cs c k r cs' :
  cs_nodup cs -> del1 broken cs c k = (r, cs') ->
  cs_nodup cs' /\ csize cs - csize cs' = (match r with DOk => 1 | _ => 0 end).
Proof.
  intros Hnd. unfold del1. destruct (bool_decide ((c, k) ∈ broken)); [intros [= <- <-]; split; [done|lia]|].
  destruct (cs !! c) as [ks|] eqn:Hc; [|intros [= <- <-]; split; [done|lia]].
  destruct (bool_decide (k ∈ ks)) eqn:Hk; [|intros [= <- <-]; split; [done|lia]].
  intros [= <- <-]. apply bool_decide_eq_true in Hk. split.
  - intros c' ks' Hl. apply lookup_insert_Some in Hl as [[<- <-]|[_ Hl]]; [apply filter_nodup; eauto|eauto].
  - rewrite (csize_insert_upd _ _ _ _ Hc). rewrite (filter_remove_length k ks (Hnd _ _ Hc) Hk). lia.
Qed.

Lemma del_key_count broken ds : forall cs k cnt ok cs' cnt',
  cs_nodup cs -> del_key broken cs ds k cnt = (ok, cs', cnt') ->
  cs_nodup cs' /\ cnt' - cnt = csize cs - csize cs'.
Proof.
  induction ds as [|d ds IH]; intros cs k cnt ok cs' cnt' Hnd H; cbn [del_key] in H; [injection H as <- <- <-; split; [done|lia]|].
  destruct (del1 broken cs d k) as [r cs1] eqn:H1. destruct (del1_count _ _ _ _ _ _ Hnd H1) as [Hnd1 Hc1].
  destruct r.
  - destruct (IH _ _ _ _ _ _ Hnd1 H) as [Hnd2 Hc2]. split; [done|lia].
  - destruct (IH _ _ _ _ _ _ Hnd1 H) as [Hnd2 Hc2]. split; [done|lia].
  - injection H as <- <- <-. split; [done|lia].
Qed.

Lemma del_keys_count broken ds ks : forall cs deleted cnt ok cs' cnt' deleted',
  cs_nodup cs -> del_keys broken cs ds ks deleted cnt = (ok, cs', cnt', deleted') ->
  cs_nodup cs' /\ cnt' - cnt = csize cs - csize cs'.
Proof.
  induction ks as [|k ks IH]; intros cs deleted cnt ok cs' cnt' deleted' Hnd H; cbn [del_keys] in H;
    [injection H as <- <- <- <-; split; [done|lia]|].
  destruct (bool_decide (k ∈ deleted)); [by eapply IH|].
  destruct (del_key broken cs ds k cnt) as [[ok1 cs1] cnt1] eqn:H1.
  destruct (del_key_count _ _ _ _ _ _ _ _ Hnd H1) as [Hnd1 Hc1]. destruct ok1.
  - destruct (IH _ _ _ _ _ _ _ Hnd1 H) as [Hnd2 Hc2]. split; [done|lia].
  - injection H as <- <- <- <-. split; [done|lia].
Qed.

Lemma del_labels_count broken ds cut : forall cs deleted cnt ok cs' cnt' deleted' pending,
  cs_nodup cs -> del_labels broken cut cs ds deleted cnt = (ok, cs', cnt', deleted', pending) ->
  cs_nodup cs' /\ cnt' - cnt = csize cs - csize cs'.
Proof.
  induction cut as [|[l ks] cut IH]; intros cs deleted cnt ok cs' cnt' deleted' pending Hnd H; cbn [del_labels] in H;
    [injection H as <- <- <- <- <-; split; [done|lia]|].
  destruct (del_keys broken cs ds ks deleted cnt) as [[[ok1 cs1] cnt1] deleted1] eqn:H1.
  destruct (del_keys_count _ _ _ _ _ _ _ _ _ _ Hnd H1) as [Hnd1 Hc1]. destruct ok1.
  - destruct (IH _ _ _ _ _ _ _ _ Hnd1 H) as [Hnd2 Hc2]. split; [done|lia].
  - injection H as <- <- <- <- <-. split; [done|lia].
Qed.

(* whether the call succeeds or fails half-way: the count it reports is the number of entries it removed *)
Theorem invalidate_name_count broken lk cs ds ls mid ok cnt lk' cs' :
  cs_nodup cs -> invalidate_name broken lk cs ds ls mid = (ok, cnt, lk', cs') ->
  cnt = csize cs - csize cs' /\ cs_nodup cs'.
Proof.
  intros Hnd. unfold invalidate_name. destruct (cut_keys lk ls []) as [cut lk1].
  destruct (del_labels broken cut cs ds [] 0) as [[[[ok1 cs1] cnt1] del1'] pend] eqn:H1.
  intros [= <- <- <- <-]. destruct (del_labels_count _ _ _ _ _ _ _ _ _ _ _ Hnd H1) as [Hnd1 Hc]. split; [lia|done].
Qed.
