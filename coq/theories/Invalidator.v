(* Invalidator.v — model of cache.Invalidator (invalidator.go:11-48).

   type Invalidator struct { sync.Mutex; SkipInterval; Callbacks; lastRun }
   func (i *Invalidator) Invalidate(ctx) error {
     if i.Callbacks == nil { return ErrNothingToInvalidate }
     i.Lock(); defer i.Unlock()
     if i.SkipInterval == 0 { i.SkipInterval = 15s }
     if time.Since(i.lastRun) < i.SkipInterval { return ErrAlreadyInvalidated... }
     i.lastRun = time.Now()
     for _, cb := range i.Callbacks { cb(ctx) }
     return nil }
*)
From Cache Require Import Base.

Definition cbid := N.

Record ist := mkIst {
  i_skip : dur;                    (* SkipInterval as stored (0 = not yet defaulted) *)
  i_last : option time;            (* lastRun; None = zero time.Time ("never") *)
  i_cbs  : option (list cbid);     (* Callbacks; None = nil slice *)
}.

Inductive ires := RNothing | RAlready | ROk.
#[global] Instance ires_eq_dec : EqDecision ires.
Proof. solve_decision. Defined.

Definition eff_skip (d : dur) : dur := if d =? 0 then 15 * sec else d.

(* time.Since(zero time) saturates at the maximal Duration (2^63-1 ns), which is
   >= any SkipInterval: a never-run Invalidator accepts, unless SkipInterval is
   itself larger than every representable elapsed time (not modelled: no such
   SkipInterval is generated, and [max_dur] below records the saturation). *)
Definition max_dur : Z := 9223372036854775807.

Definition since (now : time) (l : option time) : dur :=
  match l with None => max_dur | Some t => now - t end.

(* One sequential call: [tc] is the clock reading of time.Since, [ts] the one of
   time.Now() for the stamp. Returns result, callbacks run (in order), new state. *)
Definition invalidate (tc ts : time) (s : ist) : ires * list cbid * ist :=
  match i_cbs s with
  | None => (RNothing, [], s)
  | Some cbs =>
    let sk := eff_skip (i_skip s) in
    if since tc (i_last s) <? sk
    then (RAlready, [], mkIst sk (i_last s) (i_cbs s))
    else (ROk, cbs, mkIst sk (Some ts) (i_cbs s))
  end.

Fixpoint run_seq (s : ist) (calls : list time) : list (ires * list cbid) :=
  match calls with
  | [] => []
  | t :: r => let '(res, ran, s') := invalidate t t s in (res, ran) :: run_seq s' r
  end.

(* ------------------------------------------------------------------ *)
(* Small-step concurrent model: the mutex is explicit, every callback
   invocation is its own step. *)

Definition tid := N.

Inductive ipc :=
| PStart                       (* before the nil test *)
| PLock                        (* about to i.Lock() *)
| PBody                        (* holds the mutex, before the interval test *)
| PCb (rest : list cbid)       (* holds the mutex, accepted, callbacks still to run *)
| PDone (r : ires).

Inductive iev :=
| EvAccept (t : tid) (stamp : time)
| EvCb (t : tid) (c : cbid)
| EvEnd (t : tid)
| EvReject (t : tid) (r : ires).

Record isys := mkIsys {
  sh : ist;
  holder : option tid;
  thr : gmap tid ipc;
  ilog : list iev;                (* newest last *)
}.

Inductive ilabel :=
| LCall (t : tid)                 (* a new Invalidate call starts on a fresh thread id *)
| LStep (t : tid) (now : time).   (* thread t takes its next step; [now] = clock reading used, if any *)

Definition set_thr (s : isys) (t : tid) (p : ipc) : isys :=
  mkIsys (sh s) (holder s) (<[t := p]> (thr s)) (ilog s).

Definition istep (s : isys) (l : ilabel) : option isys :=
  match l with
  | LCall t =>
    match thr s !! t with
    | Some _ => None
    | None => Some (set_thr s t PStart)
    end
  | LStep t now =>
    match thr s !! t with
    | None => None
    | Some PStart =>
      match i_cbs (sh s) with
      | None => Some (mkIsys (sh s) (holder s) (<[t := PDone RNothing]> (thr s))
                             (ilog s ++ [EvReject t RNothing]))
      | Some _ => Some (set_thr s t PLock)
      end
    | Some PLock =>
      match holder s with
      | Some _ => None                                   (* blocked on the mutex *)
      | None => Some (mkIsys (sh s) (Some t) (<[t := PBody]> (thr s)) (ilog s))
      end
    | Some PBody =>
      let sk := eff_skip (i_skip (sh s)) in
      if since now (i_last (sh s)) <? sk
      then Some (mkIsys (mkIst sk (i_last (sh s)) (i_cbs (sh s))) None
                        (<[t := PDone RAlready]> (thr s))
                        (ilog s ++ [EvReject t RAlready]))
      else Some (mkIsys (mkIst sk (Some now) (i_cbs (sh s))) (holder s)
                        (<[t := PCb (default [] (i_cbs (sh s)))]> (thr s))
                        (ilog s ++ [EvAccept t now]))
    | Some (PCb (c :: rest)) =>
      Some (mkIsys (sh s) (holder s) (<[t := PCb rest]> (thr s)) (ilog s ++ [EvCb t c]))
    | Some (PCb []) =>
      Some (mkIsys (sh s) None (<[t := PDone ROk]> (thr s)) (ilog s ++ [EvEnd t]))
    | Some (PDone _) => None
    end
  end.

Fixpoint irun (s : isys) (ls : list ilabel) : option isys :=
  match ls with
  | [] => Some s
  | l :: r => match istep s l with Some s' => irun s' r | None => None end
  end.

Definition isys0 (s : ist) : isys := mkIsys s None ∅ [].

(* Clock readings along a label list, in order. *)
Fixpoint clock_of (ls : list ilabel) : list time :=
  match ls with
  | [] => []
  | LStep _ now :: r => now :: clock_of r
  | LCall _ :: r => clock_of r
  end.

Fixpoint mono (l : list Z) : Prop :=
  match l with
  | [] => True
  | x :: r => match r with [] => True | y :: _ => x <= y end /\ mono r
  end.

(* Observables of a log *)
Fixpoint accepts (l : list iev) : list time :=
  match l with
  | [] => []
  | EvAccept _ ts :: r => ts :: accepts r
  | _ :: r => accepts r
  end.

Definition block (cbs : list cbid) (b : tid * time) : list iev :=
  EvAccept b.1 b.2 :: map (EvCb b.1) cbs ++ [EvEnd b.1].

(* Remove the rejections: they carry no callback and may interleave anywhere. *)
Definition is_reject (e : iev) : bool := match e with EvReject _ _ => true | _ => false end.
Definition core (l : list iev) : list iev := filter (fun e => negb (is_reject e)) l.

(* ------------------------------------------------------------------ *)
(* Decidable observation predicate used on implementation traces. *)

Fixpoint spaced (sk : dur) (l : list time) : bool :=
  match l with
  | [] => true
  | x :: r => match r with [] => true | y :: _ => (sk <=? y - x) end && spaced sk r
  end.

(* A sequential observation: per call (time, result, callbacks run). *)
Definition C17_obs (skip : dur) (cbs : option (list cbid))
           (obs : list (time * ires * list cbid)) : bool :=
  let sk := eff_skip skip in
  forallb (fun o => match o with
    | (_, ROk, ran) => bool_decide (Some ran = cbs)
    | (_, RAlready, ran) => bool_decide (ran = []) && bool_decide (cbs <> None)
    | (_, RNothing, ran) => bool_decide (ran = []) && bool_decide (cbs = None)
    end) obs
  && spaced sk (omap (fun o => match o with (t, ROk, _) => Some t | _ => None end) obs).
