(* InvalidatorProofs.v — invariants of the Invalidator models. *)
From Cache Require Import Base Invalidator.
From Coq Require Import ZifyBool.

Lemma eff_skip_idem d : eff_skip (eff_skip d) = eff_skip d.
Proof. unfold eff_skip, sec. destruct (d =? 0) eqn:E; [reflexivity|]. rewrite E. reflexivity. Qed.

(* ---------- sequential model ---------- *)

Lemma invalidate_nothing tc ts s :
  i_cbs s = None -> invalidate tc ts s = (RNothing, [], s).
Proof. unfold invalidate. intros ->. reflexivity. Qed.

Lemma invalidate_cases tc ts s res ran s' :
  invalidate tc ts s = (res, ran, s') ->
  match res with
  | RNothing => i_cbs s = None /\ ran = [] /\ s' = s
  | RAlready => i_cbs s <> None /\ ran = [] /\ i_last s' = i_last s /\ i_cbs s' = i_cbs s
                /\ since tc (i_last s) < eff_skip (i_skip s)
  | ROk => i_cbs s = Some ran /\ i_last s' = Some ts /\ i_cbs s' = i_cbs s
           /\ eff_skip (i_skip s) <= since tc (i_last s)
  end.
Proof.
  unfold invalidate. destruct (i_cbs s) as [cbs|] eqn:Hc.
  - destruct (since tc (i_last s) <? eff_skip (i_skip s)) eqn:Ht; intros [= <- <- <-]; cbn.
    + repeat split; try congruence; lia.
    + repeat split; try congruence; lia.
  - intros [= <- <- <-]. auto.
Qed.

(* spacing of accepted sequential calls: the stamp of an accepted call is at
   least the effective interval after the previous accepted stamp *)
Fixpoint chain (sk : dur) (prev : option time) (l : list time) : Prop :=
  match l with
  | [] => True
  | x :: r => match prev with Some p => sk <= x - p | None => True end /\ chain sk (Some x) r
  end.

Definition last_of (prev : option time) (l : list time) : option time :=
  match reverse l with [] => prev | x :: _ => Some x end.

Lemma last_of_snoc prev l x : last_of prev (l ++ [x]) = Some x.
Proof. unfold last_of. rewrite reverse_app. reflexivity. Qed.

Lemma chain_snoc sk prev l x :
  chain sk prev l ->
  match last_of prev l with Some p => sk <= x - p | None => True end ->
  chain sk prev (l ++ [x]).
Proof.
  revert prev. induction l as [|y l IH]; intros prev Hc Hl; cbn in *.
  - unfold last_of in Hl; cbn in Hl. auto.
  - destruct Hc as [H1 H2]. split; [exact H1|]. apply IH; [exact H2|].
    unfold last_of in *. rewrite reverse_cons in Hl.
    destruct (reverse l) as [|z zs]; cbn in *; exact Hl.
Qed.

Definition accepted_stamps (obs : list (ires * list cbid)) (calls : list time) : list time :=
  omap (fun p => match p with ((ROk, _), t) => Some t | _ => None end) (zip obs calls).

Lemma run_seq_length s calls : length (run_seq s calls) = length calls.
Proof.
  revert s; induction calls as [|t r IH]; intros s; cbn; [reflexivity|].
  destruct (invalidate t t s) as [[res ran] s']. cbn. f_equal. apply IH.
Qed.

(* Main sequential statement, by induction over the list of calls with the state
   generalised: the stored interval never changes its effective value, the
   callbacks field never changes, and accepted stamps are chained. *)
Lemma run_seq_spec calls : forall s,
  Forall (fun o => match o with
     | (ROk, ran) => i_cbs s = Some ran
     | (RAlready, ran) => ran = [] /\ i_cbs s <> None
     | (RNothing, ran) => ran = [] /\ i_cbs s = None end) (run_seq s calls)
  /\ (forall tcur, (forall t, In t calls -> tcur <= t) -> mono calls ->
      (forall l, i_last s = Some l -> l <= tcur) ->
      chain (eff_skip (i_skip s)) (i_last s) (accepted_stamps (run_seq s calls) calls)).
Proof.
  induction calls as [|t r IH]; intros s; cbn.
  - split; [constructor|]. intros; exact I.
  - destruct (invalidate t t s) as [[res ran] s'] eqn:Hi.
    pose proof (invalidate_cases _ _ _ _ _ _ Hi) as Hc.
    destruct (IH s') as [IH1 IH2].
    assert (Hcb : i_cbs s' = i_cbs s).
    { destruct res; destruct Hc as (?&?); intuition congruence. }
    assert (Hsk : eff_skip (i_skip s') = eff_skip (i_skip s)).
    { unfold invalidate in Hi. destruct (i_cbs s); [|congruence].
      destruct (_ <? _); injection Hi as <- <- <-; cbn; apply eff_skip_idem. }
    split.
    + constructor.
      * destruct res; intuition.
      * rewrite <- Hcb. exact IH1.
    + intros tcur Hge Hm Hl. destruct Hm as [Hm1 Hm2].
      unfold accepted_stamps. cbn [zip zip_with omap].
      assert (Hge' : forall t0, In t0 r -> t <= t0).
      { clear -Hm1 Hm2. intros t0 Hin. revert t Hm1 Hin. induction r as [|y r IHr]; intros t Hm1 Hin; [destruct Hin|].
        destruct Hin as [->|Hin]; [exact Hm1|].
        destruct Hm2 as [Hy Hm2]. transitivity y; [exact Hm1|]. apply (IHr Hm2 y); [|exact Hin].
        destruct r; [destruct Hin|exact Hy]. }
      destruct res.
      * (* RNothing *) destruct Hc as (_&_&->). apply (IH2 t); auto.
        intros l Hl'. specialize (Hl l Hl'). specialize (Hge t (or_introl eq_refl)). lia.
      * (* RAlready *) destruct Hc as (_&_&Hlast&_&_).
        rewrite <- Hsk, <- Hlast. apply (IH2 t); auto.
        intros l Hl'. rewrite Hlast in Hl'. specialize (Hl l Hl'). specialize (Hge t (or_introl eq_refl)). lia.
      * (* ROk *) destruct Hc as (_&Hlast&_&Hgap). cbn. split.
        -- destruct (i_last s) as [l|]; cbn in *; [lia|exact I].
        -- rewrite <- Hsk, <- Hlast. apply (IH2 t); auto.
           intros l Hl'. rewrite Hlast in Hl'. injection Hl' as <-. lia.
Qed.

(* ---------- concurrent model ---------- *)

Definition in_cs (p : ipc) : bool := match p with PBody | PCb _ => true | _ => false end.

Definition cur_ok (cbs : list cbid) (s : isys) (cur : list iev) : Prop :=
  match holder s with
  | None => cur = []
  | Some t =>
    match thr s !! t with
    | Some PBody => cur = []
    | Some (PCb rest) => exists ts pre, cbs = pre ++ rest /\ cur = EvAccept t ts :: map (EvCb t) pre
    | _ => False
    end
  end.

Definition pc_ok (cbs0 : option (list cbid)) (p : ipc) : Prop :=
  match p with PStart => True | PDone RNothing => cbs0 = None | _ => cbs0 <> None end.

Lemma pc_ok_update (thr0 : gmap tid ipc) cbs0 t p :
  (forall t' p', thr0 !! t' = Some p' -> pc_ok cbs0 p') -> pc_ok cbs0 p ->
  forall t' p', <[t := p]> thr0 !! t' = Some p' -> pc_ok cbs0 p'.
Proof.
  intros H Hp t' p'. destruct (decide (t = t')) as [<-|Hne].
  - rewrite lookup_insert. intros [= <-]. exact Hp.
  - rewrite lookup_insert_ne by exact Hne. apply H.
Qed.

Record Inv (cbs0 : option (list cbid)) (sk : dur) (last0 : option time) (s : isys) : Prop := {
  inv_cbs : i_cbs (sh s) = cbs0;
  inv_skip : eff_skip (i_skip (sh s)) = sk;
  inv_holder : forall t, holder s = Some t <-> exists p, thr s !! t = Some p /\ in_cs p = true;
  inv_log : exists blocks cur,
      core (ilog s) = flat_map (block (default [] cbs0)) blocks ++ cur /\ cur_ok (default [] cbs0) s cur;
  inv_chain : chain sk last0 (accepts (ilog s));
  inv_last : i_last (sh s) = last_of last0 (accepts (ilog s));
  inv_cbev : forall t c, In (EvCb t c) (ilog s) ->
      exists p, thr s !! t = Some p /\ (p = PDone ROk \/ exists r, p = PCb r);
  inv_rej : forall t r, In (EvReject t r) (ilog s) -> thr s !! t = Some (PDone r) /\ r <> ROk;
  inv_pc : forall t p, thr s !! t = Some p -> pc_ok cbs0 p;
}.

Lemma accepts_app l1 l2 : accepts (l1 ++ l2) = accepts l1 ++ accepts l2.
Proof. induction l1 as [|[] l1 IH]; cbn; rewrite ?IH; reflexivity. Qed.

Lemma core_app l1 l2 : core (l1 ++ l2) = core l1 ++ core l2.
Proof. unfold core. apply filter_app. Qed.

Lemma Inv_init s0 :
  Inv (i_cbs s0) (eff_skip (i_skip s0)) (i_last s0) (isys0 s0).
Proof.
  constructor; cbn.
  - reflexivity.
  - reflexivity.
  - intros t. split; [discriminate|]. intros (p & Hp & _). rewrite lookup_empty in Hp. discriminate.
  - exists [], []. split; reflexivity.
  - exact I.
  - reflexivity.
  - intros ? ? [].
  - intros ? ? [].
  - intros t p Hp. rewrite lookup_empty in Hp. discriminate.
Qed.

Ltac lk :=
  repeat match goal with
  | H : context [ <[?t := _]> _ !! ?t ] |- _ => rewrite lookup_insert in H
  | |- context [ <[?t := _]> _ !! ?t ] => rewrite lookup_insert
  | H : context [ <[?t := _]> _ !! ?t' ], Hne : ?t <> ?t' |- _ => rewrite (lookup_insert_ne _ t t' _ Hne) in H
  | |- context [ <[?t := _]> _ !! ?t' ] => rewrite (lookup_insert_ne _ t t') by congruence
  end.

(* the holder characterisation after an update of thread [t] that keeps / gains / drops the CS *)
Lemma holder_update (thr0 : gmap tid ipc) (h : option tid) t p h' :
  (forall t', h = Some t' <-> exists p', thr0 !! t' = Some p' /\ in_cs p' = true) ->
  (in_cs p = true -> h' = Some t) ->
  (in_cs p = false -> (h = Some t -> h' = None) /\ (h <> Some t -> h' = h)) ->
  (in_cs p = true -> h = Some t \/ h = None) ->
  forall t', h' = Some t' <-> exists p', <[t := p]> thr0 !! t' = Some p' /\ in_cs p' = true.
Proof.
  intros Hh Hin Hout Hex t'. destruct (decide (t = t')) as [<-|Hne].
  - rewrite lookup_insert. split.
    + intros Hh'. exists p. split; [reflexivity|]. destruct (in_cs p) eqn:E; [reflexivity|].
      destruct (Hout eq_refl) as [H1 H2]. destruct (decide (h = Some t)) as [Heq|Hn].
      * rewrite (H1 Heq) in Hh'. discriminate.
      * rewrite (H2 Hn) in Hh'. contradiction.
    + intros (p' & [= <-] & Hp). auto.
  - rewrite lookup_insert_ne by exact Hne. rewrite <- Hh. destruct (in_cs p) eqn:E.
    + rewrite (Hin eq_refl). split; [congruence|]. intros Ht'.
      destruct (Hex eq_refl) as [Hx|Hx]; congruence.
    + destruct (Hout eq_refl) as [H1 H2]. destruct (decide (h = Some t)) as [Heq|Hn].
      * rewrite (H1 Heq), Heq. split; congruence.
      * rewrite (H2 Hn). reflexivity.
Qed.

Lemma cur_ok_other cbs s t p cur h' lg sh' :
  cur_ok cbs s cur -> holder s <> Some t -> h' = holder s ->
  cur_ok cbs (mkIsys sh' h' (<[t := p]> (thr s)) lg) cur.
Proof.
  unfold cur_ok; cbn. intros H Hne ->. destruct (holder s) as [t0|]; [|exact H].
  rewrite lookup_insert_ne by congruence. exact H.
Qed.

Lemma Inv_step cbs0 sk last0 s l s' :
  Inv cbs0 sk last0 s -> istep s l = Some s' -> Inv cbs0 sk last0 s'.
Proof.
  intros [Hcbs Hskip Hhold Hlog Hchain Hlast Hcbev Hrej Hpc] Hstep.
  destruct l as [t|t now]; cbn in Hstep.
  - (* LCall *)
    destruct (thr s !! t) eqn:Ht; [discriminate|]. injection Hstep as <-.
    assert (Hnh : holder s <> Some t).
    { intros Hh. apply Hhold in Hh as (p & Hp & _). congruence. }
    constructor; cbn; auto; try congruence; try (apply pc_ok_update; [exact Hpc | cbn; first [exact I | congruence | exact Hpct]]).
    + apply (holder_update _ (holder s)); auto; cbn; try discriminate. intros _. split; [contradiction|auto].
    + destruct Hlog as (bl & cur & H1 & H2). exists bl, cur. split; [exact H1|].
      apply cur_ok_other; auto.
    + intros t' c Hin. destruct (Hcbev _ _ Hin) as (p & Hp & Hx).
      exists p. split; [|exact Hx]. rewrite lookup_insert_ne; [exact Hp|congruence].
    + intros t' r Hin. destruct (Hrej _ _ Hin) as [Hp Hx]. split; [|exact Hx].
      rewrite lookup_insert_ne; [exact Hp|congruence].
  - (* LStep *)
    destruct (thr s !! t) as [p|] eqn:Ht; [|discriminate].
    assert (Hnotcs : in_cs p = false -> holder s <> Some t).
    { intros Hp Hh. apply Hhold in Hh as (p' & Hp' & Hc). congruence. }
    assert (Hcs : in_cs p = true -> holder s = Some t).
    { intros Hp. apply Hhold. eauto. }
    pose proof (Hpc _ _ Ht) as Hpct.
    destruct p as [| | |rest|r]; cbn in Hpct.
    + (* PStart *)
      specialize (Hnotcs eq_refl).
      destruct (i_cbs (sh s)) as [cbs|] eqn:Hc; injection Hstep as <-.
      * constructor; cbn; auto; try congruence; try (apply pc_ok_update; [exact Hpc | cbn; first [exact I | congruence | exact Hpct]]).
        -- apply (holder_update _ (holder s)); auto; cbn; try discriminate. intros _. split; [contradiction|auto].
        -- destruct Hlog as (bl & cur & H1 & H2). exists bl, cur. split; [exact H1|].
           apply cur_ok_other; auto.
        -- intros t' c Hin. destruct (Hcbev _ _ Hin) as (p & Hp & Hx).
           destruct (decide (t = t')) as [<-|Hne]; [|exists p; rewrite lookup_insert_ne by exact Hne; auto].
           rewrite Ht in Hp. injection Hp as <-. destruct Hx as [Hx|[? Hx]]; discriminate.
        -- intros t' r Hin. destruct (Hrej _ _ Hin) as [Hp Hx]. split; [|exact Hx].
           destruct (decide (t = t')) as [<-|Hne]; [congruence|]. rewrite lookup_insert_ne; auto.
      * constructor; cbn; auto; try congruence; try (apply pc_ok_update; [exact Hpc | cbn; first [exact I | congruence | exact Hpct]]).
        -- apply (holder_update _ (holder s)); auto; cbn; try discriminate. intros _. split; [contradiction|auto].
        -- destruct Hlog as (bl & cur & H1 & H2). exists bl, cur. split.
           ++ rewrite core_app, H1. cbn. rewrite app_nil_r. reflexivity.
           ++ apply cur_ok_other; auto.
        -- rewrite accepts_app; cbn. rewrite app_nil_r. exact Hchain.
        -- rewrite accepts_app; cbn. rewrite app_nil_r. exact Hlast.
        -- intros t' c Hin. apply in_app_or in Hin as [Hin|[Hin|[]]]; [|discriminate].
           destruct (Hcbev _ _ Hin) as (p & Hp & Hx).
           destruct (decide (t = t')) as [<-|Hne]; [|exists p; rewrite lookup_insert_ne by exact Hne; auto].
           rewrite Ht in Hp. injection Hp as <-. destruct Hx as [Hx|[? Hx]]; discriminate.
        -- intros t' r Hin. apply in_app_or in Hin as [Hin|[Hin|[]]].
           ++ destruct (Hrej _ _ Hin) as [Hp Hx]. split; [|exact Hx].
              destruct (decide (t = t')) as [<-|Hne]; [congruence|]. rewrite lookup_insert_ne; auto.
           ++ injection Hin as <- <-. rewrite lookup_insert. split; [reflexivity|discriminate].
    + (* PLock *)
      specialize (Hnotcs eq_refl).
      destruct (holder s) as [h|] eqn:Hh; [discriminate|]. injection Hstep as <-.
      constructor; cbn; auto; try congruence; try (apply pc_ok_update; [exact Hpc | cbn; first [exact I | congruence | exact Hpct]]).
      * apply (holder_update _ (holder s)); auto; cbn; try discriminate. rewrite Hh. auto.
      * destruct Hlog as (bl & cur & H1 & H2). exists bl, cur. split; [exact H1|].
        unfold cur_ok in *; cbn. rewrite Hh in H2. rewrite lookup_insert. exact H2.
      * intros t' c Hin. destruct (Hcbev _ _ Hin) as (p & Hp & Hx).
        destruct (decide (t = t')) as [<-|Hne]; [|exists p; rewrite lookup_insert_ne by exact Hne; auto].
        rewrite Ht in Hp. injection Hp as <-. destruct Hx as [Hx|[? Hx]]; discriminate.
      * intros t' r Hin. destruct (Hrej _ _ Hin) as [Hp Hx]. split; [|exact Hx].
        destruct (decide (t = t')) as [<-|Hne]; [congruence|]. rewrite lookup_insert_ne; auto.
    + (* PBody *)
      specialize (Hcs eq_refl).
      destruct (since now (i_last (sh s)) <? eff_skip (i_skip (sh s))) eqn:Htest; injection Hstep as <-.
      * (* rejected *)
        constructor; cbn; auto; try congruence; try (apply pc_ok_update; [exact Hpc | cbn; first [exact I | congruence | exact Hpct]]).
        -- rewrite Hskip. rewrite <- Hskip at 1. rewrite eff_skip_idem. exact Hskip.
        -- apply (holder_update _ (holder s)); auto; cbn; try discriminate. intros _. split; [auto|congruence].
        -- destruct Hlog as (bl & cur & H1 & H2). exists bl, cur. split.
           ++ rewrite core_app, H1. cbn. rewrite app_nil_r. reflexivity.
           ++ unfold cur_ok in *; cbn. rewrite Hcs, Ht in H2. exact H2.
        -- rewrite accepts_app; cbn. rewrite app_nil_r. exact Hchain.
        -- rewrite accepts_app; cbn. rewrite app_nil_r. exact Hlast.
        -- intros t' c Hin. apply in_app_or in Hin as [Hin|[Hin|[]]]; [|discriminate].
           destruct (Hcbev _ _ Hin) as (p & Hp & Hx).
           destruct (decide (t = t')) as [<-|Hne]; [|exists p; rewrite lookup_insert_ne by exact Hne; auto].
           rewrite Ht in Hp. injection Hp as <-. destruct Hx as [Hx|[? Hx]]; discriminate.
        -- intros t' r Hin. apply in_app_or in Hin as [Hin|[Hin|[]]].
           ++ destruct (Hrej _ _ Hin) as [Hp Hx]. split; [|exact Hx].
              destruct (decide (t = t')) as [<-|Hne]; [congruence|]. rewrite lookup_insert_ne; auto.
           ++ injection Hin as <- <-. rewrite lookup_insert. split; [reflexivity|discriminate].
      * (* accepted *)
        constructor; cbn; auto; try congruence; try (apply pc_ok_update; [exact Hpc | cbn; first [exact I | congruence | exact Hpct]]).
        -- rewrite Hskip. rewrite <- Hskip at 1. rewrite eff_skip_idem. exact Hskip.
        -- apply (holder_update _ (holder s)); auto; cbn; try discriminate.
        -- destruct Hlog as (bl & cur & H1 & H2). unfold cur_ok in H2. rewrite Hcs, Ht in H2. subst cur.
           exists bl, [EvAccept t now]. split.
           ++ rewrite core_app, H1. cbn. rewrite app_nil_r. reflexivity.
           ++ unfold cur_ok; cbn. rewrite Hcs, lookup_insert. exists now, []. rewrite Hcbs. split; reflexivity.
        -- rewrite accepts_app; cbn. apply chain_snoc; [exact Hchain|].
           rewrite <- Hlast. unfold since in Htest. rewrite Hskip in Htest.
           destruct (i_last (sh s)); [lia|exact I].
        -- rewrite accepts_app; cbn. rewrite last_of_snoc. reflexivity.
        -- intros t' c Hin. apply in_app_or in Hin as [Hin|[Hin|[]]]; [|discriminate].
           destruct (Hcbev _ _ Hin) as (p & Hp & Hx).
           destruct (decide (t = t')) as [<-|Hne]; [|exists p; rewrite lookup_insert_ne by exact Hne; auto].
           rewrite Ht in Hp. injection Hp as <-. destruct Hx as [Hx|[? Hx]]; discriminate.
        -- intros t' r Hin. apply in_app_or in Hin as [Hin|[Hin|[]]]; [|discriminate].
           destruct (Hrej _ _ Hin) as [Hp Hx]. split; [|exact Hx].
           destruct (decide (t = t')) as [<-|Hne]; [congruence|]. rewrite lookup_insert_ne; auto.
    + (* PCb *)
      specialize (Hcs eq_refl).
      destruct rest as [|c rest]; injection Hstep as <-.
      * (* end of the accepted call *)
        constructor; cbn; auto; try congruence; try (apply pc_ok_update; [exact Hpc | cbn; first [exact I | congruence | exact Hpct]]).
        -- apply (holder_update _ (holder s)); auto; cbn; try discriminate. intros _. split; [auto|congruence].
        -- destruct Hlog as (bl & cur & H1 & H2). unfold cur_ok in H2. rewrite Hcs, Ht in H2.
           destruct H2 as (ts & pre & Hpre & ->). rewrite app_nil_r in Hpre. subst pre.
           exists (bl ++ [(t, ts)]), []. split; [|reflexivity].
           rewrite core_app, H1. cbn. rewrite flat_map_app. cbn. unfold block at 2; cbn.
           rewrite !app_nil_r. rewrite <- !app_assoc. reflexivity.
        -- rewrite accepts_app; cbn. rewrite app_nil_r. exact Hchain.
        -- rewrite accepts_app; cbn. rewrite app_nil_r. exact Hlast.
        -- intros t' c Hin. apply in_app_or in Hin as [Hin|[Hin|[]]]; [|discriminate].
           destruct (Hcbev _ _ Hin) as (p & Hp & Hx).
           destruct (decide (t = t')) as [<-|Hne]; [|exists p; rewrite lookup_insert_ne by exact Hne; auto].
           rewrite lookup_insert. eauto.
        -- intros t' r Hin. apply in_app_or in Hin as [Hin|[Hin|[]]]; [|discriminate].
           destruct (Hrej _ _ Hin) as [Hp Hx]. split; [|exact Hx].
           destruct (decide (t = t')) as [<-|Hne]; [congruence|]. rewrite lookup_insert_ne; auto.
      * (* one callback *)
        constructor; cbn; auto; try congruence; try (apply pc_ok_update; [exact Hpc | cbn; first [exact I | congruence | exact Hpct]]).
        -- apply (holder_update _ (holder s)); auto; cbn; try discriminate.
        -- destruct Hlog as (bl & cur & H1 & H2). unfold cur_ok in H2. rewrite Hcs, Ht in H2.
           destruct H2 as (ts & pre & Hpre & ->).
           exists bl, (EvAccept t ts :: map (EvCb t) (pre ++ [c])). split.
           ++ rewrite core_app, H1. cbn. rewrite map_app. cbn. rewrite <- app_assoc. reflexivity.
           ++ unfold cur_ok; cbn. rewrite Hcs, lookup_insert. exists ts, (pre ++ [c]).
              rewrite <- app_assoc. cbn. auto.
        -- rewrite accepts_app; cbn. rewrite app_nil_r. exact Hchain.
        -- rewrite accepts_app; cbn. rewrite app_nil_r. exact Hlast.
        -- intros t' c' Hin. apply in_app_or in Hin as [Hin|[Hin|[]]].
           ++ destruct (Hcbev _ _ Hin) as (p & Hp & Hx).
              destruct (decide (t = t')) as [<-|Hne]; [|exists p; rewrite lookup_insert_ne by exact Hne; auto].
              rewrite lookup_insert. eauto.
           ++ injection Hin as <- <-. rewrite lookup_insert. eauto.
        -- intros t' r Hin. apply in_app_or in Hin as [Hin|[Hin|[]]]; [|discriminate].
           destruct (Hrej _ _ Hin) as [Hp Hx]. split; [|exact Hx].
           destruct (decide (t = t')) as [<-|Hne]; [congruence|]. rewrite lookup_insert_ne; auto.
    + discriminate.
Qed.

Lemma Inv_run cbs0 sk last0 ls : forall s s',
  Inv cbs0 sk last0 s -> irun s ls = Some s' -> Inv cbs0 sk last0 s'.
Proof.
  induction ls as [|l ls IH]; intros s s' Hinv Hrun; cbn in Hrun.
  - injection Hrun as <-. exact Hinv.
  - destruct (istep s l) as [s1|] eqn:Hs; [|discriminate].
    eapply IH; [|exact Hrun]. eapply Inv_step; eauto.
Qed.

(* ---- the statements used by properties/C17.v ---- *)

(* prefix of a block: what the in-flight accepted call has logged so far *)
Definition block_prefix (cbs : list cbid) (cur : list iev) : Prop :=
  cur = [] \/ exists t ts pre rest, cbs = pre ++ rest /\ cur = EvAccept t ts :: map (EvCb t) pre.

Lemma concurrent_structure s0 ls s :
  irun (isys0 s0) ls = Some s ->
  (* (1) no overlap + every accepted call runs every callback once, in order *)
  (exists blocks cur,
      core (ilog s) = flat_map (block (default [] (i_cbs s0))) blocks ++ cur
      /\ block_prefix (default [] (i_cbs s0)) cur) /\
  (* (2) accepted calls are spaced by the effective interval *)
  chain (eff_skip (i_skip s0)) (i_last s0) (accepts (ilog s)) /\
  (* (3) a rejected call runs no callback and reports the right error *)
  (forall t r, In (EvReject t r) (ilog s) ->
      (forall c, ~ In (EvCb t c) (ilog s)) /\
      (r = RNothing <-> i_cbs s0 = None) /\ r <> ROk) /\
  (* (4) mutual exclusion: at most one thread is inside the critical section *)
  (forall t1 t2 p1 p2, thr s !! t1 = Some p1 -> thr s !! t2 = Some p2 ->
      in_cs p1 = true -> in_cs p2 = true -> t1 = t2).
Proof.
  intros Hrun. pose proof (Inv_run _ _ _ _ _ _ (Inv_init s0) Hrun) as [Hcbs Hskip Hhold Hlog Hchain Hlast Hcbev Hrej Hpc].
  assert (Hcbs0 : i_cbs s0 = i_cbs s0) by reflexivity.
  split; [|split; [|split]].
  - destruct Hlog as (bl & cur & H1 & H2). exists bl, cur. split; [exact H1|].
    unfold cur_ok in H2. unfold block_prefix. destruct (holder s) as [t|]; [|auto].
    destruct (thr s !! t) as [[]|]; try contradiction; auto.
    destruct H2 as (ts & pre & H3 & H4). right. eauto 8.
  - exact Hchain.
  - intros t r Hin. destruct (Hrej _ _ Hin) as [Hp Hne]. split; [|split; [|exact Hne]].
    + intros c Hc. destruct (Hcbev _ _ Hc) as (p & Hp' & Hx). rewrite Hp in Hp'. injection Hp' as <-.
      destruct Hx as [Hx|[? Hx]]; [injection Hx as ->; contradiction|discriminate].
    + specialize (Hpc _ _ Hp). cbn in Hpc. destruct r; [tauto| |contradiction].
      split; [discriminate|]. intros Hn. contradiction.
  - intros t1 t2 p1 p2 H1 H2 Hc1 Hc2.
    assert (holder s = Some t1) by (apply Hhold; eauto).
    assert (holder s = Some t2) by (apply Hhold; eauto). congruence.
Qed.
