(* Jitter.v — the TTL arithmetic of Trait.TTL / expireAt (trait.go:254-282) and its bounds.

   The jitter term is computed in Go as  Duration(float64(ttl) * J * (rand.Float64() - 0.5)):
   |r - 0.5| <= 1/2, two IEEE-754 roundings (the int64->float64 conversion is exact below 2^53 ns,
   and rounds with relative error 2^-53 above), then truncation toward zero. The model takes the
   term [jit] as an input constrained by [jit_ok]:  |jit| <= |T|*J/2 + slack(T), where
   slack(T) = |T| / 2^50 ns (0 below ~13 days of TTL, 256 ns at 10 years) covers the roundings.
   J is an exact rational Jn/Jd (the harness prints the exact value of the float64). *)
From Cache Require Import Base Backend.

Definition slack (T : dur) : Z := Z.abs T / 2 ^ 50.

Definition jit_ok (Jn Jd : Z) (T jit : Z) : Prop :=
  2 * Jd * Z.abs jit <= Z.abs T * Jn + 2 * Jd * slack T.

Definition jit_okb (Jn Jd : Z) (T jit : Z) : bool :=
  2 * Jd * Z.abs jit <=? Z.abs T * Jn + 2 * Jd * slack T.

(* effective TTL of a write: the context TTL if non-zero, else the configured TimeToLive *)
Definition effective_ttl (c : bcfg) (ctx_ttl : dur) : dur := if ctx_ttl =? 0 then eff_ttl c else ctx_ttl.

(* the expiry instant the backend stores for a write at [now] *)
Definition write_expiry (c : bcfg) (ctx_ttl : dur) (now : time) (jit : Z) : time :=
  expire_at now (trait_ttl c ctx_ttl jit).1.
