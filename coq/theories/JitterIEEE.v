(* JitterIEEE.v — the one assumption C10 was left with ("the float-to-integer conversion keeps the jitter term within
   |T|*J/2 + slack") discharged against IEEE-754 binary64 arithmetic as formalised by Flocq (round to nearest even,
   gradual underflow; no overflow can occur: |T| < 2^63, J <= 1).

   The source computes  Duration(float64(ttl) * ExpirationJitter * (rand.Float64() - 0.5))  — the shape is pinned by
   TieTTL.tie_trait_ttl for ANY interpretation [ftrunc] of the float term; here [ftrunc] is instantiated with the IEEE
   evaluation: int64 -> float64 conversion, two multiplications and one subtraction, each rounded, then truncation
   toward zero.  Result: |jit| <= |T|*J/2 + |T|/2^50 over the reals, for every T <> 0, every 0 < J <= 1 and every draw
   0 <= r < 1; hence the jittered TTL never collapses to 0 ("never expires") and the expiry instant lies within the
   documented bounds up to the relative slack 2^-50.

   Axioms: the classical real numbers of the Coq standard library (ClassicalDedekindReals.sig_not_dec, sig_forall_dec,
   functional_extensionality_dep, Classical_Prop.classic), through Reals and Flocq. *)
From Coq Require Import Reals ZArith Lra Lia Psatz String.
From Flocq Require Import Core Relative.
From Cache Require Import Base Backend Jitter GoIR TieTTL.
Open Scope R_scope.

(* arithmetic core: three rounded operations, each x(1+e)+h with |e| <= u, |h| <= eta *)
Lemma three_roundings (A J d u eta c m1 m2 : R) :
  0 <= u <= / 9007199254740992 -> 0 <= eta <= / 9007199254740992 ->
  1 <= A -> 0 < J <= 1 -> Rabs d <= / 2 ->
  Rabs c <= A * (1 + u) + eta ->
  Rabs m1 <= Rabs c * J * (1 + u) + eta ->
  Rabs m2 <= Rabs m1 * Rabs d * (1 + u) + eta ->
  Rabs m2 <= A * J / 2 + A / 1125899906842624.
Proof.
  intros Hu He HA HJ Hd Hc Hm1 Hm2.
  assert (0 <= Rabs c) by apply Rabs_pos. assert (0 <= Rabs m1) by apply Rabs_pos. assert (0 <= Rabs d) by apply Rabs_pos.
  set (U := 1 + u) in *.
  assert (HU : 1 <= U <= 1 + / 9007199254740992) by (unfold U; lra).
  assert (B1 : Rabs m1 <= (A * U + eta) * J * U + eta).
  { eapply Rle_trans; [exact Hm1|]. apply Rplus_le_compat_r. apply Rmult_le_compat_r; [lra|].
    apply Rmult_le_compat_r; [lra|]. exact Hc. }
  assert (B2 : Rabs m2 <= ((A * U + eta) * J * U + eta) * / 2 * U + eta).
  { eapply Rle_trans; [exact Hm2|]. apply Rplus_le_compat_r. apply Rmult_le_compat_r; [lra|].
    apply Rmult_le_compat; try lra. }
  eapply Rle_trans; [exact B2|].
  assert (HU3 : U * U * U <= 1 + / 2251799813685248).
  { assert (U <= 1 + / 9007199254740992) by lra. nra. }
  assert (HU2 : U * U <= 2) by nra.
  assert (HAJ : 0 <= A * J) by nra.
  replace (((A * U + eta) * J * U + eta) * / 2 * U + eta)
     with (A * J * (U * U * U) / 2 + eta * J * (U * U) / 2 + eta * U / 2 + eta) by field.
  assert (T1 : A * J * (U * U * U) / 2 <= A * J / 2 + A * / 4503599627370496).
  { assert (A * J * (U * U * U) <= A * J * (1 + / 2251799813685248)) by (apply Rmult_le_compat_l; lra).
    assert (A * J <= A) by nra. lra. }
  assert (T2 : eta * J * (U * U) / 2 <= eta).
  { assert (eta * J <= eta) by nra. assert (0 <= eta * J) by nra.
    assert (eta * J * (U * U) <= eta * J * 2) by (apply Rmult_le_compat_l; lra). lra. }
  assert (T3 : eta * U / 2 <= eta) by nra.
  assert (T4 : 3 * eta <= A * / 2251799813685248) by nra.
  lra.
Qed.

(* ---- IEEE-754 binary64, round to nearest even, as Flocq's generic rounding ---- *)
Definition emin := (-1074)%Z.
Definition prec := 53%Z.
Lemma Hprec : (0 < prec)%Z. Proof. reflexivity. Qed.
#[local] Instance prec_gt_0_53 : Prec_gt_0 prec := Hprec.
Definition choice := fun n => negb (Z.even n).
Definition rnd (x : R) : R := round radix2 (FLT_exp emin prec) (Znearest choice) x.

Lemma rnd_bound x : Rabs (rnd x) <= Rabs x * (1 + / 9007199254740992) + / 9007199254740992.
Proof.
  destruct (relative_error_N_FLT'_ex radix2 emin prec Hprec choice x) as (eps & eta & He & Hh & _ & Hr).
  unfold rnd. rewrite Hr.
  assert (Hu : u_ro radix2 prec = / 9007199254740992).
  { unfold u_ro, prec. simpl. lra. }
  assert (He' : Rabs eps <= / 9007199254740992).
  { eapply Rle_trans; [exact He|]. rewrite <- Hu. apply u_rod1pu_ro_le_u_ro. }
  assert (Hh' : Rabs eta <= / 9007199254740992).
  { eapply Rle_trans; [exact Hh|]. unfold emin.
    apply Rle_trans with (/ 2 * bpow radix2 (-53)).
    - apply Rmult_le_compat_l; [lra|]. apply bpow_le. lia.
    - simpl. lra. }
  eapply Rle_trans; [apply Rabs_triang|]. rewrite Rabs_mult.
  apply Rplus_le_compat; [|exact Hh'].
  apply Rmult_le_compat_l; [apply Rabs_pos|].
  eapply Rle_trans; [apply Rabs_triang|]. rewrite Rabs_R1. lra.
Qed.

Lemma half_format : generic_format radix2 (FLT_exp emin prec) (/ 2).
Proof.
  replace (/ 2) with (bpow radix2 (-1)) by (simpl; lra).
  apply generic_format_FLT_bpow; [exact Hprec|]. unfold emin. lia.
Qed.

Lemma rnd_half_bound r : 0 <= r < 1 -> Rabs (rnd (r - / 2)) <= / 2.
Proof.
  intros Hr. unfold rnd. apply abs_round_le_generic.
  - apply FLT_exp_valid. exact Hprec.
  - apply valid_rnd_N.
  - exact half_format.
  - apply Rabs_le. lra.
Qed.

Lemma Ztrunc_abs_le x : Rabs (IZR (Ztrunc x)) <= Rabs x.
Proof.
  rewrite <- abs_IZR, <- Ztrunc_abs, Ztrunc_floor by apply Rabs_pos. apply Zfloor_lb.
Qed.

Definition jit_ieee (T : Z) (J r : R) : Z := Ztrunc (rnd (rnd (rnd (IZR T) * J) * rnd (r - / 2))).

Theorem jit_ieee_bound (T : Z) (J r : R) :
  T <> 0%Z -> 0 < J <= 1 -> 0 <= r < 1 ->
  Rabs (IZR (jit_ieee T J r)) <= Rabs (IZR T) * J / 2 + Rabs (IZR T) / 1125899906842624.
Proof.
  intros HT HJ Hr. unfold jit_ieee.
  eapply Rle_trans; [apply Ztrunc_abs_le|].
  set (c := rnd (IZR T)). set (d := rnd (r - / 2)). set (m1 := rnd (c * J)).
  apply (three_roundings (Rabs (IZR T)) J d (/ 9007199254740992) (/ 9007199254740992) c m1).
  - lra.
  - lra.
  - rewrite <- abs_IZR. apply IZR_le. lia.
  - exact HJ.
  - apply rnd_half_bound, Hr.
  - unfold c. apply rnd_bound.
  - unfold m1. eapply Rle_trans; [apply rnd_bound|]. rewrite Rabs_mult, (Rabs_pos_eq J) by lra. lra.
  - eapply Rle_trans; [apply rnd_bound|]. rewrite Rabs_mult. lra.
Qed.

(* ---- the IEEE evaluation of the float terms the translated source builds ---- *)
Fixpoint feval (J r : R) (f : fterm) : R :=
  match f with
  | FOfZ z => rnd (IZR z)                                   (* float64(int64) *)
  | FConst n d => IZR n / IZR d                             (* a constant that is a binary64 number *)
  | FSym s => if String.eqb s "ExpirationJitter" then J else if String.eqb s "rand.Float64()" then r else 0
  | FBin op a b =>
      if String.eqb op "*" then rnd (feval J r a * feval J r b)
      else if String.eqb op "-" then rnd (feval J r a - feval J r b)
      else if String.eqb op "+" then rnd (feval J r a + feval J r b)
      else rnd (feval J r a / feval J r b)
  end.

Definition ftrunc_ieee (J r : R) (f : fterm) : Z := Ztrunc (feval J r f).   (* time.Duration(float64) truncates toward zero *)

Lemma formula_is_jit_ieee J r T : jitter_formula (ftrunc_ieee J r) T = jit_ieee T J r.
Proof.
  unfold jitter_formula, ftrunc_ieee, jit_ieee. cbn [feval String.eqb Ascii.eqb Bool.eqb].
  replace (1 / 2) with (/ 2) by lra. reflexivity.
Qed.

(* ---- C10 under IEEE arithmetic: no assumption about the jitter term is left ---- *)
Theorem expiry_bounds_ieee (c : bcfg) (ctx now : Z) (J r : R) :
  0 < J <= 1 -> 0 <= r < 1 ->
  let T := effective_ttl c ctx in
  let jit := jitter_formula (ftrunc_ieee J r) T in
  let E := write_expiry c ctx now jit in
  ~ (ctx = 0%Z /\ eff_ttl c = unlimited) -> c_jitter c = true -> T <> 0%Z ->
  E <> now /\ E = (now + T + jit)%Z /\
  Rabs (IZR (E - (now + T))) <= Rabs (IZR T) * J / 2 + Rabs (IZR T) / 1125899906842624.
Proof.
  intros HJ Hr T jit E Hnot Hj HT.
  assert (Hb : Rabs (IZR jit) <= Rabs (IZR T) * J / 2 + Rabs (IZR T) / 1125899906842624).
  { unfold jit. rewrite formula_is_jit_ieee. apply jit_ieee_bound; assumption. }
  assert (Hlt : Rabs (IZR jit) < Rabs (IZR T)).
  { assert (1 <= Rabs (IZR T)) by (rewrite <- abs_IZR; apply IZR_le; lia). nra. }
  assert (Hnz : (T + jit)%Z <> 0%Z).
  { intros Hz. assert (jit = (- T)%Z) as Hjt by lia. rewrite Hjt, opp_IZR, Rabs_Ropp in Hlt. lra. }
  assert (HE : E = (now + (T + jit))%Z).
  { unfold E, write_expiry, trait_ttl, expire_at.
    assert (Hc : ((ctx =? 0)%Z && (eff_ttl c =? unlimited)%Z)%bool = false).
    { destruct (ctx =? 0)%Z eqn:E1, (eff_ttl c =? unlimited)%Z eqn:E2; cbn; try reflexivity. exfalso. apply Hnot. lia. }
    rewrite Hc. cbn [fst]. rewrite Hj.
    change (if (ctx =? 0)%Z then eff_ttl c else ctx) with T.
    destruct (T + jit =? 0)%Z eqn:Ez; [lia|reflexivity]. }
  split; [|split].
  - rewrite HE. lia.
  - rewrite HE. lia.
  - rewrite HE. replace (now + (T + jit) - (now + T))%Z with jit by lia. exact Hb.
Qed.

(* and for the SOURCE: the instant the translated Trait.TTL followed by the translated Trait.expireAt compute, with the
   float term evaluated in IEEE binary64 arithmetic *)
From Cache Require Import TieCompose.
Open Scope R_scope.

Theorem source_expiry_ieee (c : bcfg) (ctx now ttl inc : Z) (res : Z * Z) (J r : R) :
  0 < J <= 1 -> 0 <= r < 1 ->
  run_trait_ttl (ftrunc_ieee J r) c ctx = Some (ttl, inc) ->
  run_expire_at ttl now = Some res ->
  let T := effective_ttl c ctx in
  ~ (ctx = 0%Z /\ eff_ttl c = unlimited) -> c_jitter c = true -> T <> 0%Z ->
  res.2 <> now /\
  Rabs (IZR (res.2 - (now + T))) <= Rabs (IZR T) * J / 2 + Rabs (IZR T) / 1125899906842624.
Proof.
  intros HJ Hr H1 H2 T Hnot Hj HT.
  rewrite (source_write_expiry _ _ _ _ _ _ _ H1 H2).
  destruct (expiry_bounds_ieee c ctx now J r HJ Hr Hnot Hj HT) as (Hne & _ & Hb).
  split; assumption.
Qed.
