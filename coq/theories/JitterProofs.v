From Cache Require Import Base Backend Spec Jitter.
From Coq Require Import ZifyBool.
Ltac Zify.zify_post_hook ::= Z.div_mod_to_equations.

Lemma slack_nonneg T : 0 <= slack T.
Proof. unfold slack. change (2 ^ 50) with 1125899906842624. lia. Qed.

Lemma slack_lt T : T <> 0 -> 4 * slack T < Z.abs T.
Proof.
  intros HT. unfold slack. change (2 ^ 50) with 1125899906842624. lia.
Qed.

(* with 0 < J <= 1 the jittered TTL cannot reach 0: an entry with a TTL never becomes "never expires" *)
Lemma jit_nonzero Jn Jd T jit :
  0 < Jd -> 0 < Jn <= Jd -> T <> 0 -> jit_ok Jn Jd T jit -> T + jit <> 0.
Proof.
  intros Hd Hn HT Hj Hz. unfold jit_ok in Hj. assert (Hjit : Z.abs jit = Z.abs T) by lia.
  rewrite Hjit in Hj. pose proof (slack_lt T HT). pose proof (slack_nonneg T).
  assert (Z.abs T * Jn <= Z.abs T * Jd) by (apply Z.mul_le_mono_nonneg_l; lia).
  nia.
Qed.

(* C10, arithmetic core *)
Lemma expiry_bounds c ctx now jit Jn Jd :
  0 < Jd -> 0 < Jn <= Jd ->
  let T := effective_ttl c ctx in
  let E := write_expiry c ctx now jit in
  (* never expires iff unlimited and no context TTL *)
  (ctx = 0 /\ eff_ttl c = unlimited -> E = 0) /\
  (~ (ctx = 0 /\ eff_ttl c = unlimited) ->
     (c_jitter c = false -> E = if T =? 0 then 0 else now + T) /\
     (c_jitter c = true -> T <> 0 -> jit_ok Jn Jd T jit ->
        E <> now /\ E = now + T + jit /\
        2 * Jd * Z.abs (E - (now + T)) <= Z.abs T * Jn + 2 * Jd * slack T)).
Proof.
  intros Hd Hn T E. subst T E. unfold write_expiry, trait_ttl, effective_ttl, expire_at.
  split.
  - intros [-> ->]. cbn. reflexivity.
  - intros Hnot.
    assert (Hc : (ctx =? 0) && (eff_ttl c =? unlimited) = false).
    { destruct (ctx =? 0) eqn:E1, (eff_ttl c =? unlimited) eqn:E2; cbn; try reflexivity. exfalso. apply Hnot. lia. }
    rewrite Hc. cbn [fst]. split.
    + intros ->. reflexivity.
    + intros -> HT Hj. pose proof (jit_nonzero _ _ _ _ Hd Hn HT Hj) as Hnz.
      set (T := if ctx =? 0 then eff_ttl c else ctx) in *.
      destruct (T + jit =? 0) eqn:Ez; [lia|].
      split; [lia|]. split; [lia|]. replace (now + (T + jit) - (now + T)) with jit by lia. exact Hj.
Qed.

(* the read threshold of the reference map: value while now <= expiry, ErrExpired carrying the
   stored instant afterwards; never-expiring entries are always served *)
Lemma read_threshold c s k e now :
  sdata s !! k = Some e ->
  (s_read c s k false now).1.2 =
    if (eE e =? 0) then RVal (eV e)
    else if (now <=? eE e) then RVal (eV e) else RErr (EExpired (eV e) (eE e)).
Proof.
  intros Hk. unfold s_read. rewrite Hk. unfold expired.
  destruct (eE e =? 0) eqn:E0; cbn; [reflexivity|].
  destruct (eE e <? now) eqn:E1, (now <=? eE e) eqn:E2; try reflexivity; lia.
Qed.

(* the instant an expired read reports is the instant Walk reports *)
Lemma expired_at_is_walk_instant c s k e now v at_ :
  sdata s !! k = Some e ->
  (s_read c s k false now).1.2 = RErr (EExpired v at_) ->
  at_ = eE e /\ e ∈ (map_to_list (sdata s)).*2.
Proof.
  intros Hk. rewrite (read_threshold _ _ _ _ _ Hk).
  destruct (eE e =? 0); [discriminate|]. destruct (now <=? eE e); [discriminate|].
  intros [= <- <-]. split; [reflexivity|].
  apply elem_of_list_fmap. exists (k, e). split; [reflexivity|]. apply elem_of_map_to_list. exact Hk.
Qed.
