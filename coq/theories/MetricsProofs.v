(* MetricsProofs.v — C18 (backend part): every cache event is counted exactly once. *)
From Cache Require Import Base Backend.

(* what one operation should contribute: (reads answered + entries touched by ExpireAll, writes, entries deleted) *)
Definition acct (s : bstate) (o : bop) (r : bres) : Z * Z * Z :=
  match o with
  | ORead _ skip _ => (if skip then 0 else 1, 0, 0)
  | OLoad _ _ => (1, 0, 0)
  | OWrite _ _ _ _ _ | OStore _ _ _ _ => (0, 1, 0)
  | ODelete _ => (0, 0, match r with RUnit => 1 | _ => 0 end)
  | OExpireAll _ => (Z.of_nat (size (data s)), 0, 0)
  | ODeleteAll => (0, 0, Z.of_nat (size (data s)))
  | OLen | OWalk | OCleanup _ _ => (0, 0, 0)
  end.

Definition hme (ev : list mevent) : Z := mtotal MHit ev + mtotal MMiss ev + mtotal MExpired ev.

Fixpoint acct_run (hash : key -> N) (c : bcfg) (s : bstate) (ops : list bop) : Z * Z * Z :=
  match ops with
  | [] => (0, 0, 0)
  | o :: r =>
    let '(s1, res, _) := b_step hash c s o in
    let '(a1, a2, a3) := acct s o res in
    let '(b1, b2, b3) := acct_run hash c s1 r in
    (a1 + b1, a2 + b2, a3 + b3)
  end.

Ltac mt := unfold hme; rewrite ?mtotal_cons, ?mtotal_nil; cbn [fst snd];
  repeat match goal with |- context [decide (?a = ?b)] => destruct (decide (a = b)); try discriminate; try congruence end;
  repeat split; lia.

Lemma step_metrics hash c s o s' r ev :
  b_step hash c s o = (s', r, ev) ->
  let '(a1, a2, a3) := acct s o r in
  hme ev = a1 /\ mtotal MWrite ev = a2 /\ mtotal MDelete ev = a3 /\
  mtotal MBuild ev = 0 /\ mtotal MFailed ev = 0 /\ mtotal MRefreshed ev = 0.
Proof.
  assert (Hr : forall k skip now s' r ev, b_read hash c s k skip now = (s', r, ev) ->
     hme ev = (if skip then 0 else 1) /\ mtotal MWrite ev = 0 /\ mtotal MDelete ev = 0 /\
     mtotal MBuild ev = 0 /\ mtotal MFailed ev = 0 /\ mtotal MRefreshed ev = 0).
  { intros k skip now s1 r1 ev1. unfold b_read. destruct skip; [intros [= <- <- <-]; vm_compute; tauto|].
    destruct (find hash (data s) k) as [e|]; [destruct (expired now e)|];
      intros [= <- <- <-]; vm_compute; tauto. }
  assert (Hw : forall k v t now jit s' r ev, b_write hash c s k v t now jit = (s', r, ev) ->
     hme ev = 0 /\ mtotal MWrite ev = 1 /\ mtotal MDelete ev = 0 /\
     mtotal MBuild ev = 0 /\ mtotal MFailed ev = 0 /\ mtotal MRefreshed ev = 0).
  { intros k v t now jit s1 r1 ev1. unfold b_write. destruct (trait_ttl c t jit).
    intros [= <- <- <-]; vm_compute; tauto. }
  destruct o; cbn [b_step acct]; intros Hs.
  - apply Hw in Hs. exact Hs.
  - apply Hr in Hs. exact Hs.
  - unfold b_delete in Hs. destruct (find hash (data s) k); injection Hs as <- <- <-; vm_compute; tauto.
  - injection Hs as <- <- <-. mt.
  - injection Hs as <- <- <-. mt.
  - injection Hs as <- <- <-. vm_compute; tauto.
  - injection Hs as <- <- <-. vm_compute; tauto.
  - apply Hr in Hs. exact Hs.
  - apply Hw in Hs. exact Hs.
  - injection Hs as <- <- <-. vm_compute; tauto.
Qed.

Lemma hme_app a b : hme (a ++ b) = hme a + hme b.
Proof. unfold hme. rewrite !mtotal_app. lia. Qed.

Lemma run_metrics hash c ops : forall s,
  let ev := (b_run hash c s ops).2 in
  let a := acct_run hash c s ops in
  hme ev = a.1.1 /\ mtotal MWrite ev = a.1.2 /\ mtotal MDelete ev = a.2 /\
  mtotal MBuild ev = 0 /\ mtotal MFailed ev = 0 /\ mtotal MRefreshed ev = 0.
Proof.
  induction ops as [|o ops IH]; intros s; cbn zeta.
  - vm_compute; tauto.
  - cbn [b_run acct_run]. destruct (b_step hash c s o) as [[s1 r] ev1] eqn:Hs.
    pose proof (step_metrics _ _ _ _ _ _ _ Hs) as H1. destruct (acct s o r) as [[a1 a2] a3].
    specialize (IH s1). cbn zeta in IH. destruct (acct_run hash c s1 ops) as [[b1 b2] b3].
    destruct (b_run hash c s1 ops) as [[s2 rs] evs]. cbn [fst snd] in *.
    rewrite hme_app, !mtotal_app. lia.
Qed.
