(* Spec.v — the reference: a finite map from keys to entries with per-entry expiry.
   No hashes, no shards. Short enough to read in a minute; C07 states that the
   backends are observationally equal to it when no two keys in use collide. *)
From Cache Require Import Base Backend.

Record sstate := mkS { sdata : gmap key entry; sexpset : Z }.
Definition s0 : sstate := mkS ∅ 0.

Definition s_write (c : bcfg) (s : sstate) k v ctx_ttl now jit : sstate * bres * list mevent :=
  let '(ttl, inc) := trait_ttl c ctx_ttl jit in
  (mkS (<[k := mkEntry k v (expire_at now ttl) 0]> (sdata s)) (sexpset s + inc), RUnit, [(MWrite, 1)]).

Definition s_read (c : bcfg) (s : sstate) k (skip : bool) now : sstate * bres * list mevent :=
  if skip then (s, RErr ENotFound, [])
  else match sdata s !! k with
       | None => (s, RErr ENotFound, [(MMiss, 1)])
       | Some e =>
         let s' := mkS (<[k := bump c now e]> (sdata s)) (sexpset s) in
         if expired now e then (s', RErr (EExpired (eV e) (eE e)), [(MExpired, 1)])
         else (s', RVal (eV e), [(MHit, 1)])
       end.

Definition s_step (c : bcfg) (s : sstate) (o : bop) : sstate * bres * list mevent :=
  match o with
  | OWrite k v ctx_ttl now jit => s_write c s k v ctx_ttl now jit
  | OStore k v now jit => s_write c s k v 0 now jit
  | ORead k skip now => s_read c s k skip now
  | OLoad k now => s_read c s k false now
  | ODelete k =>
      match sdata s !! k with
      | None => (s, RErr ENotFound, [])
      | Some _ => (mkS (delete k (sdata s)) (sexpset s), RUnit, [(MDelete, 1)])
      end
  | OExpireAll now =>
      (mkS ((fun e => mkEntry (eK e) (eV e) now (eC e)) <$> sdata s) (sexpset s), RUnit,
       [(MExpired, Z.of_nat (size (sdata s)))])
  | ODeleteAll => (mkS ∅ (sexpset s), RUnit, [(MDelete, Z.of_nat (size (sdata s)))])
  | OLen => (s, RLen (Z.of_nat (size (sdata s))), [])
  | OWalk => (s, RWalk ((map_to_list (sdata s)).*2), [])
  | OCleanup now victims =>
      let d1 := if negb (eff_ttl c =? unlimited) || (0 <? sexpset s)
                then filter (fun ke => long_expired (now - eff_del_after c) ke.2 = false) (sdata s)
                else sdata s in
      (mkS (foldr delete d1 victims) (sexpset s), RUnit, [])
  end.

Fixpoint s_run (c : bcfg) (s : sstate) (ops : list bop) : sstate * list bres * list mevent :=
  match ops with
  | [] => (s, [], [])
  | o :: r =>
    let '(s1, res, ev) := s_step c s o in
    let '(s2, rs, evs) := s_run c s1 r in
    (s2, res :: rs, ev ++ evs)
  end.

(* Walk results are compared up to order *)
Definition res_equiv (a b : bres) : Prop :=
  match a, b with
  | RWalk l1, RWalk l2 => l1 ≡ₚ l2
  | _, _ => a = b
  end.
