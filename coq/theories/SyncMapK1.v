(* SyncMapK1.v — the defect K1 (C08, SyncMap only) and its repair, inside the development.

   A fine-grained model of ONE slot of the sync.Map, with the entry object identified by its address:
   `deleteExpired` is the two steps the source takes for an entry (sync_map.go: load E from the entry Range handed out
   and judge it; then `deleteEntry` = `CompareAndDelete(key, thatEntry)`), `ExpireAll` is either
     - InPlace: `atomic.StoreInt64(&entry.E, stamp)` on the entry Range handed out (the code before the fix), or
     - Swap:    `CompareAndSwap(key, thatEntry, &copy{E: stamp})` (syncMap.expireEntry, the code after the fix).
   All interleavings of a cleanup cycle, an {ExpireAll; Read} caller and a concurrent Write on a long-expired entry are
   enumerated and each resulting history is searched for a linearization under the sequential slot specification
   `sspec` (Check.c08_legal / c08_realtime, the very functions the C08 check applies to implementation histories):
     - InPlace: some interleaving has NO linearization (`k1_in_place_refuted`; the witness is the history the harness
       reproduced on the real code: Read -> expired just now, then Read -> not found);
     - Swap: every interleaving has one (`k1_swap_linearizable`; also with a Delete racing all three, 420 interleavings:
       `k1_swap_linearizable_with_delete`; with a second ExpireAll or a second cleanup cycle, locals per thread, 210
       each: `k1_swap_linearizable_two`).
   D16 (cleanup deleting by key vs. CompareAndDelete, racing a Write) is decided the same way at the end of the file.
   The domain is finite (all merges of three fixed micro-step sequences), so the proofs are by computation.  The shape
   of the source is tied in TieCleanup.tie_delete_expired_sync, TieAccessors.tie_sync_delete_entry and
   TieBackend.tie_expire_all_sync / tie_sync_expire_entry. *)
From Cache Require Import Base Backend BackendConc Check.

Record mslot := mkM { m_ptr : N; m_ent : sent }.

Inductive mstep :=
| MWrite (k : key) (v : val) (e : time)     (* Store(key, &TraitEntry{...}): a new object *)
| MRead (k : key) (now : time)              (* Load + PrepareRead *)
| MDelete (k : key)                         (* LoadAndDelete(key) *)
| MExpireInPlace (stamp : time)             (* Range: atomic.StoreInt64(&entry.E, stamp) *)
| MExpireLoad                               (* Range hands out the entry *)
| MExpireSwap (stamp : time)                (* CompareAndSwap(key, thatEntry, expired copy) *)
| MScanLoad (boundary : time)               (* Range hands out the entry; E is loaded and judged *)
| MScanDelete                               (* CompareAndDelete(key, the entry judged) if judged long-expired *)
| MScanDeleteByKey.                         (* Delete(key) if judged long-expired: the code before fix D16 *)

Record mstate := mkMS {
  ms_slot : option mslot;
  ms_next : N;                               (* next fresh address *)
  ms_judged : list (nat * (N * bool));       (* per cleanup thread: (address it looked at, verdict) *)
  ms_seen : list (nat * N);                  (* per ExpireAll thread: the address Range handed out *)
}.

Definition lget {A} (t : nat) (l : list (nat * A)) : option A :=
  match List.find (fun p => Nat.eqb p.1 t) l with Some p => Some p.2 | None => None end.
Definition ldel {A} (t : nat) (l : list (nat * A)) : list (nat * A) := List.filter (fun p => negb (Nat.eqb p.1 t)) l.
Definition lset {A} (t : nat) (o : option A) (l : list (nat * A)) : list (nat * A) :=
  match o with Some x => (t, x) :: ldel t l | None => ldel t l end.

Definition m_step (thr : nat) (s : mstate) (x : mstep) : mstate * sres :=
  match x with
  | MWrite k v e => (mkMS (Some (mkM (ms_next s) (mkS k v e))) (ms_next s + 1)%N (ms_judged s) (ms_seen s), XUnit)
  | MRead k now => (s, read_res k now (m_ent <$> ms_slot s))
  | MDelete k =>
      if holds_key k (m_ent <$> ms_slot s)
      then (mkMS None (ms_next s) (ms_judged s) (ms_seen s), XUnit)
      else (s, XNotFound)
  | MExpireInPlace st =>
      (mkMS ((fun m => mkM (m_ptr m) (mkS (sK (m_ent m)) (sV (m_ent m)) st)) <$> ms_slot s) (ms_next s) (ms_judged s) (ms_seen s), XUnit)
  | MExpireLoad => (mkMS (ms_slot s) (ms_next s) (ms_judged s) (lset thr (m_ptr <$> ms_slot s) (ms_seen s)), XUnit)
  | MExpireSwap st =>
      (match lget thr (ms_seen s), ms_slot s with
       | Some p, Some m =>
           if (m_ptr m =? p)%N
           then mkMS (Some (mkM (ms_next s) (mkS (sK (m_ent m)) (sV (m_ent m)) st))) (ms_next s + 1)%N (ms_judged s) (ldel thr (ms_seen s))
           else mkMS (ms_slot s) (ms_next s) (ms_judged s) (ldel thr (ms_seen s))
       | _, _ => mkMS (ms_slot s) (ms_next s) (ms_judged s) (ldel thr (ms_seen s))
       end, XUnit)
  | MScanLoad b =>
      (mkMS (ms_slot s) (ms_next s)
            (lset thr (match ms_slot s with Some m => Some (m_ptr m, s_long_expired b (m_ent m)) | None => None end) (ms_judged s))
            (ms_seen s), XUnit)
  | MScanDelete =>
      (match lget thr (ms_judged s), ms_slot s with
       | Some (p, true), Some m =>
           if (m_ptr m =? p)%N then mkMS None (ms_next s) (ldel thr (ms_judged s)) (ms_seen s)
           else mkMS (ms_slot s) (ms_next s) (ldel thr (ms_judged s)) (ms_seen s)
       | _, _ => mkMS (ms_slot s) (ms_next s) (ldel thr (ms_judged s)) (ms_seen s)
       end, XUnit)
  | MScanDeleteByKey =>
      (match lget thr (ms_judged s) with
       | Some (_, true) => mkMS None (ms_next s) (ldel thr (ms_judged s)) (ms_seen s)
       | _ => mkMS (ms_slot s) (ms_next s) (ldel thr (ms_judged s)) (ms_seen s)
       end, XUnit)
  end.

(* ---- callers: an operation is a sequence of micro-steps; its result is that of its last step ---- *)
Record mop := mkMop { mo_op : sop; mo_steps : list mstep }.

(* a micro-step tagged with the operation (thread, index) it belongs to and whether it is its first / last step *)
Record tagged := mkT { tg_thr : nat; tg_idx : nat; tg_first : bool; tg_last : bool; tg_op : sop; tg_step : mstep }.

Fixpoint tag_steps (thr idx : nat) (o : sop) (first : bool) (l : list mstep) : list tagged :=
  match l with
  | [] => []
  | [x] => [mkT thr idx first true o x]
  | x :: r => mkT thr idx first false o x :: tag_steps thr idx o false r
  end.

Fixpoint tag_thread (thr idx : nat) (ops : list mop) : list tagged :=
  match ops with
  | [] => []
  | o :: r => tag_steps thr idx (mo_op o) true (mo_steps o) ++ tag_thread thr (S idx) r
  end.

Fixpoint interleave_fuel {A} (fuel : nat) (l1 l2 : list A) : list (list A) :=
  match fuel with
  | O => []
  | S f =>
    match l1, l2 with
    | [], _ => [l2]
    | _, [] => [l1]
    | x :: r1, y :: r2 => map (cons x) (interleave_fuel f r1 l2) ++ map (cons y) (interleave_fuel f l1 r2)
    end
  end.
Definition interleave {A} (l1 l2 : list A) : list (list A) := interleave_fuel (S (length l1 + length l2)) l1 l2.

(* running a merged schedule from a state, from instant t0 on: each micro-step takes the instants 2i, 2i+1 *)
Record pending := mkP { p_thr : nat; p_idx : nat; p_call : Z }.

Fixpoint exec (s : mstate) (t : Z) (pend : list pending) (sched : list tagged) : list c08op * mstate * Z :=
  match sched with
  | [] => ([], s, t)
  | x :: r =>
      let '(s', res) := m_step (tg_thr x) s (tg_step x) in
      let pend1 := if tg_first x then mkP (tg_thr x) (tg_idx x) t :: pend else pend in
      let call := match List.find (fun p => Nat.eqb (p_thr p) (tg_thr x) && Nat.eqb (p_idx p) (tg_idx x)) pend1 with
                  | Some p => p_call p | None => t end in
      let '(h, sf, tf) := exec s' (t + 2) pend1 r in
      ((if tg_last x then [mkOp8 call (t + 1) (tg_op x) res] else []) ++ h, sf, tf)
  end.

Definition hour : Z := 3600 * sec.
Definition k1_now : Z := 100 * hour.
Definition k1_key : key := [1%N].

Inductive variant := InPlace | Swap.

(* the three concurrent callers, after Write(k, 5, expired 2h ago) has completed *)
Definition t_cleanup : list mop := [mkMop (SDelExp (k1_now - hour)) [MScanLoad (k1_now - hour); MScanDelete]].
Definition t_expire (v : variant) : list mop :=
  [mkMop (SExpire k1_now) (match v with InPlace => [MExpireInPlace k1_now] | Swap => [MExpireLoad; MExpireSwap k1_now] end);
   mkMop (SRead k1_key (k1_now + 1)) [MRead k1_key (k1_now + 1)]].
Definition t_write : list mop := [mkMop (SWrite k1_key 9 (k1_now + hour)) [MWrite k1_key 9 (k1_now + hour)]].

Definition m_init : mstate :=
  (m_step 9 (mkMS None 1%N [] []) (MWrite k1_key 5 (k1_now - 2 * hour))).1.

(* the history of one interleaving: the initial Write, the concurrent part, a final Read *)
Definition history_of (sched : list tagged) : list c08op :=
  let '(h, s, t) := exec m_init 10 [] sched in
  mkOp8 1 2 (SWrite k1_key 5 (k1_now - 2 * hour)) XUnit :: h ++
  [mkOp8 (t + 2) (t + 3) (SRead k1_key (k1_now + 2)) (m_step 9 s (MRead k1_key (k1_now + 2))).2].

Definition linearizable (h : list c08op) : bool :=
  existsb (fun l => c08_realtime l && c08_legal [None] l) (permutations h).

(* cleanup || {ExpireAll; Read}: all merges *)
Definition scheds2 (v : variant) : list (list tagged) :=
  interleave (tag_thread 0 0 t_cleanup) (tag_thread 1 0 (t_expire v)).
(* ... and with a concurrent Write of a fresh value: all three-way merges *)
Definition scheds3 (v : variant) : list (list tagged) :=
  flat_map (interleave (tag_thread 2 0 t_write)) (scheds2 v).

(* the witness of K1: the cleanup judges, ExpireAll re-stamps in place, the Read finds the entry expired just now,
   the cleanup removes it, the last Read finds nothing *)
Definition k1_witness : list tagged :=
  match tag_thread 0 0 t_cleanup, tag_thread 1 0 (t_expire InPlace) with
  | [c1; c2], [e1; r1] => [c1; e1; r1; c2]
  | _, _ => []
  end.

Lemma k1_witness_history :
  map o_res (history_of k1_witness) = [XUnit; XUnit; XExpired 5 k1_now; XUnit; XNotFound] /\
  In k1_witness (scheds2 InPlace).
Proof. split; [vm_compute; reflexivity|vm_compute; tauto]. Qed.

(* the statement of C08 is FALSE of the in-place variant ... *)
Theorem k1_in_place_refuted :
  linearizable (history_of k1_witness) = false /\
  forall l, l ≡ₚ history_of k1_witness -> c08_realtime l = true -> c08_legal [None] l = false.
Proof.
  assert (H : linearizable (history_of k1_witness) = false) by (vm_compute; reflexivity).
  split; [exact H|]. intros l Hp Hrt. unfold linearizable in H.
  destruct (c08_legal [None] l) eqn:E; [|reflexivity]. exfalso.
  assert (Hex : existsb (fun l => c08_realtime l && c08_legal [None] l) (permutations (history_of k1_witness)) = true).
  { apply existsb_exists. exists l. split; [apply elem_of_list_In, permutations_Permutation; symmetry; exact Hp|].
    rewrite Hrt, E. reflexivity. }
  congruence.
Qed.

(* ... and true of the swap variant on every interleaving, also with a Write racing both *)
Theorem k1_swap_linearizable :
  forallb (fun sched => linearizable (history_of sched)) (scheds2 Swap) = true /\
  forallb (fun sched => linearizable (history_of sched)) (scheds3 Swap) = true /\
  (length (scheds2 Swap) = 10 /\ length (scheds3 Swap) = 60)%nat.
Proof. repeat split; vm_compute; reflexivity. Qed.

(* in the in-place variant the witness is the only failure among the six two-way merges *)
Example k1_in_place_census :
  length (List.filter (fun sched => negb (linearizable (history_of sched))) (scheds2 InPlace)) = 1%nat /\
  length (scheds2 InPlace) = 6%nat.
Proof. split; vm_compute; reflexivity. Qed.

(* ... and with a Delete racing all three: 420 interleavings *)
Definition t_delete : list mop := [mkMop (SDelete k1_key) [MDelete k1_key]].
Definition scheds4 (v : variant) : list (list tagged) :=
  flat_map (interleave (tag_thread 3 0 t_delete)) (scheds3 v).

Theorem k1_swap_linearizable_with_delete :
  forallb (fun sched => linearizable (history_of sched)) (scheds4 Swap) = true /\ length (scheds4 Swap) = 420%nat.
Proof. split; vm_compute; reflexivity. Qed.

(* ... with a second ExpireAll, resp. a second cleanup cycle (per-thread locals): 210 interleavings each *)
Definition t_expire2 : list mop := [mkMop (SExpire (k1_now + 5)) [MExpireLoad; MExpireSwap (k1_now + 5)]].
Definition scheds_two_expire : list (list tagged) := flat_map (interleave (tag_thread 4 0 t_expire2)) (scheds2 Swap).
Definition scheds_two_cleanup : list (list tagged) := flat_map (interleave (tag_thread 5 0 t_cleanup)) (scheds2 Swap).

Theorem k1_swap_linearizable_two :
  forallb (fun sched => linearizable (history_of sched)) scheds_two_expire = true /\
  forallb (fun sched => linearizable (history_of sched)) scheds_two_cleanup = true /\
  (length scheds_two_expire = 210 /\ length scheds_two_cleanup = 210)%nat.
Proof. repeat split; vm_compute; reflexivity. Qed.

(* ---- D16, the same way: the cleanup removing BY KEY what it judged (the code before fix 0d54a0a) loses a fresh entry a
   concurrent Write stored in between; removing by CompareAndDelete does not ---- *)
Definition t_cleanup_by (by_key : bool) : list mop :=
  [mkMop (SDelExp (k1_now - hour)) [MScanLoad (k1_now - hour); if by_key then MScanDeleteByKey else MScanDelete]].

Definition scheds_d16 (by_key : bool) : list (list tagged) :=
  interleave (tag_thread 0 0 (t_cleanup_by by_key)) (tag_thread 2 0 t_write).

Theorem d16_by_key_refuted :
  existsb (fun sched => negb (linearizable (history_of sched))) (scheds_d16 true) = true /\
  (* the failing history: the completed Write of a fresh value is followed by a Read that finds nothing *)
  In [XUnit; XUnit; XUnit; XNotFound] (map (fun sched => map o_res (history_of sched)) (scheds_d16 true)).
Proof. split; [vm_compute; reflexivity|vm_compute; tauto]. Qed.

Theorem d16_compare_and_delete_linearizable :
  forallb (fun sched => linearizable (history_of sched)) (scheds_d16 false) = true /\ length (scheds_d16 false) = 3%nat.
Proof. split; vm_compute; reflexivity. Qed.
