(* TieAccessors.v — the small functions through which callers see entries, expiry errors and dumps, as translated
   from /repo on this run: what a Walk callback or an ErrExpired holder reads is the stored field, the instant
   conversions are the stated arithmetic, the byte counters around Dump / Restore streams pass every byte and every
   result through unchanged, NoOp never stores. *)
From Coq Require Import String.
From Cache Require Import Base GoIR.
From Cache.Generated Require Import Funcs.
Open Scope string_scope.
Open Scope Z_scope.

Definition no_fcmp (op : string) (a b : fterm) : bool := false.

Definition acc_prims : prims := fun f args s =>
  match f, args with
  | "tsTime", [VZ ns] => Some (VRec "tsTime" [("ns", VZ ns)], s)
  | "ErrExpired.Error", [] => Some (VStr "expired cache item", s)
  | "errors.Is", [e; target] => Some (VRec "errors.Is" [("err", e); ("target", target)], s)
  | "t.UnixNano", [] => Some (VRec "t.UnixNano()" [], s)
  | "time.Unix", [VZ sec; VZ nsec] => Some (VRec "time.Unix" [("sec", VZ sec); ("nsec", VZ nsec)], s)
  | "string", [v] => Some (VRec "string" [("of", v)], s)
  | "len", [v] => Some (VRec "len" [("of", v)], s)
  | _, _ => None
  end.

Definition run_acc (f : gfunc) (args : list value) (leaves : list (string * value)) : option (list value) :=
  run acc_prims no_fcmp no_loop (fun vs s => match eff s with [] => Some vs | _ => None end) (fun _ => None) f
      args leaves (fun _ => None).

(* entries as a Walk callback and a dump see them: Key() = K, Value() = V, ExpireAt() = tsTime(E) *)
Theorem tie_entry_accessors : forall E,
  let lv := [("e.K", VPtr true "K"); ("e.V", VPtr true "V"); ("e.E", VZ E)] in
  run_acc fn_TraitEntry_Key [VPtr true "e"] lv = Some [VPtr true "K"] /\
  run_acc fn_TraitEntry_Value [VPtr true "e"] lv = Some [VPtr true "V"] /\
  run_acc fn_TraitEntry_ExpireAt [VPtr true "e"] lv = Some [VRec "tsTime" [("ns", VZ E)]] /\
  run_acc fn_TraitEntryOf_Key [VPtr true "e"] lv = Some [VPtr true "K"] /\
  run_acc fn_TraitEntryOf_Value [VPtr true "e"] lv = Some [VPtr true "V"] /\
  run_acc fn_TraitEntryOf_ExpireAt [VPtr true "e"] lv = Some [VRec "tsTime" [("ns", VZ E)]].
Proof. intros E; repeat split; reflexivity. Qed.

(* the error a Read of an expired entry returns: it IS ErrExpired (errors.Is), says so, carries the stored value
   and the stored expiry instant *)
Theorem tie_err_expired : forall at_,
  let lv := [("e.entry.V", VPtr true "V"); ("e.expiredAt", VZ at_)] in
  run_acc fn_errExpired_Value [VPtr true "e"] lv = Some [VPtr true "V"] /\
  run_acc fn_errExpired_ExpiredAt [VPtr true "e"] lv = Some [VRec "tsTime" [("ns", VZ at_)]] /\
  run_acc fn_errExpired_Error [VPtr true "e"] lv = Some [VStr "expired cache item"] /\
  run_acc fn_errExpired_Is [VPtr true "e"; VPtr true "err"] lv =
    Some [VRec "errors.Is" [("err", VPtr true "err"); ("target", VStr "expired cache item")]] /\
  run_acc fn_errExpiredOf_Value [VPtr true "e"] lv = Some [VPtr true "V"] /\
  run_acc fn_errExpiredOf_ExpiredAt [VPtr true "e"] lv = Some [VRec "tsTime" [("ns", VZ at_)]] /\
  run_acc fn_errExpiredOf_Error [VPtr true "e"] lv = Some [VStr "expired cache item"] /\
  run_acc fn_errExpiredOf_Is [VPtr true "e"; VPtr true "err"] lv =
    Some [VRec "errors.Is" [("err", VPtr true "err"); ("target", VStr "expired cache item")]].
Proof. intros at_; repeat split; reflexivity. Qed.

(* instants: ts(t) = t.UnixNano(); tsTime(ns) = time.Unix(ns / 1e9, ns % 1e9) (Go's truncating / and %: the pair
   denotes the same instant for negative ns too, since time.Unix normalises) *)
Theorem tie_ts : forall ns,
  run_acc fn_ts [VPtr true "t"] [] = Some [VRec "t.UnixNano()" []] /\
  run_acc fn_tsTime [VZ ns] [] =
    Some [VRec "time.Unix" [("sec", VZ (Z.quot ns 1000000000)); ("nsec", VZ (Z.rem ns 1000000000))]].
Proof. intros ns; split; reflexivity. Qed.

Lemma ts_round_trip : forall ns, Z.quot ns 1000000000 * 1000000000 + Z.rem ns 1000000000 = ns.
Proof. intros ns. pose proof (Z.quot_rem' ns 1000000000). lia. Qed.

(* the byte counters wrapped around the dump stream (Export, Dump) and the restore stream (importCache): the
   bytes, the count and the error of the wrapped reader / writer are passed through; only the counter moves *)
Definition cnt_prims (n : Z) (ok : bool) : prims := fun f args s =>
  match f, args with
  | "r.r.Read", [p] => Some (VTup [VZ n; VPtr (negb ok) "io error"], emit "inner Read" [p] s)
  | "w.w.Write", [p] => Some (VTup [VZ n; VPtr (negb ok) "io error"], emit "inner Write" [p] s)
  | "int64", [v] => Some (v, s)
  | "atomic.AddInt64", [VRef c; VZ d] => Some (VNil, emit "count" [VStr c; VZ d] s)
  | _, _ => None
  end.

Definition run_cnt (f : gfunc) (recv : string) (n : Z) (ok : bool) : option (list value * list effect) :=
  run (cnt_prims n ok) no_fcmp no_loop (fun vs s => Some (vs, eff s)) (fun _ => None) f
      [VPtr true recv; VPtr true "p"] [] (fun _ => None).

Theorem tie_byte_counters : forall n ok,
  run_cnt fn_readerCnt_Read "r" n ok =
    Some ([VZ n; VPtr (negb ok) "io error"], [("inner Read", [VPtr true "p"]); ("count", [VStr "r.n"; VZ n])]) /\
  run_cnt fn_writerCnt_Write "w" n ok =
    Some ([VZ n; VPtr (negb ok) "io error"], [("inner Write", [VPtr true "p"]); ("count", [VStr "w.n"; VZ n])]).
Proof. intros n [|]; split; reflexivity. Qed.

(* NoOp: every Read and Delete misses, Write succeeds and stores nothing *)
Theorem tie_noop :
  run_acc fn_NoOp_Read [VPtr true "ctx"; VPtr true "key"] [] = Some [VNil; VStr "missing cache item"] /\
  run_acc fn_NoOp_Write [VPtr true "ctx"; VPtr true "key"; VPtr true "v"] [] = Some [VNil] /\
  run_acc fn_NoOp_Delete [VPtr true "ctx"; VPtr true "key"] [] = Some [VStr "missing cache item"].
Proof. repeat split; reflexivity. Qed.

(* SentinelError.Error is the string itself; HTTPTransfer.CachesCount is the size of the registry *)
Theorem tie_misc :
  run_acc fn_SentinelError_Error [VPtr true "e"] [] = Some [VRec "string" [("of", VPtr true "e")]] /\
  run_acc fn_HTTPTransfer_CachesCount [VPtr true "t"] [("t.caches", VPtr true "caches")] =
    Some [VRec "len" [("of", VPtr true "caches")]].
Proof. split; reflexivity. Qed.

(* SyncMap's conditional delete: sync.Map.CompareAndDelete(key, e) — the entry is removed only if the key still
   maps to the very entry that was examined *)
Definition run_delete_entry : option (list effect) :=
  run (fun f args s => match f, args with
                       | "c.data.CompareAndDelete", [k; e] => Some (VB true, emit "CompareAndDelete" [k; e] s)
                       | _, _ => None end)
      no_fcmp no_loop (fun _ s => Some (eff s)) (fun _ => None) fn_syncMap_deleteEntry
      [VPtr true "c"; VPtr true "key"; VPtr true "e"] [] (fun s => Some (eff s)).

Theorem tie_sync_delete_entry :
  run_delete_entry = Some [("CompareAndDelete", [VPtr true "key"; VPtr true "e"])].
Proof. reflexivity. Qed.
