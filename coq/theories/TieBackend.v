(* TieBackend.v — the point operations of the three backends, as translated from /repo on this run:
   Read looks the key up (under the shard's read lock for the sharded maps), rejects a resident entry whose key
   differs, and hands the verdict to PrepareRead — nothing else; under SkipRead it answers ErrNotFound without
   touching the map.  Delete answers ErrNotFound exactly when no entry with that very key is resident and otherwise
   removes it and reports one deletion.  Write stores a COPY of the key next to the value and the expiry instant
   computed by expireAt, and reports one write.  The Notify* functions emit the metric events of the model. *)
From Coq Require Import String.
From Cache Require Import Base Backend GoIR.
From Cache.Generated Require Import Funcs.
Open Scope string_scope.
Open Scope Z_scope.

Definition no_fcmp (op : string) (a b : fterm) : bool := false.

(* [present]: an entry is resident under the hash; [same]: its key equals the argument *)
Definition be_prims (skip present same : bool) : prims := fun f args s =>
  match f, args with
  | "SkipRead", [_] => Some (VB skip, s)
  | "xxhash.Sum64", [_] => Some (VZ 0, s)
  | "b.RLock", [] => Some (VNil, emit "RLock" [] s)
  | "b.RUnlock", [] => Some (VNil, emit "RUnlock" [] s)
  | "b.Lock", [] => Some (VNil, emit "Lock" [] s)
  | "bytes.Equal", [VPtr true "resident key"; VPtr true "key argument"] => Some (VB same, s)
  | "c.t.PrepareRead", [_; e; VB found] => Some (VTup [VStr "PrepareRead value"; VPtr true "PrepareRead error"], emit "PrepareRead" [e; VB found] s)
  | "delete", [VPtr true "b.data"; VZ 0] => Some (VNil, emit "delete" [] s)
  | "c.t.NotifyDeleted", [_; VPtr true "key argument"] => Some (VNil, emit "NotifyDeleted" [] s)
  | "string", [v] => Some (v, s)
  | "c.data.Load", [VPtr true "key argument"] => Some (VTup [VPtr present "resident"; VB present], emit "Load" [] s)
  | "c.data.LoadAndDelete", [VPtr true "key argument"] => Some (VTup [VPtr present "resident"; VB present], emit "LoadAndDelete" [] s)
  | "$assert:*TraitEntry", [v] => Some (v, s)
  | "$zero", [VStr "V"] => Some (VZ 0, s)
  | "$zero", [VStr "error"] => Some (VNil, s)
  | _, _ => None
  end.

Definition be_leaves (present : bool) : list (string * value) :=
  [("b.data[h]", VTup [VPtr present "resident"; VB present]); ("b.data", VPtr true "b.data");
   ("cacheEntry.K", VPtr true "resident key"); ("cachedEntry.K", VPtr true "resident key");
   ("c.hashedBuckets[h%shards]", VPtr true "shard")].

Definition be_args : list value := [VPtr true "c"; VPtr true "ctx"; VPtr true "key argument"].

(* Read: observation = the effects, and whether the result is PrepareRead's own *)
Definition read_obs (vs : list value) (s : st) : option (list effect * bool) :=
  match vs with
  | [VTup [VStr "PrepareRead value"; VPtr true "PrepareRead error"]] => Some (eff s, true)
  | [VStr "PrepareRead value"; VPtr true "PrepareRead error"] => Some (eff s, true)
  | [_; VStr "missing cache item"] => Some (eff s, false)
  | _ => None
  end.

Definition run_read (f : gfunc) (skip present same : bool) :=
  run (be_prims skip present same) no_fcmp no_loop read_obs (fun _ => None) f be_args (be_leaves present) (fun _ => None).

Definition read_spec_sharded (skip present same : bool) : list effect * bool :=
  if skip then ([], false)
  else ([("RLock", []); ("RUnlock", []);
         ("PrepareRead", [if present && same then VPtr true "resident" else VNil; VB (present && same)])], true).

Theorem tie_read_sharded : forall skip present same,
  run_read fn_shardedMap_Read skip present same = Some (read_spec_sharded skip present same).
Proof. intros [|] [|] [|]; reflexivity. Qed.

(* the generic Read returns PrepareRead's value and error through two locals; its error branch returns the zero
   value with that error *)
Definition read_obs_of (vs : list value) (s : st) : option (list effect * bool) :=
  match vs with
  | [VStr "PrepareRead value"; VNil] => Some (eff s, true)
  | [VZ 0; VPtr true "PrepareRead error"] => Some (eff s, true)
  | [VZ 0; VStr "missing cache item"] => Some (eff s, false)
  | _ => None
  end.

(* PrepareRead's error is nil or not: both answers are followed *)
Definition be_prims_of (skip present same err : bool) : prims := fun f args s =>
  match f, args with
  | "c.t.PrepareRead", [_; e; VB found] =>
      Some (VTup [VStr "PrepareRead value"; if err then VPtr true "PrepareRead error" else VNil], emit "PrepareRead" [e; VB found] s)
  | _, _ => be_prims skip present same f args s
  end.

Definition binop_ptr_nil := tt.

Theorem tie_read_sharded_of : forall skip present same err,
  run (be_prims_of skip present same err) no_fcmp no_loop read_obs_of (fun _ => None) fn_shardedMapOf_Read be_args
      (be_leaves present) (fun _ => None)
  = Some (read_spec_sharded skip present same).
Proof. intros [|] [|] [|] [|]; reflexivity. Qed.

(* SyncMap.Read: the map is keyed by string(key), so a found entry IS the entry of that key *)
Definition read_spec_sync (skip present : bool) : list effect * bool :=
  if skip then ([], false)
  else ([("Load", []); ("PrepareRead", [if present then VPtr true "resident" else VNil; VB present])], true).

Theorem tie_read_sync : forall skip present,
  run_read fn_syncMap_Read skip present true = Some (read_spec_sync skip present).
Proof. intros [|] [|]; reflexivity. Qed.

(* Delete *)
Definition delete_obs (vs : list value) (s : st) : option (list effect * bool) :=
  match vs with
  | [VNil] => Some (eff s, true)
  | [VStr "missing cache item"] => Some (eff s, false)
  | _ => None
  end.

Definition run_delete (f : gfunc) (present same : bool) :=
  run (be_prims false present same) no_fcmp no_loop delete_obs (fun _ => None) f be_args (be_leaves present) (fun _ => None).

Definition delete_spec_sharded (present same : bool) : list effect * bool :=
  if present && same
  then ([("Lock", []); ("defer b.Unlock", []); ("delete", []); ("NotifyDeleted", [])], true)
  else ([("Lock", []); ("defer b.Unlock", [])], false).

Theorem tie_delete_sharded : forall present same,
  run_delete fn_shardedMap_Delete present same = Some (delete_spec_sharded present same) /\
  run_delete fn_shardedMapOf_Delete present same = Some (delete_spec_sharded present same).
Proof. intros [|] [|]; split; reflexivity. Qed.

Theorem tie_delete_sync : forall present,
  run_delete fn_syncMap_Delete present true =
  Some (if present then ([("LoadAndDelete", []); ("NotifyDeleted", [])], true) else ([("LoadAndDelete", [])], false)).
Proof. intros [|]; reflexivity. Qed.

(* Write: the stored entry holds the value, a fresh copy of the key, and expireAt's instant; one NotifyWritten *)
Definition wr_prims (ttl at_ : Z) : prims := fun f args s =>
  match f, args with
  | "xxhash.Sum64", [_] => Some (VZ 0, s)
  | "b.Lock", [] => Some (VNil, emit "Lock" [] s)
  | "len", [VPtr true "key argument"] => Some (VZ 0, s)
  | "make", [_; _] => Some (VPtr true "fresh buffer", s)
  | "copy", [VPtr true "fresh buffer"; VPtr true "key argument"] => Some (VZ 0, emit "copy key" [] s)
  | "c.t.expireAt", [_] => Some (VTup [VZ ttl; VZ at_], s)
  | "c.t.NotifyWritten", [_; k; v; VZ t] => Some (VNil, emit "NotifyWritten" [k; v; VZ t] s)
  | "string", [v] => Some (v, s)
  | "c.data.Store", [k; e] => Some (VNil, emit "assign b.data[h]" [e] s)
  | _, _ => None
  end.

(* make([]byte, len(k)): the element type is not an expression of the interpreted subset *)
Definition wr_leaves : list (string * value) := [("c.hashedBuckets[h%shards]", VPtr true "shard")].

Definition write_obs (vs : list value) (s : st) : option (list effect) :=
  match vs with [VNil] => Some (eff s) | _ => None end.

Definition stored (ty : string) (v at_ : Z) : value :=
  VRec ty [("V", VZ v); ("K", VPtr true "fresh buffer"); ("E", VZ at_)].

Definition write_args (v : Z) : list value := [VPtr true "c"; VPtr true "ctx"; VPtr true "key argument"; VZ v].

Definition write_spec (locked : bool) (ty : string) (v ttl at_ : Z) : list effect :=
  (if locked then [("Lock", []); ("defer b.Unlock", [])] else []) ++
  [("copy key", []); ("assign b.data[h]", [stored ty v at_]);
   ("NotifyWritten", [VPtr true "fresh buffer"; VZ v; VZ ttl])].

Definition run_write (f : gfunc) (v ttl at_ : Z) :=
  run (wr_prims ttl at_) no_fcmp no_loop write_obs (fun _ => None) f (write_args v) wr_leaves (fun _ => None).

Theorem tie_write : forall v ttl at_,
  run_write fn_shardedMap_Write v ttl at_ = Some (write_spec true "TraitEntry" v ttl at_) /\
  run_write fn_shardedMapOf_Write v ttl at_ = Some (write_spec true "TraitEntryOf[V]" v ttl at_) /\
  run_write fn_syncMap_Write v ttl at_ = Some (write_spec false "TraitEntry" v ttl at_).
Proof. intros; repeat split; reflexivity. Qed.

(* ExpireAll: the body run on every entry stores the instant read once at the start and counts the entry *)
Definition ea_prims : prims := fun f args s =>
  match f, args with
  | "atomic.StoreInt64", [VRef p; v] => Some (VNil, emit "store" [VStr p; v] s)
  | "$assert:*TraitEntry", [v] => Some (v, s)
  | _, _ => None
  end.

Definition ea_obs (s : st) : option (list effect * option value) := Some (eff s, lookup "cnt" (env s)).

Definition run_expire_all_body (f : gfunc) (start cnt : Z) :=
  match first_range 10 (gf_body f) with
  | Some (_, _, body) =>
      exec_list ea_prims no_fcmp no_loop (fun _ _ => None) (fun _ => None) 40 body
                (mkSt [("startTS", VZ start); ("cnt", VZ cnt)] [] [] []) ea_obs
  | None => None
  end.

Theorem tie_expire_all_sharded : forall start cnt,
  run_expire_all_body fn_shardedMap_ExpireAll start cnt = Some ([("store", [VStr "v.E"; VZ start])], Some (VZ (cnt + 1))) /\
  run_expire_all_body fn_shardedMapOf_ExpireAll start cnt = Some ([("store", [VStr "v.E"; VZ start])], Some (VZ (cnt + 1))).
Proof. intros; split; reflexivity. Qed.

(* ---- Notify*: the metric events ---- *)
Definition nt_prims : prims := fun f args s =>
  match f, args with
  | "c.Stat.Add", [_; VStr m; v; VStr "name"; _] => Some (VNil, emit "stat" [VStr m; v] s)
  | "c.Log.logDebug", _ => Some (VNil, s)
  | "c.Log.logImportant", _ => Some (VNil, s)
  | "string", [v] => Some (v, s)
  | "float64", [VZ z] => Some (VF (FOfZ z), s)
  | "time.Since(start).String", [] => Some (VStr "", s)
  | _, _ => None
  end.

Definition nt_leaves (has_log has_stat : bool) : list (string * value) :=
  [("c.Log.logDebug", VPtr has_log "log"); ("c.Log.logImportant", VPtr has_log "log"); ("c.Stat", VPtr has_stat "Stat");
   ("c.Config.Name", VStr "name")].

Definition run_notify (f : gfunc) (args : list value) (has_log has_stat : bool) : option (list effect) :=
  run nt_prims no_fcmp no_loop (fun _ s => Some (eff s)) (fun _ => None) f args (nt_leaves has_log has_stat)
      (fun s => Some (eff s)).

Definition one (has_stat : bool) (m : string) (v : value) : list effect := if has_stat then [("stat", [VStr m; v])] else [].

Theorem tie_notify : forall has_log has_stat cnt,
  run_notify fn_Trait_NotifyWritten [VPtr true "c"; VPtr true "ctx"; VPtr true "key"; VZ 0; VZ 0] has_log has_stat
    = Some (one has_stat "cache_write" (VF (FConst 1 1))) /\
  run_notify fn_TraitOf_NotifyWritten [VPtr true "c"; VPtr true "ctx"; VPtr true "key"; VZ 0; VZ 0] has_log has_stat
    = Some (one has_stat "cache_write" (VF (FConst 1 1))) /\
  run_notify fn_Trait_NotifyDeleted [VPtr true "c"; VPtr true "ctx"; VPtr true "key"] has_log has_stat
    = Some (one has_stat "cache_delete" (VF (FConst 1 1))) /\
  run_notify fn_Trait_NotifyExpiredAll [VPtr true "c"; VPtr true "ctx"; VPtr true "start"; VZ cnt] has_log has_stat
    = Some (one has_stat "cache_expired" (VF (FOfZ cnt))) /\
  run_notify fn_Trait_NotifyDeletedAll [VPtr true "c"; VPtr true "ctx"; VPtr true "start"; VZ cnt] has_log has_stat
    = Some (one has_stat "cache_delete" (VF (FOfZ cnt))).
Proof. intros [|] [|] cnt; repeat split; reflexivity. Qed.

(* SyncMap.ExpireAll: the callback handed to sync.Map.Range expires every entry it is given — through expireEntry, with
   the instant read once at the start — counts it and asks to continue *)
Definition range_callback_of (l : list gstmt) : option (list gstmt) :=
  match l with
  | [_; _; _; GExprS (GCall "c.data.Range" [GFunc body]); _] => Some body
  | _ => None
  end.

Definition eas_prims : prims := fun f args s =>
  match f, args with
  | "c.expireEntry", [k; e; VZ t] => Some (VNil, emit "expireEntry" [k; e; VZ t] s)
  | "$assert:*TraitEntry", [v] => Some (v, s)
  | _, _ => None
  end.

Definition run_expire_all_sync (start cnt : Z) :=
  match range_callback_of (gf_body fn_syncMap_ExpireAll) with
  | Some body =>
      exec_list eas_prims no_fcmp no_loop
                (fun vs s => match vs with [VB continue] => Some (eff s, lookup "cnt" (env s), continue) | _ => None end)
                (fun _ => None) 40 body
                (mkSt [("startTS", VZ start); ("cnt", VZ cnt); ("value", VPtr true "entry"); ("key", VPtr true "key")] [] [] [])
                (fun _ => None)
  | None => None
  end.

Theorem tie_expire_all_sync : forall start cnt,
  run_expire_all_sync start cnt =
  Some ([("expireEntry", [VPtr true "key"; VPtr true "entry"; VZ start])], Some (VZ (cnt + 1)), true).
Proof. intros; reflexivity. Qed.

(* syncMap.expireEntry (go1.20+): the entry is not re-stamped in place but REPLACED, by CompareAndSwap against the very
   entry Range handed out, with a copy that differs in E only (K, V, the usage counter loaded atomically).  A cleanup
   that has judged the old entry then fails its CompareAndDelete (SyncMapK1.k1_swap_linearizable). *)
Definition run_expire_entry (ts c : Z) : option (list effect) :=
  run (fun f args s => match f, args with
                       | "atomic.LoadInt64", [VRef "e.C"] => Some (VZ c, s)
                       | "c.data.CompareAndSwap", [k; old; new] => Some (VB true, emit "CompareAndSwap" [k; old; new] s)
                       | _, _ => None end)
      no_fcmp no_loop (fun _ s => Some (eff s)) (fun _ => None) fn_syncMap_expireEntry
      [VPtr true "c"; VPtr true "key"; VPtr true "e"; VZ ts] [("e.K", VPtr true "K"); ("e.V", VPtr true "V")]
      (fun s => Some (eff s)).

Theorem tie_sync_expire_entry : forall ts c,
  run_expire_entry ts c =
  Some [("CompareAndSwap", [VPtr true "key"; VPtr true "e";
                            VRec "TraitEntry" [("K", VPtr true "K"); ("V", VPtr true "V"); ("E", VZ ts); ("C", VZ c)]])].
Proof. intros; reflexivity. Qed.

(* ---- Load / Store: Read and Write under the background context (no TTL, no SkipRead) ---- *)
Definition ls_prims (read_ok : bool) : prims := fun f args s =>
  match f, args with
  | "c.Read", [VPtr true "bgCtx"; VPtr true "key argument"] =>
      Some (VTup [VStr "value read"; VPtr (negb read_ok) "read error"], emit "Read(bgCtx, key)" [] s)
  | "c.Write", [VPtr true "bgCtx"; VPtr true "key argument"; v] => Some (VNil, emit "Write(bgCtx, key, val)" [v] s)
  | "$zero", [VStr "V"] => Some (VZ 0, s)
  | "$zero", [VStr _] => Some (VNil, s)
  | _, _ => None
  end.

Definition run_load (f : gfunc) (read_ok : bool) : option (list effect * list value) :=
  run (ls_prims read_ok) no_fcmp no_loop (fun vs s => Some (eff s, vs)) (fun _ => None) f
      [VPtr true "c"; VPtr true "key argument"] [("bgCtx", VPtr true "bgCtx")] (fun _ => None).

Theorem tie_load : forall read_ok,
  run_load fn_shardedMap_Load read_ok =
    Some ([("Read(bgCtx, key)", [])], if read_ok then [VStr "value read"; VB true] else [VNil; VB false]) /\
  run_load fn_shardedMapOf_Load read_ok =
    Some ([("Read(bgCtx, key)", [])], if read_ok then [VStr "value read"; VB true] else [VZ 0; VB false]).
Proof. intros [|]; split; reflexivity. Qed.

Definition run_store (f : gfunc) : option (list effect) :=
  run (ls_prims true) no_fcmp no_loop (fun _ s => Some (eff s)) (fun _ => None) f
      [VPtr true "c"; VPtr true "key argument"; VStr "value"]
      [("bgCtx", VPtr true "bgCtx"); ("c.t.Log.logError", VPtr true "log")] (fun s => Some (eff s)).

Theorem tie_store :
  run_store fn_shardedMap_Store = Some [("Write(bgCtx, key, val)", [VStr "value"])] /\
  run_store fn_shardedMapOf_Store = Some [("Write(bgCtx, key, val)", [VStr "value"])].
Proof. split; reflexivity. Qed.
