(* TieCleanup.v — the source of Trait.invokeCleanup, Trait.countOverflow and of the three deleteExpired loops, as
   translated on this run, decides what Backend.b_delete_expired / Cleanup.v assume: when the delete-expired
   scan runs, with which boundary, which entries it removes, when eviction runs and with which fraction. *)
From Coq Require Import String.
From Cache Require Import Base Backend GoIR.
From Cache.Generated Require Import Funcs.
Open Scope string_scope.
Open Scope Z_scope.

Record cl_in := mkClIn {
  ci_now : Z; ci_expset : Z;
  ci_has_delete : bool; ci_has_evict : bool; ci_has_needed : bool; ci_has_stat : bool;
  ci_ho : bool; ci_so : bool; ci_cnt : Z; ci_co : bool; ci_needed : bool;
  ci_limit : Z; ci_frac_zero : bool; ci_evicted : Z;
}.

Definition cl_prims (i : cl_in) : prims := fun f args s =>
  match f, args with
  | "atomic.LoadInt64", [VRef "c.expirationsSet"] => Some (VZ (ci_expset i), s)
  | "time.Now().Add", [VZ d] => Some (VZ (ci_now i + d), s)
  | "time.Now", [] => Some (VZ (ci_now i), s)
  | "c.DeleteExpired", [VZ b] => Some (VNil, emit "deleteExpired" [VZ b] s)
  | "c.heapInUseOverflow", [] => Some (VB (ci_ho i), s)
  | "c.sysOverflow", [] => Some (VB (ci_so i), s)
  | "c.countOverflow", [] => Some (VTup [VZ (ci_cnt i); VB (ci_co i)], s)
  | "c.Config.EvictionNeeded", [] => Some (VB (ci_needed i), emit "EvictionNeeded" [] s)
  | "float64", [VZ z] => Some (VF (FOfZ z), s)
  | "c.Evict", [VF fr] => Some (VZ (ci_evicted i), emit "evict" [VF fr] s)
  | "debug.FreeOSMemory", [] => Some (VNil, s)
  | "context.Background", [] => Some (VPtr true "ctx", s)
  | "time.Since(start).Seconds", [] => Some (VF (FSym "elapsed"), s)
  | "c.Stat.Add", [_; VStr m; v; VStr "name"; _] => Some (VNil, emit "stat" [VStr m; v] s)
  | _, _ => None
  end.

Definition cl_fcmp (i : cl_in) (op : string) (a b : fterm) : bool :=
  match op, a, b with
  | "==", FSym "EvictFraction", FConst 0 1 => ci_frac_zero i
  | _, _, _ => false
  end.

Definition cl_leaves (c : bcfg) (i : cl_in) : list (string * value) :=
  [("c.DeleteExpired", VPtr (ci_has_delete i) "DeleteExpired"); ("c.Evict", VPtr (ci_has_evict i) "Evict");
   ("c.Config.TimeToLive", VZ (eff_ttl c)); ("c.Config.DeleteExpiredAfter", VZ (eff_del_after c));
   ("c.Config.EvictionNeeded", VPtr (ci_has_needed i) "EvictionNeeded");
   ("c.Config.EvictFraction", VF (FSym "EvictFraction")); ("c.Config.CountSoftLimit", VZ (ci_limit i));
   ("c.Stat", VPtr (ci_has_stat i) "Stat"); ("c.Config.Name", VStr "name")].

(* observation of one cycle: the boundaries deleteExpired was called with, the fractions Evict was called with,
   the cache_evict metric increments *)
Definition cl_view (s : st) : list (list value) * list (list value) * list (list value) :=
  (effects_named "deleteExpired" (eff s), effects_named "evict" (eff s),
   List.filter (fun a => match a with VStr "cache_evict" :: _ => true | _ => false end) (effects_named "stat" (eff s))).

Definition run_cleanup (c : bcfg) (i : cl_in) :=
  run (cl_prims i) (cl_fcmp i) no_loop (fun _ s => Some (cl_view s)) (fun _ => None) fn_Trait_invokeCleanup
      [VPtr true "c"] (cl_leaves c i) (fun s => Some (cl_view s)).

(* the decision, as the model has it *)
Definition scan_runs (c : bcfg) (i : cl_in) : bool :=
  ci_has_delete i && (negb (eff_ttl c =? unlimited) || (0 <? ci_expset i)).

Definition evicts (i : cl_in) : bool :=
  ci_has_evict i && (ci_ho i || ci_so i || ci_co i || (ci_has_needed i && ci_needed i)).

(* EvictFraction (0 -> 0.1), rescaled on a count breach to 1 - CountSoftLimit*(1-frac)/count *)
Definition evict_fraction (i : cl_in) : fterm :=
  let f0 := if ci_frac_zero i then FConst 3602879701896397 36028797018963968 (* 0.1 as a float64 *) else FSym "EvictFraction" in
  if ci_co i
  then FBin "-" (FConst 1 1) (FBin "/" (FBin "*" (FOfZ (ci_limit i)) (FBin "-" (FConst 1 1) f0)) (FOfZ (ci_cnt i)))
  else f0.

Theorem tie_invoke_cleanup : forall c i,
  run_cleanup c i =
  Some (if scan_runs c i then [[VZ (ci_now i - eff_del_after c)]] else [],
        if evicts i then [[VF (evict_fraction i)]] else [],
        if evicts i && ci_has_stat i then [[VStr "cache_evict"; VF (FOfZ (ci_evicted i))]] else []).
Proof.
  intros [ttl j strat da cl] [now es hd he hn hs ho so cnt co needed limit fz ev].
  unfold run_cleanup, scan_runs, evicts, evict_fraction, eff_ttl, eff_del_after, unlimited.
  cbn [c_ttl c_del_after ci_now ci_expset ci_has_delete ci_has_evict ci_has_needed ci_has_stat ci_ho ci_so ci_cnt ci_co
       ci_needed ci_limit ci_frac_zero ci_evicted].
  destruct hd, he, hn, hs, ho, so, co, needed, fz;
    cbv -[Z.eqb Z.ltb Z.leb Z.add Z.sub Z.mul Z.opp];
    repeat match goal with
           | |- context [if (if ?c then _ else _) then _ else _] => let H := fresh "Hb" in destruct c eqn:H
           | |- context [if ?b then _ else _] => let H := fresh "Hb" in destruct b eqn:H
           end; try reflexivity; try (exfalso; lia);
    try (repeat f_equal; lia).
Qed.

(* the scan gate and boundary are b_delete_expired's *)
Theorem b_delete_expired_gate : forall c s now,
  b_delete_expired c s now =
  if negb (eff_ttl c =? unlimited) || (0 <? expset s)
  then mkB (filter (fun he => long_expired (now - eff_del_after c) he.2 = false) (data s)) (expset s)
  else s.
Proof. reflexivity. Qed.

(* ---- the per-entry decision of the three deleteExpired loops ---- *)

Definition de_prims : prims := fun f args s =>
  match f, args with
  | "delete", [_; _] => Some (VNil, emit "delete" [] s)
  | "c.deleteEntry", [_; _] => Some (VNil, emit "delete" [] s)
  | "atomic.LoadInt64", [VRef p] => match lookup p (env s) with Some v => Some (v, s) | None => None end
  | "$assert:*TraitEntry", [v] => Some (v, s)
  | _, _ => None
  end.

Definition no_fcmp (op : string) (a b : fterm) : bool := false.

Definition deletes (s : st) : bool := negb (Nat.eqb (length (effects_named "delete" (eff s))) 0).

(* body of the innermost range loop of a sharded deleteExpired, run on one entry *)
Definition run_sharded_body (f : gfunc) (boundary : Z) (e : entry) : option bool :=
  match first_range 10 (gf_body f) with
  | Some (_, _, body) =>
      exec_list de_prims no_fcmp no_loop (fun _ s => Some (deletes s)) (fun _ => None) 40 body
                (mkSt [("beforeTS", VZ boundary); ("v.E", VZ (eE e)); ("h", VZ 0); ("b.data", VPtr true "data")] [] [] [])
                (fun s => Some (deletes s))
  | None => None
  end.

Theorem tie_delete_expired_sharded : forall boundary e,
  run_sharded_body fn_shardedMap_deleteExpired boundary e = Some (long_expired boundary e).
Proof.
  intros boundary [k v E C]. unfold run_sharded_body, long_expired.
  cbv -[Z.eqb Z.ltb Z.leb Z.add Z.sub Z.mul Z.opp].
  destruct (E =? 0); [reflexivity|]. destruct (E <? boundary); reflexivity.
Qed.

Theorem tie_delete_expired_sharded_of : forall boundary e,
  run_sharded_body fn_shardedMapOf_deleteExpired boundary e = Some (long_expired boundary e).
Proof.
  intros boundary [k v E C]. unfold run_sharded_body, long_expired.
  cbv -[Z.eqb Z.ltb Z.leb Z.add Z.sub Z.mul Z.opp].
  destruct (E =? 0); [reflexivity|]. destruct (E <? boundary); reflexivity.
Qed.

(* the callback SyncMap.deleteExpired hands to sync.Map.Range *)
Definition range_callback (l : list gstmt) : option (list gstmt) :=
  match l with
  | [_; GExprS (GCall "c.data.Range" [GFunc body])] => Some body
  | _ => None
  end.

Definition run_sync_body (boundary : Z) (e : entry) : option (bool * bool) :=
  match range_callback (gf_body fn_syncMap_deleteExpired) with
  | Some body =>
      exec_list de_prims no_fcmp no_loop
                (fun vs s => match vs with [VB continue] => Some (deletes s, continue) | _ => None end) (fun _ => None) 40 body
                (mkSt [("beforeTS", VZ boundary); ("value", VPtr true "entry"); ("key", VPtr true "key"); ("cacheEntry.E", VZ (eE e))] [] [] [])
                (fun _ => None)
  | None => None
  end.

(* it removes the entry iff it is long expired, and always asks Range to continue *)
Theorem tie_delete_expired_sync : forall boundary e,
  run_sync_body boundary e = Some (long_expired boundary e, true).
Proof.
  intros boundary [k v E C]. unfold run_sync_body, long_expired.
  cbv -[Z.eqb Z.ltb Z.leb Z.add Z.sub Z.mul Z.opp].
  destruct (E =? 0); [reflexivity|]. destruct (E <? boundary); reflexivity.
Qed.

(* Trait.countOverflow: no limit or no Len -> (0, false); else (Len(), Len() > CountSoftLimit) *)
Definition co_prims (len : Z) : prims := fun f args s =>
  match f, args with
  | "c.Len", [] => Some (VZ len, s)
  | "int", [v] => Some (v, s)
  | _, _ => None
  end.

Definition run_count_overflow (limit len : Z) (has_len : bool) : option (Z * bool) :=
  run (co_prims len) no_fcmp no_loop (fun vs _ => match vs with [VZ n; VB b] => Some (n, b) | _ => None end) (fun _ => None)
      fn_Trait_countOverflow [VPtr true "c"]
      [("c.Config.CountSoftLimit", VZ limit); ("c.Len", VPtr has_len "Len")] (fun _ => None).

Theorem tie_count_overflow : forall limit len has_len,
  run_count_overflow limit len has_len =
  Some (if (limit =? 0) || negb has_len then (0, false) else (len, limit <? len)).
Proof.
  intros limit len [|]; unfold run_count_overflow; cbv -[Z.eqb Z.ltb Z.leb Z.add Z.sub Z.mul Z.opp];
    destruct (limit =? 0); reflexivity.
Qed.

(* Trait.heapInUseOverflow / sysOverflow: no limit -> false; else the figure runtime.ReadMemStats reports (read after
   the call) exceeds the limit *)
Definition mem_prims (heap sys : Z) : prims := fun f args s =>
  match f, args with
  | "runtime.ReadMemStats", [VRef m] =>
      Some (VNil, emit "ReadMemStats" [] (bind (m ++ ".HeapInuse") (VZ heap) (bind (m ++ ".Sys") (VZ sys) s)))
  | _, _ => None
  end.

Definition mem_var (f : gfunc) : string :=
  match gf_body f with
  | _ :: GAssign [GId m] _ :: _ => m
  | _ => "?"
  end.

Definition run_mem_overflow (f : gfunc) (limit_leaf : string) (limit heap sys : Z) : option (bool * nat) :=
  run (mem_prims heap sys) no_fcmp no_loop
      (fun vs s => match vs with [VB b] => Some (b, length (eff s)) | _ => None end) (fun _ => None) f [VPtr true "c"]
      [(limit_leaf, VZ limit); (mem_var f ++ ".HeapInuse", VStr "not read yet"); (mem_var f ++ ".Sys", VStr "not read yet")]
      (fun _ => None).

Theorem tie_mem_overflow : forall limit heap sys,
  run_mem_overflow fn_Trait_heapInUseOverflow "c.Config.HeapInUseSoftLimit" limit heap sys =
    Some (if limit =? 0 then (false, 0%nat) else (limit <? heap, 1%nat)) /\
  run_mem_overflow fn_Trait_sysOverflow "c.Config.SysMemSoftLimit" limit heap sys =
    Some (if limit =? 0 then (false, 0%nat) else (limit <? sys, 1%nat)).
Proof.
  intros limit heap sys; split; unfold run_mem_overflow; cbv -[Z.eqb Z.ltb Z.leb Z.add Z.sub Z.mul Z.opp];
    destruct (limit =? 0); reflexivity.
Qed.

(* ---- Trait.janitor and Trait.reportItemsCount: one turn of the `for { select { ... } }` loop.  The runtime's choice
   between the timer and the Closed channel is the oracle "$select"; everything else is the source's. ---- *)
Definition while_body (f : gfunc) : list gstmt :=
  match gf_body f with [GWhile _ b] => b | _ => [] end.

Definition jan_prims (choice len : Z) : prims := fun f args s =>
  match f, args with
  | "time.After", [VZ d] => Some (VPtr true "timer", emit "After" [VZ d] s)
  | "$select", [VPtr true "timer"; VPtr true "closed"] => Some (VZ choice, s)
  | "c.invokeCleanup", [] => Some (VNil, emit "invokeCleanup" [] s)
  | "context.Background", [] => Some (VPtr true "bg", s)
  | "c.Log.logDebug", _ :: VStr m :: _ => Some (VNil, emit "log" [VStr m] s)
  | "c.Len", [] => Some (VZ len, s)
  | "float64", [VZ z] => Some (VF (FOfZ z), s)
  | "c.Stat.Set", [_; VStr m; v; VStr "name"; _] => Some (VNil, emit "stat" [VStr m; v] s)
  | _, _ => None
  end.

(* (did the goroutine return?, what it did) *)
Definition run_turn (f : gfunc) (interval_leaf : string) (interval : Z) (debug stat : bool) (choice len : Z)
  : option (bool * list effect) :=
  exec_list (jan_prims choice len) no_fcmp no_loop (fun _ s => Some (true, eff s)) (fun _ => None) 40 (while_body f)
    (mkSt [(interval_leaf, VZ interval); ("c.Closed", VPtr true "closed"); ("c.Log.logDebug", VPtr debug "logDebug");
           ("c.Stat", VPtr stat "Stat"); ("c.Config.Name", VStr "name")] [] [] [])
    (fun s => Some (false, eff s)).

(* the janitor: waits DeleteExpiredJobInterval (re-read on every turn), then runs exactly one cleanup cycle and goes
   round again; on Closed it [logs and] returns without another cycle *)
Theorem tie_janitor : forall interval debug stat len,
  run_turn fn_Trait_janitor "c.Config.DeleteExpiredJobInterval" interval debug stat 0 len =
    Some (false, [("After", [VZ interval]); ("invokeCleanup", [])]) /\
  run_turn fn_Trait_janitor "c.Config.DeleteExpiredJobInterval" interval debug stat 1 len =
    Some (true, ("After", [VZ interval]) :: (if debug then [("log", [VStr "closing cache janitor"])] else [])).
Proof. intros interval [|] [|] len; split; reflexivity. Qed.

(* the items counter: every ItemsCountReportInterval it publishes Len() as the gauge cache_items (and never touches
   an entry); on Closed it publishes once more and returns *)
Theorem tie_report_items_count : forall interval debug stat len,
  run_turn fn_Trait_reportItemsCount "c.Config.ItemsCountReportInterval" interval debug stat 0 len =
    Some (false, ("After", [VZ interval]) :: (if debug then [("log", [VStr "cache items count"])] else [])
                 ++ (if stat then [("stat", [VStr "cache_items"; VF (FOfZ len)])] else [])) /\
  run_turn fn_Trait_reportItemsCount "c.Config.ItemsCountReportInterval" interval debug stat 1 len =
    Some (true, ("After", [VZ interval]) :: (if debug then [("log", [VStr "closing cache items counter goroutine"])] else [])
                ++ (if stat then [("stat", [VStr "cache_items"; VF (FOfZ len)])] else [])).
Proof. intros interval [|] [|] len; split; reflexivity. Qed.
