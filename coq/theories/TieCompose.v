(* TieCompose.v — the source ties composed with the model theorems: statements about what the SOURCE computes. *)
From Coq Require Import String.
From Cache Require Import Base Backend Spec Jitter JitterProofs GoIR TieTTL.
Open Scope Z_scope.

(* Write's expiry instant, as the translated Trait.TTL followed by the translated Trait.expireAt compute it, is the
   model's write_expiry with the jitter term Duration(float64(T) * ExpirationJitter * (rand.Float64() - 0.5)) *)
Theorem source_write_expiry : forall ftrunc c ctx now ttl inc r,
  run_trait_ttl ftrunc c ctx = Some (ttl, inc) ->
  run_expire_at ttl now = Some r ->
  r.2 = write_expiry c ctx now (jitter_formula ftrunc (effective_ttl c ctx)).
Proof.
  intros ftrunc c ctx now ttl inc r H1 H2.
  rewrite tie_trait_ttl in H1. rewrite tie_expire_at in H2.
  injection H2 as <-. injection H1 as H1. unfold write_expiry, effective_ttl. cbn [snd].
  change (trait_ttl c ctx (jitter_formula ftrunc (if ctx =? 0 then eff_ttl c else ctx))) with
    (trait_ttl c ctx (jitter_formula ftrunc (if ctx =? 0 then eff_ttl c else ctx))) in H1.
  replace ttl with ((ttl, inc).1) by reflexivity. rewrite <- H1. reflexivity.
Qed.

(* hence the documented bounds hold of the instant the source computes, whenever the float-to-integer conversion keeps
   the jitter term within |T|*J/2 (+ slack) — the one assumption about IEEE arithmetic that remains *)
Theorem source_expiry_within_bounds : forall ftrunc c ctx now ttl inc r Jn Jd,
  0 < Jd -> 0 < Jn <= Jd ->
  run_trait_ttl ftrunc c ctx = Some (ttl, inc) ->
  run_expire_at ttl now = Some r ->
  let T := effective_ttl c ctx in
  ~ (ctx = 0 /\ eff_ttl c = unlimited) -> c_jitter c = true -> T <> 0 ->
  jit_ok Jn Jd T (jitter_formula ftrunc T) ->
  r.2 <> now /\ 2 * Jd * Z.abs (r.2 - (now + T)) <= Z.abs T * Jn + 2 * Jd * slack T.
Proof.
  intros ftrunc c ctx now ttl inc r Jn Jd Hd Hn H1 H2 T Hnot Hj HT Hok.
  rewrite (source_write_expiry _ _ _ _ _ _ _ H1 H2).
  destruct (expiry_bounds c ctx now (jitter_formula ftrunc T) Jn Jd Hd Hn) as [_ Hb].
  destruct (Hb Hnot) as [_ Hjit]. destruct (Hjit Hj HT Hok) as (Hne & _ & Hbound).
  split; assumption.
Qed.
