(* TieCtx.v — the source of the three SkipRead functions of context.go (WithSkipRead, withoutSkipRead, SkipRead), as
   translated on this run, against a chain of context values of ANY shape: the flag a reader sees is the innermost
   binding of skipReadCtxKey{}, whatever other keys (ttlCtxKey{}, the caller's own) are layered around it, and a
   detachment forwards it (detachedContext.Value, tie_detached_context).  This is what connects the boolean
   `skip` of the backends' Read tie (TieBackend.tie_read_lookup) and the `withoutSkipRead(ctx)` of the waiters'
   path in Failover.Get to the caller's context. *)
From Coq Require Import String.
From Cache Require Import Base GoIR.
From Cache.Generated Require Import Funcs.
Open Scope string_scope.
Open Scope list_scope.

(* a context in the interpreter: the bindings (key type, value) innermost first *)
Definition bindings := list (string * value).
Definition enc_ctx (bs : bindings) : value := VRec "context" bs.

(* context.Context.Value: the innermost binding of the key's type (the keys of this package are distinct empty
   struct types, so equality of keys is equality of their types), nil when there is none *)
Fixpoint blookup (k : string) (bs : bindings) : option value :=
  match bs with
  | [] => None
  | (k', v) :: r => if String.eqb k k' then Some v else blookup k r
  end.
Definition ctx_lookup (k : string) (bs : bindings) : value :=
  match blookup k bs with Some v => v | None => VNil end.

(* [found] is what ctx.Value(skipReadCtxKey{}) answers *)
Definition skip_prims (found : value) : prims := fun f args s =>
  match f, args with
  | "ctx.Value", [VRec "skipReadCtxKey" []] => Some (found, s)
  | "$assert:bool", [VB b] => Some (VTup [VB b; VB true], s)
  | "$assert:bool", [_] => Some (VTup [VB false; VB false], s)     (* v, ok := x.(bool) on a non-bool: (false, false) *)
  | "context.WithValue", [VRec "context" bs; VRec k []; v] => Some (VRec "context" ((k, v) :: bs), s)
  | _, _ => None
  end.

Definition no_fcmp (op : string) (a b : fterm) : bool := false.

Definition run_ctx_fn (f : gfunc) (bs : bindings) : option value :=
  run (skip_prims (ctx_lookup "skipReadCtxKey" bs)) no_fcmp no_loop
      (fun vs _ => match vs with [v] => Some v | _ => None end) (fun _ => None) f
      [enc_ctx bs] [] (fun _ => None).

(* what SkipRead must answer on a context *)
Definition flag_of (found : value) : bool := match found with VB true => true | _ => false end.
Definition skip_flag (bs : bindings) : bool := flag_of (ctx_lookup "skipReadCtxKey" bs).

Theorem tie_skip_read : forall bs, run_ctx_fn fn_SkipRead bs = Some (VB (skip_flag bs)).
Proof.
  intros bs. unfold run_ctx_fn, skip_flag. generalize (ctx_lookup "skipReadCtxKey" bs) as found.
  intros [z|[|]| |s0|f|nn nm|p|ty fs|l|w]; reflexivity.
Qed.

Theorem tie_with_skip_read : forall bs,
  run_ctx_fn fn_WithSkipRead bs = Some (enc_ctx (("skipReadCtxKey", VB true) :: bs)) /\
  run_ctx_fn fn_withoutSkipRead bs = Some (enc_ctx (("skipReadCtxKey", VB false) :: bs)).
Proof. intros bs; split; reflexivity. Qed.

(* the round trips, whatever the context was before and whatever unrelated layers are added afterwards *)
Definition other_keys (bs : bindings) : bool := forallb (fun kv => negb (String.eqb (fst kv) "skipReadCtxKey")) bs.

Lemma skip_flag_app : forall outer bs, other_keys outer = true -> skip_flag (outer ++ bs) = skip_flag bs.
Proof.
  induction outer as [|[k v] outer IH]; intros bs H; [reflexivity|].
  cbn [other_keys forallb fst] in H. apply andb_true_iff in H as [Hk Ho].
  unfold skip_flag, ctx_lookup in *. cbn [app blookup].
  destruct (String.eqb k "skipReadCtxKey") eqn:E; [discriminate|].
  assert (String.eqb "skipReadCtxKey" k = false) as -> by (rewrite String.eqb_sym; exact E).
  apply IH, Ho.
Qed.

Theorem skip_read_round_trip : forall outer bs, other_keys outer = true ->
  skip_flag (outer ++ ("skipReadCtxKey", VB true) :: bs) = true /\
  skip_flag (outer ++ ("skipReadCtxKey", VB false) :: bs) = false /\
  skip_flag outer = false.
Proof.
  intros outer bs H. rewrite !skip_flag_app by exact H. repeat split.
  rewrite <- (app_nil_r outer), skip_flag_app by exact H. reflexivity.
Qed.
