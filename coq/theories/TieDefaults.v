(* TieDefaults.v — the defaulting the models assume, as the constructors translated from /repo on this run do it:
   Trait.init: DeleteExpiredAfter 0 -> 24h, ExpirationJitter 0 -> 0.1, TimeToLive 0 -> 5m  (Backend.eff_del_after, eff_ttl,
   and c_jitter = "ExpirationJitter > 0 after defaulting");
   NewFailover / NewFailoverOf: UpdateTTL 0 -> 1m, FailedUpdateTTL 0 -> 20s, and the failure cache exists iff
   FailedUpdateTTL > -1, with TimeToLive = FailedUpdateTTL (Failover.v: f_update_ttl, f_failed_ttl, errs). *)
From Coq Require Import String.
From Cache Require Import Base Backend GoIR.
From Cache.Generated Require Import Funcs.
Open Scope string_scope.
Open Scope Z_scope.

Definition df_prims : prims := fun f args s =>
  match f, args with
  | "make", [VStr _] => Some (VPtr true "made", s)
  | "c.Log.setup", [_] => Some (VNil, s)
  | "f.logTrait.setup", [_] => Some (VNil, s)
  | "NewShardedMap", [c] => Some (VRec "NewShardedMap" [("config", c)], s)
  | "NewShardedMapOf[error]", [c] => Some (VRec "NewShardedMap" [("config", c)], s)
  | "NewShardedMapOf[V]", [c] => Some (VRec "NewShardedMap" [("config", c)], s)
  | _, _ => None
  end.

Definition df_loop (k v : string) (c : value) (body : list gstmt) (s : st) : option st :=
  match body with
  | [GExprS (GCall _ [_])] => Some s      (* applying the caller's option functions *)
  | _ => None
  end.

Definition jit_zero_fcmp (jz : bool) (op : string) (a b : fterm) : bool :=
  match op, a, b with "==", FSym "ExpirationJitter", FConst 0 1 => jz | _, _, _ => false end.

Definition run_init (ttl da : Z) (jz : bool) : option (option value * option value * option value) :=
  run df_prims (jit_zero_fcmp jz) df_loop (fun _ _ => None) (fun _ => None) fn_Trait_init
      [VPtr true "c"; VPtr true "config"; VPtr true "options"]
      [("config.DeleteExpiredAfter", VZ da); ("config.DeleteExpiredJobInterval", VZ 1); ("config.ItemsCountReportInterval", VZ 1);
       ("config.ExpirationJitter", VF (FSym "ExpirationJitter")); ("config.TimeToLive", VZ ttl);
       ("config.Stats", VNil); ("config.Logger", VNil); ("c.Len", VNil); ("c.DeleteExpired", VNil); ("c.Evict", VNil)]
      (fun s => Some (lookup "config.TimeToLive" (env s), lookup "config.DeleteExpiredAfter" (env s), lookup "config.ExpirationJitter" (env s))).

Theorem tie_trait_defaults : forall ttl da jz jit dis,
  run_init ttl da jz =
  Some (Some (VZ (eff_ttl (mkBcfg ttl jit dis da 0))), Some (VZ (eff_del_after (mkBcfg ttl jit dis da 0))),
        Some (VF (if jz then FConst 3602879701896397 36028797018963968 (* 0.1 *) else FSym "ExpirationJitter"))).
Proof.
  intros ttl da [|] jit dis; unfold run_init, eff_ttl, eff_del_after; cbn [c_ttl c_del_after];
    cbv -[Z.eqb Z.ltb Z.leb Z.add Z.sub Z.mul Z.opp];
    destruct (da =? 0); destruct (ttl =? 0); reflexivity.
Qed.

(* NewFailover / NewFailoverOf *)
Definition run_new_failover (f : gfunc) (uttl fttl : Z) (has_backend : bool) :=
  run df_prims (fun _ _ _ => false) df_loop
      (fun _ s => Some (lookup "cfg.UpdateTTL" (env s), lookup "cfg.FailedUpdateTTL" (env s), lookup "f.Errors" (env s))) (fun _ => None) f
      [VPtr true "options"]
      [("cfg.UpdateTTL", VZ uttl); ("cfg.FailedUpdateTTL", VZ fttl); ("cfg.Logger", VNil); ("cfg.Stats", VNil);
       ("cfg.Backend", VPtr has_backend "backend"); ("cfg.Name", VStr "name"); ("cfg.BackendConfig.Use", VPtr true "use")]
      (fun _ => None).

Definition errors_cache (fttl : Z) : value :=
  VRec "NewShardedMap"
    [("config", VRec "selection"
        [("of", VRec "Config" [("Name", VStr "err_name"); ("Logger", VNil); ("Stats", VNil); ("TimeToLive", VZ fttl);
                               ("DeleteExpiredAfter", VZ 60000000000); ("DeleteExpiredJobInterval", VZ 60000000000)]);
         ("field", VStr "Use")])].

Definition eff_update (uttl : Z) : Z := if uttl =? 0 then 60 * sec else uttl.
Definition eff_failed (fttl : Z) : Z := if fttl =? 0 then 20 * sec else fttl.

Ltac close_cmp :=
  repeat match goal with
         | |- context [Z.ltb ?a ?b] =>
             let r := eval vm_compute in (Z.ltb a b) in
             match r with true => idtac | false => idtac end; change (Z.ltb a b) with r
         | |- context [Z.eqb ?a ?b] =>
             let r := eval vm_compute in (Z.eqb a b) in
             match r with true => idtac | false => idtac end; change (Z.eqb a b) with r
         end.

Theorem tie_failover_defaults : forall uttl fttl has_backend,
  run_new_failover fn_NewFailover uttl fttl has_backend =
    Some (Some (VZ (eff_update uttl)), Some (VZ (eff_failed fttl)),
          if -1 <? eff_failed fttl then Some (errors_cache (eff_failed fttl)) else None) /\
  run_new_failover fn_NewFailoverOf uttl fttl has_backend =
    Some (Some (VZ (eff_update uttl)), Some (VZ (eff_failed fttl)),
          if -1 <? eff_failed fttl then Some (errors_cache (eff_failed fttl)) else None).
Proof.
  intros uttl fttl hb.
  assert (60 * sec = 60000000000) as E60 by reflexivity. assert (20 * sec = 20000000000) as E20 by reflexivity.
  unfold eff_update, eff_failed. rewrite E60, E20.
  destruct hb; split; unfold run_new_failover, errors_cache;
    cbv -[Z.eqb Z.ltb Z.leb Z.add Z.sub Z.mul Z.opp];
    destruct (uttl =? 0); destruct (fttl =? 0) eqn:E; close_cmp; cbv iota; try reflexivity;
    destruct (-1 <? fttl); reflexivity.
Qed.

(* ---- Trait.init, the background goroutines: the janitor runs iff the backend installed DeleteExpired or Evict (the
   options are applied first), the items counter iff there is a stats tracker and a Len; the job interval
   defaults to one hour, the report interval to one minute (TieCleanup.tie_janitor / tie_report_items_count say what
   one turn of each does) ---- *)
Definition run_init_gos (stats len de ev : bool) (ji ri : Z) : option (list value * option value * option value) :=
  run df_prims (jit_zero_fcmp false) df_loop (fun _ _ => None) (fun _ => None) fn_Trait_init
      [VPtr true "c"; VPtr true "config"; VPtr true "options"]
      [("config.DeleteExpiredAfter", VZ 1); ("config.DeleteExpiredJobInterval", VZ ji); ("config.ItemsCountReportInterval", VZ ri);
       ("config.ExpirationJitter", VF (FSym "ExpirationJitter")); ("config.TimeToLive", VZ 1);
       ("config.Stats", VPtr stats "stats"); ("config.Logger", VNil); ("c.Len", VPtr len "Len");
       ("c.DeleteExpired", VPtr de "DeleteExpired"); ("c.Evict", VPtr ev "Evict")]
      (fun s => Some (concat (effects_named "go" (eff s)),
                      lookup "config.DeleteExpiredJobInterval" (env s), lookup "config.ItemsCountReportInterval" (env s))).

Theorem tie_trait_goroutines : forall stats len de ev ji ri,
  run_init_gos stats len de ev ji ri =
  Some ((if stats && len then [VStr "c.reportItemsCount"] else []) ++ (if de || ev then [VStr "c.janitor"] else []),
        Some (VZ (if ji =? 0 then 3600 * sec else ji)), Some (VZ (if ri =? 0 then 60 * sec else ri)))%list.
Proof.
  intros [|] [|] [|] [|] ji ri; unfold run_init_gos;
    assert (3600 * sec = 3600000000000) as -> by reflexivity; assert (60 * sec = 60000000000) as -> by reflexivity;
    cbv -[Z.eqb Z.ltb Z.leb Z.add Z.sub Z.mul Z.opp]; destruct (ji =? 0); destruct (ri =? 0); reflexivity.
Qed.

(* NewTrait / NewTraitOf: a fresh trait initialised by init with the caller's configuration and options *)
Definition run_new_trait (f : gfunc) : option (list value * list effect) :=
  run (fun f args s => match f, args with
                       | "t.init", [c; o] => Some (VNil, emit "init" [c; o] s)
                       | "t.Trait.init", [c; o] => Some (VNil, emit "init" [c; o] s)
                       | _, _ => None end)
      (fun _ _ _ => false) no_loop (fun vs s => Some (vs, eff s)) (fun _ => None) f
      [VPtr true "config"; VPtr true "options"] [] (fun _ => None).

Theorem tie_new_trait :
  run_new_trait fn_NewTrait = Some ([VRec "Trait" []], [("init", [VPtr true "config"; VPtr true "options"])]) /\
  run_new_trait fn_NewTraitOf = Some ([VRec "TraitOf[V]" []], [("init", [VPtr true "config"; VPtr true "options"])]).
Proof. split; reflexivity. Qed.
