(* TieEvict.v — evictLeast of the three backends, as translated from /repo on this run, is Cleanup.v's algorithm:
   collect (hash or key, metric) of every entry, the metric being E for evictMostExpired and C for evictLeastCounter;
   sort ASCENDING by metric (sort.Slice with less = entries[i].val < entries[j].val); delete the first
   int(float64(len(entries)) * evictFraction) of them, one locked section per victim (sharded) or one Delete per
   victim (SyncMap); return that number. *)
From Coq Require Import String.
From Cache Require Import Base GoIR.
From Cache.Generated Require Import Funcs.
Open Scope string_scope.
Open Scope Z_scope.

Definition no_fcmp (op : string) (a b : fterm) : bool := false.

(* the parts of the sharded evictLeast *)
Record ev_parts := mkEvParts {
  ep_var : string;               (* the loop variable holding the entry in the collection pass *)
  ep_collect : list gstmt;       (* body of the loop over b.data in the collection pass *)
  ep_less : list gstmt;          (* body of the less function given to sort.Slice *)
  ep_count : gstmt;              (* evictItems := ... *)
  ep_del_init : gstmt; ep_del_cond : gexpr; ep_del_post : gstmt; ep_del_body : list gstmt;
}.

Definition sharded_parts (f : gfunc) : option ev_parts :=
  match gf_body f with
  | [_; GRange _ _ (GLeaf "c.hashedBuckets") _; _;
     GRange _ _ (GLeaf "c.hashedBuckets") [_; GExprS (GCall "b.RLock" []); GRange "h" v (GLeaf "b.data") collect; GExprS (GCall "b.RUnlock" [])];
     GExprS (GCall "sort.Slice" [GId "entries"; GFunc less]);
     count; GFor i c p body; GReturn [GId "evictItems"]] => Some (mkEvParts v collect less count i c p body)
  | _ => None
  end.

Definition sync_parts (f : gfunc) : option ev_parts :=
  match gf_body f with
  | [_; _; _; GExprS (GCall "c.data.Range" [GFunc collect]);
     GExprS (GCall "sort.Slice" [GId "entries"; GFunc less]);
     count; GFor i c p body; GReturn [GId "evictItems"]] => Some (mkEvParts "i" collect less count i c p body)
  | _ => None
  end.

Section Parts.
  Context (ftrunc : fterm -> Z).

  Definition ev_prims (a b n : Z) : prims := fun f args s =>
    match f, args with
    | "val", [v] => Some (VRec "metric of" [("entry", v)], s)
    | "append", [VPtr true "entries"; e] => Some (VPtr true "entries", emit "collect" [e] s)
    | "len", [VPtr true "entries"] => Some (VZ n, s)
    | "float64", [VZ z] => Some (VF (FOfZ z), s)
    | "int", [VF x] => Some (VZ (ftrunc x), s)
    | "b.Lock", [] => Some (VNil, emit "Lock" [] s)
    | "b.Unlock", [] => Some (VNil, emit "Unlock" [] s)
    | "delete", [VPtr true "b.data"; h] => Some (VNil, emit "delete by hash" [h] s)
    | "c.data.Delete", [k] => Some (VNil, emit "delete by key" [k] s)
    | "string", [v] => Some (VRec "string" [("of", v)], s)
    | "$assert:*TraitEntry", [v] => Some (v, s)
    | _, _ => None
    end.

  Definition ev_env (a b : Z) : list (string * value) :=
    [("entries", VPtr true "entries"); ("entries[i].val", VZ a); ("entries[j].val", VZ b);
     ("evictFraction", VF (FSym "evictFraction")); ("entries[i].hash", VPtr true "hash of entries[i]");
     ("entries[i].key", VPtr true "key of entries[i]"); ("b.data", VPtr true "b.data");
     ("c.hashedBuckets[h%shards]", VPtr true "shard"); ("h", VPtr true "hash of the entry"); ("value", VPtr true "entry");
     ("i.K", VPtr true "key of the entry")].

  Definition run_part_v (v : string) (l : list gstmt) (a b n : Z) :=
    exec_list (ev_prims a b n) no_fcmp no_loop (fun vs s => Some (inl vs, eff s)) (fun _ => None) 40 l
              (mkSt ((v, VPtr true "entry") :: ev_env a b) [] [] []) (fun s => Some (inr (lookup "evictItems" (env s)), eff s)).

  Definition run_part (l : list gstmt) (a b n : Z) :=
    exec_list (ev_prims a b n) no_fcmp no_loop (fun vs s => Some (inl vs, eff s)) (fun _ => None) 40 l
              (mkSt (ev_env a b) [] [] []) (fun s => Some (inr (lookup "evictItems" (env s)), eff s)).

  (* the comparator: ascending by metric *)
  Definition less_ok (p : ev_parts) : Prop := forall a b, run_part (ep_less p) a b 0 = Some (inl [VB (a <? b)], []).
  (* the amount: int(float64(len(entries)) * evictFraction) *)
  Definition count_ok (p : ev_parts) : Prop := forall n,
    run_part [ep_count p] 0 0 n = Some (inr (Some (VZ (ftrunc (FBin "*" (FOfZ n) (FSym "evictFraction"))))), []).
End Parts.

(* the deletion loop visits i = 0 .. evictItems-1 *)
Definition del_header_ok (p : ev_parts) : Prop :=
  exists x, ep_del_init p = GAssign [GId x] [GInt 0] /\ ep_del_cond p = GBin "<" (GId x) (GId "evictItems") /\
            ep_del_post p = GAssign [GId x] [GBin "+" (GId x) (GInt 1)].

Theorem tie_evict_sharded : forall ftrunc f, f = fn_shardedMap_evictLeast \/ f = fn_shardedMapOf_evictLeast ->
  exists p, sharded_parts f = Some p /\
    less_ok ftrunc p /\ count_ok ftrunc p /\ del_header_ok p /\
    run_part_v ftrunc (ep_var p) (ep_collect p) 0 0 0 =
      Some (inr None, [("collect", [VRec "evictLeastEntry" [("hash", VPtr true "hash of the entry"); ("val", VRec "metric of" [("entry", VPtr true "entry")])]])]) /\
    run_part ftrunc (ep_del_body p) 0 0 0 =
      Some (inr None, [("Lock", []); ("delete by hash", [VPtr true "hash of entries[i]"]); ("Unlock", [])]).
Proof.
  intros ftrunc f [-> | ->]; eexists; (split; [reflexivity|]);
    (split; [intros a b; reflexivity|]); (split; [intros n; reflexivity|]);
    (split; [eexists; repeat split; reflexivity|]); split; reflexivity.
Qed.

(* SyncMap: entries are collected with their key (a string copy) and deleted by key *)
Theorem tie_evict_sync : forall ftrunc,
  exists p, sync_parts fn_syncMap_evictLeast = Some p /\
    less_ok ftrunc p /\ count_ok ftrunc p /\ del_header_ok p /\
    run_part ftrunc (ep_collect p) 0 0 0 =
      Some (inl [VB true],
            [("collect", [VRec "en" [("val", VRec "metric of" [("entry", VPtr true "entry")]);
                                     ("key", VRec "string" [("of", VPtr true "key of the entry")])]])]) /\
    run_part ftrunc (ep_del_body p) 0 0 0 = Some (inr None, [("delete by key", [VPtr true "key of entries[i]"])]).
Proof.
  intros ftrunc; eexists; (split; [reflexivity|]);
    (split; [intros a b; reflexivity|]); (split; [intros n; reflexivity|]);
    (split; [eexists; repeat split; reflexivity|]); split; reflexivity.
Qed.

(* the metric handed to evictLeast: the expiry for evictMostExpired, the usage counter for evictLeastCounter *)
Definition metric_field (f : gfunc) : option string :=
  match gf_body f with
  | [GReturn [GCall "c.evictLeast" [GId "evictFraction"; GFunc [GReturn [GCall "atomic.LoadInt64" [GUn "&" (GLeaf p)]]]]]] => Some p
  | _ => None
  end.

Theorem tie_evict_metrics :
  metric_field fn_shardedMap_evictMostExpired = Some "i.E" /\ metric_field fn_shardedMap_evictLeastCounter = Some "i.C".
Proof. split; reflexivity. Qed.

Theorem tie_evict_metrics_all :
  metric_field fn_shardedMapOf_evictMostExpired = Some "i.E" /\ metric_field fn_shardedMapOf_evictLeastCounter = Some "i.C" /\
  metric_field fn_syncMap_evictMostExpired = Some "i.E" /\ metric_field fn_syncMap_evictLeastCounter = Some "i.C".
Proof. repeat split; reflexivity. Qed.

(* ---- which eviction function a backend installs: evictMostExpired, unless the strategy is not EvictMostExpired,
   then evictLeastCounter (whose metric is the usage counter PrepareRead maintains: last-served stamp for LRU, serve
   count for LFU) ---- *)
Fixpoint strategy_selection (l : list gstmt) : option (string * string * bool) :=
  match l with
  | GAssign [GId ev] [GLeaf dflt] ::
    GIf [] (GBin "!=" (GLeaf "cfg.EvictionStrategy") (GInt 0)) [GAssign [GId ev'] [GLeaf alt]] [] ::
    GAssign [GLeaf "c.t"] [GCall _ [GId "cfg"; GFunc opts]] :: _ =>
      Some (dflt, alt,
            String.eqb ev ev' &&
            existsb (fun s => match s with GAssign [GLeaf "t.Evict"] [GId ev''] => String.eqb ev ev'' | _ => false end) opts &&
            existsb (fun s => match s with GAssign [GLeaf "t.DeleteExpired"] [GLeaf "c.deleteExpired"] => true | _ => false end) opts &&
            existsb (fun s => match s with GAssign [GLeaf "t.Len"] [GLeaf "c.Len"] => true | _ => false end) opts)
  | _ :: r => strategy_selection r
  | [] => None
  end.

Theorem tie_strategy_selection :
  strategy_selection (gf_body fn_NewShardedMap) = Some ("c.evictMostExpired", "c.evictLeastCounter", true) /\
  strategy_selection (gf_body fn_NewSyncMap) = Some ("c.evictMostExpired", "c.evictLeastCounter", true) /\
  strategy_selection (gf_body fn_NewShardedMapOf) = Some ("c.evictMostExpired", "c.evictLeastCounter", true).
Proof. repeat split; reflexivity. Qed.
