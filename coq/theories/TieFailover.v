(* TieFailover.v — the helper functions of Failover / FailoverOf, as translated from /repo on this run, make the
   decisions and the call-outs, in the order, that the steps of the interleaving model (Failover.v) assume:
   ctxSync (PCtxSync), recentlyFailed (PFailCache), valueFromError / freshEnough (PClassify), refreshStale
   (PRefreshLog .. PRefreshWrite), doBuild (PBuildLog .. PStatBuild). *)
From Coq Require Import String.
From Cache Require Import Base Failover GoIR.
From Cache.Generated Require Import Funcs.
Open Scope string_scope.
Open Scope Z_scope.

Definition no_fcmp (op : string) (a b : fterm) : bool := false.

(* ---- ctxSync: synchronous iff SyncUpdate or there is no stale value to serve (err != nil); otherwise the
   build context is detachedContext{ctx} ---- *)
Definition run_ctx_sync (f : gfunc) (sync_update has_err : bool) : option (bool * bool) :=
  run (fun _ _ _ => None) no_fcmp no_loop
      (fun vs _ => match vs with
                   | [VPtr true "ctx"; VB s] => Some (s, false)
                   | [VRec "detachedContext" [("0", VPtr true "ctx")]; VB s] => Some (s, true)
                   | _ => None end) (fun _ => None) f
      [VPtr true "f"; VPtr true "ctx"; VPtr has_err "err"] [("f.config.SyncUpdate", VB sync_update)] (fun _ => None).

Theorem tie_ctx_sync : forall sync_update has_err,
  run_ctx_sync fn_Failover_ctxSync sync_update has_err = Some (sync_update || has_err, negb (sync_update || has_err)) /\
  run_ctx_sync fn_FailoverOf_ctxSync sync_update has_err = Some (sync_update || has_err, negb (sync_update || has_err)).
Proof. intros [|] [|]; split; reflexivity. Qed.

(* ---- recentlyFailed: the failure cache is consulted iff FailedUpdateTTL > -1, with the caller's context (so
   SkipRead bypasses it); a hit is returned as the error ---- *)
Definition rf_prims (hit : bool) : prims := fun f args s =>
  match f, args with
  | "f.Errors.Read", [VPtr true "ctx"; VPtr true "key"] =>
      Some (VTup [VPtr hit "cached failure"; VPtr (negb hit) "read error"], emit "Errors.Read" [] s)
  | "$assert:error", [v] => Some (v, s)
  | _, _ => None
  end.

Definition run_recently_failed (f : gfunc) (failed_ttl : Z) (hit : bool) : option (bool * bool) :=
  run (rf_prims hit) no_fcmp no_loop
      (fun vs s => match vs with
                   | [VPtr true "cached failure"] => Some (true, negb (Nat.eqb (length (eff s)) 0))
                   | [VNil] => Some (false, negb (Nat.eqb (length (eff s)) 0))
                   | _ => None end) (fun _ => None) f
      [VPtr true "f"; VPtr true "ctx"; VPtr true "key"] [("f.config.FailedUpdateTTL", VZ failed_ttl)] (fun _ => None).

(* (failure reported, failure cache read) *)
Theorem tie_recently_failed : forall failed_ttl hit,
  run_recently_failed fn_Failover_recentlyFailed failed_ttl hit = Some ((0 <=? failed_ttl) && hit, 0 <=? failed_ttl) /\
  run_recently_failed fn_FailoverOf_recentlyFailed failed_ttl hit = Some ((0 <=? failed_ttl) && hit, 0 <=? failed_ttl).
Proof.
  intros failed_ttl [|]; split; unfold run_recently_failed;
    cbv -[Z.eqb Z.ltb Z.leb Z.add Z.sub Z.mul Z.opp];
    destruct (-1 <? failed_ttl) eqn:E1; destruct (0 <=? failed_ttl) eqn:E2; try reflexivity; exfalso; lia.
Qed.

(* ---- the staleness test: MaxStaleness == 0 || time.Since(expiredAt) < MaxStaleness ---- *)
Definition fe_prims (is_expired : bool) (v now at_ : Z) : prims := fun f args s =>
  match f, args with
  | "errors.As", [VPtr true "err"; VRef "errExpired"] => Some (VB is_expired, s)
  | "errExpired.ExpiredAt", [] => Some (VStr "expiredAt", s)
  | "time.Since", [VStr "expiredAt"] => Some (VZ (now - at_), s)
  | "errExpired.Value", [] => Some (VZ v, s)
  | "errors.Is", [VPtr true "err"; VStr "missing cache item"] => Some (VB false, s)
  | "$zero", [VStr "V"] => Some (VZ 0, s)
  | "$zero", [VStr "bool"] => Some (VB false, s)
  | "$zero", [VStr _] => Some (VNil, s)
  | _, _ => None
  end.

Definition run_fresh_enough_of (is_expired : bool) (max_stale v now at_ : Z) : option (Z * bool) :=
  run (fe_prims is_expired v now at_) no_fcmp no_loop
      (fun vs _ => match vs with [VZ x; VB ok] => Some (x, ok) | _ => None end) (fun _ => None) fn_FailoverOf_freshEnough
      [VPtr true "f"; VPtr true "err"] [("f.config.MaxStaleness", VZ max_stale)] (fun _ => None).

Theorem tie_fresh_enough_of : forall is_expired max_stale v now at_,
  run_fresh_enough_of is_expired max_stale v now at_ =
  Some (if is_expired && fresh_enough_impl max_stale now at_ then (v, true) else (0, false)).
Proof.
  intros [|] max_stale v now at_; unfold run_fresh_enough_of, fresh_enough_impl;
    cbv -[Z.eqb Z.ltb Z.leb Z.add Z.sub Z.mul Z.opp]; [|reflexivity].
  destruct (max_stale =? 0); [reflexivity|]. destruct (now - at_ <? max_stale); reflexivity.
Qed.

(* legacy valueFromError: (value, fresh enough, unexpected error) *)
Definition run_value_from_error (has_err is_expired : bool) (max_stale v now at_ : Z) : option (option Z * bool) :=
  run (fe_prims is_expired v now at_) no_fcmp no_loop
      (fun vs _ => match vs with
                   | [VZ x; VB ok; VNil] => Some (Some x, ok)
                   | [VNil; VB ok; VNil] => Some (None, ok)
                   | _ => None end) (fun _ => None) fn_Failover_valueFromError
      [VPtr true "f"; VPtr has_err "err"] [("f.config.MaxStaleness", VZ max_stale)] (fun _ => None).

Theorem tie_value_from_error : forall max_stale v now at_,
  run_value_from_error true true max_stale v now at_ =
  Some (if fresh_enough_impl max_stale now at_ then (Some v, true) else (None, false)).
Proof.
  intros; unfold run_value_from_error, fresh_enough_impl; cbv -[Z.eqb Z.ltb Z.leb Z.add Z.sub Z.mul Z.opp].
  destruct (max_stale =? 0); [reflexivity|]. destruct (now - at_ <? max_stale); reflexivity.
Qed.

(* ---- call-outs of refreshStale and doBuild ---- *)
Definition co_prims (built_ok write_ok errwrite_ok : bool) : prims := fun f args s =>
  match f, args with
  | "f.logDebug", _ :: VStr m :: _ => Some (VNil, emit "log" [VStr m] s)
  | "f.logError", _ :: VStr m :: _ => Some (VNil, emit "logError" [VStr m] s)
  | "f.stat.Add", [_; VStr m; VF (FConst 1 1); VStr "name"; _] => Some (VNil, emit "stat" [VStr m] s)
  | "WithTTL", [VPtr true "ctx"; VZ ttl; VB false] => Some (VRec "ctx with a TTL cell of its own" [("ttl", VZ ttl)], s)
  | "f.backend.Write", [c; VPtr true "key"; v] =>
      Some (VPtr (negb write_ok) "write error", emit "backend.Write" [c; v] s)
  | "f.Errors.Write", [c; VPtr true "key"; e] =>
      Some (VPtr (negb errwrite_ok) "errors write error", emit "Errors.Write" [c; e] s)
  | "buildFunc", [c] =>
      Some (VTup [VStr "built value"; VPtr (negb built_ok) "build error"], emit "builder" [c] s)
  | "fmt.Errorf", [VStr "failed to refresh expired value: %w"; e] => Some (VRec "wrapped" [("0", e)], s)
  | "f.observeMutability", _ => Some (VNil, s)
  | "$zero", [VStr "V"] => Some (VZ 0, s)
  | "$zero", [VStr _] => Some (VNil, s)
  | _, _ => None
  end.

Record fflags := mkFF { ff_debug : bool; ff_stat : bool; ff_logerr : bool; ff_observe : bool; ff_failed_ttl : Z; ff_update_ttl : Z }.

Definition co_leaves (x : fflags) : list (string * value) :=
  [("f.logDebug", VPtr (ff_debug x) "logDebug"); ("f.logError", VPtr (ff_logerr x) "logError"); ("f.stat", VPtr (ff_stat x) "stat");
   ("f.config.Name", VStr "name"); ("f.config.FailedUpdateTTL", VZ (ff_failed_ttl x)); ("f.config.UpdateTTL", VZ (ff_update_ttl x));
   ("f.config.ObserveMutability", VB (ff_observe x))].

Definition opt (b : bool) (e : effect) : list effect := if b then [e] else [].

(* refreshStale: [debug log], [cache_refreshed], backend.Write under a context with a TTL cell of its own holding
   UpdateTTL; a rejected write is returned wrapped *)
Definition run_refresh (f : gfunc) (x : fflags) (write_ok : bool) : option (list effect * bool) :=
  run (co_prims true write_ok true) no_fcmp no_loop
      (fun vs s => match vs with
                   | [VNil] => Some (eff s, true)
                   | [VRec "wrapped" [("0", VPtr true "write error")]] => Some (eff s, false)
                   | _ => None end) (fun _ => None) f
      [VPtr true "f"; VPtr true "ctx"; VPtr true "key"; VStr "stale value"] (co_leaves x) (fun _ => None).

Definition refresh_spec (x : fflags) (write_ok : bool) : list effect * bool :=
  ((opt (ff_debug x) ("log", [VStr "refreshing expired value"]) ++ opt (ff_stat x) ("stat", [VStr "cache_refreshed"]) ++
    [("backend.Write", [VRec "ctx with a TTL cell of its own" [("ttl", VZ (ff_update_ttl x))]; VStr "stale value"])])%list, write_ok).

Theorem tie_refresh_stale : forall x write_ok,
  run_refresh fn_Failover_refreshStale x write_ok = Some (refresh_spec x write_ok) /\
  run_refresh fn_FailoverOf_refreshStale x write_ok = Some (refresh_spec x write_ok).
Proof. intros [[|] [|] le ob ft ut] [|]; split; vm_compute; reflexivity. Qed.

(* doBuild: [debug log], the builder under the given context, then
   - failure: [cache_failed], the failure cache write (iff FailedUpdateTTL > -1) under a context with a TTL cell of
     its own holding 0 (= the failure cache's own TimeToLive, FailedUpdateTTL), [cache_build]; returns the error;
   - success: backend.Write under the BUILD context (the caller's TTL cell), [cache_build]; returns the value, or
     the write error
   — cache_build last in every case (it is deferred) *)
Inductive build_result := BuiltValue | BuildError | WriteError.

Definition run_do_build (f : gfunc) (x : fflags) (built_ok write_ok errwrite_ok : bool) : option (list effect * build_result) :=
  run (co_prims built_ok write_ok errwrite_ok) no_fcmp no_loop
      (fun vs s => match vs with
                   | [VStr "built value"; VPtr false _] => Some (eff s, BuiltValue)
                   | [_; VPtr true "build error"] => Some (eff s, BuildError)
                   | [_; VPtr true "write error"] => Some (eff s, WriteError)
                   | _ => None end) (fun _ => None) f
      [VPtr true "f"; VPtr true "ctx"; VPtr true "key"; VPtr true "previous value"; VPtr true "buildFunc"] (co_leaves x) (fun _ => None).

Definition do_build_spec (x : fflags) (built_ok write_ok errwrite_ok : bool) : list effect * build_result :=
  let pre := (opt (ff_debug x) ("log", [VStr "building cache value"]) ++ [("builder", [VPtr true "ctx"])])%list in
  let post := opt (ff_stat x) ("stat", [VStr "cache_build"]) in
  if built_ok
  then ((pre ++ [("backend.Write", [VPtr true "ctx"; VStr "built value"])] ++ post)%list, if write_ok then BuiltValue else WriteError)
  else ((pre ++ opt (ff_stat x) ("stat", [VStr "cache_failed"]) ++
         (if 0 <=? ff_failed_ttl x
          then [("Errors.Write", [VRec "ctx with a TTL cell of its own" [("ttl", VZ 0)]; VPtr true "build error"])] ++
               opt (negb errwrite_ok && ff_logerr x) ("logError", [VStr "failed to cache update failure"])
          else []) ++ post)%list, BuildError).

Theorem tie_do_build : forall x built_ok write_ok errwrite_ok,
  run_do_build fn_Failover_doBuild x built_ok write_ok errwrite_ok = Some (do_build_spec x built_ok write_ok errwrite_ok) /\
  run_do_build fn_FailoverOf_doBuild x built_ok write_ok errwrite_ok = Some (do_build_spec x built_ok write_ok errwrite_ok).
Proof.
  intros [[|] [|] [|] [|] ft ut] [|] [|] [|]; split; destruct ft as [|p|[q|q|]]; vm_compute; reflexivity.
Qed.

(* these are the model's steps: the pcs a build goes through, with the events each emits *)
Theorem model_build_path : forall c,
  to_build c = (if f_debug c then PBuildLog else PBuilderEntry) /\
  after_failed c = (if 0 <=? f_failed_ttl c then PErrWrite else (if f_stat c then PStatBuild else PPublish)) /\
  to_stat_build c = (if f_stat c then PStatBuild else PPublish) /\
  to_refresh c = (if f_debug c then PRefreshLog else (if f_stat c then PRefreshStat else PRefreshWrite)).
Proof. intros; repeat split; reflexivity. Qed.

(* ---- detachedContext: the four methods of the context a background build runs under ---- *)
Definition dc_prims : prims := fun f args s =>
  match f, args with
  | "d.parent.Value", [k] => Some (VRec "parent's value for" [("key", k)], s)
  | "$zero", [VStr _] => Some (VNil, s)
  | _, _ => None
  end.

Definition run_dc (f : gfunc) (args : list value) : option (list value) :=
  run dc_prims no_fcmp no_loop (fun vs _ => Some vs) (fun _ => None) f (VPtr true "d" :: args) [] (fun _ => None).

(* Deadline() = (zero time, false); Done() = nil; Err() = nil; Value(k) = parent.Value(k): the layer LDetach of Ctx.v *)
Theorem tie_detached_context :
  run_dc fn_detachedContext_Deadline [] = Some [VRec "time.Time" []; VB false] /\
  run_dc fn_detachedContext_Done [] = Some [VNil] /\
  run_dc fn_detachedContext_Err [] = Some [VNil] /\
  run_dc fn_detachedContext_Value [VPtr true "key"] = Some [VRec "parent's value for" [("key", VPtr true "key")]].
Proof. repeat split; vm_compute; reflexivity. Qed.

(* ---- waitForValue: [debug log], then the receive from the key lock's channel, and only then the published value
   and error are read (before the receive they are not yet published) ---- *)
Definition wv_prims : prims := fun f args s =>
  match f, args with
  | "f.logDebug", _ :: VStr m :: _ => Some (VNil, emit "log" [VStr m] s)
  | "<-", [VRef "keyLock.lock"] =>
      Some (VNil, emit "receive from keyLock.lock" []
                       (bind "keyLock.val" (VStr "published value") (bind "keyLock.err" (VStr "published error") s)))
  | _, _ => None
  end.

Definition run_wait (f : gfunc) (debug : bool) : option (list effect * list value) :=
  run wv_prims no_fcmp no_loop (fun vs s => Some (eff s, vs)) (fun _ => None) f
      [VPtr true "f"; VPtr true "ctx"; VPtr true "key"; VPtr true "keyLock"]
      [("f.logDebug", VPtr debug "logDebug"); ("f.config.Name", VStr "name");
       ("keyLock.val", VStr "NOT YET PUBLISHED"); ("keyLock.err", VStr "NOT YET PUBLISHED")] (fun _ => None).

Theorem tie_wait_for_value : forall debug,
  run_wait fn_Failover_waitForValue debug =
    Some ((if debug then [("log", [VStr "waiting for cache value"])] else []) ++ [("receive from keyLock.lock", [])],
          [VStr "published value"; VStr "published error"])%list /\
  run_wait fn_FailoverOf_waitForValue debug =
    Some ((if debug then [("log", [VStr "waiting for cache value"])] else []) ++ [("receive from keyLock.lock", [])],
          [VStr "published value"; VStr "published error"])%list.
Proof. intros [|]; split; vm_compute; reflexivity. Qed.
