(* TieGet.v — Failover.Get and FailoverOf.Get, as translated from /repo on this run, follow the path of the
   interleaving model (Failover.v) step for step.

   The body of Get is interpreted with its helpers (valueFromError / freshEnough, refreshStale, recentlyFailed,
   ctxSync, doBuild, waitForValue — each tied to the model separately in TieFailover.v) as primitives whose
   outcomes are inputs, and compared, for EVERY combination of configuration and outcomes (a finite product,
   enumerated completely), with the run of ONE thread of the model (plus its background thread) from PStart to
   PDone against the same outcomes: the same backend read, stale re-store, failure-cache hit, build (foreground or
   background, i.e. after the return), warning and returned (value, error), in the same order; the same values
   published in the key lock record; the key lock deleted and its channel closed exactly once, inside f.lock, by
   the Get that created it — and never by a Get that found it; everything that runs after the return (the
   background build and its release) works on a copy of the key made before the return.

   Since a thread of the model interacts with other threads only through keyLocks / kl records inside the
   f.lock sections and through the closed channel, agreement of every single-thread path is what ties the source
   of Get to the model whose interleavings the theorems of C01..C05 quantify over.

   Values are tokens (stale 11, read hit 22, built 33, published 55; 0 = nil), errors are codes (ErrNotFound 1,
   expired 2, build 4, write 5, wrapped refresh failure 106, backend fault 7, cached failure 9, published 12). *)
From Coq Require Import String.
From Cache Require Import Base Failover GoIR.
From Cache.Generated Require Import Funcs.
Open Scope string_scope.
Open Scope Z_scope.

Inductive rclass := RcHit | RcMiss | RcFresh | RcStale | RcFault.
Inductive bclass := BOk | BFail | BWriteFail.

Record gin := mkGin {
  gi_sync_read : bool; gi_sync_update : bool; gi_fail_hard : bool; gi_warn : bool;
  gi_locked : bool;          (* the key lock is held by another Get *)
  gi_pub_err : bool;         (* what that other Get publishes: (55, nil) or (nil, error 12) *)
  gi_rd : rclass;            (* the answer of the backend read *)
  gi_stale_nil : bool;       (* the expired value it carries is nil *)
  gi_refresh_ok : bool;      (* the stale re-store is accepted *)
  gi_fail_hit : bool;        (* the failure cache holds a live failure *)
  gi_build : bclass;
}.

(* coarse events both sides are projected to *)
Inductive cev :=
| CRead
| CRefresh (v : Z)
| CFailHit
| CBuild (after_return : bool)
| CWarn
| CRet (v : Z) (e : Z).

Record gobs := mkGobs {
  go_trace : list cev;
  go_pub : Z * Z;            (* keyLock.val, keyLock.err of the lock record this Get created (0,0 if none) *)
  go_released : bool;        (* this Get (or its background build) deleted the lock entry and closed the channel *)
}.

Definition v0 (i : gin) : Z := if gi_stale_nil i then 0 else 11.

(* ------------------------------------------------------------------ the model side *)

Definition key1 : key := [1%N].

Definition g_cfg (v : variant) (i : gin) : fcfg :=
  mkFcfg v (gi_sync_update i) (gi_sync_read i) (gi_fail_hard i) 10 20 60 false (gi_warn i) false.

Definition g_rd (i : gin) : rres :=
  match gi_rd i with
  | RcHit => RHit 22 | RcMiss => RMiss | RcFresh => RExp (v0 i) 95 | RcStale => RExp (v0 i) 50 | RcFault => RFault 7
  end.

Definition g_orc (i : gin) (p : pc) : orc :=
  mkOrc 100 (g_rd i)
        (match p with
         | PRefreshWrite => if gi_refresh_ok i then None else Some 6
         | _ => match gi_build i with BWriteFail => Some 5 | _ => None end
         end)
        (match gi_build i with BFail => inr 4 | _ => inl 33 end) [] 0.

Definition g_init (i : gin) : fstate :=
  mkF {[ 1%N := mkThread PStart key1 false None 0 None None None false (0, None) ]}
      (if gi_locked i then {[ key1 := 7%N ]} else ∅)
      (if gi_locked i then {[ 7%N := mkKl (if gi_pub_err i then 0 else 55) (if gi_pub_err i then Some (EOther 12) else None) true key1 ]} else ∅)
      8%N
      (if gi_fail_hit i then {[ key1 := (EOther 9, 0) ]} else ∅) [].

Fixpoint drive (c : fcfg) (i : gin) (fuel : nat) (s : fstate) : fstate :=
  match fuel with
  | O => s
  | S n =>
    match threads s !! 1%N with
    | Some th =>
        if decide (t_pc th = PDone)
        then match threads s !! 1001%N with
             | Some b => if decide (t_pc b = PDone) then s
                         else match fstep_x c s (LStep 1001%N (g_orc i (t_pc b))) with Some s' => drive c i n s' | None => s end
             | None => s
             end
        else match fstep_x c s (LStep 1%N (g_orc i (t_pc th))) with Some s' => drive c i n s' | None => s end
    | None => s
    end
  end.

Definition err_code (e : option err) : Z :=
  match e with
  | None => 0
  | Some ENotFound => 1
  | Some (EExpired _ _) => 2
  | Some (EOther n) => n
  | Some (EWrapped n) => 100 + n
  end.

Definition model_cev (e : fev) : list cev :=
  match e with
  | FRead _ _ _ => [CRead]
  | FWrite _ _ v _ true _ => [CRefresh v]
  | FErrHit _ _ _ => [CFailHit]
  | FBuildStart t _ => [CBuild (t =? 1001)%N]
  | FLog _ 4%N => [CWarn]
  | FReturn _ _ v er => [CRet v (err_code er)]
  | _ => []
  end.

Definition model_obs (v : variant) (i : gin) : gobs :=
  let s := drive (g_cfg v i) i 80 (g_init i) in
  mkGobs (flat_map model_cev (flog s))
         (match kls s !! 8%N with Some x => (kl_val x, err_code (kl_err x)) | None => (0, 0) end)
         (match kls s !! 8%N with Some x => kl_closed x && bool_decide (keyLocks s !! key1 = None) | None => false end).

(* ------------------------------------------------------------------ the source side *)

Definition tokv (n : Z) : value := if n =? 0 then VNil else VRec "val" [("tok", VZ n)].
Definition no_fcmp (op : string) (a b : fterm) : bool := false.

Definition rd_err (i : gin) : value :=
  match gi_rd i with
  | RcHit => VNil | RcMiss => VPtr true "ErrNotFound" | RcFresh | RcStale => VPtr true "expired" | RcFault => VPtr true "fault"
  end.

Definition is_nonnil (v : value) : bool := match v with VNil => false | _ => true end.

Definition get_prims (vr : variant) (i : gin) : prims := fun f args s =>
  match f, args with
  | "f.backend.Read", [_; _] =>
      Some (VTup [match gi_rd i with RcHit => tokv 22 | _ => (match vr with Legacy => VNil | Generic => tokv 0 end) end; rd_err i],
            emit "backend.Read" [] s)
  | "f.lock.Lock", [] => Some (VNil, emit "lock" [] s)
  | "f.lock.Unlock", [] => Some (VNil, emit "unlock" [] s)
  | "make", [VStr "type chan struct{}"] => Some (VPtr true "channel", s)
  | "string", [v] => Some (v, s)
  | "delete", [VPtr true "keyLocks"; k] => Some (VNil, emit "delete" [k] s)
  | "close", [VPtr true "channel"] => Some (VNil, emit "close" [] s)
  | "f.valueFromError", [er] =>    (* legacy: (value, fresh enough, unexpected backend error) *)
      Some (match gi_rd i with
            | RcFresh => VTup [tokv (v0 i); VB true; VNil]
            | RcFault => VTup [VNil; VB false; er]
            | _ => VTup [VNil; VB false; VNil]
            end, s)
  | "f.freshEnough", [er] =>       (* generic: (value, fresh enough) *)
      Some (match gi_rd i with
            | RcFresh => VTup [tokv (v0 i); VB true]
            | _ => VTup [tokv 0; VB false]
            end, s)
  | "withoutSkipRead", [c] => Some (c, s)
  | "f.waitForValue", [_; _; VPtr true "existing key lock"] =>
      Some (VTup [if gi_pub_err i then tokv 0 else tokv 55; if gi_pub_err i then VPtr true "published" else VNil], emit "wait" [] s)
  | "f.refreshStale", [_; _; v] =>
      Some (if gi_refresh_ok i then VNil else VPtr true "wrapped", emit "refreshStale" [v] s)
  | "f.recentlyFailed", [_; _] =>
      Some (if gi_fail_hit i then VPtr true "cached failure" else VNil, emit "failcache" [VB (gi_fail_hit i)] s)
  | "f.ctxSync", [c; er] =>
      let sync := gi_sync_update i || is_nonnil er in
      Some (VTup [if sync then c else VRec "detachedContext" [("0", c)]; VB sync], s)
  | "f.doBuild", [c; k; prev; VPtr true "buildFunc"] =>
      Some (match gi_build i with
            | BOk => VTup [tokv 33; VNil]
            | BFail => VTup [match vr with Legacy => VNil | Generic => tokv 0 end; VPtr true "build error"]
            | BWriteFail => VTup [match vr with Legacy => VNil | Generic => tokv 0 end; VPtr true "write error"]
            end, emit "doBuild" [c; k] s)
  | "f.logWarn", _ => Some (VNil, emit "logWarn" [] s)
  | "errors.As", [er; VRef "errExpired"] =>
      Some (VB (match er, gi_rd i with VPtr true "expired", _ => true | _, _ => false end), s)
  | "errExpired.Value", [] => Some (tokv (v0 i), s)
  | "append", [VNil; VPtr true "key"] => Some (VPtr true "key copy", emit "copy key" [] s)
  | "[]byte", [VNil] => Some (VNil, s)
  | "$zero", [VStr "V"] => Some (tokv 0, s)
  | "$zero", [VStr _] => Some (VNil, s)
  | _, _ => None
  end.

(* tokv 0 = VNil stands for both the nil interface and the zero value of V *)
Definition get_leaves (i : gin) : list (string * value) :=
  [("f.config.SyncRead", VB (gi_sync_read i)); ("f.config.FailHard", VB (gi_fail_hard i)); ("f.config.Name", VStr "name");
   ("f.logWarn", VPtr (gi_warn i) "logWarn"); ("f.keyLocks", VPtr true "keyLocks");
   ("f.keyLocks[string(key)]", VTup [VPtr (gi_locked i) "existing key lock"; VB (gi_locked i)]);
   ("keyLock.lock", VPtr true "channel"); ("keyLock.val", VNil); ("keyLock.err", VNil)].

Definition val_tok (v : value) : Z :=
  match v with VRec "val" [("tok", VZ n)] => n | _ => 0 end.

Definition err_tok (v : value) : Z :=
  match v with
  | VPtr true "ErrNotFound" => 1 | VPtr true "expired" => 2 | VPtr true "fault" => 7 | VPtr true "wrapped" => 106
  | VPtr true "cached failure" => 9 | VPtr true "build error" => 4 | VPtr true "write error" => 5 | VPtr true "published" => 12
  | _ => 0
  end.

(* project the effects; [after] = the "return" marker of a Get that left a goroutine behind has been seen *)
Fixpoint src_cev (after : bool) (l : list effect) : list cev :=
  match l with
  | [] => []
  | ("backend.Read", _) :: r => CRead :: src_cev after r
  | ("refreshStale", [v]) :: r => CRefresh (val_tok v) :: src_cev after r
  | ("failcache", [VB true]) :: r => CFailHit :: src_cev after r
  | ("doBuild", _) :: r => CBuild after :: src_cev after r
  | ("logWarn", _) :: r => CWarn :: src_cev after r
  | ("return", [v; e]) :: r => CRet (val_tok v) (err_tok e) :: src_cev true r
  | _ :: r => src_cev after r
  end.

Definition has_return_marker (l : list effect) : bool := existsb (fun e => String.eqb (fst e) "return") l.

(* the release protocol: lock, delete, close, unlock — as a block, exactly once or not at all *)
Fixpoint release_blocks (l : list effect) : option nat :=
  match l with
  | [] => Some O
  | ("lock", _) :: ("delete", _) :: ("close", _) :: ("unlock", _) :: r =>
      match release_blocks r with Some n => Some (S n) | None => None end
  | ("delete", _) :: _ => None
  | ("close", _) :: _ => None
  | _ :: r => release_blocks r
  end.

(* the caller may reuse its key slice once Get has returned: whatever runs after the return works on a copy of
   the key that was made before the return *)
Fixpoint keys_ok (after : bool) (l : list effect) : bool :=
  match l with
  | [] => true
  | ("return", _) :: r => keys_ok true r
  | ("copy key", _) :: r => negb after && keys_ok after r
  | ("delete", [k]) :: r =>
      (if after then match k with VPtr true "key copy" => true | _ => false end else true) && keys_ok after r
  | ("doBuild", [_; k]) :: r =>
      (if after then match k with VPtr true "key copy" => true | _ => false end else true) && keys_ok after r
  | _ :: r => keys_ok after r
  end.

(* the election: lock, [store of the new record], unlock, once, before everything but the pre-lock read *)
Definition election_ok (locked : bool) (l : list effect) : bool :=
  match List.filter (fun e => negb (String.eqb (fst e) "backend.Read")) l with
  | ("lock", _) :: ("assign f.keyLocks[string(key)]", _) :: ("unlock", _) :: _ => negb locked
  | ("lock", _) :: ("unlock", _) :: _ => locked
  | _ => false
  end.

Definition src_view (i : gin) (vs : list value) (s : st) : option gobs :=
  match vs with
  | [v; e] =>
      let tr := src_cev false (eff s) in
      let tr := if has_return_marker (eff s) then tr else (tr ++ [CRet (val_tok v) (err_tok e)])%list in
      match release_blocks (eff s), lookup "keyLock.val" (env s), lookup "keyLock.err" (env s) with
      | Some n, Some kv, Some ke =>
          (* a Get that returned before the lock may not have elected anybody *)
          let elected := existsb (fun x => String.eqb (fst x) "lock") (eff s) in
          if (negb elected || election_ok (gi_locked i) (eff s)) && keys_ok false (eff s)
          then Some (mkGobs tr (if gi_locked i then (0, 0) else (val_tok kv, err_tok ke)) (Nat.eqb n 1))
          else None
      | _, _, _ => None
      end
  | _ => None
  end.

Definition src_obs (vr : variant) (i : gin) : option gobs :=
  run (get_prims vr i) no_fcmp no_loop (src_view i) (fun _ => None)
      (match vr with Legacy => fn_Failover_Get | Generic => fn_FailoverOf_Get end)
      [VPtr true "f"; VPtr true "ctx"; VPtr true "key"; VPtr true "buildFunc"] (get_leaves i) (fun _ => None).

(* ------------------------------------------------------------------ the finite product *)

Definition bools := [false; true].

Definition all_gin : list gin :=
  sr ← bools; su ← bools; fh ← bools; w ← bools; lk ← bools; pe ← bools;
  rd ← [RcHit; RcMiss; RcFresh; RcStale; RcFault]; sn ← bools; ro ← bools; fhit ← bools;
  b ← [BOk; BFail; BWriteFail];
  [mkGin sr su fh w lk pe rd sn ro fhit b].

Lemma in_bools b : b ∈ bools. Proof. destruct b; unfold bools; set_solver. Qed.
Lemma in_rclass r : r ∈ [RcHit; RcMiss; RcFresh; RcStale; RcFault]. Proof. destruct r; set_solver. Qed.
Lemma in_bclass b : b ∈ [BOk; BFail; BWriteFail]. Proof. destruct b; set_solver. Qed.

Lemma all_gin_complete : forall i, i ∈ all_gin.
Proof.
  intros [sr su fh w lk pe rd sn ro fhit b]. unfold all_gin.
  repeat (apply elem_of_list_bind; eexists; split; [|first [apply in_bools | apply in_rclass | apply in_bclass]]).
  apply elem_of_list_singleton. reflexivity.
Qed.

#[global] Instance cev_eq_dec : EqDecision cev. Proof. solve_decision. Defined.
#[global] Instance gobs_eq_dec : EqDecision gobs. Proof. solve_decision. Defined.

Definition get_agrees (v : variant) (i : gin) : bool := bool_decide (src_obs v i = Some (model_obs v i)).

Lemma get_agrees_all v : forallb (get_agrees v) all_gin = true -> forall i, src_obs v i = Some (model_obs v i).
Proof.
  intros H i. rewrite forallb_forall in H. specialize (H i).
  assert (In i all_gin) as Hin by (apply elem_of_list_In, all_gin_complete).
  specialize (H Hin). unfold get_agrees in H. apply bool_decide_eq_true in H. exact H.
Qed.


(* Failover.Get = the Legacy model, FailoverOf.Get = the Generic model, on all 7680 combinations each *)
Theorem tie_get_legacy : forall i, src_obs Legacy i = Some (model_obs Legacy i).
Proof. apply get_agrees_all. vm_compute. reflexivity. Qed.

Theorem tie_get_generic : forall i, src_obs Generic i = Some (model_obs Generic i).
Proof. apply get_agrees_all. vm_compute. reflexivity. Qed.

(* the comparison is not vacuous: e.g. a cold miss with SyncRead builds in the foreground and publishes the result;
   an acceptable stale value without SyncUpdate is returned first and the build runs after the return *)
Example get_cold_miss :
  model_obs Legacy (mkGin true false false false false false RcMiss false true false BOk)
  = mkGobs [CRead; CBuild false; CRet 33 0] (33, 0) true.
Proof. vm_compute. reflexivity. Qed.

Example get_background :
  model_obs Generic (mkGin false false false true false false RcFresh false true false BFail)
  = mkGobs [CRead; CRefresh 11; CRet 11 0; CBuild true; CWarn] (0, 4) true.
Proof. vm_compute. reflexivity. Qed.
