(* TieGob.v — one iteration of GobRegister's loop, as translated from /repo on this run: a type already
   registered contributes nothing; a new type is fingerprinted with a hasher AND a visited-set of its own (fresh per
   value), the fingerprint is XORed into the types hash, and the type is marked as registered.  This is the
   registration step the hash laws of C14 (TransferProofs: any fingerprint function) are stated about. *)
From Coq Require Import String.
From Cache Require Import Base GoIR.
From Cache.Generated Require Import Funcs.
Open Scope string_scope.
Open Scope Z_scope.

Definition no_fcmp (op : string) (a b : fterm) : bool := false.

Definition gob_prims (fp : Z) : prims := fun f args s =>
  match f, args with
  | "reflect.TypeOf", [VPtr true "value"] => Some (VPtr true "type of value", s)
  | "fnv.New64", [] => Some (VRec "hasher" [], emit "new hasher" [] s)
  | "t.PkgPath", [] => Some (VStr "pkg", s)
  | "t.String", [] => Some (VStr "name", s)
  | "[]byte", [v] => Some (v, s)
  | "h.Write", [VStr "pkgname"] => Some (VTup [VZ 0; VNil], emit "hash package path and name" [] s)
  | "recursiveTypeHash", [VPtr true "type of value"; VRec "hasher" []; VRec "map[reflect.Type]bool" []] =>
      Some (VNil, emit "hash structure with a visited set of its own" [] s)
  | "h.Sum64", [] => Some (VZ fp, s)
  | "make", [VStr "type map[reflect.Type]bool"] => Some (VPtr true "registry", s)
  | "gob.Register", [VPtr true "value"] => Some (VNil, emit "gob.Register" [] s)
  | _, _ => None
  end.

Definition gob_body : option (list gstmt) :=
  match gf_body fn_GobRegister with
  | [GRange "_" "value" (GId "values") body] => Some body
  | _ => None
  end.

(* (types hash afterwards, type marked as registered, effects) *)
Definition run_gob_iter (registered has_registry : bool) (hash0 fp : Z) : option (Z * bool * list effect) :=
  match gob_body with
  | Some body =>
      let view s := match lookup "gobTypesHash" (env s), lookup "gobTypes[t]" (env s) with
                    | Some (VZ hh), Some (VB m) => Some (hh, m, List.filter (fun e => negb (String.eqb (fst e) "assign gobTypesHash") && negb (String.eqb (fst e) "assign gobTypes") && negb (String.eqb (fst e) "assign gobTypes[t]")) (eff s))
                    | _, _ => None end in
      exec_list (gob_prims fp) no_fcmp no_loop
        (fun vs s => match vs with [VStr "continue"] => view s | _ => None end) (fun _ => None) 40 body
        (mkSt [("value", VPtr true "value"); ("gobTypes[t]", VB registered); ("gobTypesHash", VZ hash0);
               ("gobTypes", VPtr has_registry "registry")] [] [] [])
        view
  | None => None
  end.

Theorem tie_gob_register_iteration : forall registered has_registry hash0 fp,
  run_gob_iter registered has_registry hash0 fp =
  Some (if registered then (hash0, true, [])
        else (Z.lxor hash0 fp, true,
              [("new hasher", []); ("hash package path and name", []);
               ("hash structure with a visited set of its own", []); ("gob.Register", [])])).
Proof. intros [|] [|] hash0 fp; reflexivity. Qed.
