(* TieGob.v — one iteration of GobRegister's loop, as translated from /repo on this run: a type already
   registered contributes nothing; a new type is fingerprinted with a hasher AND a visited-set of its own (fresh per
   value), the fingerprint is XORed into the types hash, and the type is marked as registered.  This is the
   registration step the hash laws of C14 (TransferProofs: any fingerprint function) are stated about. *)
From Coq Require Import String.
From Cache Require Import Base GoIR.
From Cache.Generated Require Import Funcs.
Open Scope string_scope.
Open Scope Z_scope.

Definition no_fcmp (op : string) (a b : fterm) : bool := false.

Definition gob_prims (fp : Z) : prims := fun f args s =>
  match f, args with
  | "reflect.TypeOf", [VPtr true "value"] => Some (VPtr true "type of value", s)
  | "fnv.New64", [] => Some (VRec "hasher" [], emit "new hasher" [] s)
  | "t.PkgPath", [] => Some (VStr "pkg", s)
  | "t.String", [] => Some (VStr "name", s)
  | "[]byte", [v] => Some (v, s)
  | "h.Write", [VStr "pkgname"] => Some (VTup [VZ 0; VNil], emit "hash package path and name" [] s)
  | "recursiveTypeHash", [VPtr true "type of value"; VRec "hasher" []; VRec "map[reflect.Type]bool" []] =>
      Some (VNil, emit "hash structure with a visited set of its own" [] s)
  | "h.Sum64", [] => Some (VZ fp, s)
  | "make", [VStr "type map[reflect.Type]bool"] => Some (VPtr true "registry", s)
  | "gob.Register", [VPtr true "value"] => Some (VNil, emit "gob.Register" [] s)
  | _, _ => None
  end.

Definition gob_body : option (list gstmt) :=
  match gf_body fn_GobRegister with
  | [GRange "_" "value" (GId "values") body] => Some body
  | _ => None
  end.

(* (types hash afterwards, type marked as registered, effects) *)
Definition run_gob_iter (registered has_registry : bool) (hash0 fp : Z) : option (Z * bool * list effect) :=
  match gob_body with
  | Some body =>
      let view s := match lookup "gobTypesHash" (env s), lookup "gobTypes[t]" (env s) with
                    | Some (VZ hh), Some (VB m) => Some (hh, m, List.filter (fun e => negb (String.eqb (fst e) "assign gobTypesHash") && negb (String.eqb (fst e) "assign gobTypes") && negb (String.eqb (fst e) "assign gobTypes[t]")) (eff s))
                    | _, _ => None end in
      exec_list (gob_prims fp) no_fcmp no_loop
        (fun vs s => match vs with [VStr "continue"] => view s | _ => None end) (fun _ => None) 40 body
        (mkSt [("value", VPtr true "value"); ("gobTypes[t]", VB registered); ("gobTypesHash", VZ hash0);
               ("gobTypes", VPtr has_registry "registry")] [] [] [])
        view
  | None => None
  end.

Theorem tie_gob_register_iteration : forall registered has_registry hash0 fp,
  run_gob_iter registered has_registry hash0 fp =
  Some (if registered then (hash0, true, [])
        else (Z.lxor hash0 fp, true,
              [("new hasher", []); ("hash package path and name", []);
               ("hash structure with a visited set of its own", []); ("gob.Register", [])])).
Proof. intros [|] [|] hash0 fp; reflexivity. Qed.

(* ---- recursiveTypeHash: pointers are dereferenced first; a type already met contributes nothing more (this is what
   makes recursive types terminate); otherwise it is marked and, by kind: struct — every exported field contributes its
   name (unless embedded) and then its type, recursively, with the SAME hasher and visited set; slice / array — the
   element type; map — key type, then element type; anything else — its name ---- *)
Inductive tkind := KStruct | KSlice | KArray | KMap | KOther.
Definition kind_code (k : tkind) : Z := match k with KStruct => 25 | KSlice => 23 | KArray => 17 | KMap => 21 | KOther => 2 end.

Definition rth_prims (k : tkind) : prims := fun f args s =>
  match f, args with
  | "t.Kind", [] => Some (VZ (kind_code k), s)
  | "t.Elem", [] => Some (VPtr true "element type", s)
  | "t.Key", [] => Some (VPtr true "key type", s)
  | "t.String", [] => Some (VStr "name of the type", s)
  | "[]byte", [v] => Some (v, s)
  | "h.Write", [v] => Some (VTup [VZ 0; VNil], emit "hash" [v] s)
  | "recursiveTypeHash", [ty; VPtr true "h"; VPtr true "met"] => Some (VNil, emit "recurse with the same hasher and visited set" [ty] s)
  | _, _ => None
  end.

Definition rth_loop (k v : string) (c : value) (body : list gstmt) (s : st) : option st :=
  match k, body with
  | "$while", [GIf [] (GBin "!=" (GCall "t.Kind" []) (GInt 22)) [GBranch "break"] []; GAssign [GId "t"] [GCall "t.Elem" []]] =>
      Some (emit "dereference pointers" [] s)
  | "$for", _ => Some (emit "for each field" [] s)
  | _, _ => None
  end.

Definition run_rth (met : bool) (k : tkind) : option (list effect) :=
  run (rth_prims k) no_fcmp rth_loop (fun _ s => Some (eff s)) (fun _ => None) fn_recursiveTypeHash
      [VPtr true "t"; VPtr true "h"; VPtr true "met"] [("met[t]", VB met)] (fun s => Some (eff s)).

Theorem tie_recursive_type_hash : forall met k,
  run_rth met k =
  Some ([("dereference pointers", [])] ++
        (if met then []
         else [("assign met[t]", [VB true])] ++
              match k with
              | KStruct => [("for each field", [])]
              | KSlice | KArray => [("recurse with the same hasher and visited set", [VPtr true "element type"])]
              | KMap => [("recurse with the same hasher and visited set", [VPtr true "key type"]);
                         ("recurse with the same hasher and visited set", [VPtr true "element type"])]
              | KOther => [("hash", [VStr "name of the type"])]
              end))%list.
Proof. intros [|] [| | | |]; reflexivity. Qed.

(* one field of a struct *)
Definition field_body : option (gstmt * gexpr * gstmt * list gstmt) :=
  match gf_body fn_recursiveTypeHash with
  | [_; _; _; GSwitch (GCall "t.Kind" []) ((_, [GFor i c p body]) :: _)] => Some (i, c, p, body)
  | _ => None
  end.

Definition fld_prims (exported : bool) : prims := fun f args s =>
  match f, args with
  | "t.Field", [VZ _] => Some (VPtr true "field", s)
  | "$slice", [VStr n; VZ 0; VZ 1] => Some (VStr "first letter", s)
  | "strings.ToLower", [VStr "first letter"] => Some (VStr (if exported then "first letter in lower case" else "first letter"), s)
  | "[]byte", [v] => Some (v, s)
  | "h.Write", [v] => Some (VTup [VZ 0; VNil], emit "hash" [v] s)
  | "recursiveTypeHash", [ty; VPtr true "h"; VPtr true "met"] => Some (VNil, emit "recurse with the same hasher and visited set" [ty] s)
  | _, _ => None
  end.

Definition run_field (exported anonymous : bool) : option (list effect * bool) :=
  match field_body with
  | Some (_, _, _, body) =>
      exec_list (fld_prims exported) no_fcmp no_loop
        (fun vs s => match vs with [VStr "continue"] => Some (eff s, true) | _ => None end) (fun _ => None) 40 body
        (mkSt [("i", VZ 0); ("h", VPtr true "h"); ("met", VPtr true "met"); ("f.Name", VStr "Name");
               ("f.Anonymous", VB anonymous); ("f.Type", VPtr true "type of the field")] [] [] [])
        (fun s => Some (eff s, false))
  | None => None
  end.

Theorem tie_type_hash_field : forall exported anonymous,
  run_field exported anonymous =
  Some (if exported
        then ((if anonymous then [] else [("hash", [VStr "Name"])]) ++
              [("recurse with the same hasher and visited set", [VPtr true "type of the field"])], false)%list
        else ([], true)).
Proof. intros [|] [|]; reflexivity. Qed.

Theorem tie_type_hash_field_loop :
  match field_body with
  | Some (GAssign [GId i] [GInt 0], GBin "<" (GId i') (GCall "t.NumField" []), GAssign [GId i''] [GBin "+" (GId i''') (GInt 1)], _) =>
      String.eqb i i' && String.eqb i i'' && String.eqb i i''' = true
  | _ => False
  end.
Proof. reflexivity. Qed.

(* ---- GobTypesHash returns the accumulated hash; GobTypesHashReset sets it to zero (and touches nothing else) ---- *)
Definition run_hash_fn (f : gfunc) (h : Z) : option (list value * list effect) :=
  run (fun _ _ _ => None) no_fcmp no_loop (fun vs s => Some (vs, eff s)) (fun _ => None) f
      [] [("gobTypesHash", VZ h)] (fun s => Some ([], eff s)).

Theorem tie_types_hash_accessors : forall h,
  run_hash_fn fn_GobTypesHash h = Some ([VZ h], []) /\
  run_hash_fn fn_GobTypesHashReset h = Some ([], [("assign gobTypesHash", [VZ 0])]).
Proof. intros h; split; reflexivity. Qed.
