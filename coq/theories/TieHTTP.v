(* TieHTTP.v — the Export handler and one iteration of Import's loop (http.go), as translated from /repo on this
   run: Export dumps the named cache iff a name is given, the cache is registered, a types hash is given and it
   EQUALS the exporter's (compared unconditionally, as decimal strings), and answers 400 / 404 otherwise without
   dumping; Import asks for every registered cache by its name with the importer's types hash, restores INTO THAT
   cache iff the answer is 200, and goes on to the next cache whatever happened (it never returns from the loop). *)
From Coq Require Import String.
From Cache Require Import Base GoIR.
From Cache.Generated Require Import Funcs.
Open Scope string_scope.
Open Scope Z_scope.

Definition no_fcmp (op : string) (a b : fterm) : bool := false.

Record ex_in := mkEx { ex_name_given : bool; ex_known : bool; ex_hash_given : bool; ex_hash_equal : bool;
                       ex_dump_ok : bool; ex_warn : bool; ex_log : bool }.

Definition ex_prims (h : Z) (i : ex_in) : prims := fun f args s =>
  match f, args with
  | "r.URL.Query().Get", [VStr "name"] => Some (VStr (if ex_name_given i then "the name" else ""), s)
  | "r.URL.Query().Get", [VStr "typesHash"] =>
      Some (VStr (if ex_hash_given i then (if ex_hash_equal i then "exporter's hash in decimal" else "another hash") else ""), s)
  | "GobTypesHash", [] => Some (VZ h, s)         (* ANY exporter hash, zero included *)
  | "strconv.FormatUint", [VZ _; VZ 10] => Some (VStr "exporter's hash in decimal", s)
  | "http.Error", [VPtr true "rw"; _; VZ code] => Some (VNil, emit "http.Error" [VZ code] s)
  | "time.Now", [] => Some (VZ 0, s)
  | "rw.Header().Set", [_; _] => Some (VNil, s)
  | "c.Dump", [VRef "w"] => Some (VTup [VZ 3; if ex_dump_ok i then VNil else VPtr true "dump error"], emit "Dump the named cache" [] s)
  | "r.Context", [] => Some (VPtr true "ctx", s)
  | "logger.logWarn", _ => Some (VNil, s)
  | "logger.logError", _ => Some (VNil, s)
  | "logger.logImportant", _ => Some (VNil, s)
  | "time.Since(start).String", [] => Some (VStr "", s)
  | "time.Since(start).Seconds", [] => Some (VF (FSym "seconds"), s)
  | "atomic.LoadInt64", [VRef "w.n"] => Some (VZ 0, s)
  | "float64", [VZ z] => Some (VF (FOfZ z), s)
  | "fmt.Sprintf", _ => Some (VStr "", s)
  | "$zero", [VStr _] => Some (VNil, s)
  | _, _ => None
  end.

Definition export_handler : option (list gstmt) :=
  match gf_body fn_HTTPTransfer_Export with
  | [_; _; GReturn [GCall "http.HandlerFunc" [GFunc body]]] => Some body
  | _ => None
  end.

Definition run_export (h : Z) (i : ex_in) : option (list effect) :=
  match export_handler with
  | Some body =>
      exec_list (ex_prims h i) no_fcmp no_loop (fun _ s => Some (eff s)) (fun _ => None) 60 body
        (mkSt [("rw", VPtr true "rw"); ("t.caches[name]", VTup [VPtr (ex_known i) "cache"; VB (ex_known i)]);
               ("logger.logWarn", VPtr (ex_warn i) "log"); ("logger.logError", VPtr (ex_log i) "log");
               ("logger.logImportant", VPtr (ex_log i) "log")] [] [] [])
        (fun s => Some (eff s))
  | None => None
  end.

Definition export_spec (i : ex_in) : list effect :=
  if negb (ex_name_given i) then [("http.Error", [VZ 400])]
  else if negb (ex_known i) then [("http.Error", [VZ 404])]
  else if negb (ex_hash_given i) then [("http.Error", [VZ 400])]
  else if negb (ex_hash_equal i) then [("http.Error", [VZ 400])]
  else [("Dump the named cache", [])].

Theorem tie_export : forall h i, run_export h i = Some (export_spec i).
Proof. intros h [[|] [|] [|] [|] [|] [|] [|]]; vm_compute; reflexivity. Qed.

(* ---- one iteration of Import ---- *)
Record im_in := mkIm { im_req_ok : bool; im_rt_ok : bool; im_status : Z; im_transport : bool; im_warn : bool;
                       im_read_ok : bool; im_copy_ok : bool; im_close_ok : bool }.

Definition im_prims (i : im_in) : prims := fun f args s =>
  match f, args with
  | "u.Query", [] => Some (VPtr true "query", s)
  | "q.Set", [VStr k; v] => Some (VNil, emit "query parameter" [VStr k; v] s)
  | "q.Encode", [] => Some (VStr "encoded", s)
  | "u.String", [] => Some (VStr "url", s)
  | "http.NewRequest", [VStr "GET"; VStr "url"; VNil] =>
      Some (VTup [VPtr true "request"; VPtr (negb (im_req_ok i)) "error"], s)
  | "tr.RoundTrip", [VPtr true "request"] =>
      Some (VTup [VPtr true "response"; VPtr (negb (im_rt_ok i)) "error"], emit "round trip" [] s)
  | "t.importCache", [_; c; VPtr true "response"] => Some (VNil, emit "restore into" [c] s)
  | "io.ReadAll", [_] => Some (VTup [VStr "body"; VPtr (negb (im_read_ok i)) "error"], s)
  | "io.Copy", [_; _] => Some (VTup [VZ 0; VPtr (negb (im_copy_ok i)) "error"], emit "drain body" [] s)
  | "resp.Body.Close", [] => Some (VPtr (negb (im_close_ok i)) "error", emit "close body" [] s)
  | "logger.logWarn", _ => Some (VNil, s)
  | "string", [v] => Some (v, s)
  | _, _ => None
  end.

Definition import_body : option (list gstmt) :=
  match gf_body fn_HTTPTransfer_Import with
  | [_; _; _; _; _; GRange "name" "c" (GLeaf "t.caches") body; GReturn [GNil]] => Some body
  | _ => None
  end.

(* (effects, the iteration ended by `continue` or by reaching the end of the body — never by a return) *)
Definition run_import_iter (i : im_in) : option (list effect) :=
  match import_body with
  | Some body =>
      exec_list (im_prims i) no_fcmp no_loop
        (fun vs s => match vs with [VStr "continue"] => Some (eff s) | _ => None end) (fun _ => None) 60 body
        (mkSt [("name", VStr "this cache's name"); ("c", VPtr true "this cache"); ("typesHash", VStr "importer's hash");
               ("ctx", VPtr true "ctx"); ("t.Transport", VPtr (im_transport i) "transport");
               ("http.DefaultTransport", VPtr true "default transport"); ("logger.logWarn", VPtr (im_warn i) "log");
               ("resp.StatusCode", VZ (im_status i)); ("resp.Body", VPtr true "body"); ("io.Discard", VPtr true "discard")] [] [] [])
        (fun s => Some (eff s))
  | None => None
  end.

Definition import_spec (i : im_in) : list effect :=
  let q := [("query parameter", [VStr "name"; VStr "this cache's name"]); ("query parameter", [VStr "typesHash"; VStr "importer's hash"]);
            ("assign u.RawQuery", [VStr "encoded"])] in
  if negb (im_req_ok i) then q
  else if negb (im_rt_ok i) then (q ++ [("round trip", [])])%list
  else (q ++ [("round trip", [])] ++ (if im_status i =? 200 then [("restore into", [VPtr true "this cache"])] else []) ++
        [("drain body", []); ("close body", [])])%list.

Theorem tie_import_iteration : forall req_ok rt_ok transport warn read_ok copy_ok close_ok,
  (forall status, status <> 200 ->
     run_import_iter (mkIm req_ok rt_ok status transport warn read_ok copy_ok close_ok)
     = Some (import_spec (mkIm req_ok rt_ok status transport warn read_ok copy_ok close_ok))) /\
  run_import_iter (mkIm req_ok rt_ok 200 transport warn read_ok copy_ok close_ok)
  = Some (import_spec (mkIm req_ok rt_ok 200 transport warn read_ok copy_ok close_ok)).
Proof.
  intros [|] [|] [|] [|] [|] [|] [|]; split; try (vm_compute; reflexivity);
    intros status Hs; unfold run_import_iter, import_spec; cbv -[Z.eqb Z.ltb Z.leb Z.add Z.sub Z.mul Z.opp];
    destruct (status =? 200) eqn:E; try reflexivity; exfalso; lia.
Qed.

(* ---- AddCache: the cache is registered under exactly that name (the map is created on first use) ---- *)
Definition addc_prims : prims := fun f args s =>
  match f, args with
  | "make", [VStr "type map[string]WalkDumpRestorer"] => Some (VPtr true "new map", s)
  | _, _ => None
  end.

Definition run_http_add (has_map : bool) : option (list effect) :=
  run addc_prims no_fcmp no_loop (fun _ s => Some (eff s)) (fun _ => None) fn_HTTPTransfer_AddCache
      [VPtr true "t"; VPtr true "name"; VPtr true "c"] [("t.caches", VPtr has_map "caches")] (fun s => Some (eff s)).

Theorem tie_http_add_cache : forall has_map,
  run_http_add has_map =
  Some ((if has_map then [] else [("assign t.caches", [VPtr true "new map"])]) ++
        [("assign t.caches[name]", [VPtr true "c"])])%list.
Proof. intros [|]; reflexivity. Qed.

(* ---- importCache: the response body (wrapped in a byte counter) is handed to Restore of the cache it was asked for,
   exactly once; the outcome is only logged (an error does not stop Import: tie_import_iteration) ---- *)
Definition ic_prims (ok : bool) : prims := fun f args s =>
  match f, args with
  | "logger.setup", [_] => Some (VNil, s)
  | "time.Now", [] => Some (VZ 0, s)
  | "c.Restore", [VRef r] =>
      match lookup r (env s) with
      | Some (VRec "readerCnt" [("r", body)]) =>
          Some (VTup [VZ 3; if ok then VNil else VPtr true "restore error"], emit "Restore from" [body] s)
      | _ => None
      end
  | "logger.logWarn", _ :: VStr m :: _ => Some (VNil, emit "warn" [VStr m] s)
  | "logger.logImportant", _ :: VStr m :: _ => Some (VNil, emit "important" [VStr m] s)
  | "time.Since(start).String", [] => Some (VStr "", s)
  | "time.Since(start).Seconds", [] => Some (VF (FSym "seconds"), s)
  | "atomic.LoadInt64", [VRef _] => Some (VZ 0, s)
  | "float64", [VZ z] => Some (VF (FOfZ z), s)
  | "fmt.Sprintf", _ => Some (VStr "", s)
  | _, _ => None
  end.

Definition run_import_cache (ok warn imp : bool) : option (list effect) :=
  run (ic_prims ok) no_fcmp no_loop (fun _ s => Some (eff s)) (fun _ => None) fn_HTTPTransfer_importCache
      [VPtr true "t"; VPtr true "ctx"; VPtr true "c"; VPtr true "resp"]
      [("t.Logger", VPtr true "logger"); ("resp.Body", VPtr true "body");
       ("logger.logWarn", VPtr warn "log"); ("logger.logImportant", VPtr imp "log")] (fun s => Some (eff s)).

Theorem tie_import_cache : forall ok warn imp,
  run_import_cache ok warn imp =
  Some (("Restore from", [VPtr true "body"]) ::
        (if ok then (if imp then [("important", [VStr "cache restored"])] else [])
         else (if warn then [("warn", [VStr "failed to restore cache dump"])] else []))).
Proof. intros [|] [|] [|]; reflexivity. Qed.
