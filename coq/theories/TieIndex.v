(* TieIndex.v — the loops of InvalidationIndex (invalidator.go), as translated from /repo on this run, have the
   bodies the model Index.v folds over:
     AddLabels            add_labels' step:  labeledKeys[label] = append(labeledKeys[label], string(key)), under i.mu
     cutKeys              cut_keys' step:    a repeated label is skipped; else res[label] = labeledKeys[label]; delete(labeledKeys, label)
     invalidateByLabels   del_key' step:     Delete on one cache: failure other than ErrNotFound returns (cnt, err); ErrNotFound
                                             leaves cnt; success counts one
                          del_keys' step:    a key already deleted is skipped; else every cache, then deleted[k] = true
                          del_labels' step:  all keys of the label, then delete(cutKeys, label)
                          put_back's step:   (deferred, under i.mu, only if something is left in cutKeys) the keys of the
                                             label not yet deleted are APPENDED to labeledKeys[label]
     InvalidateByLabels   snapshot under i.mu; then name by name, adding up the counts, stopping at the first error *)
From Coq Require Import String.
From Cache Require Import Base GoIR.
From Cache.Generated Require Import Funcs.
Open Scope string_scope.
Open Scope Z_scope.

Definition no_fcmp (op : string) (a b : fterm) : bool := false.

(* ---- AddLabels ---- *)
Definition al_prims : prims := fun f args s =>
  match f, args with
  | "i.mu.Lock", [] => Some (VNil, emit "Lock" [] s)
  | "make", [VStr "type map[string][]string"] => Some (VPtr true "new label map", s)
  | "string", [VPtr true "key"] => Some (VPtr true "string(key)", s)
  | _, _ => None
  end.

Definition al_loop (k v : string) (c : value) (body : list gstmt) (s : st) : option st :=
  match k, v, c, body with
  | "_", "label", VPtr true "labels",
    [GAssign [GLeaf "labeledKeys[label]"] [GCall "append" [GLeaf "labeledKeys[label]"; GId x]]] =>
      match lookup x (env s) with
      | Some ksv => Some (emit "for each label: labeledKeys[label] = append(labeledKeys[label], ks)" [ksv] s)
      | None => None
      end
  | _, _, _, _ => None
  end.

Definition run_add_labels (has_map : bool) : option (list effect) :=
  run al_prims no_fcmp al_loop (fun _ s => Some (eff s)) (fun _ => None) fn_InvalidationIndex_AddLabels
      [VPtr true "i"; VPtr true "cacheName"; VPtr true "key"; VPtr true "labels"]
      [("i.labeledKeysByName[cacheName]", VPtr has_map "label map of the name")] (fun s => Some (eff s)).

Theorem tie_add_labels : forall has_map,
  run_add_labels has_map =
  Some ([("Lock", []); ("defer i.mu.Unlock", [])] ++
        (if has_map then [] else [("assign i.labeledKeysByName[cacheName]", [VPtr true "new label map"])]) ++
        [("for each label: labeledKeys[label] = append(labeledKeys[label], ks)", [VPtr true "string(key)"])])%list.
Proof. intros [|]; reflexivity. Qed.

(* ---- cutKeys: one label ---- *)
Definition ck_prims : prims := fun f args s =>
  match f, args with
  | "delete", [VPtr true "labeledKeys"; VPtr true "label"] => Some (VNil, emit "delete(labeledKeys, label)" [] s)
  | _, _ => None
  end.

Definition cut_body : option (list gstmt) :=
  match gf_body fn_InvalidationIndex_cutKeys with
  | [_; GExprS (GCall "i.mu.Lock" []); GDefer (GCall "i.mu.Unlock" []); GRange "_" "label" (GId "labels") body; GReturn [GId "res"]] => Some body
  | _ => None
  end.

Definition run_cut (already : bool) : option (list effect * bool) :=
  match cut_body with
  | Some body =>
      exec_list ck_prims no_fcmp no_loop
        (fun vs s => match vs with [VStr "continue"] => Some (eff s, true) | _ => None end) (fun _ => None) 40 body
        (mkSt [("label", VPtr true "label"); ("labeledKeys", VPtr true "labeledKeys");
               ("res[label]", VTup [VPtr already "keys"; VB already]); ("labeledKeys[label]", VPtr true "keys of the label")] [] [] [])
        (fun s => Some (eff s, false))
  | None => None
  end.

Theorem tie_cut_keys : forall already,
  run_cut already =
  Some (if already then ([], true)
        else ([("assign res[label]", [VPtr true "keys of the label"]); ("delete(labeledKeys, label)", [])], false)).
Proof. intros [|]; reflexivity. Qed.

(* ---- invalidateByLabels ---- *)
Definition body_of_ibl : option (list gstmt * list gstmt) :=   (* (deferred put-back, outer loop body) *)
  match gf_body fn_InvalidationIndex_invalidateByLabels with
  | [_; _; GDefer (GCall "$closure" [GFunc pb]); _; GRange "_" _ (GId "labels") outer; GReturn [GId "cnt"; GNil]] => Some (pb, outer)
  | _ => None
  end.

Definition outer_parts : option (list gstmt * gstmt) :=       (* (middle loop body, statement after the middle loop) *)
  match body_of_ibl with
  | Some (_, [GRange "_" _ (GLeaf "cutKeys[label]") mid; after]) => Some (mid, after)
  | _ => None
  end.

Definition inner_body : option (list gstmt) :=
  match outer_parts with
  | Some ([_; GRange "_" "d" (GId "deleters") inner; _], _) => Some inner
  | _ => None
  end.

Inductive del_res := DelOk | DelNotFound | DelFail.

Definition dl_prims (r : del_res) : prims := fun f args s =>
  match f, args with
  | "[]byte", [v] => Some (v, s)
  | "d.Delete", [VPtr true "ctx"; VPtr true "k"] =>
      Some (match r with DelOk => VNil | _ => VPtr true "delete error" end, emit "d.Delete(ctx, []byte(k))" [] s)
  | "errors.Is", [VPtr true "delete error"; VStr "missing cache item"] =>
      Some (VB (match r with DelNotFound => true | _ => false end), s)
  | "delete", [VPtr true "cutKeys"; VPtr true "label"] => Some (VNil, emit "delete(cutKeys, label)" [] s)
  | _, _ => None
  end.

(* one deleter: (count afterwards, returned with (cnt, err)?) *)
Definition run_inner (r : del_res) (cnt : Z) : option (Z * bool) :=
  match inner_body with
  | Some body =>
      exec_list (dl_prims r) no_fcmp no_loop
        (fun vs s => match vs with [VZ c; VPtr true "delete error"] => Some (c, true) | _ => None end) (fun _ => None) 40 body
        (mkSt [("ctx", VPtr true "ctx"); ("k'2", VPtr true "k"); ("cnt", VZ cnt)] [] [] [])
        (fun s => match lookup "cnt" (env s) with Some (VZ c) => Some (c, false) | _ => None end)
  | None => None
  end.

Theorem tie_delete_one : forall r cnt,
  run_inner r cnt = Some (match r with DelOk => (cnt + 1, false) | DelNotFound => (cnt, false) | DelFail => (cnt, true) end).
Proof. intros [| |] cnt; reflexivity. Qed.

(* one key: skipped when already deleted; else the loop over the caches, then the key is marked *)
Definition mid_loop (k v : string) (c : value) (body : list gstmt) (s : st) : option st :=
  match k, v, c with
  | "_", "d", VPtr true "deleters" => Some (emit "for each cache: delete" [] s)
  | _, _, _ => None
  end.

Definition run_mid (deleted : bool) : option (list effect * bool) :=
  match outer_parts with
  | Some (mid, _) =>
      exec_list (dl_prims DelOk) no_fcmp mid_loop
        (fun vs s => match vs with [VStr "continue"] => Some (eff s, true) | _ => None end) (fun _ => None) 40 mid
        (mkSt [("deleted[k]", VB deleted); ("deleters", VPtr true "deleters")] [] [] [])
        (fun s => Some (eff s, false))
  | None => None
  end.

Theorem tie_delete_key : forall deleted,
  run_mid deleted =
  Some (if deleted then ([], true) else ([("for each cache: delete", []); ("assign deleted[k]", [VB true])], false)).
Proof. intros [|]; reflexivity. Qed.

(* after the keys of a label: the label leaves the cut (so the put-back will not see it) *)
Definition run_after_label : option (list effect) :=
  match outer_parts with
  | Some (_, after) =>
      exec_list (dl_prims DelOk) no_fcmp no_loop (fun _ _ => None) (fun _ => None) 40 [after]
        (mkSt [("cutKeys", VPtr true "cutKeys"); ("label'2", VPtr true "label")] [] [] []) (fun s => Some (eff s))
  | None => None
  end.

Theorem tie_label_done : run_after_label = Some [("delete(cutKeys, label)", [])].
Proof. reflexivity. Qed.

(* the deferred put-back *)
Definition pb_prims (left : Z) : prims := fun f args s =>
  match f, args with
  | "len", [VPtr true "cutKeys"] => Some (VZ left, s)
  | "len", [VPtr true "keys"] => Some (VZ 0, s)
  | "i.mu.Lock", [] => Some (VNil, emit "Lock" [] s)
  | "make", [VStr "type []string"; VZ 0; VZ 0] => Some (VPtr true "empty list", s)
  | "append", [a; b] => Some (VRec "append" [("to", a); ("what", b)], s)
  | _, _ => None
  end.

(* the two loops of the put-back, recognised by their bodies *)
Definition pb_loop (k v : string) (c : value) (body : list gstmt) (s : st) : option st :=
  match k, v, c, body with
  | "label", "keys", VPtr true "cutKeys",
    [GAssign [GId "unprocessed"] [GCall "make" [GStr "type []string"; GInt 0; GCall "len" [GId "keys"]]];
     GRange "_" "k" (GId "keys") [GIf [] (GUn "!" (GLeaf "deleted[k]")) [GAssign [GId "unprocessed"] [GCall "append" [GId "unprocessed"; GId "k"]]] []];
     GAssign [GLeaf "labeledKeys[label]"] [GCall "append" [GLeaf "labeledKeys[label]"; GId "unprocessed"]]] =>
      Some (emit "for each label left in the cut: labeledKeys[label] = append(labeledKeys[label], its keys not yet deleted...)" [] s)
  | _, _, _, _ => None
  end.

Definition run_put_back (left : Z) : option (list effect) :=
  match body_of_ibl with
  | Some (pb, _) =>
      exec_list (pb_prims left) no_fcmp pb_loop (fun _ _ => None) (fun _ => None) 40 pb
        (mkSt [("cutKeys", VPtr true "cutKeys")] [] [] []) (fun s => Some (eff s))
  | None => None
  end.

Theorem tie_put_back : forall left,
  run_put_back left =
  Some (if 0 <? left
        then [("Lock", []); ("defer i.mu.Unlock", []);
              ("for each label left in the cut: labeledKeys[label] = append(labeledKeys[label], its keys not yet deleted...)", [])]
        else []).
Proof.
  intros left. unfold run_put_back. cbv -[Z.eqb Z.ltb Z.leb Z.add Z.sub Z.mul Z.opp].
  destruct (0 <? left); reflexivity.
Qed.

(* ---- InvalidateByLabels: snapshot under the mutex, then name by name ---- *)
Definition ibl_prims (ok : bool) : prims := fun f args s =>
  match f, args with
  | "i.mu.Lock", [] => Some (VNil, emit "Lock" [] s)
  | "i.mu.Unlock", [] => Some (VNil, emit "Unlock" [] s)
  | "make", [VStr _] => Some (VPtr true "snapshot", s)
  | _, _ => None
  end.

Definition ibl_loop (k v : string) (c : value) (body : list gstmt) (s : st) : option st :=
  match k, v, c, body with
  | "name", "labeledKeys", VPtr true "index",
    [GAssign [GLeaf "labeledKeysByName[name]"] [GId "labeledKeys"]; GAssign [GLeaf "deleters[name]"] [GLeaf "i.deleters[name]"]] =>
      Some (emit "snapshot of the index and of the caches, per name" [] s)
  | _, _, VPtr true "snapshot",
    [GAssign [GId "n"; GId "err"] [GCall "i.invalidateByLabels" [GId "ctx"; GId _; GLeaf "deleters[name]"; GId "labels"]];
     GAssign [GId "cnt"] [GBin "+" (GId "cnt") (GId "n")];
     GIf [] (GBin "!=" (GId "err") GNil) [GReturn [GId "cnt"; GId "err"]] []] =>
      Some (emit "for each name of the snapshot: invalidate, add up, stop at the first error" [] s)
  | _, _, _, _ => None
  end.

Definition run_ibl : option (list effect) :=
  run (ibl_prims true) no_fcmp ibl_loop (fun _ s => Some (eff s)) (fun _ => None) fn_InvalidationIndex_InvalidateByLabels
      [VPtr true "i"; VPtr true "ctx"; VPtr true "labels"] [("i.labeledKeysByName", VPtr true "index")] (fun _ => None).

Theorem tie_invalidate_by_labels :
  run_ibl = Some [("Lock", []); ("snapshot of the index and of the caches, per name", []); ("Unlock", []);
                  ("for each name of the snapshot: invalidate, add up, stop at the first error", [])].
Proof. reflexivity. Qed.

(* ---- AddCache: under the index mutex, the deleter is appended to the deleters of that name (earlier registrations
   under the name are kept: InvalidateByLabels deletes from all of them) ---- *)
Definition ac_prims : prims := fun f args s =>
  match f, args with
  | "i.mu.Lock", [] => Some (VNil, emit "Lock" [] s)
  | "append", [old; VPtr true "deleter"] => Some (VRec "append" [("to", old); ("the", VPtr true "deleter")], s)
  | _, _ => None
  end.

Definition run_add_cache (had : bool) : option (list effect) :=
  run ac_prims no_fcmp no_loop (fun _ s => Some (eff s)) (fun _ => None) fn_InvalidationIndex_AddCache
      [VPtr true "i"; VPtr true "name"; VPtr true "deleter"]
      [("i.deleters[name]", VPtr had "deleters registered under the name")] (fun s => Some (eff s)).

Theorem tie_index_add_cache : forall had,
  run_add_cache had =
  Some [("Lock", []); ("defer i.mu.Unlock", []);
        ("assign i.deleters[name]",
         [VRec "append" [("to", VPtr had "deleters registered under the name"); ("the", VPtr true "deleter")]])].
Proof. intros [|]; reflexivity. Qed.

(* ---- NewInvalidationIndex: deleters given to the constructor are registered under the name "default" (the name
   backends use for their embedded index); with none given nothing is registered ---- *)
Definition ni_prims (n : Z) : prims := fun f args s =>
  match f, args with
  | "make", [VStr ty] => Some (VRec "make" [("type", VStr ty)], s)
  | "len", [VPtr true "deleters"] => Some (VZ n, s)
  | _, _ => None
  end.

Definition run_new_index (n : Z) : option (list value * list effect) :=
  run (ni_prims n) no_fcmp no_loop (fun vs s => Some (vs, eff s)) (fun _ => None) fn_NewInvalidationIndex
      [VPtr true "deleters"] [] (fun _ => None).

Theorem tie_new_index : forall n,
  run_new_index n =
  Some ([VRec "InvalidationIndex"
           [("deleters", VRec "make" [("type", VStr "type map[string][]Deleter")]);
            ("labeledKeysByName", VRec "make" [("type", VStr "type map[string]map[string][]string")])]],
        if 0 <? n then [("assign ds[""default""]", [VPtr true "deleters"])] else []).
Proof.
  intros n. unfold run_new_index. cbv -[Z.eqb Z.ltb Z.leb Z.add Z.sub Z.mul Z.opp].
  destruct (0 <? n); reflexivity.
Qed.
