(* TieInvalidate.v — the source of Invalidator.Invalidate, as translated on this run, is the model's [invalidate]:
   nil Callbacks are refused before the mutex is touched; otherwise the mutex is taken first and released by a
   deferred call, the default interval is filled in, a call inside the interval is refused with an error that
   wraps ErrAlreadyInvalidated, an accepted call stamps lastRun with a fresh clock reading and then runs the
   callbacks (the loop `for _, cb := range i.Callbacks { cb(ctx) }`). *)
From Coq Require Import String.
From Cache Require Import Base Invalidator GoIR.
From Cache.Generated Require Import Funcs.
Open Scope string_scope.
Open Scope Z_scope.

Definition inv_prims (tc ts : Z) (last : option Z) : prims := fun f args s =>
  match f, args with
  | "i.Lock", [] => Some (VNil, emit "lock" [] s)
  | "time.Since", [VStr "lastRun at entry"] => Some (VZ (since tc last), s)
  | "time.Now", [] => Some (VZ ts, s)
  | "fmt.Errorf", [VStr "%w at %s, %s did not pass"; e; _; _] => Some (e, s)    (* %w: the result wraps e *)
  | "i.lastRun.String", [] => Some (VStr "", s)
  | "i.SkipInterval.String", [] => Some (VStr "", s)
  | _, _ => None
  end.

(* the loop over the callbacks: each is called once, in slice order, with the caller's context *)
Definition inv_loop (k v : string) (c : value) (body : list gstmt) (s : st) : option st :=
  match k, v, c, body with
  | "_", "cb", VPtr true "Callbacks", [GExprS (GCall "cb" [GId "ctx"])] => Some (emit "callbacks in order" [] s)
  | _, _, _, _ => None
  end.

Definition no_fcmp (op : string) (a b : fterm) : bool := false.

Definition inv_leaves (s : ist) : list (string * value) :=
  [("i.Callbacks", VPtr (bool_decide (i_cbs s <> None)) "Callbacks"); ("i.SkipInterval", VZ (i_skip s));
   ("i.lastRun", VStr "lastRun at entry")].

(* observation: result, whether the callbacks ran, SkipInterval and lastRun afterwards, and the mutex protocol
   (lock taken first, unlock deferred right after, nothing else) *)
Definition inv_view (s0 : ist) (vs : list value) (s : st) : option (ires * bool * ist * bool) :=
  let res := match vs with
             | [VNil] => Some ROk
             | [VStr "nothing to invalidate"] => Some RNothing
             | [VStr "already invalidated"] => Some RAlready
             | _ => None end in
  let last := match lookup "i.lastRun" (env s) with
              | Some (VZ t) => Some (Some t)
              | Some (VStr "lastRun at entry") => Some (i_last s0)
              | _ => None end in
  let skip := match lookup "i.SkipInterval" (env s) with Some (VZ d) => Some d | _ => None end in
  let names := map fst (eff s) in
  let ran := existsb (String.eqb "callbacks in order") names in
  let locked := match names with
                | [] => true
                | "lock" :: "defer i.Unlock" :: r =>    (* every store and the callbacks come after the lock *)
                    forallb (fun n => String.eqb n "callbacks in order" || String.eqb n "assign i.SkipInterval" || String.eqb n "assign i.lastRun") r
                | _ => false end in
  match res, last, skip with
  | Some r, Some l, Some d => Some (r, ran, mkIst d l (i_cbs s0), locked && (negb (Nat.eqb (length names) 0) || bool_decide (r = RNothing)))
  | _, _, _ => None
  end.

Definition run_invalidate (tc ts : Z) (s : ist) : option (ires * bool * ist * bool) :=
  run (inv_prims tc ts (i_last s)) no_fcmp inv_loop (inv_view s) (fun _ => None) fn_Invalidator_Invalidate
      [VPtr true "i"; VPtr true "ctx"] (inv_leaves s) (fun _ => None).

Theorem tie_invalidate : forall tc ts s,
  run_invalidate tc ts s =
  let '(r, ran, s') := invalidate tc ts s in
  Some (r, bool_decide (r = ROk), s', true).
Proof.
  intros tc ts [skip last [cbs|]]; unfold run_invalidate, invalidate, eff_skip;
    cbn [i_skip i_last i_cbs]; [|reflexivity].
  cbv -[Z.eqb Z.ltb Z.leb Z.add Z.sub Z.mul Z.opp since];
    repeat match goal with
           | |- context [if (if ?c then _ else _) then _ else _] => let H := fresh "Hb" in destruct c eqn:H
           | |- context [if ?b then _ else _] => let H := fresh "Hb" in destruct b eqn:H
           end; try reflexivity; try (exfalso; lia).
Qed.
