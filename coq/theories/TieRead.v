(* TieRead.v — the source of Trait.PrepareRead / TraitOf.PrepareRead (as translated on this run into
   Generated/Funcs.v) computes what Backend.v's b_read assumes: for EVERY entry, instant, eviction strategy and
   presence of logger / stats tracker. *)
From Coq Require Import String.
From Cache Require Import Base Backend GoIR.
From Cache.Generated Require Import Funcs.
Open Scope string_scope.
Open Scope Z_scope.

Definition strategy_code (s : strategy) : Z := match s with MostExpired => 0 | LRU => 1 | LFU => 2 end.

(* primitives of the read path *)
Definition read_prims (rc : string) (now : Z) : prims := fun f args s =>
  if String.eqb f (rc ++ ".Stat.Add")
  then match args with
       | [_; VStr m; VF (FConst 1 1); VStr "name"; _] => Some (VNil, emit "stat" [VStr m] s)
       | _ => None
       end
  else if String.eqb f (rc ++ ".Log.logDebug") then Some (VNil, s)
  else
  match f, args with
  | "ts", [v] => Some (v, s)
  | "time.Now", [] => Some (VZ now, emit "time.Now" [] s)
  | "atomic.LoadInt64", [VRef p] => match lookup p (env s) with Some v => Some (v, s) | None => None end
  | "atomic.StoreInt64", [VRef p; v] => Some (VNil, emit "store" [VStr p; v] (bind p v s))
  | "atomic.AddInt64", [VRef p; VZ d] =>
      match lookup p (env s) with
      | Some (VZ old) => Some (VZ (old + d), emit "store" [VStr p; VZ (old + d)] (bind p (VZ (old + d)) s))
      | _ => None
      end
  | "$zero", [VStr "V"] => Some (VZ 0, s)          (* the zero value of the generic value type *)
  | "$zero", [VStr "error"] => Some (VNil, s)
  | _, _ => None
  end.

Definition no_fcmp (op : string) (a b : fterm) : bool := false.

(* [rc] / [x]: the names the source gives the receiver and the entry parameter (a renaming does not matter) *)
Definition recv_name (f : gfunc) : string := nth 0 (gf_params f) "c".
Definition entry_name (f : gfunc) : string := nth 2 (gf_params f) "cacheEntry".

Definition read_leaves (rc x : string) (c : bcfg) (has_log has_stat : bool) (e : entry) : list (string * value) :=
  [(rc ++ ".Log.logDebug", VPtr has_log "logDebug"); (rc ++ ".Stat", VPtr has_stat "Stat"); (rc ++ ".Config.Name", VStr "name");
   (rc ++ ".Config.EvictionStrategy", VZ (strategy_code (c_strategy c)));
   (x ++ ".E", VZ (eE e)); (x ++ ".C", VZ (eC e)); (x ++ ".V", VZ (eV e))].

(* what a caller can observe of a PrepareRead call: the result in the vocabulary of the model, the entry's
   counter afterwards, the metric events *)
Definition metric_of (m : string) : option metric :=
  if String.eqb m "cache_hit" then Some MHit else if String.eqb m "cache_miss" then Some MMiss
  else if String.eqb m "cache_expired" then Some MExpired else None.

Fixpoint stat_events (l : list effect) : option (list mevent) :=
  match l with
  | [] => Some []
  | ("stat", [VStr m]) :: r =>
      match metric_of m, stat_events r with Some x, Some xs => Some ((x, 1) :: xs) | _, _ => None end
  | _ :: r => stat_events r
  end.

Definition read_view (x : string) (vs : list value) (s : st) : option (bres * Z * list mevent) :=
  match vs with
  | [v; er] =>
      match lookup (x ++ ".C") (env s), lookup (x ++ ".V") (env s), stat_events (eff s) with
      | Some (VZ cnt), Some (VZ held), Some evs =>
          match v, er with
          | VZ x, VNil => Some (RVal x, cnt, evs)
          | _, VStr "missing cache item" => Some (RErr ENotFound, cnt, evs)
          | _, VRec _ [("entry", VPtr true "cacheEntry"); ("expiredAt", VZ at_)] => Some (RErr (EExpired held at_), cnt, evs)
          | _, _ => None
          end
      | _, _, _ => None
      end
  | _ => None
  end.

(* the model's answer for a found entry (b_read, second branch) *)
Definition model_found (c : bcfg) (now : Z) (e : entry) (has_stat : bool) : bres * Z * list mevent :=
  (if expired now e then RErr (EExpired (eV e) (eE e)) else RVal (eV e),
   eC (bump c now e),
   if has_stat then [(if expired now e then MExpired else MHit, 1)] else []).

Definition run_prepare_read (f : gfunc) (generic : bool) (c : bcfg) (now : Z) (has_log has_stat found : bool) (e : entry)
  : option (bres * Z * list mevent) :=
  run (read_prims (recv_name f) now) no_fcmp no_loop (read_view (entry_name f)) (fun _ => None) f
      [VPtr true "c"; VPtr true "ctx"; VPtr found "cacheEntry"; VB found]
      (read_leaves (recv_name f) (entry_name f) c has_log has_stat e) (fun _ => None).

Ltac red_all := cbv -[Z.eqb Z.ltb Z.leb Z.add Z.sub Z.mul Z.opp].
Ltac close_cmp :=
  repeat match goal with
         | |- context [Z.eqb ?a ?b] =>
             let r := eval vm_compute in (Z.eqb a b) in
             match r with true => idtac | false => idtac end; change (Z.eqb a b) with r
         | |- context [Z.ltb ?a ?b] =>
             let r := eval vm_compute in (Z.ltb a b) in
             match r with true => idtac | false => idtac end; change (Z.ltb a b) with r
         | |- context [Z.leb ?a ?b] =>
             let r := eval vm_compute in (Z.leb a b) in
             match r with true => idtac | false => idtac end; change (Z.leb a b) with r
         end.
Ltac split_if :=
  match goal with
  | |- context [if (if ?c then _ else _) then _ else _] => let H := fresh "Hb" in destruct c eqn:H
  | |- context [if ?b then _ else _] => let H := fresh "Hb" in destruct b eqn:H
  end.
Ltac tie_crush :=
  red_all; close_cmp; red_all; repeat (split_if; red_all);
  first [reflexivity | lia | (exfalso; lia) | (f_equal; f_equal; lia)].

Definition model_missing (has_stat : bool) (e : entry) : bres * Z * list mevent :=
  (RErr ENotFound, eC e, if has_stat then [(MMiss, 1)] else []).

(* Trait.PrepareRead (ShardedMap, SyncMap) *)
Theorem tie_prepare_read_found : forall c now has_log has_stat e,
  run_prepare_read fn_Trait_PrepareRead false c now has_log has_stat true e = Some (model_found c now e has_stat).
Proof.
  intros [ttl j strat da cl] now has_log has_stat [k v E C]. unfold run_prepare_read, model_found, expired, bump.
  destruct strat, has_log, has_stat; tie_crush.
Qed.

Theorem tie_prepare_read_missing : forall c now has_log has_stat e,
  run_prepare_read fn_Trait_PrepareRead false c now has_log has_stat false e = Some (model_missing has_stat e).
Proof.
  intros [ttl j strat da cl] now has_log has_stat [k v E C]. unfold run_prepare_read, model_missing.
  destruct strat, has_log, has_stat; tie_crush.
Qed.

(* TraitOf[V].PrepareRead (ShardedMapOf) *)
Theorem tie_prepare_read_of_found : forall c now has_log has_stat e,
  run_prepare_read fn_TraitOf_PrepareRead true c now has_log has_stat true e = Some (model_found c now e has_stat).
Proof.
  intros [ttl j strat da cl] now has_log has_stat [k v E C]. unfold run_prepare_read, model_found, expired, bump.
  destruct strat, has_log, has_stat; tie_crush.
Qed.

Theorem tie_prepare_read_of_missing : forall c now has_log has_stat e,
  run_prepare_read fn_TraitOf_PrepareRead true c now has_log has_stat false e = Some (model_missing has_stat e).
Proof.
  intros [ttl j strat da cl] now has_log has_stat [k v E C]. unfold run_prepare_read, model_missing.
  destruct strat, has_log, has_stat; tie_crush.
Qed.

(* and the model's b_read is exactly these two cases after the lookup *)
Theorem b_read_is_prepare_read : forall hash c s k now,
  b_read hash c s k false now =
  match find hash (data s) k with
  | None => (s, RErr ENotFound, [(MMiss, 1)])
  | Some e => let '(r, cnt, ev) := model_found c now e true in
              (mkB (<[hash k := mkEntry (eK e) (eV e) (eE e) cnt]> (data s)) (expset s), r, ev)
  end.
Proof.
  intros. unfold b_read, model_found. destruct (find hash (data s) k) as [e|]; [|reflexivity].
  assert (bump c now e = mkEntry (eK e) (eV e) (eE e) (eC (bump c now e))) as Hb
    by (unfold bump; destruct (c_strategy c), e; reflexivity).
  rewrite <- Hb. destruct (expired now e); reflexivity.
Qed.
