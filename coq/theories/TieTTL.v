(* TieTTL.v — the source of Trait.TTL, Trait.expireAt (trait.go) and of WithTTL / TTL (context.go), as translated
   on this run, computes what the models assume (Backend.trait_ttl / expire_at, Failover.upd_cell): for every
   configuration, context TTL, instant, jitter draw and cell content. *)
From Coq Require Import String.
From Cache Require Import Base Backend Failover GoIR.
From Cache.Generated Require Import Funcs.
Open Scope string_scope.
Open Scope Z_scope.

Section TraitTTL.
  Context (ftrunc : fterm -> Z).     (* time.Duration(float64): the float-to-integer conversion, an oracle *)

  (* the jitter term exactly as the source computes it: Duration(float64(ttl) * ExpirationJitter * (rand.Float64() - 0.5)) *)
  Definition jitter_formula (t0 : Z) : Z :=
    ftrunc (FBin "*" (FBin "*" (FOfZ t0) (FSym "ExpirationJitter")) (FBin "-" (FSym "rand.Float64()") (FConst 1 2))).

  Definition ttl_prims (ctx_ttl : Z) : prims := fun f args s =>
    match f, args with
    | "TTL", [_] => Some (VZ ctx_ttl, s)
    | "float64", [VZ z] => Some (VF (FOfZ z), s)
    | "rand.Float64", [] => Some (VF (FSym "rand.Float64()"), emit "rand" [] s)
    | "time.Duration", [VF f] => Some (VZ (ftrunc f), s)
    | "atomic.AddInt64", [VRef "c.expirationsSet"; VZ d] => Some (VNil, emit "expset" [VZ d] s)
    | _, _ => None
    end.

  (* ExpirationJitter > 0 after defaulting is the model's c_jitter *)
  Definition ttl_fcmp (c : bcfg) (op : string) (a b : fterm) : bool :=
    match op, a, b with
    | ">", FSym "ExpirationJitter", FConst 0 1 => c_jitter c
    | _, _, _ => false
    end.

  Definition ttl_leaves (c : bcfg) : list (string * value) :=
    [("c.Config.TimeToLive", VZ (eff_ttl c)); ("c.Config.ExpirationJitter", VF (FSym "ExpirationJitter"))].

  Fixpoint expset_total (l : list effect) : option Z :=
    match l with
    | [] => Some 0
    | ("expset", [VZ d]) :: r => match expset_total r with Some t => Some (d + t) | None => None end
    | ("rand", []) :: r => expset_total r
    | _ => None
    end.

  Definition ttl_view (vs : list value) (s : st) : option (Z * Z) :=
    match vs, expset_total (eff s) with
    | [VZ ttl], Some inc => Some (ttl, inc)
    | _, _ => None
    end.

  Definition run_trait_ttl (c : bcfg) (ctx_ttl : Z) : option (Z * Z) :=
    run (ttl_prims ctx_ttl) (ttl_fcmp c) no_loop ttl_view (fun _ => None) fn_Trait_TTL
        [VPtr true "c"; VPtr true "ctx"] (ttl_leaves c) (fun _ => None).

  (* the TTL the source computes, and the increments of expirationsSet it performs, are the model's — with the
     jitter term being the stated formula of the base TTL *)
  Theorem tie_trait_ttl : forall c ctx_ttl,
    run_trait_ttl c ctx_ttl =
    Some (trait_ttl c ctx_ttl (jitter_formula (if ctx_ttl =? 0 then eff_ttl c else ctx_ttl))).
  Proof.
    intros [ttl j strat da cl] ctx_ttl. unfold run_trait_ttl, trait_ttl, jitter_formula, eff_ttl, unlimited.
    cbn [c_ttl c_jitter].
    destruct j; cbv -[Z.eqb Z.ltb Z.leb Z.add Z.sub Z.mul Z.opp];
      repeat match goal with
             | |- context [if (if ?c then _ else _) then _ else _] => let H := fresh "Hb" in destruct c eqn:H
             | |- context [if ?b then _ else _] => let H := fresh "Hb" in destruct b eqn:H
             end; try reflexivity; try lia; try (exfalso; lia).
  Qed.
End TraitTTL.

(* Trait.expireAt: (ttl, 0) -> (0, 0); otherwise the instant is now + ttl *)
Definition expire_prims (ttl now : Z) : prims := fun f args s =>
  match f, args with
  | "c.TTL", [_] => Some (VZ ttl, s)
  | "time.Now().Add", [VZ d] => Some (VZ (now + d), s)
  | "ts", [v] => Some (v, s)
  | _, _ => None
  end.

Definition no_fcmp (op : string) (a b : fterm) : bool := false.

Definition run_expire_at (ttl now : Z) : option (Z * Z) :=
  run (expire_prims ttl now) no_fcmp no_loop (fun vs _ => match vs with [VZ a; VZ b] => Some (a, b) | _ => None end) (fun _ => None)
      fn_Trait_expireAt [VPtr true "c"; VPtr true "ctx"] [] (fun _ => None).

Theorem tie_expire_at : forall ttl now, run_expire_at ttl now = Some (ttl, expire_at now ttl).
Proof.
  intros. unfold run_expire_at, expire_at.
  cbv -[Z.eqb Z.ltb Z.leb Z.add Z.sub Z.mul Z.opp].
  destruct (ttl =? 0) eqn:E; [|reflexivity]. f_equal. f_equal. lia.
Qed.

(* ---- context.go: WithTTL and TTL ---- *)

(* the context either carries a TTL cell (holding [old]) or not *)
Definition ctx_prims (cell : option Z) : prims := fun f args s =>
  match f, args with
  | "ctx.Value", [VRec "ttlCtxKey" []] => Some (VPtr (bool_decide (cell <> None)) "cell", s)
  | "$assert:*time.Duration", [VPtr b n] => Some (VTup [VPtr b n; VB b], s)
  | "context.WithValue", [_; VRec "ttlCtxKey" []; VRef x] =>
      match lookup x (env s) with Some v => Some (VRec "new context" [("cell", v)], s) | None => None end
  | _, _ => None
  end.

(* the names the source gives the pointer it gets out of the context (renaming them does not matter) *)
Definition cell_var (f : gfunc) : string :=
  match gf_body f with
  | GIf [] (GId "updateExisting") [GIf [GAssign [GId x; GId _] _] _ _ _] [] :: _ => x
  | GAssign [GId x; GId _] _ :: _ => x
  | _ => "?"
  end.

Definition ctx_leaves (cell : option Z) : list (string * value) :=
  match cell with
  | Some old => [("*" ++ cell_var fn_WithTTL, VZ old); ("*" ++ cell_var fn_TTL, VZ old)]
  | None => []
  end.

(* observation: the content of the caller's cell afterwards, and the cell of a newly created context if any *)
Definition with_ttl_view (cell : option Z) (vs : list value) (s : st) : option (option Z * option Z) :=
  let after := match cell with
               | Some _ => match lookup ("*" ++ cell_var fn_WithTTL) (env s) with Some (VZ x) => Some x | _ => None end
               | None => None end in
  match vs with
  | [VPtr true "ctx"] => Some (after, None)
  | [VRec "new context" [("cell", VZ x)]] => Some (after, Some x)
  | _ => None
  end.

Definition run_with_ttl (cell : option Z) (ttl : Z) (upd : bool) : option (option Z * option Z) :=
  run (ctx_prims cell) no_fcmp no_loop (with_ttl_view cell) (fun _ => None) fn_WithTTL
      [VPtr true "ctx"; VZ ttl; VB upd] (ctx_leaves cell) (fun _ => None).

(* updateExisting on a context with a cell: the cell becomes upd_cell old ttl, the same context is returned;
   otherwise a new context with a cell of its own is created and the caller's cell is left alone *)
Theorem tie_with_ttl : forall cell ttl upd,
  run_with_ttl cell ttl upd =
  Some (match cell with
        | Some old => if upd then (Some (upd_cell old ttl), None) else (Some old, Some ttl)
        | None => (None, Some ttl)
        end).
Proof.
  intros [old|] ttl [|]; unfold run_with_ttl, upd_cell;
    cbv -[Z.eqb Z.ltb Z.leb Z.add Z.sub Z.mul Z.opp];
    repeat match goal with
           | |- context [if (if ?c then _ else _) then _ else _] => let H := fresh "Hb" in destruct c eqn:H
           | |- context [if ?b then _ else _] => let H := fresh "Hb" in destruct b eqn:H
           end; try reflexivity; try lia; try (exfalso; lia).
Qed.

Definition run_ttl (cell : option Z) : option Z :=
  run (ctx_prims cell) no_fcmp no_loop (fun vs _ => match vs with [VZ x] => Some x | _ => None end) (fun _ => None) fn_TTL
      [VPtr true "ctx"] (ctx_leaves cell) (fun _ => None).

Theorem tie_ttl : forall cell, run_ttl cell = Some (cell_ttl cell).
Proof. intros [old|]; reflexivity. Qed.
