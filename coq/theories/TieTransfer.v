(* TieTransfer.v — one iteration of the three Restore loops, as translated from /repo on this run: every record
   is decoded into a variable declared INSIDE the loop (a fresh target per record: gob leaves zero-valued fields
   of the target untouched and reuses the backing array of a byte slice, so a target that survives an iteration
   leaks the previous record's fields and aliases its key — Transfer.v's decode_fresh vs decode_reused), the
   stored pointer is the address of that very variable, the count is incremented once per stored record, a decoding
   error other than io.EOF is returned with the count so far, io.EOF ends the loop.
   Also: DeleteAll removes every entry it iterates over and counts it; Len adds up the shard sizes. *)
From Coq Require Import String.
From Cache Require Import Base GoIR.
From Cache.Generated Require Import Funcs.
Open Scope string_scope.
Open Scope Z_scope.

Definition no_fcmp (op : string) (a b : fterm) : bool := false.

Inductive dec_outcome := DecOk | DecEOF | DecErr.

Definition rs_prims (d : dec_outcome) : prims := fun f args s =>
  match f, args with
  | "$zero", [VStr ty] => Some (VRec "fresh target" [("type", VStr ty)], emit "declare target" [VStr ty] s)
  | "decoder.Decode", [VRef x] =>
      Some (match d with DecOk => VNil | _ => VPtr true "decode error" end, emit "decode into" [VStr x] s)
  | "errors.Is", [VPtr true "decode error"; VPtr true "io.EOF"] => Some (VB (match d with DecEOF => true | _ => false end), s)
  | "xxhash.Sum64", [VPtr true "decoded key"] => Some (VZ 0, s)
  | "string", [v] => Some (v, s)
  | "b.Lock", [] => Some (VNil, emit "Lock" [] s)
  | "b.Unlock", [] => Some (VNil, emit "Unlock" [] s)
  | "c.data.Store", [VPtr true "decoded key"; VRef x] => Some (VNil, emit "store address of" [VStr x] s)
  | _, _ => None
  end.

(* the body of the `for { ... }` loop, and what follows it must be `return n, nil` *)
Fixpoint find_loop (l : list gstmt) : option (list gstmt) :=
  match l with
  | [] => None
  | GWhile (GBool true) body :: [GReturn [GId "n"; GNil]] => Some body
  | _ :: r => find_loop r
  end.

Definition loop_body (f : gfunc) : option (list gstmt) := find_loop (gf_body f).

(* observation of one iteration: the effects, the counter afterwards, and how the iteration ended *)
Inductive iter_end := IterNext | IterBreak | IterReturn (with_count : Z).

Definition run_restore_iter (f : gfunc) (d : dec_outcome) (n : Z) : option (list effect * Z * iter_end) :=
  match loop_body f with
  | Some body =>
      exec_list (rs_prims d) no_fcmp no_loop
        (fun vs s => match vs, lookup "n" (env s) with
                     | [VStr "break"], Some (VZ k) => Some (eff s, k, IterBreak)
                     | [VZ c; VPtr true "decode error"], Some (VZ k) => Some (eff s, k, IterReturn c)
                     | _, _ => None end)
        (fun _ => None) 40 body
        (mkSt [("n", VZ n); ("e.K", VPtr true "decoded key"); ("io.EOF", VPtr true "io.EOF");
               ("c.hashedBuckets[h%shards]", VPtr true "shard")] [] [] [])
        (fun s => match lookup "n" (env s) with Some (VZ k) => Some (eff s, k, IterNext) | _ => None end)
  | None => None
  end.

Definition restore_spec (sharded : bool) (ty : string) (d : dec_outcome) (n : Z) : list effect * Z * iter_end :=
  let pre := [("declare target", [VStr ty]); ("decode into", [VStr "e"])] in
  match d with
  | DecOk =>
      ((pre ++ (if sharded
                then [("Lock", []); ("assign b.data[h]", [VRef "e"]); ("Unlock", [])]
                else [("store address of", [VStr "e"])]))%list, n + 1, IterNext)
  | DecEOF => (pre, n, IterBreak)
  | DecErr => (pre, n, IterReturn n)
  end.

Theorem tie_restore_iteration : forall d n,
  run_restore_iter fn_ShardedMap_Restore d n = Some (restore_spec true "TraitEntry" d n) /\
  run_restore_iter fn_ShardedMapOf_Restore d n = Some (restore_spec true "TraitEntryOf[V]" d n) /\
  run_restore_iter fn_SyncMap_Restore d n = Some (restore_spec false "TraitEntry" d n).
Proof. intros [| |] n; repeat split; reflexivity. Qed.

(* ---- DeleteAll: every key the iteration hands out is deleted and counted once ---- *)
Definition da_prims : prims := fun f args s =>
  match f, args with
  | "delete", [VPtr true "b.data"; VPtr true "iterated hash"] => Some (VNil, emit "delete" [] s)
  | "c.data.Delete", [VPtr true "iterated key"] => Some (VNil, emit "delete" [] s)
  | _, _ => None
  end.

Definition run_delete_all_body (f : gfunc) (cnt : Z) :=
  match first_range 10 (gf_body f) with
  | Some (_, _, body) =>
      exec_list da_prims no_fcmp no_loop (fun _ _ => None) (fun _ => None) 40 body
                (mkSt [("cnt", VZ cnt); ("h", VPtr true "iterated hash"); ("b.data", VPtr true "b.data")] [] [] [])
                (fun s => Some (eff s, lookup "cnt" (env s)))
  | None => None
  end.

Theorem tie_delete_all_sharded : forall cnt,
  run_delete_all_body fn_shardedMap_DeleteAll cnt = Some ([("delete", [])], Some (VZ (cnt + 1))) /\
  run_delete_all_body fn_shardedMapOf_DeleteAll cnt = Some ([("delete", [])], Some (VZ (cnt + 1))).
Proof. intros; split; reflexivity. Qed.

Definition range_cb (l : list gstmt) : option (list gstmt) :=
  match l with
  | [_; _; GExprS (GCall "c.data.Range" [GFunc body]); _] => Some body
  | [_; GExprS (GCall "c.data.Range" [GFunc body]); _] => Some body
  | _ => None
  end.

Definition run_sync_cb (f : gfunc) (cnt : Z) :=
  match range_cb (gf_body f) with
  | Some body =>
      exec_list da_prims no_fcmp no_loop
                (fun vs s => match vs with [VB continue] => Some (eff s, lookup "cnt" (env s), continue) | _ => None end)
                (fun _ => None) 40 body
                (mkSt [("cnt", VZ cnt); ("key", VPtr true "iterated key")] [] [] []) (fun _ => None)
  | None => None
  end.

Theorem tie_delete_all_sync : forall cnt,
  run_sync_cb fn_syncMap_DeleteAll cnt = Some ([("delete", [])], Some (VZ (cnt + 1)), true).
Proof. intros; reflexivity. Qed.

(* ---- Len: SyncMap counts one per entry Range hands out; the sharded maps add len(b.data) per shard ---- *)
Theorem tie_len_sync : forall cnt, run_sync_cb fn_syncMap_Len cnt = Some ([], Some (VZ (cnt + 1)), true).
Proof. intros; reflexivity. Qed.

Definition len_prims (sz : Z) : prims := fun f args s =>
  match f, args with
  | "len", [VPtr true "b.data"] => Some (VZ sz, s)
  | "b.RLock", [] => Some (VNil, emit "RLock" [] s)
  | "b.RUnlock", [] => Some (VNil, emit "RUnlock" [] s)
  | _, _ => None
  end.

Definition run_len_body (f : gfunc) (cnt sz : Z) :=
  match first_range 10 (gf_body f) with
  | Some (_, _, body) =>
      exec_list (len_prims sz) no_fcmp no_loop (fun _ _ => None) (fun _ => None) 40 body
                (mkSt [("cnt", VZ cnt); ("c.hashedBuckets[i]", VPtr true "shard"); ("b.data", VPtr true "b.data")] [] [] [])
                (fun s => Some (eff s, lookup "cnt" (env s)))
  | None => None
  end.

Theorem tie_len_sharded : forall cnt sz,
  run_len_body fn_shardedMap_Len cnt sz = Some ([("RLock", []); ("RUnlock", [])], Some (VZ (cnt + sz))) /\
  run_len_body fn_shardedMapOf_Len cnt sz = Some ([("RLock", []); ("RUnlock", [])], Some (VZ (cnt + sz))).
Proof. intros; split; reflexivity. Qed.
