(* TieWalk.v — one visit of Walk, and Dump, as translated from /repo on this run: the sharded Walk releases the
   shard's read lock around the callback and re-acquires it afterwards; the callback receives a COPY of the entry
   (K, V, and E, C loaded atomically); an error of the callback ends the walk with the count so far (the lock is not
   held at that point), otherwise the visit is counted once.  Dump is Walk with gob's Encode as the callback. *)
From Coq Require Import String.
From Cache Require Import Base GoIR.
From Cache.Generated Require Import Funcs.
Open Scope string_scope.
Open Scope Z_scope.

Definition no_fcmp (op : string) (a b : fterm) : bool := false.

(* [x]: the name the source gives the visited entry (the range variable, or the variable the Range callback asserts
   its argument into): a renaming of it does not matter *)
Definition wk_prims (x : string) (cb_ok : bool) (e c : Z) : prims := fun f args s =>
  match f, args with
  | "b.RLock", [] => Some (VNil, emit "RLock" [] s)
  | "b.RUnlock", [] => Some (VNil, emit "RUnlock" [] s)
  | "atomic.LoadInt64", [VRef p] =>
      if String.eqb p (x ++ ".E") then Some (VZ e, s) else if String.eqb p (x ++ ".C") then Some (VZ c, s) else None
  | "walkFn", [x] => Some (if cb_ok then VNil else VPtr true "callback error", emit "callback" [x] s)
  | "$assert:*TraitEntry", [v] => Some (v, s)
  | _, _ => None
  end.

Definition visit_body (f : gfunc) : option (string * list gstmt) :=
  match first_range 10 (gf_body f) with Some (_, v, body) => Some (v, body) | None => None end.

Inductive visit_end := VisitNext | VisitStop (count : Z).

Definition run_visit (f : gfunc) (cb_ok : bool) (e c n : Z) : option (list effect * Z * visit_end) :=
  match visit_body f with
  | Some (x, body) =>
      exec_list (wk_prims x cb_ok e c) no_fcmp no_loop
        (fun vs s => match vs, lookup "n" (env s) with
                     | [VZ k; VPtr true "callback error"], Some (VZ m) => Some (eff s, m, VisitStop k)
                     | _, _ => None end) (fun _ => None) 40 body
        (mkSt [("n", VZ n); (x ++ ".K", VPtr true "key of the entry"); (x ++ ".V", VPtr true "value of the entry")] [] [] [])
        (fun s => match lookup "n" (env s) with Some (VZ m) => Some (eff s, m, VisitNext) | _ => None end)
  | None => None
  end.

Definition copy_of (ty : string) (e c : Z) : value :=
  VRec ty [("K", VPtr true "key of the entry"); ("V", VPtr true "value of the entry"); ("E", VZ e); ("C", VZ c)].

Theorem tie_walk_visit_sharded : forall cb_ok e c n,
  run_visit fn_shardedMap_Walk cb_ok e c n =
    Some (if cb_ok then ([("RUnlock", []); ("callback", [copy_of "TraitEntry" e c]); ("RLock", [])], n + 1, VisitNext)
          else ([("RUnlock", []); ("callback", [copy_of "TraitEntry" e c])], n, VisitStop n)) /\
  run_visit fn_shardedMapOf_Walk cb_ok e c n =
    Some (if cb_ok then ([("RUnlock", []); ("callback", [copy_of "TraitEntryOf[V]" e c]); ("RLock", [])], n + 1, VisitNext)
          else ([("RUnlock", []); ("callback", [copy_of "TraitEntryOf[V]" e c])], n, VisitStop n)).
Proof. intros [|] e c n; split; reflexivity. Qed.

(* SyncMap.Walk: the callback handed to Range *)
Definition sync_visit : option (string * list gstmt) :=
  match gf_body fn_syncMap_Walk with
  | [_; _; GExprS (GCall "c.data.Range" [GFunc (GAssign [GId x] a :: rest)]); GReturn [GId "n"; GId "lastErr"]] =>
      Some (x, GAssign [GId x] a :: rest)
  | _ => None
  end.

Definition run_sync_visit (cb_ok : bool) (e c n : Z) : option (list effect * Z * bool * bool) :=
  match sync_visit with
  | Some (x, body) =>
      exec_list (wk_prims x cb_ok e c) no_fcmp no_loop
        (fun vs s => match vs, lookup "n" (env s), lookup "lastErr" (env s) with
                     | [VB continue], Some (VZ m), Some le => Some (eff s, m, continue, match le with VNil => false | _ => true end)
                     | _, _, _ => None end) (fun _ => None) 40 body
        (mkSt [("n", VZ n); ("lastErr", VNil); ("value", VPtr true "entry"); (x ++ ".K", VPtr true "key of the entry");
               (x ++ ".V", VPtr true "value of the entry")] [] [] []) (fun _ => None)
  | None => None
  end.

(* (effects, count, continue?, error recorded?) *)
Theorem tie_walk_visit_sync : forall cb_ok e c n,
  run_sync_visit cb_ok e c n =
  Some ([("callback", [copy_of "TraitEntry" e c])], (if cb_ok then n + 1 else n), cb_ok, negb cb_ok).
Proof. intros [|] e c n; reflexivity. Qed.

(* Dump = Walk(func(e) { return encoder.Encode(e) }) *)
Definition is_dump (f : gfunc) : bool :=
  match gf_body f with
  | [GAssign [GId "encoder"] [GCall "gob.NewEncoder" [GId "w"]];
     GReturn [GCall "c.Walk" [GFunc [GReturn [GCall "encoder.Encode" [GLeaf "e"]]]]]] => true
  | _ => false
  end.

Theorem tie_dump : is_dump fn_ShardedMap_Dump = true /\ is_dump fn_ShardedMapOf_Dump = true /\ is_dump fn_SyncMap_Dump = true.
Proof. repeat split; reflexivity. Qed.

(* the legacy (untyped) walker of a ShardedMapOf, used by its WalkDumpRestorer for HTTP transfer: the same visit
   discipline, the callback receives an untyped TraitEntry copy with K, V and the atomically loaded E *)
Theorem tie_walk_visit_legacy : forall cb_ok e c n,
  let copy := VRec "TraitEntry" [("K", VPtr true "key of the entry"); ("V", VPtr true "value of the entry"); ("E", VZ e)] in
  run_visit fn_shardedMapLegacyWalkerOf_Walk cb_ok e c n =
    Some (if cb_ok then ([("RUnlock", []); ("callback", [copy]); ("RLock", [])], n + 1, VisitNext)
          else ([("RUnlock", []); ("callback", [copy])], n, VisitStop n)).
Proof. intros [|] e c n; reflexivity. Qed.

(* ShardedMapOf.WalkDumpRestorer: dumps and restores go to the cache itself, walks to the legacy walker over the
   same shards *)
Definition run_wdr : option (list effect * option value) :=
  run (fun f args s => match f, args with
                       | "shardedMapLegacyWalkerOf[V]", [v] => Some (VRec "legacy walker over" [("shards of", v)], s)
                       | "$zero", [VStr _] => Some (VNil, s)
                       | _, _ => None end)
      no_fcmp no_loop (fun _ s => Some (eff s, lookup "lc" (env s))) (fun _ => None) fn_ShardedMapOf_WalkDumpRestorer
      [VPtr true "c"] [("*c", VPtr true "*c")] (fun _ => None).

Theorem tie_walk_dump_restorer :
  run_wdr = Some ([("assign w.Dumper", [VPtr true "c"]); ("assign w.Walker", [VRef "lc"]); ("assign w.Restorer", [VPtr true "c"])],
                  Some (VRec "legacy walker over" [("shards of", VPtr true "*c")])).
Proof. reflexivity. Qed.
