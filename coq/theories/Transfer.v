(* Transfer.v — Dump / Restore (sharded_map.go:260-305, sharded_map_go1.18.go:318-363,
   sync_map.go:184-225) and the HTTP transfer gate (http.go:110-290).

   Dump = Walk + gob Encode of every entry, in the source's iteration order (an input).
   encoding/gob transmits a struct field only when it is not the zero value, and Decode leaves
   the destination field untouched when the field is absent from the stream. With a fresh
   destination per record ([var e TraitEntry] inside the loop) decoding inverts encoding; with a
   destination reused across records it does not. Restore inserts each decoded entry under the hash
   of its own key without comparing keys. *)
From Cache Require Import Base Backend.

Record wire := mkWire { wK : option key; wV : option val; wE : option Z; wC : option Z }.

Definition encode (e : entry) : wire :=
  mkWire (match eK e with [] => None | k => Some k end)
         (if eV e =? 0 then None else Some (eV e))
         (if eE e =? 0 then None else Some (eE e))
         (if eC e =? 0 then None else Some (eC e)).

Definition decode_into (d : entry) (w : wire) : entry :=
  mkEntry (default (eK d) (wK w)) (default (eV d) (wV w)) (default (eE d) (wE w)) (default (eC d) (wC w)).

Definition zero_entry : entry := mkEntry [] 0 0 0.

Definition dump (order : list entry) : list wire := map encode order.

Definition ins (hash : key -> N) (m : gmap N entry) (e : entry) : gmap N entry := <[hash (eK e) := e]> m.

(* Restore as written after the repair (fresh destination per record) *)
Definition restore (hash : key -> N) (m : gmap N entry) (ws : list wire) : gmap N entry * nat :=
  (fold_left (fun m w => ins hash m (decode_into zero_entry w)) ws m, length ws).

(* Restore with one destination variable reused for every record (SyncMap.Restore before the repair;
   the aliasing of the key's backing array is not modelled, the field inheritance is) *)
Fixpoint restore_reused (hash : key -> N) (m : gmap N entry) (d : entry) (ws : list wire) : gmap N entry :=
  match ws with
  | [] => m
  | w :: r => let e := decode_into d w in restore_reused hash (ins hash m e) e r
  end.

Definition restore_entries (hash : key -> N) (m : gmap N entry) (l : list entry) : gmap N entry :=
  fold_left (ins hash) l m.

(* ---- HTTP transfer: which caches receive what ---- *)
Definition cname := N.

(* exporter: named caches (their Walk order), importer: named caches; hashes of registered gob types *)
Definition http_import (hash : key -> N)
           (exporter : gmap cname (list entry)) (hash_e : N)
           (importer : gmap cname (gmap N entry)) (hash_i : N) : gmap cname (gmap N entry) :=
  map_imap (fun name m =>
    match exporter !! name with
    | Some order => if (hash_i =? hash_e)%N then Some (restore hash m (dump order)).1 else Some m
    | None => Some m
    end) importer.

(* a body cut after [n] whole records (a cut inside a record makes gob fail at that record) *)
Definition restore_truncated (hash : key -> N) (m : gmap N entry) (ws : list wire) (n : nat) : gmap N entry * nat :=
  restore hash m (take n ws).

(* ---- gob types hash (gob.go): XOR of per-type fingerprints, each type counted once ---- *)
Section TypesHash.
  Context {T : Type} `{EqDecision T} (fp : T -> N).
  (* state: (hash, registered types) *)
  Definition reg1 (st : N * list T) (t : T) : N * list T :=
    if decide (t ∈ st.2) then st else (N.lxor st.1 (fp t), t :: st.2).
  Definition register (st : N * list T) (ts : list T) : N * list T := fold_left reg1 ts st.
  Definition st0 : N * list T := (0%N, []).
End TypesHash.
