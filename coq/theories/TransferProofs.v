From Cache Require Import Base Backend Spec BackendProofs Transfer.

Lemma decode_fresh e : decode_into zero_entry (encode e) = e.
Proof.
  destruct e as [k v x c]. unfold decode_into, encode; cbn. f_equal.
  - destruct k; reflexivity.
  - destruct (v =? 0) eqn:E; cbn; lia.
  - destruct (x =? 0) eqn:E; cbn; lia.
  - destruct (c =? 0) eqn:E; cbn; lia.
Qed.

Lemma restore_dump hash m order :
  restore hash m (dump order) = (restore_entries hash m order, length order).
Proof.
  unfold restore, dump, restore_entries. rewrite map_length. f_equal.
  revert m. induction order as [|e l IH]; intros m; cbn; [reflexivity|].
  rewrite decode_fresh. apply IH.
Qed.

(* lookup in the restored map *)
Lemma restore_entries_lookup hash l : forall m h e,
  NoDup (map (fun e => hash (eK e)) l) ->
  restore_entries hash m l !! h = Some e <->
  (e ∈ l /\ h = hash (eK e)) \/ (m !! h = Some e /\ forall e', e' ∈ l -> hash (eK e') <> h).
Proof.
  induction l as [|a l IH]; intros m h e Hnd; cbn.
  - split; [intros H; right; split; [exact H|intros ? Hin; inversion Hin]|intros [[Hin _]|[H _]]; [inversion Hin|exact H]].
  - apply NoDup_cons in Hnd as [Hni Hnd]. unfold restore_entries in *. cbn. rewrite (IH _ _ _ Hnd).
    unfold ins. split.
    + intros [[Hin Hh]|[Hl Hall]].
      * left. split; [right; exact Hin|exact Hh].
      * destruct (decide (h = hash (eK a))) as [->|Hne].
        -- rewrite lookup_insert in Hl. injection Hl as <-. left. split; [left|reflexivity].
        -- rewrite lookup_insert_ne in Hl by congruence. right. split; [exact Hl|].
           intros e' Hin. apply elem_of_cons in Hin as [->|Hin]; [congruence|auto].
    + intros [[Hin Hh]|[Hl Hall]].
      * apply elem_of_cons in Hin as [->|Hin].
        -- right. subst h. rewrite lookup_insert. split; [reflexivity|].
           intros e' Hin Heq. apply Hni. rewrite <- Heq. apply elem_of_list_In, in_map_iff.
           exists e'. split; [reflexivity|apply elem_of_list_In, Hin].
        -- left. auto.
      * right. split.
        -- rewrite lookup_insert_ne; [exact Hl|]. apply Hall. left.
        -- intros e' Hin. apply Hall. right. exact Hin.
Qed.

(* source discipline: every entry sits in the slot of its own key (an invariant of the backends) *)
Definition slots_ok (hash : key -> N) (m : gmap N entry) : Prop :=
  forall h e, m !! h = Some e -> hash (eK e) = h.

Definition keys_of (m : gmap N entry) : list key := map eK (map_to_list m).*2.

Lemma values_nodup_keys hash m : slots_ok hash m -> NoDup (keys_of m).
Proof.
  intros Hs. unfold keys_of.
  assert (Hnd : NoDup ((map_to_list m).*2)).
  { apply NoDup_fmap_2_strong; [|apply NoDup_map_to_list].
    intros [h1 e1] [h2 e2] H1 H2 Heq. cbn in Heq. subst e2.
    apply elem_of_map_to_list in H1, H2. rewrite <- (Hs _ _ H1), <- (Hs _ _ H2). reflexivity. }
  apply (NoDup_fmap_2_strong eK); [|exact Hnd].
  intros e1 e2 H1 H2 Heq.
  apply elem_of_list_fmap in H1 as ([h1 e1'] & -> & H1), H2 as ([h2 e2'] & -> & H2). cbn in *.
  apply elem_of_map_to_list in H1, H2.
  assert (h1 = h2) by (rewrite <- (Hs _ _ H1), <- (Hs _ _ H2), Heq; reflexivity). subst. congruence.
Qed.

(* C13 core: dump in any walk order, restore into an empty cache whose hash does not collide on the
   source's keys: every key reads the same entry, the sizes and the reported counts agree *)
Lemma roundtrip hash_s hash_t src order :
  slots_ok hash_s src -> order ≡ₚ (map_to_list src).*2 ->
  collision_free hash_t (keys_of src) ->
  let '(tgt, n) := restore hash_t ∅ (dump order) in
  (forall k, find hash_t tgt k = find hash_s src k) /\
  slots_ok hash_t tgt /\ n = size src /\ size tgt = size src /\
  (map_to_list tgt).*2 ≡ₚ (map_to_list src).*2.
Proof.
  intros Hs Hp Hcf. rewrite restore_dump.
  assert (Hkeys : NoDup (map eK order)).
  { rewrite Hp. apply (values_nodup_keys _ _ Hs). }
  assert (Hin_src : forall e, e ∈ order <-> src !! hash_s (eK e) = Some e).
  { intros e. rewrite Hp. rewrite elem_of_list_fmap. split.
    - intros ([h e'] & -> & Hin). apply elem_of_map_to_list in Hin. cbn. rewrite (Hs _ _ Hin). exact Hin.
    - intros Hl. exists (hash_s (eK e), e). split; [reflexivity|]. apply elem_of_map_to_list. exact Hl. }
  assert (Hk_in : forall e, e ∈ order -> eK e ∈ keys_of src).
  { intros e Hin. unfold keys_of. rewrite <- Hp. apply elem_of_list_In, in_map, elem_of_list_In, Hin. }
  assert (Hnd : NoDup (map (fun e => hash_t (eK e)) order)).
  { rewrite <- (map_map eK hash_t). apply (NoDup_fmap_2_strong hash_t); [|exact Hkeys].
    intros k1 k2 H1 H2 Heq. apply Hcf; auto.
    - apply elem_of_list_fmap in H1 as (e1 & -> & H1). apply Hk_in, H1.
    - apply elem_of_list_fmap in H2 as (e2 & -> & H2). apply Hk_in, H2. }
  pose proof (restore_entries_lookup hash_t order ∅) as Hlk.
  set (tgt := restore_entries hash_t ∅ order) in *.
  assert (Htgt : forall h e, tgt !! h = Some e <-> e ∈ order /\ h = hash_t (eK e)).
  { intros h e. rewrite (Hlk h e Hnd). split; [intros [H|[H _]]; [exact H|rewrite lookup_empty in H; discriminate]|auto]. }
  assert (Hslots : slots_ok hash_t tgt).
  { intros h e Hl. apply Htgt in Hl as [_ ->]. reflexivity. }
  assert (Hwalk : (map_to_list tgt).*2 ≡ₚ order).
  { apply NoDup_Permutation.
    - apply NoDup_fmap_2_strong; [|apply NoDup_map_to_list].
      intros [h1 e1] [h2 e2] H1 H2 Heq. cbn in Heq. subst e2. apply elem_of_map_to_list in H1, H2.
      apply Htgt in H1 as [_ ->], H2 as [_ ->]. reflexivity.
    - eapply NoDup_fmap_1. exact Hkeys.
    - intros e. rewrite elem_of_list_fmap. split.
      + intros ([h e'] & -> & Hin). apply elem_of_map_to_list in Hin. apply Htgt in Hin as [Hin _]. exact Hin.
      + intros Hin. exists (hash_t (eK e), e). split; [reflexivity|]. apply elem_of_map_to_list. apply Htgt. auto. }
  split; [|split; [exact Hslots|split; [|split]]].
  - intros k. destruct (find hash_s src k) as [e|] eqn:Hf.
    + apply find_Some in Hf as [Hl Hk]. apply find_Some. split; [|exact Hk].
      apply Htgt. subst k. split; [apply Hin_src, Hl|reflexivity].
    + destruct (find hash_t tgt k) as [e|] eqn:Hf2; [|reflexivity].
      apply find_Some in Hf2 as [Hl Hk]. apply Htgt in Hl as [Hin _]. apply Hin_src in Hin.
      assert (find hash_s src k = Some e) by (apply find_Some; subst k; auto). congruence.
  - apply Permutation_length in Hp. rewrite Hp, fmap_length. reflexivity.
  - apply Permutation_length in Hwalk, Hp. rewrite !fmap_length in *. unfold size, map_size. congruence.
  - rewrite Hwalk. exact Hp.
Qed.

(* the reused destination variable does not invert the encoding *)
Definition ex_hash (k : key) : N := match k with [] => 0%N | b :: _ => (b + 1)%N end.
Definition ex_list : list entry := [mkEntry [1%N] 5 7 0; mkEntry [2%N] 0 0 0].

Lemma reused_variable_refuted :
  ~ ((map_to_list (restore_reused ex_hash ∅ zero_entry (dump ex_list))).*2 ≡ₚ ex_list).
Proof.
  assert (Hv : (map_to_list (restore_reused ex_hash ∅ zero_entry (dump ex_list))).*2
               = [mkEntry [2%N] 5 7 0; mkEntry [1%N] 5 7 0]) by (vm_compute; reflexivity).
  intros Hp. rewrite Hv in Hp.
  assert (Hin : mkEntry [2%N] 5 7 0 ∈ ex_list) by (rewrite <- Hp; set_solver).
  unfold ex_list in Hin. set_solver.
Qed.

(* ---- HTTP ---- *)
Lemma http_import_spec hash exporter hash_e importer hash_i name m :
  importer !! name = Some m ->
  http_import hash exporter hash_e importer hash_i !! name =
    Some (match exporter !! name with
          | Some order => if (hash_i =? hash_e)%N then (restore hash m (dump order)).1 else m
          | None => m
          end).
Proof.
  intros Hl. unfold http_import. rewrite map_lookup_imap, Hl. cbn.
  destruct (exporter !! name); [destruct (hash_i =? hash_e)%N|]; reflexivity.
Qed.

Lemma http_import_dom hash exporter hash_e importer hash_i name :
  importer !! name = None -> http_import hash exporter hash_e importer hash_i !! name = None.
Proof. intros Hl. unfold http_import. rewrite map_lookup_imap, Hl. reflexivity. Qed.

Lemma truncated_prefix hash m ws n :
  restore_truncated hash m ws n = restore hash m (take n ws).
Proof. reflexivity. Qed.

(* ---- types hash ---- *)
Section TypesHash.
  Context {T : Type} `{EqDecision T} (fp : T -> N).

  Definition xor_all (l : list T) : N := foldr (fun t acc => N.lxor (fp t) acc) 0%N l.

  Definition hinv (st : N * list T) : Prop := NoDup st.2 /\ st.1 = xor_all st.2.

  Lemma reg1_inv st t : hinv st -> hinv (reg1 fp st t).
  Proof.
    intros [Hnd Hx]. unfold reg1. destruct (decide (t ∈ st.2)); [split; assumption|].
    split; cbn; [constructor; assumption|]. rewrite Hx. apply N.lxor_comm.
  Qed.

  Lemma register_inv ts : forall st, hinv st -> hinv (register fp st ts).
  Proof.
    unfold register. induction ts as [|t ts IH]; intros st H; cbn; [exact H|]. apply IH, reg1_inv, H.
  Qed.

  Lemma reg1_elems st t x : x ∈ (reg1 fp st t).2 <-> x = t \/ x ∈ st.2.
  Proof.
    unfold reg1. destruct (decide (t ∈ st.2)); cbn; [|apply elem_of_cons].
    split; [auto|intros [->|?]; assumption].
  Qed.

  Lemma register_elems ts : forall st x, x ∈ (register fp st ts).2 <-> x ∈ ts \/ x ∈ st.2.
  Proof.
    unfold register. induction ts as [|t ts IH]; intros st x; cbn.
    - split; [auto|intros [H|H]; [inversion H|exact H]].
    - rewrite IH, reg1_elems, elem_of_cons. tauto.
  Qed.

  Lemma xor_all_perm l1 l2 : l1 ≡ₚ l2 -> xor_all l1 = xor_all l2.
  Proof.
    induction 1 as [|x l l' _ IH|x y l|l l' l'' _ IH1 _ IH2]; cbn [xor_all foldr].
    - reflexivity.
    - fold (xor_all l) (xor_all l'). rewrite IH. reflexivity.
    - fold (xor_all l). rewrite <- !N.lxor_assoc. f_equal. apply N.lxor_comm.
    - congruence.
  Qed.

  (* the hash depends only on the SET of registered types *)
  Lemma hash_set_determined ts1 ts2 :
    (forall x, x ∈ ts1 <-> x ∈ ts2) ->
    (register fp st0 ts1).1 = (register fp st0 ts2).1.
  Proof.
    intros Hset.
    destruct (register_inv ts1 st0) as [Hn1 Hx1]; [split; [constructor|reflexivity]|].
    destruct (register_inv ts2 st0) as [Hn2 Hx2]; [split; [constructor|reflexivity]|].
    rewrite Hx1, Hx2. apply xor_all_perm. apply NoDup_Permutation; auto.
    intros x. rewrite !register_elems. cbn. specialize (Hset x). set_solver.
  Qed.

  Lemma hash_perm ts1 ts2 : ts1 ≡ₚ ts2 -> (register fp st0 ts1).1 = (register fp st0 ts2).1.
  Proof. intros Hp. apply hash_set_determined. intros x. rewrite Hp. reflexivity. Qed.

  Lemma hash_idem ts : (register fp st0 (ts ++ ts)).1 = (register fp st0 ts).1.
  Proof. apply hash_set_determined. intros x. rewrite elem_of_app. tauto. Qed.

  Lemma hash_changes ts t :
    t ∉ ts -> fp t <> 0%N -> (register fp st0 (ts ++ [t])).1 <> (register fp st0 ts).1.
  Proof.
    intros Hni Hfp. unfold register. rewrite fold_left_app. cbn. fold (register fp st0 ts).
    unfold reg1. destruct (decide (t ∈ (register fp st0 ts).2)) as [Hin|_].
    - apply register_elems in Hin as [Hin|Hin]; [contradiction|inversion Hin].
    - cbn. intros Heq. apply Hfp.
      assert (H : N.lxor (N.lxor (register fp st0 ts).1 (fp t)) (register fp st0 ts).1 = 0%N).
      { rewrite Heq. apply N.lxor_nilpotent. }
      rewrite (N.lxor_comm (register fp st0 ts).1), N.lxor_assoc, N.lxor_nilpotent, N.lxor_0_r in H. exact H.
  Qed.
End TypesHash.
