package harness

import (
	"bytes"
	"context"
	"errors"
	"fmt"
	"io"
	"sort"
	"sync"
	"time"

	"github.com/bool64/cache"
	"github.com/cespare/xxhash/v2"
)

// Flavours of backends.
const (
	FlSharded   = "Sharded"
	FlSyncM     = "SyncM"
	FlShardedOf = "ShardedOf"
)

// Flavours lists all backend flavours.
var Flavours = []string{FlSharded, FlSyncM, FlShardedOf}

// WEntry is an entry as observed through Walk.
type WEntry struct {
	K []byte `json:"k"`
	V int64  `json:"v"`
	E int64  `json:"e"`
	C int64  `json:"c"`
}

// Res is the observable result of a backend operation.
type Res struct {
	Kind string   `json:"kind"` // unit, val, notfound, expired, other, len, walk
	V    int64    `json:"v,omitempty"`
	At   int64    `json:"at,omitempty"`
	Walk []WEntry `json:"walk,omitempty"`
	Msg  string   `json:"msg,omitempty"`
}

// Coq renders a result as a bres term.
func (r Res) Coq() string {
	switch r.Kind {
	case "unit":
		return "RUnit"
	case "val":
		return "(RVal " + Z(r.V) + ")"
	case "notfound":
		return "(RErr ENotFound)"
	case "expired":
		return fmt.Sprintf("(RErr (EExpired %s %s))", Z(r.V), Z(r.At))
	case "len":
		return "(RLen " + Z(r.V) + ")"
	case "walk":
		it := make([]string, len(r.Walk))
		for i, w := range r.Walk {
			it[i] = fmt.Sprintf("(mkEntry %s %s %s %s)", Key(w.K), Z(w.V), Z(w.E), Z(w.C))
		}

		return "(RWalk " + List(it) + ")"
	default:
		return "(RErr (EOther 999))"
	}
}

// Backend is the uniform view of the three backends used by the generators. Values are int64
// tokens: 0 is nil (legacy) or the zero value (generic), n is int(n).
type Backend interface {
	Flavour() string
	Read(ctx context.Context, key []byte) Res
	Write(ctx context.Context, key []byte, v int64) error
	Delete(ctx context.Context, key []byte) Res
	ExpireAll(ctx context.Context)
	DeleteAll(ctx context.Context)
	Len() int
	Walk() Res
	Load(key []byte) (int64, bool)
	Store(key []byte, v int64)
	Dump(w io.Writer) (int, error)
	Restore(r io.Reader) (int, error)
	Cleanup()
	Close()
	Deleter() cache.Deleter
	Index() *cache.InvalidationIndex
	Raw() any
}

// HStruct is a gob-registered struct value used by the transfer generators.
type HStruct struct {
	A int
	B string
	C []int
}

func tokOf(v interface{}) int64 {
	switch x := v.(type) {
	case nil:
		return 0
	case int:
		if x == 0 {
			return -1 // a non-nil interface holding the zero int
		}

		return int64(x)
	case int64:
		return x
	case HStruct:
		if x.B != "x" || len(x.C) != 1 || x.C[0] != x.A {
			return -778
		}

		return int64(x.A)
	default:
		return -777
	}
}

func valOf(t int64) interface{} {
	switch {
	case t == 0:
		return nil
	case t == -1:
		return int(0)
	case t >= 1000:
		return HStruct{A: int(t), B: "x", C: []int{int(t)}}
	}

	return int(t)
}

func readRes(v int64, err error, exp func() (int64, int64, bool)) Res {
	if err == nil {
		return Res{Kind: "val", V: v}
	}

	if ev, at, ok := exp(); ok {
		if !errors.Is(err, cache.ErrExpired) {
			return Res{Kind: "other", Msg: "expired item error that is not ErrExpired"}
		}

		return Res{Kind: "expired", V: ev, At: at}
	}

	if errors.Is(err, cache.ErrNotFound) {
		return Res{Kind: "notfound"}
	}

	return Res{Kind: "other", Msg: err.Error()}
}

func sortWalk(w []WEntry) {
	sort.Slice(w, func(i, j int) bool { return bytes.Compare(w[i].K, w[j].K) < 0 })
}

// ---- legacy (interface{}) backends ----

type legacyRW interface {
	cache.ReadWriter
	cache.Deleter
	cache.WalkDumpRestorer
	ExpireAll(ctx context.Context)
	DeleteAll(ctx context.Context)
	Len() int
}

type legacyBackend struct {
	fl    string
	rw    legacyRW
	load  func(key []byte) (interface{}, bool)
	store func(key []byte, v interface{})
	clean func()
	close func()
	idx   *cache.InvalidationIndex
	raw   any
}

func (b *legacyBackend) Flavour() string { return b.fl }
func (b *legacyBackend) Raw() any        { return b.raw }

func (b *legacyBackend) Read(ctx context.Context, key []byte) Res {
	v, err := b.rw.Read(ctx, key)

	return readRes(tokOf(v), err, func() (int64, int64, bool) {
		var e cache.ErrWithExpiredItem
		if errors.As(err, &e) {
			return tokOf(e.Value()), e.ExpiredAt().UnixNano(), true
		}

		return 0, 0, false
	})
}

func (b *legacyBackend) Write(ctx context.Context, key []byte, v int64) error {
	return b.rw.Write(ctx, key, valOf(v))
}

func delRes(err error) Res {
	switch {
	case err == nil:
		return Res{Kind: "unit"}
	case errors.Is(err, cache.ErrNotFound):
		return Res{Kind: "notfound"}
	default:
		return Res{Kind: "other", Msg: err.Error()}
	}
}

func (b *legacyBackend) Delete(ctx context.Context, key []byte) Res {
	return delRes(b.rw.Delete(ctx, key))
}
func (b *legacyBackend) ExpireAll(ctx context.Context) { b.rw.ExpireAll(ctx) }
func (b *legacyBackend) DeleteAll(ctx context.Context) { b.rw.DeleteAll(ctx) }
func (b *legacyBackend) Len() int                      { return b.rw.Len() }

func (b *legacyBackend) Walk() Res {
	var out []WEntry

	n, err := b.rw.Walk(func(e cache.Entry) error {
		w := WEntry{K: append([]byte{}, e.Key()...), V: tokOf(e.Value()), E: e.ExpireAt().UnixNano()}
		if te, ok := e.(*cache.TraitEntry); ok {
			w.E = te.E
			w.C = te.C
		} else if te, ok := e.(cache.TraitEntry); ok {
			w.E = te.E
			w.C = te.C
		}

		if w.E != e.ExpireAt().UnixNano() && !(w.E == 0 && e.ExpireAt().Unix() == 0) {
			return fmt.Errorf("ExpireAt() disagrees with E: %d vs %d", e.ExpireAt().UnixNano(), w.E)
		}

		out = append(out, w)

		return nil
	})
	if err != nil {
		return Res{Kind: "other", Msg: err.Error()}
	}

	if n != len(out) {
		return Res{Kind: "other", Msg: fmt.Sprintf("walk count %d != %d entries", n, len(out))}
	}

	sortWalk(out)

	return Res{Kind: "walk", Walk: out}
}

func (b *legacyBackend) Load(key []byte) (int64, bool) {
	v, ok := b.load(key)

	return tokOf(v), ok
}

func (b *legacyBackend) Store(key []byte, v int64)        { b.store(key, valOf(v)) }
func (b *legacyBackend) Dump(w io.Writer) (int, error)    { return b.rw.Dump(w) }
func (b *legacyBackend) Restore(r io.Reader) (int, error) { return b.rw.Restore(r) }
func (b *legacyBackend) Cleanup()                         { b.clean() }
func (b *legacyBackend) Close()                           { b.close() }
func (b *legacyBackend) Deleter() cache.Deleter           { return b.rw }
func (b *legacyBackend) Index() *cache.InvalidationIndex  { return b.idx }

// ---- generic backend ----

type genericBackend struct {
	m *cache.ShardedMapOf[int]
}

func (b *genericBackend) Flavour() string { return FlShardedOf }
func (b *genericBackend) Raw() any        { return b.m }

func (b *genericBackend) Read(ctx context.Context, key []byte) Res {
	v, err := b.m.Read(ctx, key)

	return readRes(int64(v), err, func() (int64, int64, bool) {
		var e cache.ErrWithExpiredItemOf[int]
		if errors.As(err, &e) {
			return int64(e.Value()), e.ExpiredAt().UnixNano(), true
		}

		return 0, 0, false
	})
}

func (b *genericBackend) Write(ctx context.Context, key []byte, v int64) error {
	return b.m.Write(ctx, key, int(v))
}

func (b *genericBackend) Delete(ctx context.Context, key []byte) Res {
	return delRes(b.m.Delete(ctx, key))
}
func (b *genericBackend) ExpireAll(ctx context.Context) { b.m.ExpireAll(ctx) }
func (b *genericBackend) DeleteAll(ctx context.Context) { b.m.DeleteAll(ctx) }
func (b *genericBackend) Len() int                      { return b.m.Len() }

func (b *genericBackend) Walk() Res {
	var out []WEntry

	n, err := b.m.Walk(func(e cache.EntryOf[int]) error {
		w := WEntry{K: append([]byte{}, e.Key()...), V: int64(e.Value()), E: e.ExpireAt().UnixNano()}
		if te, ok := e.(*cache.TraitEntryOf[int]); ok {
			w.E = te.E
			w.C = te.C
		} else if te, ok := e.(cache.TraitEntryOf[int]); ok {
			w.E = te.E
			w.C = te.C
		}

		if w.E != e.ExpireAt().UnixNano() && !(w.E == 0 && e.ExpireAt().Unix() == 0) {
			return fmt.Errorf("ExpireAt() disagrees with E: %d vs %d", e.ExpireAt().UnixNano(), w.E)
		}

		out = append(out, w)

		return nil
	})
	if err != nil {
		return Res{Kind: "other", Msg: err.Error()}
	}

	if n != len(out) {
		return Res{Kind: "other", Msg: fmt.Sprintf("walk count %d != %d entries", n, len(out))}
	}

	sortWalk(out)

	return Res{Kind: "walk", Walk: out}
}

func (b *genericBackend) Load(key []byte) (int64, bool) {
	v, ok := b.m.Load(key)

	return int64(v), ok
}

func (b *genericBackend) Store(key []byte, v int64)        { b.m.Store(key, int(v)) }
func (b *genericBackend) Dump(w io.Writer) (int, error)    { return b.m.Dump(w) }
func (b *genericBackend) Restore(r io.Reader) (int, error) { return b.m.Restore(r) }
func (b *genericBackend) Cleanup()                         { b.m.VerifCleanup() }
func (b *genericBackend) Close()                           { b.m.VerifClose() }
func (b *genericBackend) Deleter() cache.Deleter           { return b.m }
func (b *genericBackend) Index() *cache.InvalidationIndex  { return b.m.InvalidationIndex }

// NewBackend creates a backend of the given flavour.
func NewBackend(fl string, cfg cache.Config) Backend {
	switch fl {
	case FlSharded:
		m := cache.NewShardedMap(cfg.Use)

		return &legacyBackend{fl: fl, rw: m, load: m.Load, store: m.Store, clean: m.VerifCleanup, close: m.VerifClose,
			idx: m.InvalidationIndex, raw: m}
	case FlSyncM:
		m := cache.NewSyncMap(cfg.Use)

		return &legacyBackend{fl: fl, rw: m,
			load: func(key []byte) (interface{}, bool) {
				v, err := m.Read(context.Background(), key)

				return v, err == nil
			},
			store: func(key []byte, v interface{}) { _ = m.Write(context.Background(), key, v) },
			clean: m.VerifCleanup, close: m.VerifClose, idx: m.InvalidationIndex, raw: m}
	default:
		return &genericBackend{m: cache.NewShardedMapOf[int](cfg.Use)}
	}
}

// HashOf is the hash the model should use for a key under a flavour: xxhash64 for the sharded
// family, a per-case injective numbering for SyncMap.
type HashTable struct {
	fl   string
	keys [][]byte
}

// NewHashTable creates a table.
func NewHashTable(fl string) *HashTable { return &HashTable{fl: fl} }

// Note registers a key.
func (h *HashTable) Note(k []byte) {
	for _, x := range h.keys {
		if bytes.Equal(x, k) {
			return
		}
	}

	h.keys = append(h.keys, append([]byte{}, k...))
}

// Coq renders the table as list (key * N).
func (h *HashTable) Coq() string {
	it := make([]string, len(h.keys))
	for i, k := range h.keys {
		hv := xxhash.Sum64(k)
		if h.fl == FlSyncM {
			hv = uint64(i + 1)
		}

		it[i] = Tuple(Key(k), N(hv))
	}

	return List(it)
}

// ---- metrics ----

// Stats is a StatsTracker counting increments per (metric, name label).
type Stats struct {
	mu sync.Mutex
	m  map[string]float64
}

// NewStats creates a tracker.
func NewStats() *Stats { return &Stats{m: map[string]float64{}} }

func statKey(metric string, lv []string) string {
	name := ""

	for i := 0; i+1 < len(lv); i += 2 {
		if lv[i] == "name" {
			name = lv[i+1]
		}
	}

	return metric + "@" + name
}

// Add implements StatsTracker.
func (s *Stats) Add(_ context.Context, name string, inc float64, lv ...string) {
	s.mu.Lock()
	s.m[statKey(name, lv)] += inc
	s.mu.Unlock()
}

// Set implements StatsTracker.
func (s *Stats) Set(_ context.Context, name string, v float64, lv ...string) {}

// Get returns a total.
func (s *Stats) Get(metric, name string) int64 {
	s.mu.Lock()
	defer s.mu.Unlock()

	return int64(s.m[metric+"@"+name])
}

// Coq renders the totals of the backend metrics for a name label.
func (s *Stats) Coq(name string) string {
	ms := []string{cache.MetricHit, cache.MetricMiss, cache.MetricExpired, cache.MetricWrite, cache.MetricDelete}
	it := make([]string, len(ms))

	for i, m := range ms {
		it[i] = Z(s.Get(m, name))
	}

	return List(it)
}

var _ = time.Now
