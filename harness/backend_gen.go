package harness

import (
	"bytes"
	"context"
	"fmt"
	"math/rand"
	"testing"
	"testing/synctest"
	"time"

	"github.com/bool64/cache"
)

// BOp is one backend operation with the oracle inputs the model needs.
type BOp struct {
	Kind    string   `json:"kind"`
	K       []byte   `json:"k,omitempty"`
	V       int64    `json:"v,omitempty"`
	TTL     int64    `json:"ttl,omitempty"`
	Now     int64    `json:"now,omitempty"`
	Jit     int64    `json:"jit,omitempty"`
	Skip    bool     `json:"skip,omitempty"`
	Removed [][]byte `json:"removed,omitempty"`
	Sleep   int64    `json:"sleep,omitempty"`
}

// Coq renders the op as a bop term.
func (o BOp) Coq() string {
	switch o.Kind {
	case "write":
		return fmt.Sprintf("(OWrite %s %s %s %s %s)", Key(o.K), Z(o.V), Z(o.TTL), Z(o.Now), Z(o.Jit))
	case "read":
		return fmt.Sprintf("(ORead %s %s %s)", Key(o.K), Bool(o.Skip), Z(o.Now))
	case "delete":
		return fmt.Sprintf("(ODelete %s)", Key(o.K))
	case "expireall":
		return fmt.Sprintf("(OExpireAll %s)", Z(o.Now))
	case "deleteall":
		return "ODeleteAll"
	case "len":
		return "OLen"
	case "walk":
		return "OWalk"
	case "load":
		return fmt.Sprintf("(OLoad %s %s)", Key(o.K), Z(o.Now))
	case "store":
		return fmt.Sprintf("(OStore %s %s %s %s)", Key(o.K), Z(o.V), Z(o.Now), Z(o.Jit))
	case "cleanup":
		it := make([]string, len(o.Removed))
		for i, k := range o.Removed {
			it[i] = Key(k)
		}

		return fmt.Sprintf("(OCleanup %s %s)", Z(o.Now), List(it))
	}

	panic("bad op " + o.Kind)
}

// BConf is a backend configuration in the vocabulary of the model.
type BConf struct {
	TTL        int64   `json:"ttl"`    // as given: 0 default, -1 unlimited
	Jitter     float64 `json:"jitter"` // as given: 0 default 0.1, -1 disabled
	Strategy   int     `json:"strategy"`
	DelAfter   int64   `json:"delAfter"`
	CountLimit uint64  `json:"countLimit"`
	EvictFrac  float64 `json:"evictFrac"`
	EvictNeed  bool    `json:"evictNeeded"`
	HeapLimit  uint64  `json:"heapInUseSoftLimit"` // set far above any possible usage: never exceeded
	SysLimit   uint64  `json:"sysMemSoftLimit"`
	Name       string  `json:"name"`

	JanitorInterval time.Duration `json:"janitorInterval"` // 0 = the janitor never fires on its own
}

// EffJitter returns the effective jitter fraction (0 when disabled).
func (c BConf) EffJitter() float64 {
	switch {
	case c.Jitter == 0:
		return 0.1
	case c.Jitter < 0:
		return 0
	}

	return c.Jitter
}

// Config builds the library configuration.
func (c BConf) Config(st cache.StatsTracker) cache.Config {
	cfg := cache.Config{
		Name: c.Name, Stats: st, TimeToLive: time.Duration(c.TTL), ExpirationJitter: c.Jitter,
		EvictionStrategy: cache.EvictionStrategy(c.Strategy), DeleteExpiredAfter: time.Duration(c.DelAfter),
		CountSoftLimit: c.CountLimit, EvictFraction: c.EvictFrac, HeapInUseSoftLimit: c.HeapLimit, SysMemSoftLimit: c.SysLimit,
		// The janitor and the items counter never fire on their own in the runs (intervals far
		// beyond any sleep); cleanup cycles are driven explicitly.
		DeleteExpiredJobInterval: 1000000 * time.Hour, ItemsCountReportInterval: 1000000 * time.Hour,
	}
	if c.JanitorInterval > 0 {
		cfg.DeleteExpiredJobInterval = c.JanitorInterval
	}

	if c.EvictNeed {
		cfg.EvictionNeeded = func() bool { return true }
	}

	return cfg
}

// Coq renders the configuration as a bcfg term.
func (c BConf) Coq() string {
	st := []string{"MostExpired", "LRU", "LFU"}[c.Strategy]

	return fmt.Sprintf("(mkBcfg %s %s %s %s %s)", Z(c.TTL), Bool(c.EffJitter() > 0), st, Z(c.DelAfter), Z(int64(c.CountLimit)))
}

// JitterMirror predicts the jitter term of every write by mirroring the seeded global math/rand.
type JitterMirror struct {
	r *rand.Rand
	c BConf
}

// NewJitterMirror seeds the global source and its mirror.
func NewJitterMirror(seed int64, c BConf) *JitterMirror {
	rand.Seed(seed) //nolint:staticcheck // deliberate: the library draws from the global source

	return &JitterMirror{r: rand.New(rand.NewSource(seed)), c: c} //nolint:gosec
}

// Next returns the jitter term the library will add for a write with the given context TTL, and the draw.
func (m *JitterMirror) Next(ctxTTL int64) (int64, float64, bool) {
	ttl := time.Duration(ctxTTL)
	if ttl == 0 {
		if m.c.TTL == -1 {
			return 0, 0, false
		}

		ttl = time.Duration(m.c.TTL)
		if ttl == 0 {
			ttl = 5 * time.Minute
		}
	}

	j := m.c.EffJitter()
	if j <= 0 {
		return 0, 0, false
	}

	r := m.r.Float64()

	return int64(time.Duration(float64(ttl) * j * (r - 0.5))), r, true
}

// KeyPool is the key alphabet of a case.
type KeyPool [][]byte

// StdKeys returns the standard alphabet: empty, one byte, prefix pair, binary, 64 bytes.
func StdKeys(rng *rand.Rand, n int) KeyPool {
	long := make([]byte, 64)
	for i := range long {
		long[i] = byte('a' + i%26)
	}

	long2 := append([]byte{}, long...)
	long2[63] = 'Z'
	// keys longer than 64 bytes that share their first 64 / 100 bytes
	longer1 := append(append([]byte{}, long...), []byte("-tail-1")...)
	longer2 := append(append([]byte{}, long...), []byte("-tail-2")...)
	huge1 := append(bytes.Repeat([]byte("0123456789"), 10), 'x')
	huge2 := append(bytes.Repeat([]byte("0123456789"), 10), 'y')
	all := KeyPool{
		{}, {0}, []byte("a"), []byte("ab"), []byte("abc"), {0xff, 0x00, 0x80}, {0x00, 0x00}, long, long2,
		[]byte("key1"), []byte("key2"), []byte("k\n\"q"), longer1, longer2, huge1, huge2, longer1, longer2,
	}

	rng.Shuffle(len(all), func(i, j int) { all[i], all[j] = all[j], all[i] })

	if n > len(all) {
		n = len(all)
	}

	return all[:n]
}

// GenOpts selects what a generated sequence may contain.
type GenOpts struct {
	Kinds          []string // weighted by repetition
	Keys           KeyPool
	NOps           int
	TTLs           []int64 // context TTL choices (0 = none)
	Sleeps         []int64
	Rewrite        bool  // overwrite the key buffer right after every call returns (C09)
	LenBeforeBatch bool  // insert a Len right before ExpireAll / DeleteAll (C18: "entries touched")
	Script         []BOp // when set, the operations to run (Kind, K, V, TTL, Skip, Sleep); Now/Jit are filled in
}

// BRun is the outcome of running a generated sequence.
type BRun struct {
	Ops     []BOp
	Results []Res
	Stats   *Stats
	Hash    *HashTable
}

// RunBackendOps generates and runs a random operation sequence on a fresh backend inside a synctest
// bubble (exact fake clock) and returns what was observed.
func RunBackendOps(t *testing.T, rng *rand.Rand, fl string, conf BConf, g GenOpts) BRun {
	var out BRun

	seed := rng.Int63()
	out.Hash = NewHashTable(fl)

	synctest.Test(t, func(t *testing.T) {
		st := NewStats()
		out.Stats = st
		b := NewBackend(fl, conf.Config(st))

		defer b.Close()

		jm := NewJitterMirror(seed, conf)
		ctx := context.Background()
		nextJanitor := time.Now().UnixNano() + int64(conf.JanitorInterval)

		nops := g.NOps
		if g.Script != nil {
			nops = len(g.Script)
		}

		for i := 0; i < nops; i++ {
			var (
				kind string
				k    []byte
				pre  *BOp
			)

			if g.Script != nil {
				pre = &g.Script[i]
				time.Sleep(time.Duration(pre.Sleep))
				kind, k = pre.Kind, pre.K
			} else {
				if len(g.Sleeps) > 0 {
					time.Sleep(time.Duration(g.Sleeps[rng.Intn(len(g.Sleeps))]))
				}

				kind = g.Kinds[rng.Intn(len(g.Kinds))]
				k = g.Keys[rng.Intn(len(g.Keys))]
			}

			if fl == FlSyncM && (kind == "load" || kind == "store") {
				kind = map[string]string{"load": "read", "store": "write"}[kind]
			}

			if conf.JanitorInterval > 0 {
				// keep track of janitor cycles that fired during sleeps of other operations
				synctest.Wait()

				for nextJanitor <= time.Now().UnixNano() {
					out.Ops = append(out.Ops, BOp{Kind: "cleanup", Now: nextJanitor})
					out.Results = append(out.Results, Res{Kind: "unit"})
					nextJanitor += int64(conf.JanitorInterval)
				}
			}

			buf := append([]byte{}, k...) // the caller's buffer
			op := BOp{Kind: kind, Now: time.Now().UnixNano()}

			var afterWalk *Res

			var res Res

			switch kind {
			case "write":
				op.K, op.V = k, int64(rng.Intn(4))
				if pre != nil {
					op.V, op.TTL = pre.V, pre.TTL
				} else {
					op.TTL = g.TTLs[rng.Intn(len(g.TTLs))]
				}

				op.Jit, _, _ = jm.Next(op.TTL)
				c := ctx

				if op.TTL != 0 {
					c = cache.WithTTL(ctx, time.Duration(op.TTL), false)
				}

				if err := b.Write(c, buf, op.V); err != nil {
					res = Res{Kind: "other", Msg: err.Error()}
				} else {
					res = Res{Kind: "unit"}
				}
			case "read":
				op.K = k
				op.Skip = rng.Intn(8) == 0
				if pre != nil {
					op.Skip = pre.Skip
				}

				c := ctx

				if op.Skip {
					c = cache.WithSkipRead(ctx)
				}

				res = b.Read(c, buf)
			case "delete":
				op.K = k
				res = b.Delete(ctx, buf)
			case "expireall":
				if g.LenBeforeBatch {
					out.Ops = append(out.Ops, BOp{Kind: "len"})
					out.Results = append(out.Results, Res{Kind: "len", V: int64(b.Len())})
				}

				b.ExpireAll(ctx)
				res = Res{Kind: "unit"}
			case "deleteall":
				if g.LenBeforeBatch {
					out.Ops = append(out.Ops, BOp{Kind: "len"})
					out.Results = append(out.Results, Res{Kind: "len", V: int64(b.Len())})
				}

				b.DeleteAll(ctx)
				res = Res{Kind: "unit"}
			case "len":
				res = Res{Kind: "len", V: int64(b.Len())}
			case "walk":
				res = b.Walk()
			case "load":
				op.K = k
				v, ok := b.Load(buf)

				if ok {
					res = Res{Kind: "val", V: v}
				} else {
					// Load cannot tell missing from expired: the model result is projected the same way.
					res = Res{Kind: "loadmiss"}
				}
			case "store":
				op.K, op.V = k, int64(rng.Intn(4))
				if pre != nil {
					op.V = pre.V
				}

				op.Jit, _, _ = jm.Next(0)
				b.Store(buf, op.V)
				res = Res{Kind: "unit"}
			case "cleanup":
				// bracketed by explicit walks: [OWalk; OCleanup; OWalk]
				before := b.Walk()
				out.Ops = append(out.Ops, BOp{Kind: "walk"})
				out.Results = append(out.Results, before)
				b.Cleanup()
				afterWalk = new(Res)
				*afterWalk = b.Walk()
				op.Removed = removedKeys(before, *afterWalk)
				res = Res{Kind: "unit"}
			case "janitor":
				// let the real janitor goroutine run its cycles: sleep across k intervals
				before := b.Walk()
				out.Ops = append(out.Ops, BOp{Kind: "walk"})
				out.Results = append(out.Results, before)

				iv := int64(conf.JanitorInterval)
				cycles := int64(1 + rng.Intn(3))
				start := time.Now().UnixNano()
				last := nextJanitor + (cycles-1)*iv
				time.Sleep(time.Duration(last-start) + time.Duration(rng.Int63n(iv)))
				synctest.Wait()

				nextJanitor = last + iv
				op.Kind = "cleanup"
				op.Now = last
				afterWalk = new(Res)
				*afterWalk = b.Walk()
				op.Removed = removedKeys(before, *afterWalk)
				res = Res{Kind: "unit"}
			}

			if g.Rewrite {
				for j := range buf {
					buf[j] ^= 0x5a
				}
			}

			if op.K != nil || kind == "read" || kind == "write" || kind == "delete" || kind == "load" || kind == "store" {
				out.Hash.Note(k)
			}

			out.Ops = append(out.Ops, op)
			out.Results = append(out.Results, res)

			if afterWalk != nil {
				out.Ops = append(out.Ops, BOp{Kind: "walk"})
				out.Results = append(out.Results, *afterWalk)
			}
		}
	})

	return out
}

func removedKeys(before, after Res) [][]byte {
	have := map[string]bool{}
	for _, w := range after.Walk {
		have[string(w.K)] = true
	}

	var out [][]byte

	for _, w := range before.Walk {
		if !have[string(w.K)] {
			out = append(out, w.K)
		}
	}

	return out
}

// CoqCase renders a run as a BCase term.
func (r BRun) CoqCase(conf BConf) string {
	ops := make([]string, len(r.Ops))
	res := make([]string, len(r.Results))

	for i := range r.Ops {
		ops[i] = r.Ops[i].Coq()

		if r.Results[i].Kind == "loadmiss" {
			res[i] = "(RErr ENotFound)"
		} else {
			res[i] = r.Results[i].Coq()
		}
	}

	return fmt.Sprintf("BCase %s %s %s %s %s", conf.Coq(), r.Hash.Coq(), List(ops), List(res), r.Stats.Coq(conf.Name))
}
