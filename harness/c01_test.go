package harness

import "testing"

func runFailoverProp(t *testing.T, prop, checkFn, rule string, n int, o FOpts) {
	e := LoadEnv(prop)
	cf := NewCaseFile(prop, "From Cache Require Import Base Failover FailoverRun Check.", checkFn)
	cf.Rule = rule

	for i := 0; i < e.Pick(n, 12*n); i++ {
		out := GenFailover(t, e.Rng, o)
		cf.Add(out.Term, out.Tag, out.Replay, out.Nontriv)

		for k, v := range out.PcStats {
			cf.Count("status:"+k, v)
		}
	}

	if prop == "C04" {
		addC04Seq(t, e, cf)
	}

	if err := cf.Write(e); err != nil {
		t.Fatal(err)
	}
}

// TestC01 steers concurrent Gets call-out by call-out and records builder intervals.
func TestC01(t *testing.T) {
	runFailoverProp(t, "C01", "check_c01",
		"steered schedules inside a synctest bubble: 2..6 Gets on 1..3 keys with initial state in {absent, fresh, stale, too stale}, "+
			"random configuration (SyncUpdate, SyncRead, FailHard, MaxStaleness 0/1m, FailedUpdateTTL default/-1/5s, logger/stats on or off, "+
			"Failover over ShardedMap/SyncMap, FailoverOf over ShardedMapOf), builders succeeding or failing (30%); every call-out of the frontend "+
			"(backend Read/Write, builder entry/exit, debug/warn log, stats) is a parking point and the controller releases one parked goroutine "+
			"per step (random walk, new Gets arriving with probability 0.45 per step); callers may cancel their context and overwrite their key buffer right after Get returns; the first two keys are sometimes an xxhash64 collision pair; non-trivial = more than 2 steps per Get and >= 2 Gets; "+
			"distinct = distinct Gallina term",
		260, FOpts{MinGets: 2, MaxGets: 6, Keys: 3, FailRate: 0.3, Hostile: true, Collide: true})
}
