package harness

import (
	"fmt"
	"math/rand"
	"testing"
	"time"
)

var stdKinds = []string{
	"write", "write", "write", "write", "read", "read", "read", "read", "read", "delete", "delete",
	"expireall", "deleteall", "len", "walk", "load", "store",
}

func stdConfs() []BConf {
	return []BConf{
		{TTL: 0, Jitter: -1, Name: "c"},
		{TTL: -1, Jitter: -1, Name: "c"},
		{TTL: int64(time.Hour), Jitter: -1, Name: "c"},
		{TTL: int64(10 * time.Second), Jitter: 0, Name: "c"},
		{TTL: -1, Jitter: 0.5, Name: "c"},
		{TTL: int64(time.Minute), Jitter: -1, Strategy: 1, Name: "c"},
		{TTL: int64(time.Minute), Jitter: -1, Strategy: 2, Name: "c"},
		{TTL: int64(time.Hour), Jitter: -1, DelAfter: int64(time.Minute), Name: "c"}, // short retention: reads long after expiry
	}
}

var (
	stdTTLs   = []int64{0, 0, 0, int64(time.Hour), -int64(time.Hour), int64(time.Second), 1, -1}
	stdSleeps = []int64{0, 0, 1, int64(time.Second), int64(time.Minute), int64(10 * time.Second), int64(2 * time.Hour)}
)

// ttlProfile picks the per-call TTL habit of one sequence: a third of the sequences never pass a TTL (so an
// UnlimitedTTL cache never sees an expiration being set), a third use the standard mix, a third mostly pass one.
func ttlProfile(rng *rand.Rand) []int64 {
	switch rng.Intn(3) {
	case 0:
		return []int64{0}
	case 1:
		return stdTTLs
	}

	return []int64{0, int64(time.Hour), -int64(time.Hour), int64(time.Second), 1, -1, int64(time.Minute), -int64(time.Minute),
		-48 * int64(time.Hour)} // the last one: expired for longer than DeleteExpiredAfter, still retrievable as stale until a cleanup runs
}

// TestC07 runs random operation sequences on the three backends and prints observations.
func TestC07(t *testing.T) {
	e := LoadEnv("C07")
	cf := NewCaseFile("C07", "From Cache Require Import Base Backend Spec Check.", "check_c07")
	cf.Rule = "random sequences of 1..60 ops (Write/Read/Delete/ExpireAll/DeleteAll/Len/Walk/Load/Store, SkipRead 1/8) over 3..8 keys " +
		"from {empty, 1 byte, prefix pairs, binary, 64-byte pair}, 4 values incl. nil/zero, context TTL in {none,+1h,-1h,1s,1ns,-1ns} with a per-sequence habit (never / standard mix / mostly), " +
		"sleeps 0..2h on the fake clock, 8 configs (default/unlimited/finite TTL, jitter off/default/0.5, LRU, LFU, DeleteExpiredAfter 1m) x 3 backends; " +
		"non-trivial = contains a hit, an expired read and a miss/delete; distinct = distinct Gallina term"
	confs := stdConfs()
	n := e.Pick(100, 1500)

	for _, fl := range Flavours {
		for i := 0; i < n; i++ {
			conf := confs[e.Rng.Intn(len(confs))]
			g := GenOpts{
				Kinds: stdKinds, Keys: StdKeys(e.Rng, 3+e.Rng.Intn(6)), NOps: 1 + e.Rng.Intn(60),
				TTLs: ttlProfile(e.Rng), Sleeps: stdSleeps, Rewrite: e.Rng.Intn(2) == 0,
			}
			r := RunBackendOps(t, e.Rng, fl, conf, g)
			kinds := map[string]bool{}

			for j, res := range r.Results {
				kinds[r.Ops[j].Kind+"/"+res.Kind] = true
				cf.Count("op:"+r.Ops[j].Kind+"->"+res.Kind, 1)
			}

			nontriv := kinds["read/val"] && kinds["read/expired"] && (kinds["read/notfound"] || kinds["delete/notfound"])
			cf.Add("("+fl+", "+r.CoqCase(conf)+")", fmt.Sprintf("%s/ttl=%d/j=%v/s=%d", fl, conf.TTL, conf.Jitter, conf.Strategy),
				map[string]any{"flavour": fl, "conf": conf, "ops": r.Ops, "results": r.Results}, nontriv)
		}
	}

	if err := cf.Write(e); err != nil {
		t.Fatal(err)
	}
}
