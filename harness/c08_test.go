package harness

import (
	"context"
	"fmt"
	"math/rand"
	"sort"
	"sync"
	"sync/atomic"
	"testing"
	"testing/synctest"
	"time"

	"github.com/anishathalye/porcupine"
	"github.com/bool64/cache"
	"github.com/cespare/xxhash/v2"
)

// C08: free-running stress of a backend (true parallelism inside a synctest bubble, so the clock is
// frozen at T and every result is a function of the order of the atomic sections alone), histories
// split per slot (hash for the sharded family, key for SyncMap), a linearization searched for by
// porcupine against a transcription of BackendConc.sspec, and the linearization found re-checked
// inside Coq against sspec itself together with the real-time order (check_c08).

type c08Op struct {
	Kind string `json:"kind"` // write read delete expire clear delexp evict visit
	Key  int    `json:"key"`  // index into the key set (-1: batch)
	V    int64  `json:"v,omitempty"`
	E    int64  `json:"e,omitempty"` // write: expiry; read: now; expire: stamp; delexp: boundary
	Call int64  `json:"call"`
	Ret  int64  `json:"ret"`
	// result
	RKind string `json:"rkind"` // unit hit expired notfound entry none
	RKey  int    `json:"rkey,omitempty"`
	RV    int64  `json:"rv,omitempty"`
	RE    int64  `json:"re,omitempty"`
	G     int    `json:"g"`
}

type c08State struct {
	Present bool
	Key     int
	V       int64
	E       int64
	OE      int64 // expiry the entry was written with (only used by the relaxed model of known finding K1)
}

// c08Step is the transcription of BackendConc.sspec. With relaxed=true the cleanup may also remove an
// entry that was long-expired when it was written and has been re-stamped by ExpireAll since: that is
// known finding K1 (SyncMap.deleteExpired decides on an expiry read before a concurrent ExpireAll), used
// only to tell K1 apart from any other failure to linearize.
func c08Step(st c08State, op c08Op, relaxed bool) []c08State {
	unit := op.RKind == "unit"

	switch op.Kind {
	case "write":
		if !unit {
			return nil
		}

		return []c08State{{Present: true, Key: op.Key, V: op.V, E: op.E, OE: op.E}}
	case "read":
		if !st.Present || st.Key != op.Key {
			if op.RKind == "notfound" {
				return []c08State{st}
			}

			return nil
		}

		if st.E != 0 && st.E < op.E {
			if op.RKind == "expired" && op.RV == st.V && op.RE == st.E {
				return []c08State{st}
			}

			return nil
		}

		if op.RKind == "hit" && op.RV == st.V {
			return []c08State{st}
		}

		return nil
	case "delete":
		if st.Present && st.Key == op.Key {
			if unit {
				return []c08State{{}}
			}

			return nil
		}

		if op.RKind == "notfound" {
			return []c08State{st}
		}

		return nil
	case "expire":
		if st.Present {
			st.E = op.E
		}

		return []c08State{st}
	case "clear":
		return []c08State{{}}
	case "delexp":
		if st.Present && st.E != 0 && st.E < op.E {
			return []c08State{{}}
		}

		if relaxed && st.Present && st.OE != 0 && st.OE < op.E {
			return []c08State{st, {}}
		}

		return []c08State{st}
	case "evict":
		if st.Present {
			return []c08State{st, {}}
		}

		return []c08State{st}
	case "visit":
		if op.RKind == "none" {
			if !st.Present {
				return []c08State{st}
			}

			return nil
		}

		if st.Present && st.Key == op.RKey && st.V == op.RV && st.E == op.RE {
			return []c08State{st}
		}

		return nil
	}

	return nil
}

func c08ModelOf(relaxed bool) porcupine.Model {
	nd := porcupine.NondeterministicModel{
		Init: func() []interface{} { return []interface{}{c08State{}} },
		Step: func(state interface{}, input interface{}, output interface{}) []interface{} {
			res := c08Step(state.(c08State), input.(c08Op), relaxed)
			out := make([]interface{}, len(res))

			for i, r := range res {
				out[i] = r
			}

			return out
		},
		Equal: func(a, b interface{}) bool { return a.(c08State) == b.(c08State) },
	}

	return nd.ToModel()
}

var (
	c08Model        = c08ModelOf(false)
	c08ModelRelaxed = c08ModelOf(true)
)

// knownK1 reports whether a history that has no linearization is explained by known finding K1.
func knownK1(flavour string, h []c08Op) bool {
	if flavour != FlSyncM {
		return false
	}

	ops := make([]porcupine.Operation, len(h))
	for i, o := range h {
		ops[i] = porcupine.Operation{ClientId: i, Input: o, Output: nil, Call: o.Call, Return: o.Ret}
	}

	return porcupine.CheckOperationsTimeout(c08ModelRelaxed, ops, 20*time.Second) == porcupine.Ok
}

func (o c08Op) coq(keys [][]byte) string {
	var op, res string

	k := func(i int) string { return Key(keys[i]) }

	switch o.Kind {
	case "write":
		op = fmt.Sprintf("SWrite %s %s %s", k(o.Key), Z(o.V), Z(o.E))
	case "read":
		op = fmt.Sprintf("SRead %s %s", k(o.Key), Z(o.E))
	case "delete":
		op = "SDelete " + k(o.Key)
	case "expire":
		op = "SExpire " + Z(o.E)
	case "clear":
		op = "SClear"
	case "delexp":
		op = "SDelExp " + Z(o.E)
	case "evict":
		op = "SEvict true"
	case "visit":
		op = "SVisit"
	}

	switch o.RKind {
	case "unit":
		res = "XUnit"
	case "hit":
		res = "XHit " + Z(o.RV)
	case "expired":
		res = fmt.Sprintf("XExpired %s %s", Z(o.RV), Z(o.RE))
	case "notfound":
		res = "XNotFound"
	case "none":
		res = "XEntry None"
	case "entry":
		res = fmt.Sprintf("XEntry (Some (mkS %s %s %s))", k(o.RKey), Z(o.RV), Z(o.RE))
	}

	return fmt.Sprintf("(mkOp8 %s %s (%s) (%s))", Z(o.Call), Z(o.Ret), op, res)
}

type c08Conf struct {
	Flavour  string `json:"flavour"`
	Strategy string `json:"strategy"`
	Limit    int    `json:"limit"`
	G        int    `json:"goroutines"`
	PerG     int    `json:"ops_per_goroutine"`
	Seed     int64  `json:"seed"`
	Mix      string `json:"mix"`
}

type c08Run struct {
	Conf  c08Conf
	Keys  [][]byte
	SlotK []int // slot of each key
	Ops   []c08Op
	Stats map[string]int64
	// counted by the harness from results
	NWrite, NDelOK, NRead, NHit, NMiss, NExp int64
	HasBatchDelete                           bool
}

func walkRaw(b Backend, fn func(k []byte, v, e int64)) {
	switch m := b.Raw().(type) {
	case *cache.ShardedMap:
		_, _ = m.Walk(func(e cache.Entry) error {
			fn(append([]byte(nil), e.Key()...), tokOf(e.Value()), expiryNs(e.ExpireAt()))

			return nil
		})
	case *cache.SyncMap:
		_, _ = m.Walk(func(e cache.Entry) error {
			fn(append([]byte(nil), e.Key()...), tokOf(e.Value()), expiryNs(e.ExpireAt()))

			return nil
		})
	case *cache.ShardedMapOf[int]:
		_, _ = m.Walk(func(e cache.EntryOf[int]) error {
			fn(append([]byte(nil), e.Key()...), int64(e.Value()), expiryNs(e.ExpireAt()))

			return nil
		})
	}
}

func expiryNs(t time.Time) int64 {
	if t.Unix() == 0 || t.IsZero() {
		return 0
	}

	return t.UnixNano()
}

// runC08 runs one stress round; must be called inside a synctest bubble.
func runC08(conf c08Conf) *c08Run {
	rng := rand.New(rand.NewSource(conf.Seed)) //nolint:gosec
	run := &c08Run{Conf: conf}

	// key set: two colliding pairs (sharded family) plus two free keys
	a1, a2 := CollisionPair(rng)
	b1, b2 := CollisionPair(rng)
	run.Keys = [][]byte{a1, a2, b1, b2, []byte("k4"), {}}
	slotOf := map[string]int{}

	for _, k := range run.Keys {
		id := string(k)
		if conf.Flavour != FlSyncM {
			id = fmt.Sprint(xxhash.Sum64(k))
		}

		if _, ok := slotOf[id]; !ok {
			slotOf[id] = len(slotOf)
		}

		run.SlotK = append(run.SlotK, slotOf[id])
	}

	stats := NewStats()
	cfg := cache.Config{
		Name: "c08", Stats: stats, TimeToLive: time.Hour, ExpirationJitter: -1, DeleteExpiredAfter: time.Hour,
		CountSoftLimit: uint64(conf.Limit), EvictFraction: 0.3,
		DeleteExpiredJobInterval: 1000000 * time.Hour, ItemsCountReportInterval: 1000000 * time.Hour,
	}

	switch conf.Strategy {
	case "LRU":
		cfg.EvictionStrategy = cache.EvictLeastRecentlyUsed
	case "LFU":
		cfg.EvictionStrategy = cache.EvictLeastFrequentlyUsed
	}

	be := NewBackend(conf.Flavour, cfg)
	defer be.Close()

	T := time.Now().UnixNano()
	ttls := []time.Duration{0, 0, 30 * time.Minute, -30 * time.Minute, -2 * time.Hour}

	var (
		clk    atomic.Int64
		valSeq atomic.Int64
		mu     sync.Mutex
		wg     sync.WaitGroup
	)

	keyIdx := func(k []byte) int {
		for i, kk := range run.Keys {
			if string(kk) == string(k) {
				return i
			}
		}

		return -1
	}

	record := func(local *[]c08Op, o c08Op) { *local = append(*local, o) }

	start := make(chan struct{})

	for g := 0; g < conf.G; g++ {
		wg.Add(1)

		grng := rand.New(rand.NewSource(conf.Seed*1000 + int64(g))) //nolint:gosec

		go func(g int) {
			defer wg.Done()

			var local []c08Op

			<-start

			ctx := context.Background()

			for i := 0; i < conf.PerG; i++ {
				ki := grng.Intn(len(run.Keys))
				key := run.Keys[ki]
				r := grng.Intn(100)
				if conf.Mix == "deletes" {
					// racing deletes and writes on two keys
					ki = 4 + grng.Intn(2)
					key = run.Keys[ki]

					switch {
					case r < 10:
						r = 0
					case r < 40:
						r = 40
					default:
						r = 70
					}
				}

				o := c08Op{Key: ki, G: g}

				switch {
				case conf.Mix == "cleanup" && g == 0:
					// the janitor's side: cleanup cycles back to back, each over a few hundred long-expired
					// filler entries (their slots are not analysed) so that a cycle takes a while
					for f := 0; f < 400; f++ {
						_ = be.Write(cache.WithTTL(ctx, -2*time.Hour, false), []byte(fmt.Sprintf("filler-%d", f)), 1)
					}

					o.Kind, o.Key = "delexp", -1
					o.E = T - int64(time.Hour)
					o.Call = clk.Add(1)
					be.Cleanup()
					o.Ret = clk.Add(1)
					o.RKind = "unit"
					record(&local, o)

					continue
				case r < 34:
					o.Kind = "read"
					o.E = T
					o.Call = clk.Add(1)
					res := be.Read(ctx, key)
					o.Ret = clk.Add(1)

					switch res.Kind {
					case "val":
						o.RKind, o.RV = "hit", res.V
					case "expired":
						o.RKind, o.RV, o.RE = "expired", res.V, res.At
					case "notfound":
						o.RKind = "notfound"
					default:
						o.RKind = "other:" + res.Msg
					}
				case r < 64:
					ttl := ttls[grng.Intn(len(ttls))]
					if conf.Mix == "cleanup" && grng.Intn(2) == 0 {
						ttl = -2 * time.Hour
					}

					o.Kind = "write"
					o.V = valSeq.Add(1)
					o.E = T + int64(time.Hour)

					wctx := ctx
					if ttl != 0 {
						wctx = cache.WithTTL(ctx, ttl, false)
						o.E = T + int64(ttl)
					}

					o.Call = clk.Add(1)
					err := be.Write(wctx, key, o.V)
					o.Ret = clk.Add(1)
					o.RKind = "unit"

					if err != nil {
						o.RKind = "other:" + err.Error()
					}
				case r < 78:
					o.Kind = "delete"
					o.Call = clk.Add(1)
					res := be.Delete(ctx, key)
					o.Ret = clk.Add(1)
					o.RKind = res.Kind

					if res.Kind != "unit" && res.Kind != "notfound" {
						o.RKind = "other:" + res.Msg
					}
				case r < 83:
					o.Kind, o.Key = "expire", -1
					o.E = T
					o.Call = clk.Add(1)
					be.ExpireAll(ctx)
					o.Ret = clk.Add(1)
					o.RKind = "unit"
				case r < 87 && conf.Mix != "nodelall":
					o.Kind, o.Key = "clear", -1
					o.Call = clk.Add(1)
					be.DeleteAll(ctx)
					o.Ret = clk.Add(1)
					o.RKind = "unit"
				case r < 93:
					o.Kind, o.Key = "delexp", -1 // one janitor cycle: deleteExpired, then eviction if over the limit
					o.E = T - int64(time.Hour)
					o.Call = clk.Add(1)
					be.Cleanup()
					o.Ret = clk.Add(1)
					o.RKind = "unit"
				default:
					call := clk.Add(1)
					seen := map[int]bool{}

					walkRaw(be, func(k []byte, v, e int64) {
						at := clk.Add(1)
						idx := keyIdx(k)
						if idx < 0 && len(k) > 7 && string(k[:7]) == "filler-" {
							return
						}

						vo := c08Op{Kind: "visit", Key: idx, G: g, Call: call, Ret: at, RKind: "entry", RKey: idx, RV: v, RE: e}

						if idx < 0 {
							vo.RKind = "other:unknown key"
							vo.Key = 0
						} else {
							seen[run.SlotK[idx]] = true
						}

						record(&local, vo)
					})

					ret := clk.Add(1)

					for s := 0; s < len(slotOf); s++ {
						if !seen[s] {
							// representative key of the slot
							rep := 0
							for i, sk := range run.SlotK {
								if sk == s {
									rep = i

									break
								}
							}

							record(&local, c08Op{Kind: "visit", Key: rep, G: g, Call: call, Ret: ret, RKind: "none"})
						}
					}

					continue
				}

				record(&local, o)
			}

			mu.Lock()
			run.Ops = append(run.Ops, local...)
			mu.Unlock()
		}(g)
	}

	close(start)
	wg.Wait()

	run.Stats = map[string]int64{}
	for _, m := range []string{cache.MetricWrite, cache.MetricDelete, cache.MetricHit, cache.MetricMiss, cache.MetricExpired} {
		run.Stats[m] = stats.Get(m, "c08")
	}

	for _, o := range run.Ops {
		switch {
		case o.Kind == "write":
			run.NWrite++
		case o.Kind == "delete" && o.RKind == "unit":
			run.NDelOK++
		case o.Kind == "read":
			run.NRead++

			switch o.RKind {
			case "hit":
				run.NHit++
			case "expired":
				run.NExp++
			case "notfound":
				run.NMiss++
			}
		case o.Kind == "clear":
			run.HasBatchDelete = true
		}
	}

	return run
}

// slotHistories projects the history on every slot: point operations go to the slot of their key, a
// batch operation goes to every slot with its own interval (a janitor cycle is deleteExpired followed,
// when a count limit is configured, by an eviction).
func (r *c08Run) slotHistories() [][]c08Op {
	ns := 0
	for _, s := range r.SlotK {
		if s+1 > ns {
			ns = s + 1
		}
	}

	out := make([][]c08Op, ns)

	for _, o := range r.Ops {
		if o.Key >= 0 {
			s := r.SlotK[o.Key]
			out[s] = append(out[s], o)

			continue
		}

		for s := 0; s < ns; s++ {
			out[s] = append(out[s], o)

			if o.Kind == "delexp" && r.Conf.Limit > 0 {
				ev := o
				ev.Kind = "evict"
				out[s] = append(out[s], ev)
			}
		}
	}

	for _, h := range out {
		sort.SliceStable(h, func(i, j int) bool { return h[i].Call < h[j].Call })
	}

	return out
}

// linearize searches for a linearization of one slot history; verdict is "ok" (order is a witness),
// "illegal" (there is none) or "unknown" (the search ran out of time; not a verdict).
func linearize(h []c08Op) (order []c08Op, verdict string) {
	ops := make([]porcupine.Operation, len(h))
	for i, o := range h {
		ops[i] = porcupine.Operation{ClientId: i, Input: o, Output: nil, Call: o.Call, Return: o.Ret}
	}

	res, info := porcupine.CheckOperationsVerbose(c08Model, ops, 4*time.Second)
	if res == porcupine.Unknown {
		return nil, "unknown"
	}

	if res != porcupine.Ok {
		return h, "illegal"
	}

	best := []porcupine.Operation(nil)

	for _, part := range info.PartialLinearizationsOperations() {
		for _, lin := range part {
			if len(lin) > len(best) {
				best = lin
			}
		}
	}

	if len(best) != len(h) {
		if len(h) == 0 {
			return nil, "ok"
		}

		return nil, "unknown"
	}

	order = make([]c08Op, len(best))
	for i, b := range best {
		order[i] = b.Input.(c08Op)
	}

	return order, "ok"
}

func TestC08(t *testing.T) {
	e := LoadEnv("C08")
	cf := NewCaseFile("C08", "From Cache Require Import Base Backend BackendConc Check.", "check_c08")
	cf.Rule = "stress rounds: 2..16 goroutines x 12..40 operations over 6 keys (two constructed xxhash64 collision pairs) " +
		"inside a synctest bubble (frozen clock, real parallelism); mix read 34 / write 30 (TTL default, +30m, -30m, -2h) / delete 14 / " +
		"ExpireAll 5 / DeleteAll 4 / janitor cycle 6 / Walk 7, or a dedicated janitor goroutine (mix cleanup); " +
		"one case per slot history; non-trivial = at least two operations overlap in logical time and a mutation is among them; " +
		"distinct = distinct Gallina term"

	type cfgT struct {
		strat string
		limit int
	}

	cfgs := []cfgT{{"MostExpired", 0}, {"LRU", 3}, {"LFU", 3}, {"MostExpired", 3}}
	mixes := []string{"default", "deletes", "cleanup", "nodelall", "default", "cleanup"}
	rounds := e.Pick(14, 160)

	for _, fl := range Flavours {
		for ci, c := range cfgs {
			for r := 0; r < rounds; r++ {
				conf := c08Conf{
					Flavour: fl, Strategy: c.strat, Limit: c.limit,
					G: 2 + e.Rng.Intn(15), PerG: 6 + e.Rng.Intn(19), Seed: e.Rng.Int63n(1 << 40), Mix: mixes[(ci+r)%len(mixes)],
				}

				var run *c08Run

				synctest.Test(t, func(t *testing.T) { run = runC08(conf) })

				for s, h := range run.slotHistories() {
					bad := ""
					for _, o := range h {
						if len(o.RKind) > 5 && o.RKind[:5] == "other" {
							bad = o.RKind
						}
					}

					t0 := time.Now()
					order, verdict := linearize(h)
					cf.Count("search:"+verdict, 1)

					if d := time.Since(t0); d > time.Second {
						cf.Count("search>1s", 1)
					}

					if verdict == "unknown" {
						// no verdict: neither evidence for nor against the property
						continue
					}

					ok := verdict == "ok"
					items := make([]string, len(order))

					for i, o := range order {
						items[i] = o.coq(run.Keys)
					}

					overlap := false

					for i := 1; i < len(h) && !overlap; i++ {
						for j := 0; j < i; j++ {
							if h[j].Ret > h[i].Call && (h[i].Kind != "read" || h[j].Kind != "read") {
								overlap = true

								break
							}
						}
					}

					tag := fmt.Sprintf("%s/%s/%s", fl, c.strat, conf.Mix)
					if !ok || bad != "" {
						tag += "/REJECTED"

						if bad == "" && knownK1(fl, h) {
							tag += "/K1-stale-cleanup-decision"
						}
					}

					cf.Add(fmt.Sprintf("(mkC08 %s %s)", Bool(ok && bad == ""), List(items)), tag,
						map[string]any{"conf": conf, "slot": s, "history": h, "linearizable": ok, "unexpected": bad,
							"how": "go test -tags verif -run TestC08 with VERIF_SEED; the history of this slot is listed in call order"},
						overlap)
					cf.Count("ops", len(h))
				}
			}
		}
	}

	addC08Janitor(e, cf)
	addC08StaleDecision(e, cf)

	if err := cf.Write(e); err != nil {
		t.Fatal(err)
	}
}

// addC08Janitor races janitor cycles against the rewriting of long-expired keys on the real clock:
// every completed Write of a fresh value is followed by a Read, which must find it whatever the
// concurrent cleanup does (cleanup acts at one instant per key and a fresh entry is not expired).
func addC08Janitor(e *Env, cf *CaseFile) {
	budget := time.Duration(e.Pick(1500, 15000)) * time.Millisecond
	keys := [][]byte{[]byte("a"), []byte("b"), []byte("c"), []byte("d")}

	for _, fl := range Flavours {
		b := NewBackend(fl, cache.Config{
			Name: "c08j", TimeToLive: time.Hour, ExpirationJitter: -1, DeleteExpiredAfter: time.Hour,
			DeleteExpiredJobInterval: 1000000 * time.Hour, ItemsCountReportInterval: 1000000 * time.Hour,
		})
		ctx := context.Background()
		old := cache.WithTTL(ctx, -2*time.Hour, false)

		var stop atomic.Bool

		done := make(chan struct{})

		go func() {
			for !stop.Load() {
				b.Cleanup()
			}

			close(done)
		}()

		lost, n := 0, 0
		lostKey := 0
		deadline := time.Now().Add(budget)

		for time.Now().Before(deadline) {
			for _, k := range keys {
				_ = b.Write(old, k, 1)
			}

			for i, k := range keys {
				_ = b.Write(ctx, k, 2)
				n++

				if r := b.Read(ctx, k); r.Kind != "val" || r.V != 2 {
					lost++
					lostKey = i
				}
			}
		}

		stop.Store(true)
		<-done
		b.Close()

		// the three-operation history of one round on one key, times symbolic: cleanup [0,5] with boundary -1h,
		// Write(k, 2, expiry +1h) [1,2], Read(k) [3,4]
		res := "XHit 2"
		if lost > 0 {
			res = "XNotFound"
		}

		k := Key(keys[lostKey])
		term := fmt.Sprintf("(mkC08 %s [mkOp8 1 2 (SWrite %s 2 3600000000000) XUnit; mkOp8 3 4 (SRead %s 0) (%s); mkOp8 0 5 (SDelExp (-3600000000000)) XUnit])",
			Bool(lost == 0), k, k, res)
		cf.Add(term, "janitor/"+fl, map[string]any{"flavour": fl, "rounds": n, "lost": lost,
			"how": "one goroutine runs VerifCleanup back to back; another writes 4 keys with ttl -2h, then for each key writes a fresh value and reads it"},
			true)
		cf.Count("janitor-rounds", n)
	}
}

// addC08StaleDecision races one janitor cycle against ExpireAll followed by a Read, over one long-expired
// entry, on the real clock. Sequentially either the cleanup comes first (the entry is gone: both reads miss)
// or ExpireAll comes first (the entry expires "now", which is not long ago: the cleanup keeps it and both
// reads find it). The pattern "first Read finds the entry expired just now, second Read finds nothing" has no
// linearization: the cleanup decided on the old expiry and removed the re-stamped entry. This was known
// finding K1 for SyncMap, repaired as D17 (known_findings.json); it must never show on any backend.
func addC08StaleDecision(e *Env, cf *CaseFile) {
	budget := time.Duration(e.Pick(6000, 30000)) * time.Millisecond

	for _, fl := range Flavours {
		b := NewBackend(fl, cache.Config{
			Name: "c08k", TimeToLive: time.Hour, ExpirationJitter: -1, DeleteExpiredAfter: time.Hour,
			DeleteExpiredJobInterval: 1000000 * time.Hour, ItemsCountReportInterval: 1000000 * time.Hour,
		})
		ctx := context.Background()
		old := cache.WithTTL(ctx, -2*time.Hour, false)
		k := []byte("k")
		hits, n := 0, 0
		deadline := time.Now().Add(budget)

		deadline = time.Now().Add(budget / 4) // since the repair of D17 (formerly known finding K1) no backend may show the pattern

		for time.Now().Before(deadline) && hits == 0 {
			_ = b.Write(old, k, 1)

			var (
				wg sync.WaitGroup
				r1 Res
			)

			wg.Add(2)

			go func() { defer wg.Done(); b.Cleanup() }()
			go func() { defer wg.Done(); b.ExpireAll(ctx); r1 = b.Read(ctx, k) }()
			wg.Wait()

			r2 := b.Read(ctx, k)
			n++

			if r1.Kind == "expired" && r1.At > time.Now().Add(-time.Minute).UnixNano() && r2.Kind == "notfound" {
				hits++
			}
		}

		b.Close()

		// symbolic times: Write(k,1) expiring at -2h [1,2]; cleanup with boundary -1h [3,8]; ExpireAll stamping 0 [4,5];
		// Read at clock 1 [6,7]; Read [9,10]
		kk := Key(k)
		r1c, r2c, tag := "XNotFound", "XNotFound", "stale-decision/"+fl

		if hits > 0 {
			r1c = "XExpired 1 0"
			tag += "/REJECTED"

			if fl == FlSyncM {
				tag += "/K1-stale-cleanup-decision"
			}
		}

		term := fmt.Sprintf("(mkC08 %s [mkOp8 1 2 (SWrite %s 1 (-7200000000000)) XUnit; mkOp8 3 8 (SDelExp (-3600000000000)) XUnit; "+
			"mkOp8 4 5 (SExpire 0) XUnit; mkOp8 6 7 (SRead %s 1) (%s); mkOp8 9 10 (SRead %s 1) (%s)])",
			Bool(hits == 0), kk, kk, r1c, kk, r2c)
		cf.Add(term, tag, map[string]any{"flavour": fl, "rounds": n, "pattern_seen": hits,
			"how": "Write(k) with ttl -2h; then concurrently VerifCleanup() and { ExpireAll(); r1 = Read(k) }; then r2 = Read(k); " +
				"pattern = r1 expired just now and r2 not found"}, true)
		cf.Count("stale-decision-rounds/"+fl, n)
	}
}
