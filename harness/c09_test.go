package harness

import (
	"fmt"
	"testing"
	"time"

	"github.com/cespare/xxhash/v2"
)

// TestC09 runs operation sequences over constructed xxhash64 collision pairs, rewriting the caller's
// key buffer after every call.
func TestC09(t *testing.T) {
	e := LoadEnv("C09")
	cf := NewCaseFile("C09", "From Cache Require Import Base Backend Spec Failover FailoverRun Check.", "check_c09")
	cf.Rule = "keys: a constructed xxhash64 collision pair (64-byte keys differing in both words of one lane, verified with the real " +
		"xxhash) plus one unrelated key; exhaustive: every sequence of length <= 3 (quick) / <= 4 (thorough) over " +
		"{write a,write b,read a,read b,delete a,delete b,expireall,len,walk}; random: lengths 4..16 with sleeps, TTLs, cleanup; " +
		"the caller's key buffer is overwritten after every call; 3 backends (SyncMap as collision-free control); Failover part: steered Gets whose callers overwrite the key buffer right after return while background builds are in flight; " +
		"non-trivial = contains a write to each colliding key and a read; distinct = distinct Gallina term"

	a, b := CollisionPair(e.Rng)
	if xxhash.Sum64(a) != xxhash.Sum64(b) {
		t.Fatal("collision construction failed")
	}

	cf.Extra["collision_pair"] = map[string]any{"a": a, "b": b, "hash": xxhash.Sum64(a)}
	c := []byte("other")
	conf := BConf{TTL: int64(time.Minute), Jitter: -1, Name: "c"}
	alphabet := []BOp{
		{Kind: "write", K: a, V: 1}, {Kind: "write", K: b, V: 2}, {Kind: "read", K: a}, {Kind: "read", K: b},
		{Kind: "delete", K: a}, {Kind: "delete", K: b}, {Kind: "expireall", Sleep: 1}, {Kind: "len"}, {Kind: "walk"},
	}
	maxLen := e.Pick(3, 4)

	var seqs [][]BOp

	var rec func(prefix []BOp)

	rec = func(prefix []BOp) {
		if len(prefix) > 0 {
			seqs = append(seqs, append([]BOp{}, prefix...))
		}

		if len(prefix) == maxLen {
			return
		}

		for _, o := range alphabet {
			rec(append(prefix, o))
		}
	}
	rec(nil)

	add := func(fl string, r BRun, tag string, conf BConf) {
		wa, wb, rd := false, false, false

		for _, o := range r.Ops {
			if o.Kind == "write" && string(o.K) == string(a) {
				wa = true
			}

			if o.Kind == "write" && string(o.K) == string(b) {
				wb = true
			}

			if o.Kind == "read" {
				rd = true
			}
		}

		for j, res := range r.Results {
			cf.Count("op:"+r.Ops[j].Kind+"->"+res.Kind, 1)
		}

		cf.Add("C09B ("+fl+", "+r.CoqCase(conf)+")", fl+"/"+tag,
			map[string]any{"flavour": fl, "conf": conf, "ops": r.Ops, "results": r.Results}, wa && wb && rd)
	}

	for _, fl := range []string{FlSharded, FlShardedOf} {
		for _, s := range seqs {
			r := RunBackendOps(t, e.Rng, fl, conf, GenOpts{Script: s, Rewrite: true})
			add(fl, r, fmt.Sprintf("exhaustive/len=%d", len(s)), conf)
		}
	}

	kinds := []string{"write", "write", "write", "read", "read", "read", "delete", "expireall", "len", "walk", "load", "store", "cleanup"}
	confs := []BConf{conf, {TTL: -1, Jitter: -1, Name: "c"}, {TTL: int64(time.Second), Jitter: 0, Strategy: 1, Name: "c", DelAfter: int64(time.Minute)}}
	n := e.Pick(120, 1500)

	for _, fl := range Flavours {
		for i := 0; i < n; i++ {
			cfg := confs[e.Rng.Intn(len(confs))]
			a2, b2 := a, b

			if i%4 == 3 {
				a2, b2 = CollisionPair(e.Rng)
			}

			g := GenOpts{
				Kinds: kinds, Keys: KeyPool{a2, b2, a2, b2, c}, NOps: 4 + e.Rng.Intn(13),
				TTLs: stdTTLs, Sleeps: []int64{0, 1, int64(time.Second), int64(2 * time.Minute)}, Rewrite: true,
			}
			r := RunBackendOps(t, e.Rng, fl, cfg, g)
			add(fl, r, "random", cfg)
		}
	}

	// Failover: callers overwrite the key buffer right after Get returns while background builds are in flight
	for i := 0; i < e.Pick(150, 1500); i++ {
		out := GenFailover(t, e.Rng, FOpts{MinGets: 1, MaxGets: 4, Keys: 2, FailRate: 0.2, Hostile: true, Collide: true,
			InitStates: []string{"stale", "stale", "absent", "toostale"}})
		cf.Add("C09F ("+out.Term+")", "failover/"+out.Tag, out.Replay, out.Nontriv)
	}

	if err := cf.Write(e); err != nil {
		t.Fatal(err)
	}
}
