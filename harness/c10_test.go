package harness

import (
	"context"
	"fmt"
	"math/big"
	"testing"
	"testing/synctest"
	"time"

	"github.com/bool64/cache"
)

func ratOf(f float64) (string, string) {
	r := new(big.Rat).SetFloat64(f)

	return r.Num().String() + "%Z", r.Denom().String() + "%Z"
}

type c10write struct {
	T     int64   `json:"t"`
	Ctx   int64   `json:"ctxTTL"`
	E     int64   `json:"expiry"`
	R     float64 `json:"r"`
	Drew  bool    `json:"drew"`
	Jit   int64   `json:"jitPredicted"`
	Reads []Res   `json:"boundaryReads,omitempty"`
}

// TestC10 writes entries at exact fake-clock instants with every TTL/jitter class and observes the
// stored expiry through Walk and through boundary reads at expiry-1, expiry, expiry+1 ns.
func TestC10(t *testing.T) {
	e := LoadEnv("C10")
	cf := NewCaseFile("C10", "From Cache Require Import Base Backend Spec Jitter Check.", "check_c10")
	cf.Rule = "per case: config TimeToLive in {default,unlimited,1ns..10y,negative}, ExpirationJitter in {disabled,default 0.1,1e-9,0.1,0.5,1}, " +
		"1..3 writes (3..5 sharing ONE context value in a quarter of the cases) with context TTL in {none,1ns,17ns,1s,1h,30d,10y and negatives down to -100y (expiry before 1970)}, a read right after every write whose expiry lies in the past; the jitter draw is predicted by a mirrored seeded math/rand; " +
		"expiry observed via Walk; boundary reads at E-1,E,E+1 ns when E lies in the future; 3 backends; " +
		"non-trivial = jitter drawn and boundary reads done; distinct = distinct Gallina term"

	day := int64(24 * time.Hour)
	year := 365 * day
	ttls := []int64{0, -1, 1, 2, 17, 1000, int64(time.Second), int64(time.Minute), int64(time.Hour), 30 * day, year, 10 * year,
		-2, -int64(time.Second), -int64(time.Hour), -year, -100 * year}
	ctxs := []int64{0, 0, 1, 17, int64(time.Second), int64(time.Hour), 30 * day, 10 * year, -1, -17, -int64(time.Hour), -10 * year, -100 * year}
	jits := []float64{-1, 0, 1e-9, 0.1, 0.5, 1}
	n := e.Pick(130, 2000)

	for _, fl := range Flavours {
		for i := 0; i < n; i++ {
			conf := BConf{TTL: ttls[e.Rng.Intn(len(ttls))], Jitter: jits[e.Rng.Intn(len(jits))], Name: "c"}
			if e.Rng.Intn(5) == 0 {
				conf.TTL = -1 // UnlimitedTTL is a class of its own: a fifth of the cases
			}
			nw := 1 + e.Rng.Intn(3)
			seed := e.Rng.Int63()

			var (
				ops    []BOp
				ress   []Res
				writes []c10write
			)

			ht := NewHashTable(fl)

			synctest.Test(t, func(t *testing.T) {
				st := NewStats()
				b := NewBackend(fl, conf.Config(st))

				defer b.Close()

				jm := NewJitterMirror(seed, conf)
				ctx := context.Background()

				// one context value carrying a TTL reused for every write of the case (a batch loop): each write
				// must see the same TTL, the backend must not feed anything back into the caller's context
				var shared context.Context

				sharedTTL := ctxs[2+e.Rng.Intn(len(ctxs)-2)]
				if e.Rng.Intn(4) == 0 {
					shared = cache.WithTTL(ctx, time.Duration(sharedTTL), false)
					nw += 2

					cf.Count("ctx:shared", 1)
				}

				for w := 0; w < nw; w++ {
					time.Sleep(time.Duration(e.Rng.Int63n(int64(time.Hour))))

					k := []byte(fmt.Sprintf("k%d", w))
					ht.Note(k)

					ct := ctxs[e.Rng.Intn(len(ctxs))]
					if e.Rng.Intn(10) == 0 {
						ct = -1 // a context TTL that happens to equal the UnlimitedTTL sentinel is an ordinary (negative) TTL
					}

					c := ctx

					switch pick := e.Rng.Intn(3); {
					case shared != nil:
						c, ct = shared, sharedTTL
					case pick == 0:
						// a chain of contexts: deriving a child with its own TTL (updateExisting=false) must leave
						// the parent's TTL alone, whichever of the two is used for the write
						pt, qt := ctxs[e.Rng.Intn(len(ctxs))], ctxs[e.Rng.Intn(len(ctxs))]
						parent := cache.WithTTL(ctx, time.Duration(pt), false)
						child := cache.WithTTL(parent, time.Duration(qt), false)

						if e.Rng.Intn(2) == 0 {
							c, ct = parent, pt
						} else {
							c, ct = child, qt
						}

						cf.Count("ctx:chain", 1)
					default:
						if ct != 0 {
							c = cache.WithTTL(ctx, time.Duration(ct), false)
						}
					}

					jit, r, drew := jm.Next(ct)

					now := time.Now().UnixNano()
					_ = b.Write(c, k, int64(w+1))
					ops = append(ops, BOp{Kind: "write", K: k, V: int64(w + 1), TTL: ct, Now: now, Jit: jit})
					ress = append(ress, Res{Kind: "unit"})

					wk := b.Walk()
					ops = append(ops, BOp{Kind: "walk"})
					ress = append(ress, wk)

					cw := c10write{T: now, Ctx: ct, R: r, Drew: drew, Jit: jit, E: -1}

					for _, we := range wk.Walk {
						if string(we.K) == string(k) {
							cw.E = we.E
						}
					}

					// an expiry that already lies in the past (negative TTLs, down to instants before 1970) must read as expired
					if cw.E != -1 && cw.E != 0 && cw.E <= now {
						rn := time.Now().UnixNano()
						res := b.Read(ctx, k)
						ops = append(ops, BOp{Kind: "read", K: k, Now: rn})
						ress = append(ress, res)
						cw.Reads = append(cw.Reads, res)

						cf.Count("past_expiry_read", 1)
					}

					// boundary reads
					if cw.E > now+2 && cw.E-now < 20*year {
						time.Sleep(time.Duration(cw.E - 1 - now))

						for d := 0; d < 3; d++ {
							rn := time.Now().UnixNano()
							res := b.Read(ctx, k)
							ops = append(ops, BOp{Kind: "read", K: k, Now: rn})
							ress = append(ress, res)
							cw.Reads = append(cw.Reads, res)

							time.Sleep(1)
						}
					} else {
						rn := time.Now().UnixNano()
						res := b.Read(ctx, k)
						ops = append(ops, BOp{Kind: "read", K: k, Now: rn})
						ress = append(ress, res)
					}

					writes = append(writes, cw)
				}
			})

			jn, jd := ratOf(conf.EffJitter())
			ws := make([]string, len(writes))
			nontriv := false

			for j, w := range writes {
				rn, rd := ratOf(w.R)
				ws[j] = Tuple(Z(w.T), Z(w.Ctx), Z(w.E), rn, rd, Bool(w.Drew))

				if w.Drew && len(w.Reads) == 3 {
					nontriv = true
				}

				cf.Count(fmt.Sprintf("write:drew=%v/boundary=%v", w.Drew, len(w.Reads) == 3), 1)
			}

			run := BRun{Ops: ops, Results: ress, Stats: NewStats(), Hash: ht}
			term := fmt.Sprintf("(C10Case %s %s %s (%s))", jn, jd, List(ws), run.CoqCase(conf))
			cf.Add(term, fmt.Sprintf("%s/ttl=%d/j=%v", fl, conf.TTL, conf.Jitter),
				map[string]any{"flavour": fl, "conf": conf, "writes": writes, "ops": ops, "results": ress}, nontriv)
		}
	}

	if err := cf.Write(e); err != nil {
		t.Fatal(err)
	}
}
