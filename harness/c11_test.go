package harness

import (
	"context"
	"fmt"
	"runtime"
	"sync"
	"testing"
	"testing/synctest"
	"time"

	"github.com/bool64/cache"
)

// TestC11 mixes never-expiring, fresh, recently expired and long-expired entries and runs cleanup
// cycles (synchronously and through the real janitor goroutine on the fake clock).
func TestC11(t *testing.T) {
	e := LoadEnv("C11")
	cf := NewCaseFile("C11", "From Cache Require Import Base Backend Spec Check.", "check_c11")
	cf.Rule = "configs: TimeToLive in {default, 1h, Unlimited}, DeleteExpiredAfter in {default 24h, 1m, 1h}, no eviction limit; " +
		"sequences of 6..40 ops from {write (context TTL none/+1h/-1h/1s/-30h/+100h), read, walk, len, ExpireAll, cleanup via VerifCleanup, " +
		"janitor = sleeping across 1..3 real janitor intervals} with sleeps 0..30h; every cleanup bracketed by Walks; 3 backends; " +
		"non-trivial = a cleanup that removed something and kept something; distinct = distinct Gallina term; plus, per backend, rounds of a per-call-TTL write racing a cleanup cycle " +
		"on an UnlimitedTTL cache of 120 never-expiring entries followed by two quiet cycles (frozen clock, real parallelism), recorded in the order the observations dictate"

	h := int64(time.Hour)
	confs := []BConf{
		{TTL: 0, Jitter: -1, Name: "c"},
		{TTL: h, Jitter: -1, DelAfter: int64(time.Minute), Name: "c"},
		{TTL: -1, Jitter: -1, Name: "c"},
		{TTL: -1, Jitter: -1, DelAfter: h, Name: "c"},
		{TTL: -1, Jitter: 0, DelAfter: int64(time.Minute), Name: "c"},
		{TTL: h, Jitter: -1, DelAfter: h, Name: "c", JanitorInterval: time.Hour},
		{TTL: -1, Jitter: -1, DelAfter: h, Name: "c", JanitorInterval: 30 * time.Minute},
	}
	ttls := []int64{0, 0, 0, h, -h, int64(time.Second), -30 * h, 100 * h}
	sleeps := []int64{0, 0, 1, int64(time.Minute), h, 5 * h, 30 * h}
	n := e.Pick(110, 1500)

	for _, fl := range Flavours {
		for i := 0; i < n; i++ {
			conf := confs[e.Rng.Intn(len(confs))]
			kinds := []string{"write", "write", "write", "write", "read", "walk", "len", "cleanup", "cleanup", "expireall"}

			if conf.JanitorInterval > 0 {
				kinds = []string{"write", "write", "write", "write", "read", "walk", "len", "janitor", "janitor"}
			}

			g := GenOpts{Kinds: kinds, Keys: StdKeys(e.Rng, 4+e.Rng.Intn(6)), NOps: 6 + e.Rng.Intn(35), TTLs: ttls, Sleeps: sleeps}
			r := RunBackendOps(t, e.Rng, fl, conf, g)
			nontriv := false

			for j, o := range r.Ops {
				cf.Count("op:"+o.Kind, 1)

				if o.Kind == "cleanup" && len(o.Removed) > 0 {
					cf.Count("cleanup_removed_entries", len(o.Removed))

					if j+1 < len(r.Results) && len(r.Results[j+1].Walk) > 0 {
						nontriv = true
					}
				}
			}

			cf.Add("("+fl+", "+r.CoqCase(conf)+")", fmt.Sprintf("%s/ttl=%d/del=%d/jan=%v", fl, conf.TTL, conf.DelAfter, conf.JanitorInterval),
				map[string]any{"flavour": fl, "conf": conf, "ops": r.Ops, "results": r.Results}, nontriv)
		}
	}

	addC11Race(t, e, cf)
	addC11Rewrite(t, e, cf)

	if err := cf.Write(e); err != nil {
		t.Fatal(err)
	}
}

// addC11Race lets a write with a per-call TTL race a cleanup cycle on an UnlimitedTTL cache ("occasional per-call
// TTLs") and then runs two more cycles with nothing else going on: whichever way the race went, the long-expired
// entry must be gone afterwards. Frozen fake clock, real parallelism (synctest bubble). The rounds are recorded as
// sequential cases in the order the observations dictate (the entry is in the walk after the racing cycle: the
// cycle came first; otherwise the write came first); rounds whose outcome is unremarkable are sampled.
func addC11Race(t *testing.T, e *Env, cf *CaseFile) {
	h := int64(time.Hour)
	conf := BConf{TTL: -1, Jitter: -1, DelAfter: h, Name: "c"}
	rounds := e.Pick(250, 2500)
	fill := 120

	for _, fl := range Flavours {
		emitted, suspicious := 0, 0

		for round := 0; round < rounds && suspicious < 3; round++ {
			var r BRun

			x := []byte(fmt.Sprintf("late-%d", round))
			interesting := false

			synctest.Test(t, func(t *testing.T) {
				st := NewStats()
				r.Stats, r.Hash = st, NewHashTable(fl)
				b := NewBackend(fl, conf.Config(st))

				defer b.Close()

				ctx := context.Background()
				now := time.Now().UnixNano()
				old := cache.WithTTL(ctx, -30*time.Hour, false)
				add := func(o BOp, res Res) {
					if o.K != nil {
						r.Hash.Note(o.K)
					}

					r.Ops, r.Results = append(r.Ops, o), append(r.Results, res)
				}

				for i := 0; i < fill; i++ {
					k := []byte(fmt.Sprintf("forever-%d", i))
					_ = b.Write(ctx, k, 1)
					add(BOp{Kind: "write", K: k, V: 1, Now: now}, Res{Kind: "unit"})
				}

				arm := []byte("old")
				_ = b.Write(old, arm, 2)
				add(BOp{Kind: "write", K: arm, V: 2, TTL: -30 * h, Now: now}, Res{Kind: "unit"})

				w0 := b.Walk()

				var (
					wg    sync.WaitGroup
					start = make(chan struct{})
				)

				wg.Add(2)

				go func() {
					defer wg.Done()
					<-start
					b.Cleanup()
				}()
				go func() {
					defer wg.Done()
					<-start

					for i := 0; i < round%40; i++ { // vary the offset of the write into the cycle
						runtime.Gosched()
					}

					_ = b.Write(old, x, 3)
				}()

				close(start)
				wg.Wait()

				w1 := b.Walk()
				wx := BOp{Kind: "write", K: x, V: 3, TTL: -30 * h, Now: now}
				inW1 := false

				for _, w := range w1.Walk {
					if string(w.K) == string(x) {
						inW1 = true
					}
				}

				add(BOp{Kind: "walk"}, w0)

				if inW1 { // the cycle had passed the entry's shard before the write landed
					add(BOp{Kind: "cleanup", Now: now, Removed: removedKeys(w0, w1)}, Res{Kind: "unit"})
					add(wx, Res{Kind: "unit"})
				} else {
					add(wx, Res{Kind: "unit"})
					add(BOp{Kind: "cleanup", Now: now, Removed: append(removedKeys(w0, w1), x)}, Res{Kind: "unit"})
				}

				add(BOp{Kind: "walk"}, w1)

				prev := w1

				for i := 0; i < 2; i++ { // nothing else is going on any more
					b.Cleanup()

					w := b.Walk()
					add(BOp{Kind: "cleanup", Now: now, Removed: removedKeys(prev, w)}, Res{Kind: "unit"})
					add(BOp{Kind: "walk"}, w)
					prev = w
				}

				for _, w := range prev.Walk {
					if string(w.K) == string(x) {
						interesting = true // a long-expired entry survived two quiet cycles
					}
				}

				if inW1 {
					cf.Count("race/"+fl+"/cycle_first", 1)
				} else {
					cf.Count("race/"+fl+"/write_first", 1)
				}
			})

			if interesting {
				suspicious++
			}

			if interesting || emitted < 1 {
				if !interesting {
					emitted++
				}

				cf.Add("("+fl+", "+r.CoqCase(conf)+")", fmt.Sprintf("race/%s/survivor=%v", fl, interesting),
					map[string]any{"flavour": fl, "conf": conf, "scenario": "TTL write racing a cleanup cycle, then two quiet cycles",
						"ops": r.Ops[fill:], "results_tail": r.Results[len(r.Results)-3:]}, true)
			}
		}
	}
}

// addC11Rewrite: long-expired entries are replaced by fresh ones (TTL +1h) while a cleanup cycle is under way. Whichever
// comes first for a key, the fresh entry has to be there afterwards ("fresh entries survive any number of cycles"), so
// the history is listed as: Walk, the writes, the cycle, Walk — the window C11's predicate judges.
func addC11Rewrite(t *testing.T, e *Env, cf *CaseFile) {
	h := int64(time.Hour)
	conf := BConf{TTL: -1, Jitter: -1, DelAfter: h, Name: "c"}
	rounds := e.Pick(200, 2000)
	fill, arms := 30, 24

	for _, fl := range Flavours {
		emitted, suspicious := 0, 0

		for round := 0; round < rounds && suspicious < 3; round++ {
			var r BRun

			lost := 0

			synctest.Test(t, func(t *testing.T) {
				st := NewStats()
				r.Stats, r.Hash = st, NewHashTable(fl)
				b := NewBackend(fl, conf.Config(st))

				defer b.Close()

				ctx := context.Background()
				now := time.Now().UnixNano()
				old := cache.WithTTL(ctx, -30*time.Hour, false)
				fresh := cache.WithTTL(ctx, time.Hour, false)
				add := func(o BOp, res Res) {
					if o.K != nil {
						r.Hash.Note(o.K)
					}

					r.Ops, r.Results = append(r.Ops, o), append(r.Results, res)
				}

				for i := 0; i < fill; i++ {
					k := []byte(fmt.Sprintf("forever-%d", i))
					_ = b.Write(ctx, k, 1)
					add(BOp{Kind: "write", K: k, V: 1, Now: now}, Res{Kind: "unit"})
				}

				keys := make([][]byte, arms)
				for i := range keys {
					keys[i] = []byte(fmt.Sprintf("old-%d-%d", round, i))
					_ = b.Write(old, keys[i], 2)
					add(BOp{Kind: "write", K: keys[i], V: 2, TTL: -30 * h, Now: now}, Res{Kind: "unit"})
				}

				w0 := b.Walk()

				var (
					wg    sync.WaitGroup
					start = make(chan struct{})
				)

				wg.Add(arms + 1)

				go func() {
					defer wg.Done()
					<-start

					for i := 0; i < round%8; i++ {
						runtime.Gosched()
					}

					b.Cleanup()
				}()

				for i := range keys {
					go func(i int) {
						defer wg.Done()
						<-start

						for j := 0; j < (i*7+round)%23; j++ { // spread the writes over the cycle
							runtime.Gosched()
						}

						_ = b.Write(fresh, keys[i], int64(10+i))
					}(i)
				}

				close(start)
				wg.Wait()

				w1 := b.Walk()

				add(BOp{Kind: "walk"}, w0)

				for i := range keys {
					add(BOp{Kind: "write", K: keys[i], V: int64(10 + i), TTL: h, Now: now}, Res{Kind: "unit"})
				}

				add(BOp{Kind: "cleanup", Now: now, Removed: removedKeys(w0, w1)}, Res{Kind: "unit"})
				add(BOp{Kind: "walk"}, w1)

				have := map[string]int64{}
				for _, w := range w1.Walk {
					have[string(w.K)] = w.V
				}

				for i := range keys {
					if have[string(keys[i])] != int64(10+i) {
						lost++
					}
				}
			})

			cf.Count("rewrite/"+fl+"/rounds", 1)

			if lost > 0 {
				suspicious++
			}

			if lost > 0 || emitted < 1 {
				if lost == 0 {
					emitted++
				}

				cf.Add("("+fl+", "+r.CoqCase(conf)+")", fmt.Sprintf("rewrite/%s/lost=%v", fl, lost > 0),
					map[string]any{"flavour": fl, "conf": conf, "scenario": fmt.Sprintf("%d long-expired entries replaced by fresh ones while a cleanup cycle runs", arms),
						"lost": lost, "ops": r.Ops[fill:]}, true)
			}
		}
	}
}

// TestC12 fills caches around and above CountSoftLimit, drives access histories and runs cleanup cycles.
func TestC12(t *testing.T) {
	e := LoadEnv("C12")
	cf := NewCaseFile("C12", "From Cache Require Import Base Backend Spec Check.", "check_c12")
	cf.Rule = "configs: CountSoftLimit in {0,5,10,40}, EvictFraction in {0 (=0.1),0.01,0.1,0.5,0.99,1}, strategy in {MostExpired,LRU,LFU}, " +
		"EvictionNeeded on/off, HeapInUse/SysMem soft limits unset, set to 2^60 (never exceeded) or to 1 byte (always exceeded); 10..150 ops: writes over a pool of up to 3x the limit (TTL none/+1h/-1h/unlimited mix), reads at distinct " +
		"fake instants (access history), cleanups bracketed by Walks; 3 backends; non-trivial = a cleanup that evicted at least one entry " +
		"and kept at least one; distinct = distinct Gallina term"

	h := int64(time.Hour)
	limits := []uint64{0, 5, 10, 40}
	fracs := []float64{0, 0.01, 0.1, 0.5, 0.99, 1}
	n := e.Pick(90, 1200)

	for _, fl := range Flavours {
		for i := 0; i < n; i++ {
			conf := BConf{
				TTL: []int64{0, h, -1}[e.Rng.Intn(3)], Jitter: -1, Name: "c", Strategy: e.Rng.Intn(3),
				CountLimit: limits[e.Rng.Intn(len(limits))], EvictFrac: fracs[e.Rng.Intn(len(fracs))],
				EvictNeed: e.Rng.Intn(4) == 0, DelAfter: []int64{0, h}[e.Rng.Intn(2)],
				// memory limits that are configured but can never be exceeded must not trigger eviction; a limit of one byte
				// is always exceeded: every cycle has to evict EvictFraction (for the model: as if EvictionNeeded said so)
				HeapLimit: []uint64{0, 0, 1 << 60, 1}[e.Rng.Intn(4)], SysLimit: []uint64{0, 0, 0, 1 << 60, 1}[e.Rng.Intn(5)],
			}
			memBreach := conf.HeapLimit == 1 || conf.SysLimit == 1
			pool := 3*int(conf.CountLimit) + 4

			if e.Rng.Intn(3) == 0 {
				pool = int(conf.CountLimit) + 1
			}

			var keys KeyPool
			for k := 0; k < pool; k++ {
				keys = append(keys, []byte(fmt.Sprintf("k%03d", k)))
			}

			kinds := []string{"write", "write", "write", "write", "write", "read", "read", "read", "cleanup"}
			g := GenOpts{
				Kinds: kinds, Keys: keys, NOps: 10 + e.Rng.Intn(140), TTLs: []int64{0, 0, h, -h, 3 * h},
				Sleeps: []int64{1, 1, 7, int64(time.Second), int64(time.Minute), 2 * h},
			}
			if conf.Strategy != 0 && conf.CountLimit > 0 && i%2 == 0 {
				// recency / frequency decided by accesses a few milliseconds apart on a pool barely over the limit:
				// every entry is read again and again between cleanups
				g.Kinds = []string{"write", "read", "read", "read", "read", "read", "cleanup"}
				g.Sleeps = []int64{int64(time.Millisecond), 5 * int64(time.Millisecond), 100 * int64(time.Millisecond), 300 * int64(time.Millisecond)}
				g.Keys = keys[:int(conf.CountLimit)+2]
				g.TTLs = []int64{0, 3 * h}

				cf.Count("dense_access", 1)
			}

			r := RunBackendOps(t, e.Rng, fl, conf, g)
			nontriv := false

			for j, o := range r.Ops {
				if o.Kind == "cleanup" {
					cf.Count("cleanup", 1)

					if len(o.Removed) > 0 {
						cf.Count("cleanup_removing", 1)

						if j+1 < len(r.Results) && len(r.Results[j+1].Walk) > 0 {
							nontriv = true
						}
					}
				}
			}

			ef := conf.EvictFrac
			if ef == 0 {
				ef = 0.1
			}

			fn, fd := ratOf(ef)
			term := fmt.Sprintf("(%s, C12Case %s %s %s (%s))", fl, fn, fd, Bool(conf.EvictNeed || memBreach), r.CoqCase(conf))
			cf.Add(term, fmt.Sprintf("%s/L=%d/f=%v/s=%d/need=%v/mem=%v", fl, conf.CountLimit, conf.EvictFrac, conf.Strategy, conf.EvictNeed, memBreach),
				map[string]any{"flavour": fl, "conf": conf, "ops": r.Ops, "results": r.Results}, nontriv)
		}
	}

	if err := cf.Write(e); err != nil {
		t.Fatal(err)
	}
}
