package harness

import (
	"bytes"
	"context"
	"fmt"
	"testing"
	"testing/synctest"
	"time"

	"github.com/bool64/cache"
)

func walkCoq(w []WEntry) string {
	it := make([]string, len(w))
	for i, x := range w {
		it[i] = fmt.Sprintf("(mkEntry %s %s %s %s)", Key(x.K), Z(x.V), Z(x.E), Z(x.C))
	}

	return List(it)
}

// fillBackend writes a random entry set: keys of varying length, nil/zero/populated values, with
// and without expiry, with access counters when the strategy maintains them.
func fillBackend(e *Env, b Backend, n int, generic bool) {
	ctx := context.Background()
	seen := map[string]bool{}

	for i := 0; i < n; i++ {
		kl := []int{0, 1, 2, 3, 5, 8, 16, 33, 64}[e.Rng.Intn(9)]
		k := make([]byte, kl)

		for j := range k {
			k[j] = byte(e.Rng.Intn(256))
		}

		if kl > 2 && e.Rng.Intn(2) == 0 {
			copy(k, []byte(fmt.Sprintf("k%d", i)))
		}

		if seen[string(k)] {
			continue
		}

		seen[string(k)] = true

		var v int64

		switch e.Rng.Intn(5) {
		case 0:
			v = 0
		case 1:
			v = -1
		case 2:
			v = 1000 + int64(e.Rng.Intn(1000))
		default:
			v = 1 + int64(e.Rng.Intn(900))
		}

		if generic && v >= 1000 {
			v -= 500
		}

		c := ctx

		switch e.Rng.Intn(5) {
		case 0:
			c = cache.WithTTL(ctx, time.Hour, false)
		case 1:
			c = cache.WithTTL(ctx, -time.Minute, false)
		case 2:
			c = cache.WithTTL(ctx, -48*time.Hour, false) // expired for longer than any DeleteExpiredAfter in use: still transferred
		}

		_ = b.Write(c, k, v)

		for r := e.Rng.Intn(3); r > 0; r-- {
			time.Sleep(time.Duration(1 + e.Rng.Intn(1000)))
			b.Read(ctx, k)
		}
	}
}

// TestC13 dumps random entry sets and restores them into empty caches of the same family, chained.
func TestC13(t *testing.T) {
	e := LoadEnv("C13")
	cf := NewCaseFile("C13", "From Cache Require Import Base Backend Transfer Check.", "check_c13")
	cf.Rule = "entry sets of 0..60 (quick) / 0..300 (thorough) entries: key lengths {0,1,2,3,5,8,16,33,64} random bytes, values nil / " +
		"non-nil zero / int / registered struct, expiry none / +1h / -1m / -48h, access counters under LRU/LFU; source->target pairings " +
		"Sharded->Sharded, Sharded->SyncM, SyncM->Sharded, SyncM->SyncM, ShardedOf->ShardedOf; chain source->t1->t2; " +
		"non-trivial = >= 3 entries incl. an entry without expiry, one with, and a nil/zero value; distinct = distinct Gallina term"

	cache.GobRegister(HStruct{})

	pairs := [][2]string{{FlSharded, FlSharded}, {FlSharded, FlSyncM}, {FlSyncM, FlSharded}, {FlSyncM, FlSyncM}, {FlShardedOf, FlShardedOf}}
	n := e.Pick(50, 400)
	maxN := e.Pick(60, 300)

	for _, p := range pairs {
		for i := 0; i < n; i++ {
			conf := BConf{TTL: []int64{0, -1}[e.Rng.Intn(2)], Jitter: -1, Strategy: e.Rng.Intn(3), Name: "c"}
			size := e.Rng.Intn(maxN + 1)

			if i < 3 {
				size = i
			}

			var (
				srcW, t1W, t2W Res
				cnt            [4]int
				errs           []string
			)

			ht := NewHashTable(p[1])

			synctest.Test(t, func(t *testing.T) {
				src := NewBackend(p[0], conf.Config(nil))
				t1 := NewBackend(p[1], conf.Config(nil))
				t2 := NewBackend(p[0], conf.Config(nil))

				defer src.Close()
				defer t1.Close()
				defer t2.Close()

				fillBackend(e, src, size, p[0] == FlShardedOf)
				srcW = src.Walk()

				var buf bytes.Buffer

				var err error

				if cnt[0], err = src.Dump(&buf); err != nil {
					errs = append(errs, "dump: "+err.Error())
				}

				if cnt[1], err = t1.Restore(&buf); err != nil {
					errs = append(errs, "restore: "+err.Error())
				}

				t1W = t1.Walk()
				buf.Reset()

				if cnt[2], err = t1.Dump(&buf); err != nil {
					errs = append(errs, "dump2: "+err.Error())
				}

				if cnt[3], err = t2.Restore(&buf); err != nil {
					errs = append(errs, "restore2: "+err.Error())
				}

				t2W = t2.Walk()
			})

			for _, w := range srcW.Walk {
				ht.Note(w.K)
			}

			noExp, withExp, nilv := false, false, false

			for _, w := range srcW.Walk {
				noExp = noExp || w.E == 0
				withExp = withExp || w.E != 0
				nilv = nilv || w.V == 0 || w.V == -1
			}

			term := fmt.Sprintf("C13Case %s %s %s %s %s %s %s", ht.Coq(), walkCoq(srcW.Walk), walkCoq(t1W.Walk), walkCoq(t2W.Walk),
				List([]string{Z(int64(cnt[0])), Z(int64(cnt[1])), Z(int64(cnt[2])), Z(int64(cnt[3]))}), Bool(len(errs) == 0 &&
					srcW.Kind == "walk" && t1W.Kind == "walk" && t2W.Kind == "walk"), conf.Coq())
			cf.Add(term, fmt.Sprintf("%s->%s/size=%d", p[0], p[1], len(srcW.Walk)/10*10),
				map[string]any{"source": p[0], "target": p[1], "conf": conf, "src": srcW.Walk, "t1": t1W.Walk, "t2": t2W.Walk,
					"counts": cnt, "errors": errs}, len(srcW.Walk) >= 3 && noExp && withExp && nilv)
			cf.Count("entries", len(srcW.Walk))
		}
	}

	if err := cf.Write(e); err != nil {
		t.Fatal(err)
	}
}
