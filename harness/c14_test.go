package harness

import (
	"bytes"
	"context"
	"encoding/gob"
	"errors"
	"fmt"
	"io"
	"net/http"
	"net/http/httptest"
	"os"
	"os/exec"
	"strconv"
	"strings"
	"testing"
	"testing/synctest"

	"github.com/bool64/cache"
)

// pool of types for the types-hash experiment
type (
	tyA struct{ X int }
	tyB struct {
		Y string
		Z []tyA
	}
	tyC map[string]tyB
	tyD struct {
		P *tyA
		Q map[int]string
		r int
	}
	tyE []float64
	tyF struct{ tyA }
	tyG struct{ N [3]uint8 }
)

var tyPool = []interface{}{tyA{}, tyB{}, tyC{}, tyD{}, tyE{}, tyF{}, int64(0), "", &tyG{}}

// TestC14Child registers the pool types in the order given by VERIF_C14_ORDER in a fresh process and
// prints the resulting types hash.
func TestC14Child(t *testing.T) {
	order := os.Getenv("VERIF_C14_ORDER")
	if order == "" {
		t.Skip("child only")
	}

	// groups separated by ';' are registered by one GobRegister call each
	if order != "-" {
		for _, grp := range strings.Split(order, ";") {
			var vals []interface{}

			for _, s := range strings.Split(grp, ",") {
				i, err := strconv.Atoi(s)
				if err != nil {
					t.Fatal(err)
				}

				vals = append(vals, tyPool[i])
			}

			cache.GobRegister(vals...)
		}
	}

	fmt.Printf("C14HASH %d\n", cache.GobTypesHash())
}

func childHash(t *testing.T, order []int, groups ...int) uint64 {
	s := "-"

	if len(order) > 0 {
		// groups: sizes of consecutive GobRegister calls (default: one value per call)
		var sb strings.Builder

		gi, left := 0, 1
		if len(groups) > 0 {
			left = groups[0]
		}

		for i, o := range order {
			if i > 0 {
				if left == 0 {
					sb.WriteByte(';')

					gi++
					left = 1

					if gi < len(groups) {
						left = groups[gi]
					}
				} else {
					sb.WriteByte(',')
				}
			}

			sb.WriteString(strconv.Itoa(o))

			left--
		}

		s = sb.String()
	}

	cmd := exec.Command(os.Args[0], "-test.run", "^TestC14Child$", "-test.count=1")
	cmd.Env = append(os.Environ(), "VERIF_C14_ORDER="+s)

	out, err := cmd.CombinedOutput()
	if err != nil {
		t.Fatalf("child failed: %v\n%s", err, out)
	}

	for _, line := range strings.Split(string(out), "\n") {
		if strings.HasPrefix(line, "C14HASH ") {
			v, err := strconv.ParseUint(strings.TrimPrefix(line, "C14HASH "), 10, 64)
			if err != nil {
				t.Fatal(err)
			}

			return v
		}
	}

	t.Fatalf("no hash in child output: %s", out)

	return 0
}

type rtFunc func(*http.Request) (*http.Response, error)

func (f rtFunc) RoundTrip(r *http.Request) (*http.Response, error) { return f(r) }

type cutReader struct {
	r    io.Reader
	left int
}

func (c *cutReader) Read(p []byte) (int, error) {
	if c.left <= 0 {
		return 0, io.ErrUnexpectedEOF
	}

	if len(p) > c.left {
		p = p[:c.left]
	}

	n, err := c.r.Read(p)
	c.left -= n

	return n, err
}

func decodeBody(fl string, body []byte) ([]WEntry, error) {
	dec := gob.NewDecoder(bytes.NewReader(body))

	var out []WEntry

	for {
		if fl == FlShardedOf {
			var e cache.TraitEntryOf[int]
			if err := dec.Decode(&e); err != nil {
				if errors.Is(err, io.EOF) {
					return out, nil
				}

				return out, err
			}

			out = append(out, WEntry{K: e.K, V: int64(e.V), E: e.E, C: e.C})
		} else {
			var e cache.TraitEntry
			if err := dec.Decode(&e); err != nil {
				if errors.Is(err, io.EOF) {
					return out, nil
				}

				return out, err
			}

			out = append(out, WEntry{K: e.K, V: tokOf(e.V), E: e.E, C: e.C})
		}
	}
}

func wdr(b Backend) cache.WalkDumpRestorer {
	switch m := b.Raw().(type) {
	case *cache.ShardedMap:
		return m
	case *cache.SyncMap:
		return m
	case *cache.ShardedMapOf[int]:
		return m.WalkDumpRestorer()
	}

	panic("unknown backend")
}

// TestC14 transfers named caches through HTTPTransfer with an in-process transport (normal,
// mismatching types hash, unknown names, failing and truncated bodies) and measures the types hash
// for registration orders in fresh processes.
func TestC14(t *testing.T) {
	e := LoadEnv("C14")
	cf := NewCaseFile("C14", "From Cache Require Import Base Backend Transfer Check.", "check_c14")
	cf.Rule = "transfer: 0..3 named caches per side from names {a,b,c,d} (overlapping / disjoint), entry sets of 0..12 entries, importer " +
		"caches empty or pre-filled, modes {ok, types-hash mismatch, transport failure, body cut at a random byte offset (thorough: every " +
		"offset of a small dump)}, backends Sharded/SyncM/ShardedOf(adapter) same family per name; hash: singleton fingerprints of a 9-type " +
		"pool and random orders/multiplicities, each evaluated in a fresh process; non-trivial transfer = at least one cache imported and " +
		"one left alone; distinct = distinct Gallina term"

	cache.GobRegister(HStruct{})

	names := []string{"a", "b", "c", "d"}
	modes := []string{"ok", "ok", "ok", "mismatch", "fail", "cut", "cut"}
	n := e.Pick(150, 1500)

	for i := 0; i < n; i++ {
		if i == n/2 {
			// from here on the process reports the types hash 0 (an exporter that registered nothing):
			// a differing hash sent by the importer must still be refused
			cache.GobTypesHashReset()
		}

		mode := modes[e.Rng.Intn(len(modes))]
		fam := []string{"legacy", "generic"}[e.Rng.Intn(2)]
		pick := func() string {
			if fam == "generic" {
				return FlShardedOf
			}

			return []string{FlSharded, FlSyncM}[e.Rng.Intn(2)]
		}

		type side struct {
			Name    string   `json:"name"`
			Fl      string   `json:"flavour"`
			Initial []WEntry `json:"initial"`
			Final   []WEntry `json:"final,omitempty"`
			Order   []WEntry `json:"dumpOrder,omitempty"`
		}

		var (
			exps, imps []side
			cutAt      = -1
			bodyLen    = 0
			importErr  error
		)

		synctest.Test(t, func(t *testing.T) {
			exporter := &cache.HTTPTransfer{}
			importer := &cache.HTTPTransfer{}
			conf := BConf{TTL: -1, Jitter: -1, Name: "c"}

			var backs []Backend

			defer func() {
				for _, b := range backs {
					b.Close()
				}
			}()

			perm := e.Rng.Perm(len(names))
			ne, ni := e.Rng.Intn(4), e.Rng.Intn(4)

			for j := 0; j < ne; j++ {
				b := NewBackend(pick(), conf.Config(nil))
				backs = append(backs, b)
				fillBackend(e, b, e.Rng.Intn(13), fam == "generic")
				exporter.AddCache(names[perm[j]], wdr(b))
				exps = append(exps, side{Name: names[perm[j]], Fl: b.Flavour(), Initial: b.Walk().Walk})
			}

			perm2 := e.Rng.Perm(len(names))
			impBacks := map[string]Backend{}

			for j := 0; j < ni; j++ {
				b := NewBackend(pick(), conf.Config(nil))
				backs = append(backs, b)

				if e.Rng.Intn(3) == 0 {
					fillBackend(e, b, e.Rng.Intn(5), fam == "generic")
				}

				importer.AddCache(names[perm2[j]], wdr(b))
				impBacks[names[perm2[j]]] = b
				imps = append(imps, side{Name: names[perm2[j]], Fl: b.Flavour(), Initial: b.Walk().Walk})
			}

			h := exporter.Export()
			importer.Transport = rtFunc(func(r *http.Request) (*http.Response, error) {
				if mode == "fail" {
					return nil, errors.New("transport failure")
				}

				if mode == "mismatch" {
					q := r.URL.Query()
					q.Set("typesHash", q.Get("typesHash")+"1")
					r.URL.RawQuery = q.Encode()
				}

				rec := httptest.NewRecorder()
				h.ServeHTTP(rec, r)
				resp := rec.Result()

				if resp.StatusCode == http.StatusOK {
					body, _ := io.ReadAll(resp.Body)
					name := r.URL.Query().Get("name")

					for k := range exps {
						if exps[k].Name == name {
							exps[k].Order, _ = decodeBody(exps[k].Fl, body)
						}
					}

					if mode == "cut" {
						if cutAt < 0 {
							bodyLen = len(body)
							cutAt = e.Rng.Intn(len(body) + 1)
						}

						resp.Body = io.NopCloser(&cutReader{r: bytes.NewReader(body), left: cutAt})
					} else {
						resp.Body = io.NopCloser(bytes.NewReader(body))
					}
				}

				return resp, nil
			})

			importErr = importer.Import(context.Background(), "http://exporter/dump")

			for k := range imps {
				imps[k].Final = impBacks[imps[k].Name].Walk().Walk
			}
		})

		ht := NewHashTable(FlSyncM) // injective numbering; collisions are C09's business

		expItems := make([]string, 0)
		imported, alone := false, false

		for _, x := range exps {
			for _, w := range x.Initial {
				ht.Note(w.K)
			}

			order := x.Order
			if order == nil {
				order = x.Initial
			}

			expItems = append(expItems, Tuple(N(uint64(x.Name[0]-'a'+1)), walkCoq(order)))
		}

		impItems := make([]string, 0)

		for _, x := range imps {
			for _, w := range x.Initial {
				ht.Note(w.K)
			}

			impItems = append(impItems, Tuple(N(uint64(x.Name[0]-'a'+1)), walkCoq(x.Initial), walkCoq(x.Final)))

			if len(x.Final) != len(x.Initial) {
				imported = true
			} else {
				alone = true
			}
		}

		modeCoq := map[string]string{"ok": "MOk", "mismatch": "MMismatch", "fail": "MFail", "cut": "MCut"}[mode]
		term := fmt.Sprintf("C14T %s %s %s %s %s", ht.Coq(), modeCoq, List(expItems), List(impItems), Bool(importErr == nil))
		h0 := ""
		if cache.GobTypesHash() == 0 {
			h0 = "/hash0"
		}

		cf.Add(term, "transfer/"+mode+"/"+fam+h0, map[string]any{"mode": mode, "family": fam, "exporter": exps, "importer": imps,
			"cutAt": cutAt, "bodyLen": bodyLen}, imported && alone)
	}

	// ---- types hash, each registration order in a fresh process ----
	fps := make([]uint64, len(tyPool))
	for i := range tyPool {
		fps[i] = childHash(t, []int{i})
	}

	base := childHash(t, nil)
	nOrders := e.Pick(25, 200)

	var (
		obs       []string
		prevOrder []int
	)

	for i := 0; i < nOrders; i++ {
		var (
			order  []int
			groups []int
		)

		// rounds of four: a random order; the same set in the opposite order with one repeat (order and repetition
		// independence on the implementation's own observations); the previous order through multi-argument calls;
		// the first order with one more type in front ("changes when a type is added")
		switch {
		case i%4 == 1 && len(prevOrder) > 0:
			for j := len(prevOrder) - 1; j >= 0; j-- {
				order = append(order, prevOrder[j])
			}

			order = append(order, prevOrder[e.Rng.Intn(len(prevOrder))])

			cf.Count("hash_orders_reversed", 1)
		case i%4 == 2 && len(prevOrder) > 0:
			order = prevOrder

			for left := len(order); left > 0; {
				g := 1 + e.Rng.Intn(4)
				if g > left {
					g = left
				}

				groups = append(groups, g)
				left -= g
			}

			cf.Count("hash_orders_grouped", 1)
		case i%4 == 3 && len(prevOrder) > 0:
			in := map[int]bool{}
			for _, o := range prevOrder {
				in[o] = true
			}

			var free []int

			for o := range tyPool {
				if !in[o] {
					free = append(free, o)
				}
			}

			if len(free) > 0 {
				order = append([]int{free[e.Rng.Intn(len(free))]}, prevOrder...)

				cf.Count("hash_orders_extended", 1)

				break
			}

			fallthrough
		default:
			l := 1 + e.Rng.Intn(7)
			order = make([]int, l)

			for j := range order {
				order[j] = e.Rng.Intn(len(tyPool))
			}
		}

		prevOrder = order
		hv := childHash(t, order, groups...)
		on := make([]uint64, len(order))

		for j, o := range order {
			on[j] = uint64(o)
		}

		obs = append(obs, Tuple(NList(on), N(hv)))
		cf.Count("hash_orders", 1)
	}

	term := fmt.Sprintf("C14H %s %s %s", N(base), NList(fps), List(obs))
	cf.Add(term, "hash", map[string]any{"base": base, "fingerprints": fps, "orders": nOrders}, true)

	if err := cf.Write(e); err != nil {
		t.Fatal(err)
	}
}
