package harness

import (
	"context"
	"errors"
	"fmt"
	"sort"
	"testing"
	"testing/synctest"

	"github.com/bool64/cache"
)

var errOutage = errors.New("deleter outage")

type c15Deleter struct {
	id     uint64
	name   string
	inner  cache.Deleter
	broken map[string]bool // keys for which this cache is broken
	calls  *[]string       // names in call order
	mid    *func()
}

func (d *c15Deleter) Delete(ctx context.Context, key []byte) error {
	*d.calls = append(*d.calls, d.name)

	if d.mid != nil && *d.mid != nil {
		f := *d.mid
		*d.mid = nil
		f() // somebody else labels keys while the invalidation is between its cut and its deletes
	}

	if d.broken[string(key)] {
		return errOutage
	}

	k := append([]byte{}, key...)
	err := d.inner.Delete(ctx, k)

	for i := range k { // the deleter may not rely on the slice it was handed either
		k[i] = 0
	}

	return err
}

type c15Action struct {
	Labels []uint64                       `json:"labels"`
	Broken [][2]interface{}               `json:"broken"`
	Result string                         `json:"result"` // ok err panic other
	Count  int                            `json:"count"`
	Caches map[uint64][]string            `json:"cachesAfter"`
	Index  map[string]map[string][]string `json:"indexAfter"`
	Order  []string                       `json:"nameOrder"`
	Mid    []string                       `json:"addLabelsDuring,omitempty"`
	midCoq []string
	Panic  string `json:"panic,omitempty"`
}

func nameID(n string) uint64 {
	if n == "default" {
		return 1
	}

	return 2
}

func keysCoq(ks []string) string {
	it := make([]string, len(ks))
	for i, k := range ks {
		it[i] = Key([]byte(k))
	}

	return List(it)
}

func labelN(l string) uint64 { return uint64(l[0]-'A') + 1 }

func indexCoq(ix map[string]map[string][]string) string {
	var names []string
	for n := range ix {
		names = append(names, n)
	}

	sort.Strings(names)

	var out []string

	for _, n := range names {
		var ls []string
		for l := range ix[n] {
			ls = append(ls, l)
		}

		sort.Strings(ls)

		var items []string

		for _, l := range ls {
			if len(ix[n][l]) == 0 {
				continue
			}

			items = append(items, Tuple(N(labelN(l)), keysCoq(ix[n][l])))
		}

		out = append(out, Tuple(N(nameID(n)), List(items)))
	}

	return List(out)
}

// TestC15 builds random label/key incidence structures over several caches per name, injects deleter
// outages, invalidates by labels (with retries after recovery) and observes counts, caches and index.
func TestC15(t *testing.T) {
	e := LoadEnv("C15")
	cf := NewCaseFile("C15", "From Cache Require Import Base Index Check.", "check_c15")
	cf.Rule = "2..8 keys, 1..4 labels (A..D), 1..2 cache names with 1..3 caches each (ShardedMap / SyncMap / ShardedMapOf as Deleter), caches " +
		"holding random subsets of the keys; 3..14 AddLabels calls with repeats and with the key buffer overwritten afterwards; then 2..5 " +
		"InvalidateByLabels calls with 1..4 label arguments in random order (repeated arguments included), each with an outage set of " +
		"(cache, key) pairs (empty, one pair, or a whole cache) followed by a retry after recovery; recover() around every call; " +
		"in single-name cases 1/3 of the invalidations have AddLabels calls by 'somebody else' landing between the cut and the first delete; " +
		"non-trivial = an invalidation that failed and a later one that removed entries"

	n := e.Pick(220, 3000)

	for i := 0; i < n; i++ {
		nk := 2 + e.Rng.Intn(7)
		nl := 1 + e.Rng.Intn(4)
		names := []string{"default"}

		if e.Rng.Intn(3) == 0 {
			names = append(names, "n2")
		}

		keys := make([]string, nk)
		for k := range keys {
			keys[k] = fmt.Sprintf("k%d", k+1)
		}

		var (
			actions  []c15Action
			initC    = map[uint64][]string{}
			delOf    = map[string][]uint64{}
			adds     []string
			addItems []string
		)

		synctest.Test(t, func(t *testing.T) {
			var (
				backs []Backend
				dels  []*c15Deleter
				calls []string
				mid   func()
			)

			defer func() {
				for _, b := range backs {
					b.Close()
				}
			}()

			conf := BConf{TTL: -1, Jitter: -1, Name: "c"}
			ctx := context.Background()

			var ix *cache.InvalidationIndex

			id := uint64(0)

			for _, name := range names {
				nc := 1 + e.Rng.Intn(3)
				for c := 0; c < nc; c++ {
					id++
					b := NewBackend(Flavours[e.Rng.Intn(3)], conf.Config(nil))
					backs = append(backs, b)

					for _, k := range keys {
						if e.Rng.Intn(4) != 0 {
							_ = b.Write(ctx, []byte(k), 1)
							initC[id] = append(initC[id], k)
						}
					}

					d := &c15Deleter{id: id, name: name, inner: b.Deleter(), broken: map[string]bool{}, calls: &calls, mid: &mid}
					dels = append(dels, d)
					delOf[name] = append(delOf[name], id)

					if ix == nil {
						ix = cache.NewInvalidationIndex(d)
					} else {
						ix.AddCache(name, d)
					}
				}
			}

			// labelling
			for a := 3 + e.Rng.Intn(12); a > 0; a-- {
				name := names[e.Rng.Intn(len(names))]
				k := keys[e.Rng.Intn(nk)]

				var ls []string

				for x := 1 + e.Rng.Intn(3); x > 0; x-- {
					ls = append(ls, string(rune('A'+e.Rng.Intn(nl))))
				}

				buf := []byte(k)
				ix.AddLabels(name, buf, ls...)

				for j := range buf {
					buf[j] ^= 0x3c
				}

				lns := make([]uint64, len(ls))
				for j, l := range ls {
					lns[j] = labelN(l)
				}

				adds = append(adds, fmt.Sprintf("%s:%s:%v", name, k, ls))
				addItems = append(addItems, Tuple(N(nameID(name)), Key([]byte(k)), NList(lns)))
			}

			snapshot := func() map[uint64][]string {
				out := map[uint64][]string{}

				for j, b := range backs {
					for _, w := range b.Walk().Walk {
						out[uint64(j+1)] = append(out[uint64(j+1)], string(w.K))
					}
				}

				return out
			}

			invalidate := func(ls []string, broken [][2]interface{}) {
				for _, d := range dels {
					d.broken = map[string]bool{}
				}

				for _, b := range broken {
					dels[b[0].(uint64)-1].broken[b[1].(string)] = true
				}

				calls = nil
				act := c15Action{Broken: broken}
				mid = nil

				if len(names) == 1 && e.Rng.Intn(3) == 0 {
					type add struct {
						k  string
						ls []string
					}

					var planned []add

					for x := 1 + e.Rng.Intn(3); x > 0; x-- {
						a := add{k: keys[e.Rng.Intn(nk)]}
						for y := 1 + e.Rng.Intn(2); y > 0; y-- {
							a.ls = append(a.ls, string(rune('A'+e.Rng.Intn(nl))))
						}

						planned = append(planned, a)
					}

					mid = func() {
						for _, a := range planned {
							ix.AddLabels("default", []byte(a.k), a.ls...)

							lns := make([]uint64, len(a.ls))
							for j, l := range a.ls {
								lns[j] = labelN(l)
							}

							act.Mid = append(act.Mid, fmt.Sprintf("%s:%v", a.k, a.ls))
							act.midCoq = append(act.midCoq, Tuple(Key([]byte(a.k)), NList(lns)))
						}
					}
				}

				for _, l := range ls {
					act.Labels = append(act.Labels, labelN(l))
				}

				func() {
					defer func() {
						if r := recover(); r != nil {
							act.Result = "panic"
							act.Panic = fmt.Sprint(r)
						}
					}()

					cnt, err := ix.InvalidateByLabels(ctx, ls...)
					act.Count = cnt

					switch {
					case err == nil:
						act.Result = "ok"
					case errors.Is(err, errOutage):
						act.Result = "err"
					default:
						act.Result = "other"
					}
				}()

				seen := map[string]bool{}

				for _, c := range calls {
					if !seen[c] {
						seen[c] = true
						act.Order = append(act.Order, c)
					}
				}

				for _, nm := range names {
					if !seen[nm] {
						act.Order = append(act.Order, nm)
					}
				}

				act.Caches = snapshot()
				act.Index = ix.VerifIndexSize()
				actions = append(actions, act)
			}

			for a := 1 + e.Rng.Intn(3); a > 0; a-- {
				var ls []string

				for x := 1 + e.Rng.Intn(4); x > 0; x-- {
					ls = append(ls, string(rune('A'+e.Rng.Intn(nl))))
				}

				var broken [][2]interface{}

				switch e.Rng.Intn(4) {
				case 0: // one pair
					broken = append(broken, [2]interface{}{uint64(1 + e.Rng.Intn(len(dels))), keys[e.Rng.Intn(nk)]})
				case 1: // a whole cache
					c := uint64(1 + e.Rng.Intn(len(dels)))
					for _, k := range keys {
						broken = append(broken, [2]interface{}{c, k})
					}
				}

				invalidate(ls, broken)

				if len(broken) > 0 {
					invalidate(ls, nil) // retry after recovery
				}
			}
		})

		// ---- emit ----
		var cacheItems, delItems, actItems []string

		var ids []uint64

		for _, nm := range names {
			ids = append(ids, delOf[nm]...)
		}

		for _, id := range ids {
			sort.Strings(initC[id])
			cacheItems = append(cacheItems, Tuple(N(id), keysCoq(initC[id])))
		}

		for _, nm := range names {
			delItems = append(delItems, Tuple(N(nameID(nm)), NList(delOf[nm])))
		}

		failed, removedLater := false, false

		for _, a := range actions {
			var br []string
			for _, b := range a.Broken {
				br = append(br, Tuple(N(b[0].(uint64)), Key([]byte(b[1].(string)))))
			}

			var cs []string

			for _, id := range ids {
				sort.Strings(a.Caches[id])
				cs = append(cs, Tuple(N(id), keysCoq(a.Caches[id])))
			}

			var ord []uint64
			for _, o := range a.Order {
				ord = append(ord, nameID(o))
			}

			res := map[string]string{"ok": "IOk", "err": "IErr", "panic": "IPanic", "other": "IOther"}[a.Result]
			actItems = append(actItems, fmt.Sprintf("(mkAct %s %s %s %s %s %s %s %s)", NList(a.Labels), List(br), NList(ord), List(a.midCoq), res, Z(int64(a.Count)),
				List(cs), indexCoq(a.Index)))

			if a.Result != "ok" {
				failed = true
			} else if failed && a.Count > 0 {
				removedLater = true
			}
		}

		term := fmt.Sprintf("C15Case %s %s %s %s", List(cacheItems), List(delItems), List(addItems), List(actItems))
		cf.Add(term, fmt.Sprintf("names=%d/caches=%d", len(names), len(ids)),
			map[string]any{"keys": keys, "caches": initC, "deleters": delOf, "addLabels": adds, "actions": actions}, failed && removedLater)
	}

	if err := cf.Write(e); err != nil {
		t.Fatal(err)
	}
}
