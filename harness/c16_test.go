package harness

import (
	"bytes"
	"context"
	"fmt"
	"io"
	"os"
	"sync"
	"testing"
	"time"

	"github.com/bool64/cache"
)

// raceOp is a public operation applied to shared instances.
type raceOp struct {
	Name string
	Run  func(env *raceEnv, g, i int)
}

type raceEnv struct {
	b      Backend
	dump   []byte
	fl     string
	legacy *cache.Failover
	gen    *cache.FailoverOf[int]
	idx    *cache.InvalidationIndex
	inv    *cache.Invalidator
}

func backendOps() []raceOp {
	ctx := context.Background()
	key := func(g, i int) []byte { return []byte(fmt.Sprintf("k%d", (g*7+i)%12)) }

	return []raceOp{
		{"Read", func(e *raceEnv, g, i int) { e.b.Read(ctx, key(g, i)) }},
		{"ReadSame", func(e *raceEnv, g, i int) { e.b.Read(ctx, []byte("k1")) }},
		{"Write", func(e *raceEnv, g, i int) { _ = e.b.Write(ctx, key(g, i), int64(i+1)) }},
		{"WriteTTL", func(e *raceEnv, g, i int) {
			_ = e.b.Write(cache.WithTTL(ctx, time.Duration(i%3-1)*time.Hour, false), key(g, i), int64(i+1))
		}},
		{"Delete", func(e *raceEnv, g, i int) { e.b.Delete(ctx, key(g, i)) }},
		{"ExpireAll", func(e *raceEnv, g, i int) { e.b.ExpireAll(ctx) }},
		{"DeleteAll", func(e *raceEnv, g, i int) { e.b.DeleteAll(ctx) }},
		{"Len", func(e *raceEnv, g, i int) { e.b.Len() }},
		{"Walk", func(e *raceEnv, g, i int) { e.b.Walk() }},
		{"Dump", func(e *raceEnv, g, i int) { _, _ = e.b.Dump(io.Discard) }},
		{"Restore", func(e *raceEnv, g, i int) { _, _ = e.b.Restore(bytes.NewReader(e.dump)) }},
		{"Cleanup", func(e *raceEnv, g, i int) { e.b.Cleanup() }},
		{"LoadStore", func(e *raceEnv, g, i int) { e.b.Store(key(g, i), int64(i+1)); e.b.Load(key(g, i)) }},
	}
}

func newRaceBackend(fl string, strategy int) *raceEnv {
	conf := BConf{TTL: int64(time.Hour), Jitter: 0, Strategy: strategy, CountLimit: 8, EvictFrac: 0.3, DelAfter: int64(time.Minute), Name: "c"}
	if strategy == 1 {
		// variant: UnlimitedTTL configuration (per-call TTLs switch the delete-expired job on)
		conf.TTL, conf.Strategy = -1, 0
	}

	e := &raceEnv{b: NewBackend(fl, conf.Config(NewStats())), fl: fl}
	ctx := context.Background()

	src := NewBackend(fl, conf.Config(nil))
	for i := 0; i < 6; i++ {
		_ = src.Write(ctx, []byte(fmt.Sprintf("k%d", i)), int64(i+1))
		_ = e.b.Write(ctx, []byte(fmt.Sprintf("k%d", i)), int64(i+1))
	}

	var buf bytes.Buffer

	_, _ = src.Dump(&buf)
	e.dump = buf.Bytes()
	src.Close()

	return e
}

func runPair(a, b raceOp, env *raceEnv, iters int) {
	var wg sync.WaitGroup

	for g, op := range []raceOp{a, b} {
		wg.Add(1)

		go func(g int, op raceOp) {
			defer wg.Done()

			for i := 0; i < iters; i++ {
				op.Run(env, g, i)
			}
		}(g, op)
	}

	wg.Wait()
}

// TestC16 runs every unordered pair of public operations of each component concurrently on shared
// instances. It is meant to be built with -race; markers on stderr attribute reports to pairs.
func TestC16(t *testing.T) {
	e := LoadEnv("C16")
	iters := e.Pick(150, 1500)
	pairs := 0
	marker := func(comp, a, b string) {
		pairs++
		fmt.Fprintf(os.Stderr, "\nC16PAIR %s %s %s\n", comp, a, b)
	}

	ops := backendOps()

	for _, fl := range Flavours {
		for strategy := 0; strategy < 3; strategy++ { // EvictMostExpired, UnlimitedTTL variant, LFU (counter bookkeeping on reads)
			for i := range ops {
				for j := i; j < len(ops); j++ {
					env := newRaceBackend(fl, strategy)
					marker(fmt.Sprintf("%s/s%d", fl, strategy), ops[i].Name, ops[j].Name)
					runPair(ops[i], ops[j], env, iters)
					env.b.Close()
				}
			}
		}
	}

	// Failover: Get x Get on shared and distinct keys, Get x backend maintenance
	ctx := context.Background()

	for _, variant := range []string{"Legacy", "Generic"} {
		for _, sync := range []bool{false, true} {
			fl := FlShardedOf
			if variant == "Legacy" {
				fl = FlSharded
			}

			env := newRaceBackend(fl, 0)

			var get raceOp

			if variant == "Legacy" {
				f := cache.NewFailover(func(cfg *cache.FailoverConfig) {
					cfg.Backend = env.b.Raw().(cache.ReadWriter)
					cfg.SyncUpdate = sync
				})
				get = raceOp{"Get", func(_ *raceEnv, g, i int) {
					_, _ = f.Get(ctx, []byte(fmt.Sprintf("k%d", i%3)), func(ctx context.Context) (interface{}, error) {
						if i%5 == 0 {
							return nil, berr{n: 1}
						}

						return i, nil
					})
				}}

				defer f.VerifClose()
			} else {
				f := cache.NewFailoverOf[int](func(cfg *cache.FailoverConfigOf[int]) {
					cfg.Backend = env.b.Raw().(*cache.ShardedMapOf[int])
					cfg.SyncUpdate = sync
				})
				get = raceOp{"Get", func(_ *raceEnv, g, i int) {
					_, _ = f.Get(ctx, []byte(fmt.Sprintf("k%d", i%3)), func(ctx context.Context) (int, error) {
						if i%5 == 0 {
							return 0, berr{n: 1}
						}

						return i, nil
					})
				}}

				defer f.VerifClose()
			}

			for _, other := range append([]raceOp{get}, ops[5], ops[6], ops[8], ops[11]) { // Get, ExpireAll, DeleteAll, Walk, Cleanup
				marker(fmt.Sprintf("Failover%s/sync=%v", variant, sync), "Get", other.Name)
				runPair(get, other, env, iters)
			}

			time.Sleep(20 * time.Millisecond) // let background builds finish
			env.b.Close()
		}
	}

	// InvalidationIndex and Invalidator
	idxOps := []raceOp{
		{"AddLabels", func(e *raceEnv, g, i int) {
			e.idx.AddLabels(fmt.Sprintf("n%d", i%3), []byte(fmt.Sprintf("k%d", i%6)), "A", "B")
		}},
		{"AddCache", func(e *raceEnv, g, i int) { e.idx.AddCache(fmt.Sprintf("n%d", i%3), e.b.Deleter()) }},
		{"InvalidateByLabels", func(e *raceEnv, g, i int) { _, _ = e.idx.InvalidateByLabels(ctx, "A") }},
		{"InvalidateFailing", func(e *raceEnv, g, i int) { _, _ = e.idx.InvalidateByLabels(ctx, "A", "B") }},
	}

	for i := range idxOps {
		for j := i; j < len(idxOps); j++ {
			env := newRaceBackend(FlSharded, 0)
			env.idx = cache.NewInvalidationIndex(env.b.Deleter())
			if idxOps[i].Name == "InvalidateFailing" || idxOps[j].Name == "InvalidateFailing" {
				env.idx.AddCache("n1", failingDeleter{})
			}

			marker("Index", idxOps[i].Name, idxOps[j].Name)
			runPair(idxOps[i], idxOps[j], env, iters)
			env.b.Close()
		}
	}

	for _, skip := range []time.Duration{time.Nanosecond, 0} { // 0: the default interval is filled in by the first call
		env := &raceEnv{inv: &cache.Invalidator{SkipInterval: skip, Callbacks: []func(context.Context){func(context.Context) {}}}}
		op := raceOp{"Invalidate", func(e *raceEnv, g, i int) { _ = e.inv.Invalidate(ctx) }}
		marker("Invalidator", "Invalidate", fmt.Sprintf("Invalidate/skip=%v", skip))
		runPair(op, op, env, iters)
	}

	fmt.Fprintf(os.Stderr, "\nC16DONE %d\n", pairs)
}

type failingDeleter struct{}

func (failingDeleter) Delete(ctx context.Context, key []byte) error { return errOutage }
