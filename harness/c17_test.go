package harness

import (
	"context"
	"errors"
	"fmt"
	"runtime"
	"sort"
	"sync"
	"sync/atomic"
	"testing"
	"testing/synctest"
	"time"

	"github.com/bool64/cache"
)

type c17obs struct {
	T   int64    `json:"t"`
	Res string   `json:"res"`
	Ran []uint64 `json:"ran"`
}

func iresOf(err error) string {
	switch {
	case err == nil:
		return "ROk"
	case errors.Is(err, cache.ErrAlreadyInvalidated):
		return "RAlready"
	case errors.Is(err, cache.ErrNothingToInvalidate):
		return "RNothing"
	default:
		return "ROther"
	}
}

// TestC17 drives Invalidator.Invalidate sequentially on an exact fake clock and concurrently on
// the real clock, and prints the observations for Cases_C17.
func TestC17(t *testing.T) {
	e := LoadEnv("C17")
	cf := NewCaseFile("C17", "From Cache Require Import Base Invalidator Check.", "check_c17")
	cf.Rule = "sequential: random SkipInterval in {0,1ns,1s,15s,1h,-1s}, 0..5 callbacks (nil = none), 1..30 calls at " +
		"fake-clock gaps drawn around the effective interval (boundary ns included); concurrent: 2..64 goroutines on the real clock, every other case 2..12 goroutines released from a spin barrier; " +
		"non-trivial = at least one accepted and one rejected call; distinct = distinct Gallina term"

	skips := []int64{0, 1, int64(time.Second), int64(15 * time.Second), int64(time.Hour), -int64(time.Second)}
	nSeq := e.Pick(300, 3000)

	for i := 0; i < nSeq; i++ {
		skip := skips[e.Rng.Intn(len(skips))]
		ncb := e.Rng.Intn(7) - 1 // -1 = nil callbacks
		ncalls := 1 + e.Rng.Intn(30)
		eff := skip

		if eff == 0 {
			eff = int64(15 * time.Second)
		}

		gaps := make([]int64, ncalls)
		for j := range gaps {
			switch e.Rng.Intn(8) {
			case 0:
				gaps[j] = 0
			case 1:
				gaps[j] = eff
			case 2:
				gaps[j] = eff - 1
			case 3:
				gaps[j] = eff + 1
			case 4:
				gaps[j] = eff / 2
			case 5:
				gaps[j] = eff / 3
			case 6:
				gaps[j] = 2 * eff
			default:
				gaps[j] = e.Rng.Int63n(2*abs64(eff) + 2)
			}

			if gaps[j] < 0 {
				gaps[j] = 0
			}
		}

		var obs []c17obs

		synctest.Test(t, func(t *testing.T) {
			inv := &cache.Invalidator{SkipInterval: time.Duration(skip)}

			var ran []uint64

			if ncb >= 0 {
				inv.Callbacks = []func(ctx context.Context){}
				for c := 0; c < ncb; c++ {
					c := uint64(c + 1)
					inv.Callbacks = append(inv.Callbacks, func(ctx context.Context) { ran = append(ran, c) })
				}

				if ncb == 0 {
					// "no callbacks registered" is Callbacks == nil (O2): registration by append
					// never yields an empty non-nil slice.
					inv.Callbacks = nil
				}
			}

			for j := 0; j < ncalls; j++ {
				time.Sleep(time.Duration(gaps[j]))

				ran = nil
				now := time.Now().UnixNano()
				err := inv.Invalidate(context.Background())
				obs = append(obs, c17obs{T: now, Res: iresOf(err), Ran: append([]uint64{}, ran...)})
			}
		})

		cbs := make([]uint64, 0)
		for c := 0; c < ncb; c++ {
			cbs = append(cbs, uint64(c+1))
		}

		items := make([]string, len(obs))
		acc, rej := 0, 0

		for j, o := range obs {
			items[j] = Tuple(Z(o.T), o.Res, NList(o.Ran))

			if o.Res == "ROk" {
				acc++
			} else {
				rej++
			}
		}

		term := fmt.Sprintf("C17Seq %s %s %s", Z(skip), Opt(ncb > 0, NList(cbs)), List(items))
		tag := fmt.Sprintf("seq/skip=%d/cbs=%d", skip, ncb)
		cf.Add(term, tag, map[string]any{"kind": "seq", "skip": skip, "ncb": ncb, "gaps": gaps, "obs": obs}, acc > 0 && rej > 0)
		cf.Count("calls_accepted", acc)
		cf.Count("calls_rejected", rej)
	}

	// Concurrent runs on the real clock: callbacks run under the Invalidator's mutex, so they
	// cannot be parked inside a synctest bubble; the event order is recorded by the callbacks.
	nConc := e.Pick(40, 400)

	for i := 0; i < nConc; i++ {
		workers := 2 + e.Rng.Intn(63)
		spin := i%2 == 0 // released from a spin barrier: the callers reach Invalidate within nanoseconds of each other

		if spin {
			workers = 2 + e.Rng.Intn(11)
		}

		ncb := 1 + e.Rng.Intn(4)
		long := e.Rng.Intn(2) == 0
		skip := time.Hour

		if !long {
			skip = time.Nanosecond
		}

		type ev struct {
			Caller uint64 `json:"caller"`
			Cb     uint64 `json:"cb"`
		}

		var (
			mu      sync.Mutex
			events  []ev
			inside  int32
			overlap int32
		)

		inv := &cache.Invalidator{SkipInterval: skip}

		type callerKey struct{}

		for c := 0; c < ncb; c++ {
			c := uint64(c + 1)

			inv.Callbacks = append(inv.Callbacks, func(ctx context.Context) {
				if atomic.AddInt32(&inside, 1) > 1 {
					atomic.StoreInt32(&overlap, 1)
				}

				mu.Lock()
				events = append(events, ev{Caller: ctx.Value(callerKey{}).(uint64), Cb: c})
				mu.Unlock()
				atomic.AddInt32(&inside, -1)
			})
		}

		results := make([]string, workers)

		var wg sync.WaitGroup

		start := make(chan struct{})

		var (
			ready int32
			fire  int32
		)

		for w := 0; w < workers; w++ {
			wg.Add(1)

			go func(w int) {
				defer wg.Done()

				if spin {
					atomic.AddInt32(&ready, 1)

					for atomic.LoadInt32(&fire) == 0 { //nolint:revive // busy wait on purpose
					}
				} else {
					<-start
				}

				ctx := context.WithValue(context.Background(), callerKey{}, uint64(w+1))
				results[w] = iresOf(inv.Invalidate(ctx))
			}(w)
		}

		if spin {
			for atomic.LoadInt32(&ready) != int32(workers) {
				runtime.Gosched()
			}

			atomic.StoreInt32(&fire, 1)
		}

		close(start)
		wg.Wait()

		evItems := make([]string, len(events))
		for j, x := range events {
			evItems[j] = Tuple(N(x.Caller), N(x.Cb))
		}

		cbs := make([]uint64, ncb)
		for c := range cbs {
			cbs[c] = uint64(c + 1)
		}

		resItems := make([]string, workers)
		acc := 0

		for w, r := range results {
			resItems[w] = Tuple(N(uint64(w+1)), r)

			if r == "ROk" {
				acc++
			}
		}

		term := fmt.Sprintf("C17Conc %s %s %s %s %s", Bool(long), NList(cbs), List(evItems), List(resItems),
			Bool(atomic.LoadInt32(&overlap) == 1))
		cf.Add(term, fmt.Sprintf("conc/long=%v", long),
			map[string]any{"kind": "conc", "workers": workers, "ncb": ncb, "long": long, "events": events, "results": results},
			workers > 2)
		cf.Count("conc_accepted", acc)
		cf.Count("conc_callers", workers)
	}

	// Slow callbacks on the real clock: callers queue on the Invalidator's mutex behind an invalidation that
	// takes longer than SkipInterval. Accepted invalidations (measured where the callbacks actually start)
	// must still be spaced by SkipInterval, whenever the queued callers arrived.
	nSlow := e.Pick(3, 20)

	for i := 0; i < nSlow; i++ {
		skip := time.Duration(160+e.Rng.Intn(80)) * time.Millisecond

		var (
			mu     sync.Mutex
			starts []int64
			first  = true
		)

		t0 := time.Now()
		inv := &cache.Invalidator{SkipInterval: skip}
		inv.Callbacks = append(inv.Callbacks, func(ctx context.Context) {
			mu.Lock()
			starts = append(starts, int64(time.Since(t0)))
			slow := first
			first = false
			mu.Unlock()

			if slow {
				time.Sleep(skip * 5 / 2) // the first accepted invalidation takes 2.5 x SkipInterval
			}
		})

		var wg sync.WaitGroup

		call := func(after time.Duration) {
			wg.Add(1)

			go func() {
				defer wg.Done()
				time.Sleep(time.Until(t0.Add(after)))
				_ = inv.Invalidate(context.Background())
			}()
		}

		call(0)                     // A: accepted at 0, runs until 2.5 skip
		call(skip * 5 / 4)          // C: arrives at 1.25 skip, queues, runs at 2.5 skip
		call(skip*5/2 + skip*3/10)  // D: 2.8 skip: within SkipInterval of C's run
		call(skip*5/2 + skip*6/10)  // E: 3.1 skip: still within
		call(skip*5/2 + skip*13/10) // F: 3.8 skip: accepted again
		wg.Wait()

		sort.Slice(starts, func(a, b int) bool { return starts[a] < starts[b] })

		term := fmt.Sprintf("C17Slow %s %s %s", Z(int64(skip)), Z(int64(skip)*45/100), ZList(starts))
		cf.Add(term, "slow-callbacks", map[string]any{"kind": "slow", "skip_ns": int64(skip), "callback_starts_ns": starts,
			"calls_at": "0, 1.25, 2.8, 3.1, 3.8 x SkipInterval; first callback sleeps 2.5 x SkipInterval"}, len(starts) >= 2)
	}

	if err := cf.Write(e); err != nil {
		t.Fatal(err)
	}
}

func abs64(v int64) int64 {
	if v < 0 {
		return -v
	}

	return v
}
