package harness

import (
	"fmt"
	"testing"
)

// TestC18 attaches a stats tracker to backend workloads and compares totals at quiescence.
func TestC18(t *testing.T) {
	e := LoadEnv("C18")
	cf := NewCaseFile("C18", "From Cache Require Import Base Backend Spec Failover FailoverRun Check.", "check_c18")
	cf.Rule = "backend part: the C07 generator (all op kinds, SkipRead, TTL classes, 7 configs, 3 backends) with a counting StatsTracker; " +
		"Len is read right before every ExpireAll/DeleteAll to know the entries touched; failover part: see TestC18Failover; " +
		"non-trivial = at least one hit, one miss, one expired read, one successful delete and one batch op; distinct = distinct Gallina term"
	confs := stdConfs()
	n := e.Pick(110, 1500)

	for _, fl := range Flavours {
		for i := 0; i < n; i++ {
			conf := confs[e.Rng.Intn(len(confs))]
			g := GenOpts{
				Kinds: stdKinds, Keys: StdKeys(e.Rng, 3+e.Rng.Intn(6)), NOps: 1 + e.Rng.Intn(70),
				TTLs: stdTTLs, Sleeps: stdSleeps, LenBeforeBatch: true,
			}
			r := RunBackendOps(t, e.Rng, fl, conf, g)
			kinds := map[string]bool{}

			for j, res := range r.Results {
				kinds[r.Ops[j].Kind+"/"+res.Kind] = true
			}

			nontriv := kinds["read/val"] && kinds["read/expired"] && kinds["read/notfound"] && kinds["delete/unit"] &&
				(kinds["expireall/unit"] || kinds["deleteall/unit"])
			cf.Add("C18B ("+fl+", "+r.CoqCase(conf)+")", fmt.Sprintf("backend/%s/ttl=%d/s=%d", fl, conf.TTL, conf.Strategy),
				map[string]any{"flavour": fl, "conf": conf, "ops": r.Ops, "results": r.Results,
					"metrics(hit,miss,expired,write,delete)": r.Stats.Coq(conf.Name)}, nontriv)
		}
	}

	addC18Failover(t, e, cf)

	if err := cf.Write(e); err != nil {
		t.Fatal(err)
	}
}
