package harness

import (
	"fmt"
	"github.com/bool64/cache"
	"testing"
	"testing/synctest"
)

// TestC18 attaches a stats tracker to backend workloads and compares totals at quiescence.
func TestC18(t *testing.T) {
	e := LoadEnv("C18")
	cf := NewCaseFile("C18", "From Cache Require Import Base Backend Spec Failover FailoverRun Check.", "check_c18")
	cf.Rule = "backend part: the C07 generator (all op kinds, SkipRead, TTL classes, 7 configs, 3 backends) with a counting StatsTracker; " +
		"Len is read right before every ExpireAll/DeleteAll to know the entries touched; failover part: see TestC18Failover; " +
		"non-trivial = at least one hit, one miss, one expired read, one successful delete and one batch op; distinct = distinct Gallina term"
	confs := stdConfs()
	n := e.Pick(110, 1500)

	for _, fl := range Flavours {
		for i := 0; i < n; i++ {
			conf := confs[e.Rng.Intn(len(confs))]
			g := GenOpts{
				Kinds: stdKinds, Keys: StdKeys(e.Rng, 3+e.Rng.Intn(6)), NOps: 1 + e.Rng.Intn(70),
				TTLs: ttlProfile(e.Rng), Sleeps: stdSleeps, LenBeforeBatch: true,
			}
			r := RunBackendOps(t, e.Rng, fl, conf, g)
			kinds := map[string]bool{}

			for j, res := range r.Results {
				kinds[r.Ops[j].Kind+"/"+res.Kind] = true
			}

			nontriv := kinds["read/val"] && kinds["read/expired"] && kinds["read/notfound"] && kinds["delete/unit"] &&
				(kinds["expireall/unit"] || kinds["deleteall/unit"])
			cf.Add("C18B ("+fl+", "+r.CoqCase(conf)+")", fmt.Sprintf("backend/%s/ttl=%d/s=%d", fl, conf.TTL, conf.Strategy),
				map[string]any{"flavour": fl, "conf": conf, "ops": r.Ops, "results": r.Results,
					"metrics(hit,miss,expired,write,delete)": r.Stats.Coq(conf.Name)}, nontriv)
		}
	}

	addC18Failover(t, e, cf)
	addC18Conc(t, e, cf)

	if err := cf.Write(e); err != nil {
		t.Fatal(err)
	}
}

// addC18Conc runs the C08 stress rounds with a counting tracker and compares the totals at quiescence
// with what the callers saw: every Write counted once, every successful Delete once (plus the entries
// DeleteAll removed), every Read as exactly one of hit / miss / expired (plus the entries ExpireAll touched).
func addC18Conc(t *testing.T, e *Env, cf *CaseFile) {
	rounds := e.Pick(10, 120)

	for _, fl := range Flavours {
		for r := 0; r < rounds; r++ {
			conf := c08Conf{
				Flavour: fl, Strategy: []string{"MostExpired", "LRU", "LFU"}[r%3], Limit: 0,
				G: 4 + e.Rng.Intn(13), PerG: 20 + e.Rng.Intn(40), Seed: e.Rng.Int63n(1 << 40),
				Mix: []string{"nodelall", "deletes", "default"}[r%3],
			}

			var run *c08Run

			synctest.Test(t, func(t *testing.T) { run = runC08(conf) })

			expAll, delAll := false, false

			for _, o := range run.Ops {
				expAll = expAll || o.Kind == "expire"
				delAll = delAll || o.Kind == "clear"
			}

			// cache_delete must count entries removed: a Delete that reports success must have removed one,
			// which is what the per-slot linearization of the callers' results decides
			explained := true

			for _, h := range run.slotHistories() {
				if _, verdict := linearize(h); verdict == "illegal" {
					explained = false
				}
			}

			st := []int64{run.Stats[cache.MetricWrite], run.Stats[cache.MetricDelete], run.Stats[cache.MetricHit],
				run.Stats[cache.MetricMiss], run.Stats[cache.MetricExpired]}
			seen := []int64{run.NWrite, run.NDelOK, run.NHit, run.NMiss, run.NExp}

			cf.Add(fmt.Sprintf("C18C (mkC18C %s %s %s %s %s)", ZList(st), ZList(seen), Bool(expAll), Bool(delAll), Bool(explained)),
				"conc/"+fl+"/"+conf.Mix, map[string]any{"conf": conf, "stats(write,delete,hit,miss,expired)": st,
					"seen": seen, "results_explained": explained, "how": "stress round of TestC08's runner with this configuration; totals compared at quiescence"},
				run.NDelOK > 0 && run.NHit > 0 && run.NMiss > 0)
		}
	}
}
