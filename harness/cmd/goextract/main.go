// goextract re-derives from the source of github.com/bool64/cache (current working tree), for every
// function, the accesses to fields of the package's struct types together with the mutexes held at
// that point, and prints them as a Coq table (list Conc.site) for the lockset theorem.
//
// It is a deliberately simple, syntax-directed analysis (stdlib go/ast + go/types only):
//   - Lock/RLock/Unlock/RUnlock calls on sync.Mutex / sync.RWMutex values (fields or embedded) are
//     tracked statement by statement; `defer x.Unlock()` keeps the mutex to the end of the function;
//   - `b := &c.hashedBuckets[i]` style aliases are resolved so that "same object" can be decided
//     syntactically (mutex and location reached through the same base expression);
//   - an access is a write when it is assigned, incremented, deleted from, or (for maps and slices)
//     assigned through an index; arguments of sync/atomic functions are atomic accesses; method calls
//     on sync.Map fields and channel operations count as synchronized;
//   - composite literals and assignments inside constructors (New*, init, setup, Use) initialize
//     objects that are not yet published;
//   - function literals are analysed with the locks held where they appear, except after `go` and
//     `defer` (no locks);
//   - every function is analysed from an empty lock set (no helper of the package relies on its
//     caller's locks).
//
// Out of scope (DESIGN O4): gob.go and HTTPTransfer (registration-time API).
package main

import (
	"encoding/json"
	"fmt"
	"go/ast"
	"go/build"
	"go/importer"
	"go/parser"
	"go/token"
	"go/types"
	"os"
	"path/filepath"
	"sort"
	"strings"
)

type lockInfo struct {
	Class string `json:"class"`
	Write bool   `json:"write"`
	Base  string `json:"base"`
	Sec   int    `json:"sec"` // syntactic critical section: the n-th Lock/RLock call of the function
}

type site struct {
	Func   string     `json:"func"`
	Loc    string     `json:"loc"`
	Write  bool       `json:"write"`
	Atomic bool       `json:"atomic"`
	Init   bool       `json:"init"`
	Base   string     `json:"base"`
	Locks  []lockInfo `json:"locks"`
	Pos    string     `json:"pos"`
}

type walker struct {
	fset   *token.FileSet
	info   *types.Info
	pkg    *types.Package
	fn     string
	ctor   bool
	recv   string
	recvTy string
	alias  map[string]string
	held   []lockInfo
	sites  []site
	secSeq int
	local  map[string]bool // identifiers that denote a struct VALUE owned by this function (receiver or parameter by value, local variable)
}

func isCtor(name string) bool {
	return strings.HasPrefix(name, "New") || name == "init" || name == "setup" || name == "Use"
}

func (w *walker) exprString(e ast.Expr) string {
	switch x := e.(type) {
	case *ast.Ident:
		if a, ok := w.alias[x.Name]; ok {
			return a
		}

		return x.Name
	case *ast.SelectorExpr:
		return w.exprString(x.X) + "." + x.Sel.Name
	case *ast.IndexExpr:
		return w.exprString(x.X) + "[" + w.exprString(x.Index) + "]"
	case *ast.StarExpr:
		return w.exprString(x.X)
	case *ast.UnaryExpr:
		return w.exprString(x.X)
	case *ast.ParenExpr:
		return w.exprString(x.X)
	case *ast.BinaryExpr:
		return w.exprString(x.X) + x.Op.String() + w.exprString(x.Y)
	case *ast.BasicLit:
		return x.Value
	case *ast.CallExpr:
		return w.exprString(x.Fun) + "()"
	}

	return fmt.Sprintf("%T", e)
}

func namedOf(t types.Type) *types.Named {
	for {
		switch x := t.(type) {
		case *types.Pointer:
			t = x.Elem()
		case *types.Named:
			return x
		default:
			return nil
		}
	}
}

func typeName(t types.Type) string {
	n := namedOf(t)
	if n == nil {
		return ""
	}

	return n.Obj().Name()
}

func isMutex(t types.Type) (bool, string) {
	n := namedOf(t)
	if n == nil || n.Obj().Pkg() == nil || n.Obj().Pkg().Path() != "sync" {
		return false, ""
	}

	if n.Obj().Name() == "Mutex" || n.Obj().Name() == "RWMutex" {
		return true, n.Obj().Name()
	}

	return false, ""
}

// lockCall recognises X.Lock() etc. and returns the mutex class, the base object and the operation.
func (w *walker) lockCall(call *ast.CallExpr) (cls, base, op string, ok bool) {
	sel, isSel := call.Fun.(*ast.SelectorExpr)
	if !isSel {
		return
	}

	switch sel.Sel.Name {
	case "Lock", "Unlock", "RLock", "RUnlock":
	default:
		return
	}

	s := w.info.Selections[sel]
	if s == nil {
		return
	}

	fnObj, isFn := s.Obj().(*types.Func)
	if !isFn || fnObj.Pkg() == nil || fnObj.Pkg().Path() != "sync" {
		return
	}

	xt := w.info.TypeOf(sel.X)
	if isM, mname := isMutex(xt); isM {
		// field of mutex type: X is base.field
		if inner, ok2 := sel.X.(*ast.SelectorExpr); ok2 {
			owner := typeName(w.info.TypeOf(inner.X))

			return owner + "." + inner.Sel.Name, w.exprString(inner.X), sel.Sel.Name, true
		}

		return mname, w.exprString(sel.X), sel.Sel.Name, true
	}
	// embedded mutex: X is the struct
	owner := typeName(xt)
	emb := "Mutex"

	if st, ok2 := namedOf(xt).Underlying().(*types.Struct); ok2 {
		for i := 0; i < st.NumFields(); i++ {
			if isM, mname := isMutex(st.Field(i).Type()); isM && st.Field(i).Embedded() {
				emb = mname
			}
		}
	}

	return owner + "." + emb, w.exprString(sel.X), sel.Sel.Name, true
}

func (w *walker) copyHeld() []lockInfo { return append([]lockInfo{}, w.held...) }

func (w *walker) record(loc, base string, write, atomic, init bool, pos token.Pos) {
	if w.local[base] {
		return // a private copy: not a shared location
	}

	w.sites = append(w.sites, site{Func: w.fn, Loc: loc, Write: write, Atomic: atomic, Init: init || w.ctor, Base: base,
		Locks: w.copyHeld(), Pos: w.fset.Position(pos).String()})
}

// fieldOf returns the location class if e selects a field of a struct type of the package.
func (w *walker) fieldOf(e ast.Expr) (loc, base string, ok bool) {
	sel, isSel := e.(*ast.SelectorExpr)
	if !isSel {
		return
	}

	s := w.info.Selections[sel]
	if s == nil || s.Kind() != types.FieldVal {
		return
	}

	v, isVar := s.Obj().(*types.Var)
	if !isVar || !v.IsField() || v.Pkg() != w.pkg {
		return
	}

	owner := typeName(s.Recv())
	if len(s.Index()) > 1 {
		// promoted through embedding: name the declaring struct
		t := s.Recv()
		for _, idx := range s.Index()[:len(s.Index())-1] {
			st, _ := namedOf(t).Underlying().(*types.Struct)
			if st == nil {
				break
			}

			t = st.Field(idx).Type()
		}

		owner = typeName(t)
	}

	if isM, _ := isMutex(v.Type()); isM {
		return
	}

	return owner + "." + v.Name(), w.exprString(sel.X), true
}

func isSyncMap(t types.Type) bool {
	n := namedOf(t)

	return n != nil && n.Obj().Pkg() != nil && n.Obj().Pkg().Path() == "sync" && n.Obj().Name() == "Map"
}

// expr walks an expression in read context.
func (w *walker) expr(e ast.Expr) {
	switch x := e.(type) {
	case nil:
	case *ast.SelectorExpr:
		if loc, base, ok := w.fieldOf(x); ok {
			w.record(loc, base, false, false, false, x.Pos())
		}

		w.expr(x.X)
	case *ast.IndexExpr:
		w.innerMap(x.X, false, x.Pos())
		w.expr(x.X)
		w.expr(x.Index)
	case *ast.CallExpr:
		w.call(x)
	case *ast.UnaryExpr:
		w.expr(x.X)
	case *ast.BinaryExpr:
		w.expr(x.X)
		w.expr(x.Y)
	case *ast.StarExpr:
		w.expr(x.X)
	case *ast.ParenExpr:
		w.expr(x.X)
	case *ast.TypeAssertExpr:
		w.expr(x.X)
	case *ast.SliceExpr:
		w.expr(x.X)
	case *ast.KeyValueExpr:
		w.expr(x.Value)
	case *ast.CompositeLit:
		if tn := typeName(w.info.TypeOf(x)); tn != "" && namedOf(w.info.TypeOf(x)).Obj().Pkg() == w.pkg {
			for _, el := range x.Elts {
				if kv, ok := el.(*ast.KeyValueExpr); ok {
					if id, ok2 := kv.Key.(*ast.Ident); ok2 {
						w.record(tn+"."+id.Name, "<new>", true, false, true, kv.Pos())
					}

					w.expr(kv.Value)
				} else {
					w.expr(el)
				}
			}
		} else {
			for _, el := range x.Elts {
				w.expr(el)
			}
		}
	case *ast.FuncLit:
		w.block(x.Body)
	}
}

// innerMap: accesses through a variable named labeledKeys inside InvalidationIndex methods touch the
// inner maps of the index, which are shared objects reached from i.labeledKeysByName.
func (w *walker) innerMap(e ast.Expr, write bool, pos token.Pos) {
	id, ok := e.(*ast.Ident)
	if !ok || w.recvTy != "InvalidationIndex" || id.Name != "labeledKeys" {
		return
	}

	w.record("InvalidationIndex.labeledKeys[]", w.recv, write, false, false, pos)
}

// lhs walks an expression in write context.
func (w *walker) lhs(e ast.Expr) {
	switch x := e.(type) {
	case *ast.SelectorExpr:
		if loc, base, ok := w.fieldOf(x); ok {
			w.record(loc, base, true, false, false, x.Pos())
		}

		w.expr(x.X)
	case *ast.IndexExpr:
		// m[k] = v writes the map / slice object held in the field
		if loc, base, ok := w.fieldOf(x.X); ok {
			w.record(loc, base, true, false, false, x.Pos())

			if s, ok2 := x.X.(*ast.SelectorExpr); ok2 {
				w.expr(s.X)
			}
		} else {
			w.innerMap(x.X, true, x.Pos())
			w.expr(x.X)
		}

		w.expr(x.Index)
	case *ast.StarExpr:
		w.lhs(x.X)
	case *ast.ParenExpr:
		w.lhs(x.X)
	case *ast.Ident:
	default:
		w.expr(e)
	}
}

func (w *walker) call(c *ast.CallExpr) {
	if cls, base, op, ok := w.lockCall(c); ok {
		switch op {
		case "Lock", "RLock":
			w.secSeq++
			w.held = append(w.held, lockInfo{Class: cls, Write: op == "Lock", Base: base, Sec: w.secSeq})
		default:
			for i := len(w.held) - 1; i >= 0; i-- {
				if w.held[i].Class == cls && w.held[i].Base == base {
					w.held = append(w.held[:i], w.held[i+1:]...)

					break
				}
			}
		}

		return
	}

	// builtins that write their first argument
	if id, ok := c.Fun.(*ast.Ident); ok && id.Name == "delete" && len(c.Args) == 2 {
		if loc, base, ok2 := w.fieldOf(c.Args[0]); ok2 {
			w.record(loc, base, true, false, false, c.Pos())

			if s, ok3 := c.Args[0].(*ast.SelectorExpr); ok3 {
				w.expr(s.X)
			}
		} else {
			w.innerMap(c.Args[0], true, c.Pos())
			w.expr(c.Args[0])
		}

		w.expr(c.Args[1])

		return
	}

	if id, ok := c.Fun.(*ast.Ident); ok && id.Name == "close" && len(c.Args) == 1 {
		if loc, base, ok2 := w.fieldOf(c.Args[0]); ok2 {
			w.record(loc, base, false, true, false, c.Pos()) // channel operation; the field itself is only read
		}

		return
	}

	// sync/atomic
	if sel, ok := c.Fun.(*ast.SelectorExpr); ok {
		if pk, ok2 := sel.X.(*ast.Ident); ok2 {
			if pn, ok3 := w.info.Uses[pk].(*types.PkgName); ok3 && pn.Imported().Path() == "sync/atomic" && len(c.Args) > 0 {
				if u, ok4 := c.Args[0].(*ast.UnaryExpr); ok4 && u.Op == token.AND {
					if loc, base, ok5 := w.fieldOf(u.X); ok5 {
						write := !strings.HasPrefix(sel.Sel.Name, "Load")
						w.record(loc, base, write, true, false, c.Pos())

						if s, ok6 := u.X.(*ast.SelectorExpr); ok6 {
							w.expr(s.X)
						}

						for _, a := range c.Args[1:] {
							w.expr(a)
						}

						return
					}
				}
			}
		}
		// method on a sync.Map field
		if isSyncMap(w.info.TypeOf(sel.X)) {
			if loc, base, ok2 := w.fieldOf(sel.X); ok2 {
				write := sel.Sel.Name != "Load" && sel.Sel.Name != "Range"
				w.record(loc, base, write, true, false, c.Pos())

				if s, ok3 := sel.X.(*ast.SelectorExpr); ok3 {
					w.expr(s.X)
				}

				for _, a := range c.Args {
					w.expr(a)
				}

				return
			}
		}
	}

	w.expr(c.Fun)

	for _, a := range c.Args {
		w.expr(a)
	}
}

func (w *walker) block(b *ast.BlockStmt) {
	if b == nil {
		return
	}

	for _, s := range b.List {
		w.stmt(s)
	}
}

func (w *walker) stmt(s ast.Stmt) {
	switch x := s.(type) {
	case *ast.ExprStmt:
		w.expr(x.X)
	case *ast.AssignStmt:
		// alias: b := &c.hashedBuckets[i]
		if x.Tok == token.DEFINE && len(x.Lhs) == 1 && len(x.Rhs) == 1 {
			if id, ok := x.Lhs[0].(*ast.Ident); ok {
				if u, ok2 := x.Rhs[0].(*ast.UnaryExpr); ok2 && u.Op == token.AND {
					if _, isLit := u.X.(*ast.CompositeLit); !isLit {
						w.alias[id.Name] = w.exprString(u.X)
					}
				}

				w.noteLocal(id, x.Rhs[0])
			}
		}
		// entry, found := b.data[h]: the entry belongs to the object that owns the map
		if x.Tok == token.DEFINE && len(x.Lhs) >= 1 && len(x.Rhs) == 1 {
			if ix, ok := x.Rhs[0].(*ast.IndexExpr); ok {
				if _, base, ok2 := w.fieldOf(ix.X); ok2 {
					if id, ok3 := x.Lhs[0].(*ast.Ident); ok3 {
						w.alias[id.Name] = base
					}
				}
			}
		}

		for _, r := range x.Rhs {
			w.expr(r)
		}

		for _, l := range x.Lhs {
			w.lhs(l)
		}
	case *ast.IncDecStmt:
		w.lhs(x.X)
	case *ast.DeferStmt:
		if _, _, op, ok := w.lockCall(x.Call); ok && (op == "Unlock" || op == "RUnlock") {
			return // held until the function returns
		}

		if fl, ok := x.Call.Fun.(*ast.FuncLit); ok {
			saved := w.held
			w.held = nil
			w.block(fl.Body)
			w.held = saved

			return
		}

		w.call(x.Call)
	case *ast.GoStmt:
		if fl, ok := x.Call.Fun.(*ast.FuncLit); ok {
			saved := w.held
			w.held = nil
			w.block(fl.Body)
			w.held = saved

			return
		}

		w.call(x.Call)
	case *ast.ReturnStmt:
		for _, r := range x.Results {
			w.expr(r)
		}
	case *ast.IfStmt:
		w.stmt(x.Init)
		w.expr(x.Cond)

		saved := w.copyHeld()
		w.block(x.Body)

		afterThen := w.held
		w.held = saved

		if x.Else != nil {
			w.stmt(x.Else)
		}
		// a branch that ends in return does not flow on: keep the other branch's lock set
		if endsInReturn(x.Body) {
			// w.held already is the else / fall-through state
		} else {
			w.held = afterThen
		}
	case *ast.ForStmt:
		w.stmt(x.Init)
		w.expr(x.Cond)
		w.block(x.Body)
		w.stmt(x.Post)
	case *ast.RangeStmt:
		if loc, base, ok := w.fieldOf(x.X); ok {
			w.record(loc, base, false, false, false, x.Pos())

			if s2, ok2 := x.X.(*ast.SelectorExpr); ok2 {
				w.expr(s2.X)
			}
			// for h, v := range b.data: the entries belong to the object that owns the map
			if id, ok2 := x.Value.(*ast.Ident); ok2 && id.Name != "_" {
				w.alias[id.Name] = base
			}
		} else {
			w.innerMap(x.X, false, x.Pos())
			w.expr(x.X)
		}

		w.block(x.Body)
	case *ast.BlockStmt:
		w.block(x)
	case *ast.SwitchStmt:
		w.stmt(x.Init)
		w.expr(x.Tag)

		for _, c := range x.Body.List {
			cc := c.(*ast.CaseClause)
			for _, e := range cc.List {
				w.expr(e)
			}

			saved := w.copyHeld()

			for _, st := range cc.Body {
				w.stmt(st)
			}

			w.held = saved
		}
	case *ast.TypeSwitchStmt:
		for _, c := range x.Body.List {
			cc := c.(*ast.CaseClause)
			for _, st := range cc.Body {
				w.stmt(st)
			}
		}
	case *ast.SelectStmt:
		for _, c := range x.Body.List {
			cc := c.(*ast.CommClause)
			for _, st := range cc.Body {
				w.stmt(st)
			}
		}
	case *ast.DeclStmt:
		if gd, ok := x.Decl.(*ast.GenDecl); ok {
			for _, sp := range gd.Specs {
				if vs, ok2 := sp.(*ast.ValueSpec); ok2 {
					for _, v := range vs.Values {
						w.expr(v)
					}

					if len(vs.Values) == 0 {
						for _, n := range vs.Names {
							w.noteLocal(n, nil) // var e TraitEntry
						}
					}
				}
			}
		}
	case *ast.SendStmt:
		w.expr(x.Value)
	case nil:
	}
}

// noteLocal marks identifiers bound to struct values (not pointers) created in this function.
func (w *walker) noteLocal(id *ast.Ident, rhs ast.Expr) {
	t := w.info.TypeOf(id)
	if t == nil {
		return
	}

	if _, isPtr := t.(*types.Pointer); isPtr {
		return
	}

	if _, isStruct := t.Underlying().(*types.Struct); isStruct {
		if _, isLit := rhs.(*ast.CompositeLit); isLit || rhs == nil {
			w.local[id.Name] = true
		} else if _, isDeref := rhs.(*ast.StarExpr); isDeref {
			w.local[id.Name] = true // cc := *c copies the struct
		}
	}
}

func endsInReturn(b *ast.BlockStmt) bool {
	if b == nil || len(b.List) == 0 {
		return false
	}

	_, ok := b.List[len(b.List)-1].(*ast.ReturnStmt)

	return ok
}

func main() {
	repo := "/repo"
	if len(os.Args) > 1 {
		repo = os.Args[1]
	}

	out := "/verif/coq/theories/Generated/Struct.v"
	if len(os.Args) > 2 {
		out = os.Args[2]
	}

	if err := os.Chdir(repo); err != nil {
		panic(err)
	}

	fset := token.NewFileSet()

	matches, _ := filepath.Glob(filepath.Join(repo, "*.go"))

	var files []*ast.File

	for _, m := range matches {
		base := filepath.Base(m)
		if strings.HasSuffix(base, "_test.go") || base == "verif_hooks.go" || base == "gob.go" || base == "http.go" {
			continue
		}

		// honour build constraints (version-tagged files) for the toolchain that builds the harness
		if ok, err := build.Default.MatchFile(repo, base); err != nil || !ok {
			continue
		}

		f, err := parser.ParseFile(fset, m, nil, parser.ParseComments)
		if err != nil {
			fmt.Fprintln(os.Stderr, "parse error:", err)
			os.Exit(1)
		}

		files = append(files, f)
	}

	info := &types.Info{
		Types: map[ast.Expr]types.TypeAndValue{}, Defs: map[*ast.Ident]types.Object{}, Uses: map[*ast.Ident]types.Object{},
		Selections: map[*ast.SelectorExpr]*types.Selection{},
	}
	conf := types.Config{Importer: importer.ForCompiler(fset, "source", nil), Error: func(err error) {}}

	pkg, err := conf.Check("github.com/bool64/cache", fset, files, info)
	if err != nil && pkg == nil {
		fmt.Fprintln(os.Stderr, "type check failed:", err)
		os.Exit(1)
	}

	var all []site

	for _, f := range files {
		for _, d := range f.Decls {
			fd, ok := d.(*ast.FuncDecl)
			if !ok || fd.Body == nil {
				continue
			}

			name := fd.Name.Name
			w := &walker{fset: fset, info: info, pkg: pkg, alias: map[string]string{}, ctor: isCtor(fd.Name.Name), local: map[string]bool{}}
			// receivers and parameters passed BY VALUE are private copies
			markVals := func(fl *ast.FieldList) {
				if fl == nil {
					return
				}

				for _, f := range fl.List {
					t := info.TypeOf(f.Type)
					if t == nil {
						continue
					}

					if _, isPtr := t.(*types.Pointer); isPtr {
						continue
					}

					if _, isStruct := t.Underlying().(*types.Struct); isStruct {
						for _, n := range f.Names {
							w.local[n.Name] = true
						}
					}
				}
			}
			markVals(fd.Recv)
			markVals(fd.Type.Params)

			if fd.Recv != nil && len(fd.Recv.List) > 0 {
				rt := typeName(info.TypeOf(fd.Recv.List[0].Type))
				name = rt + "." + name
				w.recvTy = rt

				if len(fd.Recv.List[0].Names) > 0 {
					w.recv = fd.Recv.List[0].Names[0].Name
				}
			}

			w.fn = name
			w.block(fd.Body)
			all = append(all, w.sites...)
		}
	}

	// ---- critical-section structure of the backend operations (C08) ----
	// per function that touches a backend's map: the critical sections in syntactic order, each with its
	// mode (0 = no mutex: a sync.Map call, 1 = RLock, 2 = Lock) and whether it reads / writes the map
	type secT struct {
		mode        int
		read, write bool
	}

	secs := map[string][]*secT{}
	secIdx := map[string]map[int]*secT{}

	for _, s := range all {
		if s.Init || !(s.Loc == "hashedBucket.data" || s.Loc == "hashedBucketOf.data" || s.Loc == "syncMap.data") {
			continue
		}

		var cur *secT

		if len(s.Locks) == 0 {
			cur = &secT{}
			secs[s.Func] = append(secs[s.Func], cur)
		} else {
			l := s.Locks[len(s.Locks)-1]
			if secIdx[s.Func] == nil {
				secIdx[s.Func] = map[int]*secT{}
			}

			cur = secIdx[s.Func][l.Sec]
			if cur == nil {
				cur = &secT{mode: 1}
				if l.Write {
					cur.mode = 2
				}

				secIdx[s.Func][l.Sec] = cur
				secs[s.Func] = append(secs[s.Func], cur)
			}
		}

		if s.Write {
			cur.write = true
		} else {
			cur.read = true
		}
	}

	var secRows []string

	fnNames := make([]string, 0, len(secs))
	for f := range secs {
		fnNames = append(fnNames, f)
	}

	sort.Strings(fnNames)

	for _, f := range fnNames {
		var it []string
		for _, c := range secs[f] {
			it = append(it, fmt.Sprintf("(%d%%N, %v, %v)", c.mode, c.read, c.write))
		}

		secRows = append(secRows, fmt.Sprintf("  (%q, [%s])", f, strings.Join(it, "; ")))
	}

	// ---- classes and policy ----
	// kl.val / kl.err are handed from the key-lock owner to the waiters through close(kl.lock) / <-kl.lock:
	// the ownership protocol is the subject of theorem C16_kl_protocol on the Failover model.
	chanProtected := map[string]bool{"kl.val": true, "kl.err": true, "klOf.val": true, "klOf.err": true}

	written := map[string]bool{}

	for _, s := range all {
		if s.Write && !s.Init {
			written[s.Loc] = true
		}
	}

	locID, opID, mtxID := map[string]int{}, map[string]int{}, map[string]int{}
	id := func(m map[string]int, k string) int {
		if v, ok := m[k]; ok {
			return v
		}

		m[k] = len(m) + 1

		return m[k]
	}

	var rows []string

	kept := 0

	var report []site

	// entries live in exactly one container: qualify the entry location classes by the container type so
	// that a ShardedMap's entries and a SyncMap's entries are different location classes; accesses in
	// shared helpers (PrepareRead, ExpiredAt, ...) belong to every container that uses the entry type
	container := func(fn string) string {
		recv := strings.SplitN(fn, ".", 2)[0]
		switch recv {
		case "shardedMap", "ShardedMap":
			return "sharded"
		case "syncMap", "SyncMap":
			return "sync"
		case "shardedMapOf", "ShardedMapOf", "shardedMapLegacyWalkerOf":
			return "shardedOf"
		}

		return ""
	}

	var qualified []site

	for _, s := range all {
		if strings.HasPrefix(s.Loc, "TraitEntry.") || strings.HasPrefix(s.Loc, "TraitEntryOf.") {
			cs := []string{container(s.Func)}
			if cs[0] == "" {
				if strings.HasPrefix(s.Loc, "TraitEntry.") {
					cs = []string{"sharded", "sync"}
				} else {
					cs = []string{"shardedOf"}
				}
			}

			for _, c := range cs {
				q := s
				q.Loc = s.Loc + "@" + c
				qualified = append(qualified, q)
			}

			continue
		}

		qualified = append(qualified, s)
	}

	all = qualified
	written = map[string]bool{}

	for _, s := range all {
		if s.Write && !s.Init {
			written[s.Loc] = true
		}
	}

	for _, s := range all {
		if !written[s.Loc] {
			continue // never written after construction: cannot take part in a race
		}

		atomic := s.Atomic || chanProtected[s.Loc]

		var locks []string

		for _, l := range s.Locks {
			same := l.Base == s.Base
			locks = append(locks, fmt.Sprintf("(%d%%N, %v, %v)", id(mtxID, l.Class), l.Write, same))
		}

		rows = append(rows, fmt.Sprintf("  mkSite %d%%N %d%%N %v %v %v [%s] (* %s %s %s *)", id(opID, s.Func), id(locID, s.Loc), s.Write, atomic,
			s.Init, strings.Join(locks, "; "), s.Func, s.Loc, filepath.Base(s.Pos)))
		kept++

		s.Atomic = atomic
		report = append(report, s)
	}

	var b strings.Builder

	b.WriteString("(* GENERATED by /verif/harness/cmd/goextract from the working tree of /repo. Do not edit. *)\n")
	b.WriteString("From Coq Require Import String.\nFrom Cache Require Import Base Conc.\n\n")

	names := func(m map[string]int) string {
		ks := make([]string, 0, len(m))
		for k := range m {
			ks = append(ks, k)
		}

		sort.Slice(ks, func(i, j int) bool { return m[ks[i]] < m[ks[j]] })

		var sb strings.Builder
		for _, k := range ks {
			fmt.Fprintf(&sb, "   %d = %s\n", m[k], k)
		}

		return sb.String()
	}

	b.WriteString("(* location classes:\n" + names(locID) + "*)\n")
	b.WriteString("(* mutex classes:\n" + names(mtxID) + "*)\n")
	b.WriteString("Definition table : list site := [\n" + strings.Join(rows, ";\n") + "\n].\n\n")
	b.WriteString("(* critical sections of the functions that touch a backend's map, in syntactic order:\n" +
		"   (mode: 0 = sync.Map call, 1 = RLock, 2 = Lock; reads the map; writes the map) *)\n")
	b.WriteString("Definition sections : list (string * list (N * bool * bool)) := [\n" + strings.Join(secRows, ";\n") + "\n]%string.\n")

	if err := os.MkdirAll(filepath.Dir(out), 0o755); err != nil {
		panic(err)
	}

	if err := os.WriteFile(out, []byte(b.String()), 0o644); err != nil {
		panic(err)
	}

	js, _ := json.MarshalIndent(map[string]any{"sites": report, "functions": len(opID), "location_classes": locID, "mutex_classes": mtxID}, "", " ")
	_ = os.WriteFile(strings.TrimSuffix(out, ".v")+".json", js, 0o644)
	fmt.Printf("goextract: %d functions, %d accesses, %d rows over %d written location classes\n", len(opID), len(all), kept, len(locID))
}
